(* Conversions between the extracted inductive numbers and OCaml values; line parsing. Trusted glue. *)
module ZZ = Z
open Model

let rec pos_of_int (i : int) : positive =
  if i = 1 then XH
  else if i land 1 = 0 then XO (pos_of_int (i lsr 1))
  else XI (pos_of_int (i lsr 1))

let n_of_int (i : int) : n = if i = 0 then N0 else Npos (pos_of_int i)

let rec int_of_pos (p : positive) : int =
  match p with XH -> 1 | XO q -> 2 * int_of_pos q | XI q -> 2 * int_of_pos q + 1

let int_of_n (x : n) : int = match x with N0 -> 0 | Npos p -> int_of_pos p

let rec nat_of_int (i : int) : nat = if i <= 0 then O else S (nat_of_int (i - 1))
let rec int_of_nat (x : nat) : int = match x with O -> 0 | S y -> 1 + int_of_nat y

(* Z from/to decimal strings via Zarith-free arithmetic on OCaml ints is not enough for int64/uint64
   ranges, so go through ZZ.t of zarith *)
let rec pos_of_z (z : ZZ.t) : positive =
  if ZZ.equal z ZZ.one then XH
  else if ZZ.is_even z then XO (pos_of_z (ZZ.shift_right z 1))
  else XI (pos_of_z (ZZ.shift_right z 1))

let rec z_of_pos (p : positive) : ZZ.t =
  match p with
  | XH -> ZZ.one
  | XO q -> ZZ.shift_left (z_of_pos q) 1
  | XI q -> ZZ.succ (ZZ.shift_left (z_of_pos q) 1)

let bytes_of_string (s : string) : n list =
  List.init (String.length s) (fun i -> n_of_int (Char.code s.[i]))

let string_of_bytes (l : n list) : string =
  let b = Buffer.create 16 in
  List.iter (fun x -> Buffer.add_char b (Char.chr (int_of_n x land 255))) l;
  Buffer.contents b

let hex_of_string (s : string) : string =
  let b = Buffer.create (2 * String.length s) in
  String.iter (fun c -> Buffer.add_string b (Printf.sprintf "%02x" (Char.code c))) s;
  Buffer.contents b

let string_of_hex (h : string) : string =
  let n = String.length h / 2 in
  String.init n (fun i -> Char.chr (int_of_string ("0x" ^ String.sub h (2 * i) 2)))

let bytes_of_hex h = bytes_of_string (string_of_hex h)
let hex_of_bytes l = hex_of_string (string_of_bytes l)

let split_on c s = if s = "" then [] else String.split_on_char c s

(* "k=v k2=v2" after the first two tokens *)
let parse_kv (toks : string list) : (string * string) list =
  List.filter_map
    (fun t ->
      match String.index_opt t '=' with
      | Some i -> Some (String.sub t 0 i, String.sub t (i + 1) (String.length t - i - 1))
      | None -> Some (t, ""))
    toks

let kv k l = try List.assoc k l with Not_found -> ""

let read_lines (path : string) : string list =
  let ic = open_in path in
  let rec go acc = match input_line ic with l -> go (l :: acc) | exception End_of_file -> close_in ic; List.rev acc in
  go []

(* index obs lines "kind id ..." by id *)
let index_obs (lines : string list) : (string, string list) Hashtbl.t =
  let h = Hashtbl.create 1024 in
  List.iter
    (fun l ->
      match String.split_on_char ' ' l with
      | _kind :: id :: _ as toks -> Hashtbl.replace h id toks
      | _ -> ())
    lines;
  h
