(* C06: transparency through the engine (delegated to the C01 predicates plus the result value), codec round trips and
   corruption, pool stress. *)
open Model
open Util

(* msgpackzip (the dependency, not this package) mishandles integer map keys: a negative key comes back as its unsigned
   byte or makes Decompress fail, a key of int64 max or above makes Compress fail.  Failures on inputs of that shape get their
   own signature (a known finding); everything else keeps its signature. *)
let intkey_shape (line : string) (data_hex : string) : bool =
  let txt = line ^ " " ^ (if data_hex = "" || data_hex = "-" then "" else
                          match decode (bytes_of_hex data_hex) with DOk (v, _) -> Values.print v | _ -> "") in
  let neg = Str.regexp "[{,]i:-[0-9]+=" and big = Str.regexp "[{,]i:\\([0-9]+\\)=" in
  (try ignore (Str.search_forward neg txt 0); true with Not_found -> false)
  || (let rec scan pos =
        match (try Some (Str.search_forward big txt pos) with Not_found -> None) with
        | None -> false
        | Some p ->
            let d = Str.matched_group 1 txt in
            if String.length d >= 19 && ZZ.geq (ZZ.of_string d) (ZZ.of_string "9223372036854775807") then true else scan (p + 1) in
      scan 0)

let rec run_case toks obs =
  let v = run_case0 toks obs in
  let k = parse_kv (match toks with _ :: _ :: rest -> rest | _ -> []) in
  let fam = kv "family" k in
  let ct2 = kv "ctype" k = "2" || (String.length fam >= 7 && String.sub fam (String.length fam - 7) 7 = "ctype-2") in
  let is_pf = String.length v >= 8 && String.sub v 0 8 = "PROPFAIL" in
  let has s sub = (try ignore (Str.search_forward (Str.regexp_string sub) s 0); true with Not_found -> false) in
  if is_pf && ct2 && not (has v "sig=panic") && intkey_shape (String.concat " " toks) (kv "data" k) then
    Printf.sprintf "PROPFAIL %s sig=msgpackzip-int-map-key msgpackzip (dependency) does not round-trip this value: it contains a map with a negative integer key or an integer key >= int64 max [%s]"
      (List.nth toks 1) (String.sub v 0 (min 160 (String.length v)))
  else v

and run_case0 toks obs =
  match toks with
  | "scn" :: id :: rest ->
      let k = parse_kv rest in
      (* the returned result must be exactly what the peer sent *)
      let r1 = C01.run_c01 toks obs in
      if String.length r1 >= 5 && String.sub r1 0 5 = "AGREE" && kv "expectres" k <> "" then begin
        match Hashtbl.find_opt obs id with
        | None -> r1
        | Some ot ->
            let evs = C02.events_of ot in
            (match String.split_on_char '~' (kv "expectres" k) with
             | [ c; want ] ->
                 let got = List.filter_map (fun e -> match String.split_on_char '/' e with
                   | "ret" :: cid :: "nil" :: buf :: _ when cid = "c" ^ c -> Some buf | _ -> None) evs in
                 (match got with
                  | [ g ] when Values.print (Values.parse g) = Values.print (Values.parse want) -> r1
                  | g -> Printf.sprintf "PROPFAIL %s sig=compression-not-transparent:%s the compressed call returned %s, the peer's result was %s" id (kv "family" k)
                           (String.concat "," g) want)
             | _ -> r1)
      end else r1
  | "comp" :: id :: rest ->
      let k = parse_kv rest in
      (match Hashtbl.find_opt obs id with
       | None -> Printf.sprintf "MISMATCH %s no-observation" id
       | Some ot ->
           let okv = parse_kv (List.tl (List.tl ot)) in
           let corrupted = (kv "corrupt" k <> "-" && kv "corrupt" k <> "") || kv "truncate" k <> "" in
           let gz = kv "ctype" k = "1" in
           (match kv "res" okv with
            | "panic" -> Printf.sprintf "PROPFAIL %s sig=panic %s a compressor panicked: %s" id (if corrupted then "on corrupted data" else "on valid data") (kv "msg" okv)
            | "ok" ->
                if kv "same" okv = "1" then Printf.sprintf "AGREE %s %s" id (if corrupted || kv "data" k <> "-" then "nontrivial" else "trivial")
                else if not corrupted then Printf.sprintf "PROPFAIL %s sig=roundtrip decompress(compress(x)) <> x" id
                else if gz then Printf.sprintf "PROPFAIL %s sig=gzip-corruption-accepted corrupted gzip data decompressed without error to a different value" id
                else Printf.sprintf "AGREE %s nontrivial" id       (* msgpackzip has no checksum: only panics count *)
            | "err" -> if corrupted then Printf.sprintf "AGREE %s nontrivial" id
                       else Printf.sprintf "PROPFAIL %s sig=roundtrip decompress(compress(x)) failed" id
            | "compress-error" -> Printf.sprintf "PROPFAIL %s sig=roundtrip compress failed" id
            | r -> Printf.sprintf "MISMATCH %s unexpected result %s" id r))
  | "e2e" :: id :: rest ->
      let k = parse_kv rest in
      (match Hashtbl.find_opt obs id with
       | None -> Printf.sprintf "MISMATCH %s no-observation" id
       | Some ot ->
           let okv = parse_kv (List.tl (List.tl ot)) in
           if kv "panic" okv <> "" then Printf.sprintf "PROPFAIL %s sig=panic a compressed or plain call between two transports of the package panicked: %s" id (kv "panic" okv)
           else if kv "setup" okv <> "" then Printf.sprintf "MISMATCH %s could not set up a loopback pair: %s" id (kv "setup" okv)
           else begin
             let plain = kv "plain" okv and comp = kv "comp" okv and follow = kv "followup" okv in
             let hargs = split_on '~' (kv "hargs" okv) in
             let known = kv "method" k = "known" in
             let canon v = Values.print (Values.parse v) in
             let want_arg = if kv "arg" k = "-" || kv "arg" k = "" then "n" else canon (kv "arg" k) in
             if plain <> comp then
               Printf.sprintf "PROPFAIL %s sig=compression-not-transparent:e2e:ctype-%s the same call returned (error~result) %s uncompressed and %s compressed" id (kv "ctype" k) plain comp
             else if follow <> plain then
               Printf.sprintf "PROPFAIL %s sig=compression-not-transparent:e2e-followup:ctype-%s after the compressed call the same uncompressed call returned %s instead of %s (connection damaged?)" id (kv "ctype" k) follow plain
             else if known && (List.length hargs <> 3 || List.exists (fun a -> canon a <> want_arg) hargs) then
               Printf.sprintf "PROPFAIL %s sig=compression-not-transparent:e2e-arg:ctype-%s the handler received %s for the argument %s" id (kv "ctype" k) (String.concat "," hargs) want_arg
             else Printf.sprintf "AGREE %s nontrivial" id
           end)
  | "pool" :: id :: _ ->
      (match Hashtbl.find_opt obs id with
       | None -> Printf.sprintf "MISMATCH %s no-observation" id
       | Some ot ->
           let okv = parse_kv (List.tl (List.tl ot)) in
           if kv "res" okv = "panic" || kv "panics" okv <> "0" then Printf.sprintf "PROPFAIL %s sig=panic a compressor panicked under concurrent use" id
           else if kv "bad" okv <> "0" then Printf.sprintf "PROPFAIL %s sig=pool-state-leak %s of %s round trips under concurrent reuse of the pooled state were not the identity" id (kv "bad" okv) (kv "total" okv)
           else Printf.sprintf "AGREE %s nontrivial" id)
  | _ -> "SKIP"
