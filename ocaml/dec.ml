(* Decode-side cases (C02 decode, C04, C05): the model's run_frames against NextFrame outcomes. *)
open Model
open Util
open Values

let nf_text = function NFProtocol -> "protocol" | NFMethod -> "method"

let print_outcome (o : outcome) : string =
  match o with
  | OCall (q, me, a, t) -> Printf.sprintf "call(%s,%s,%s,%s)" (print (VInt q)) (print (VStr me)) (print a) (print_opt t)
  | OCallC (q, c, me, a, t) -> Printf.sprintf "callc(%s,%s,%s,%s,%s)" (print (VInt q)) (print (VInt c)) (print (VStr me)) (print a) (print_opt t)
  | OCallNF (q, me, k, c) -> Printf.sprintf "callnf(%s,%s,%s,%s)" (print (VInt q)) (print (VStr me)) (nf_text k) (if c then "t" else "f")
  | ONotify (me, a, t) -> Printf.sprintf "notify(%s,%s,%s)" (print (VStr me)) (print a) (print_opt t)
  | ONotifyNF (me, k) -> Printf.sprintf "notifynf(%s,%s)" (print (VStr me)) (nf_text k)
  | OResp (q, e, r) -> Printf.sprintf "resp(%s,%s,%s)" (print (VInt q)) (print e) (print r)
  | ORespNF q -> Printf.sprintf "respnf(%s)" (print (VInt q))
  | OCancel (q, me) -> Printf.sprintf "cancel(%s,%s)" (print (VInt q)) (print (VStr me))
  | OErr EEOF -> "err:eof"
  | OErr EPrefixTrunc -> "err:prefixtrunc"
  | OErr EPrefixBad -> "err:prefix"
  | OErr EPktLen -> "err:pktlen"
  | OErr EPktHdr -> "err:pkthdr"
  | OErr ETrunc -> "err:trunc"
  | OErr EDecode -> "err:decode"
  | OUnspec -> "unspec"

(* which implementation outcome texts realise a model outcome, given how the connection ends (eof | op | other) *)
let matches (endk : string) (m : string) (i : string) : bool =
  if m = i && m <> "err:eof" then true
  else match m with
    | "err:eof" -> (match endk with "other" -> i = "err:injected" | _ -> i = "err:eof")
    | "err:prefixtrunc" -> i = "err:eof" || i = "err:ueof" || i = "err:injected" || i = "err:op"
    | "err:trunc" -> i = "err:ueof" || i = "err:injected" || i = "err:op"
                     (* a truncated body is decoded as far as it goes: it may hold something the decoder rejects (a value
                        outside the modelled zone, e.g. a container used as a map key) before the bytes run out; both are
                        fatal and neither is io.EOF *)
                     || i = "err:decode"
    | "err:decode" -> i = "err:decode"
    | _ -> false

(* Go maps: a repeated key keeps the last value; container keys are unhashable (outside the modelled zone) *)
let rec has_container_key (v : mval) : bool =
  match v with
  | VMap l ->
      (* a repeated key is outside the modelled zone too: go-codec decodes the second value INTO the first (same type: replaced;
         another type: decode error; an empty byte slice: stays empty) *)
      let keys = List.map (fun (k, _) -> Values.print (match k with VBin s -> VStr s | x -> x)) l in
      List.length (List.sort_uniq compare keys) <> List.length keys
      || List.exists (fun (k, x) -> (match k with VArr _ | VMap _ -> true | _ -> false) || has_container_key k || has_container_key x) l
  | VArr l -> List.exists has_container_key l
  | _ -> false

let outcome_vals (o : outcome) : mval list =
  match o with
  | OCall (_, _, a, t) | OCallC (_, _, _, a, t) | ONotify (_, a, t) -> a :: (match t with Some x -> [ x ] | None -> [])
  | OResp (_, e, r) -> [ e; r ]
  | _ -> []

let parse_env (k : (string * string) list) : denv =
  let protocols =
    match kv "protocols" k with
    | "" | "-" -> []
    | s -> List.map (fun ps ->
             let i = String.index ps ':' in
             let name = String.sub ps 0 i and ms = String.sub ps (i + 1) (String.length ps - i - 1) in
             (bytes_of_hex name, List.map bytes_of_hex (split_on '+' ms))) (String.split_on_char ';' s) in
  let pending =
    match kv "pending" k with
    | "" | "-" -> []
    | s -> List.map (fun cs ->
             match String.split_on_char ':' cs with
             | [q; ct; hr; uw] ->
                 (z_to_coq (ZZ.of_string q), { ci_ctype = z_to_coq (ZZ.of_string ct); ci_has_res = (hr = "1"); ci_unwrap = (uw = "1") })
             | _ -> failwith "bad pending") (String.split_on_char ',' s) in
  let inflated =
    match kv "inflated" k with
    | "" | "-" -> []
    | s -> List.map (fun e ->
             match String.split_on_char ':' e with
             | [c; "!"] -> (bytes_of_hex c, None)
             | [c; p] -> (bytes_of_hex c, Some (bytes_of_hex (if p = "-" then "" else p)))
             | _ -> failwith "bad inflated") (String.split_on_char ',' s) in
  { protocols; pending; inflated }

(* the property predicates of C04/C05 on an implementation observation alone *)
let hostile_pred (stream_len : int) (end_err : string) (outs : string list) (consumed : int list) : string option =
  (* last outcome decides how the stream ended *)
  let last = List.nth outs (List.length outs - 1) in
  let lastc = List.nth consumed (List.length consumed - 1) in
  if List.exists (fun o -> String.length o >= 9 && String.sub o 0 9 = "err:nil-m") outs then Some "nil-message-without-error"
  else if last = "err:eof" && end_err = "eof" && lastc <> stream_len then Some "eof-reported-but-stream-not-fully-consumed"
  else None

(* chunking independence of the error VALUE: for a frame that is complete in the stream, the text of the error NextFrame
   returns may not depend on how the bytes were split into reads; first text seen per (stream, environment, frame index) *)
let err_seen : (string, string * string) Hashtbl.t = Hashtbl.create 1024

let run_case (toks : string list) (obs : (string, string list) Hashtbl.t) : string =
  match toks with
  | "dec" :: id :: rest ->
      let k = parse_kv rest in
      (match Hashtbl.find_opt obs id with
       | None -> Printf.sprintf "MISMATCH %s no-observation" id
       | Some ot ->
           let ok = parse_kv (List.tl (List.tl ot)) in
           if kv "res" ok = "panic" then Printf.sprintf "PROPFAIL %s sig=panic decoder panicked: %s" id (kv "msg" ok) else
           (* the inflation oracle for compressed calls in the fed stream is computed by the harness with the standard
              library / msgpackzip directly (not through the package's compressors) *)
           let env = (let e = parse_env k in { e with inflated = e.inflated @ (parse_env [ ("inflated", kv "inflated" ok) ]).inflated }) in
           let max = z_to_coq (ZZ.of_string (let m = kv "max" k in if m = "" then "1048576" else m)) in
           let stream = bytes_of_hex (kv "stream" k) in
           let mo = run_frames (nat_of_int 64) env max stream in
           (* requests for protocol "ty" are decoded by the implementation into TYPED arguments (structs, slices, raw values ...):
              what value comes out, or whether the types fit at all, is go-codec's business and outside the model, which marks
              them; the framing-level predicates below (consumption, chunking independence, allocation) still judge them *)
           let typed (o : outcome) : bool =
             let ty me = let s = string_of_bytes me in String.length s >= 3 && String.sub s 0 3 = "ty." in
             (match o with OCall (_, me, _, _) | OCallC (_, _, me, _, _) | ONotify (me, _, _) -> ty me | _ -> false) in
           let mouts0 = List.map (fun o -> if typed o then "typed" else if List.exists has_container_key (outcome_vals o) then "unspec" else print_outcome o) mo in
           let endk = (match kv "end" k with "" -> "eof" | e -> e) in
           let iouts = String.split_on_char '|' (kv "outs" ok) in
           let icons0 = List.map int_of_string (split_on ',' (kv "consumed" ok)) in
           (* a typed request either is delivered (then the model's next outcomes are compared as usual) or its argument does not
              fit the handler's type: a decoding error, which ends the stream there *)
           let is_msg s = List.exists (fun p -> String.length s >= String.length p && String.sub s 0 (String.length p) = p) [ "call("; "callc("; "notify(" ] in
           let rec reconcile ms is =
             match ms, is with
             | "typed" :: mr, i :: ir when is_msg i -> i :: reconcile mr ir
             | "typed" :: _, [ "err:decode" ] -> [ "err:decode" ]
             | "typed" :: mr, _ -> "unspec" :: mr
             | m :: mr, _ :: ir -> m :: reconcile mr ir
             | ms, [] -> ms
             | [], _ -> [] in
           let mouts = reconcile mouts0 iouts in
           let stopped_at_typed = List.length mouts < List.length mouts0 in
           let icons = icons0 in
           let slen = List.length stream in
           (* model consumption after each frame *)
           let rec mcons fuel s acc =
             if fuel = 0 then List.rev acc else
             let (o, r) = next_frame env max s in
             let c = slen - List.length r in
             if continues o then mcons (fuel - 1) r (c :: acc) else List.rev (c :: acc) in
           let mc = (let l = mcons 64 stream [] in
                     if stopped_at_typed then List.filteri (fun i _ -> i < List.length mouts) l else l) in
           let expect = kv "expect" k in
           (* allocation probe: never asked the connection for more than a constant plus the frame limit at once *)
           let maxask = try int_of_string (kv "maxask" ok) with _ -> 0 in
           let maxv = ZZ.to_int (z_of_coq max) in
           let alloc = try int_of_string (kv "alloc" ok) with _ -> 0 in
           let slen = String.length (kv "stream" k) / 2 in
           (* buffering bounded by what arrived: a hostile frame must not make the decoder allocate far more than the stream holds *)
           (* "decompressed payloads aside" (property text): what inflating a compressed call's payload allocates is not bounded by
              the frame - the inflation oracle lists such payloads *)
           if alloc > 8 * 1048576 + 64 * slen && (kv "inflated" ok = "-" || kv "inflated" ok = "") then
             Printf.sprintf "PROPFAIL %s sig=allocation-bound decoding a stream of %d bytes allocated %d bytes (limit 8 MiB + 64 x stream length)" id slen alloc
           else if maxask > 65536 + maxv then Printf.sprintf "PROPFAIL %s sig=buffer-bound single read of %d bytes requested with max frame %d" id maxask maxv else
           (* framing-level predicate, from the property text alone: a frame whose prefix is a valid length and whose
              declared bytes are all present is consumed exactly, whatever its content and whatever NextFrame returned *)
           let rec frame_ends (s : n list) (pos : int) (acc : int list) (fuel : int) : int list =
             if fuel = 0 || s = [] then List.rev acc else
             match dec_int32 s with
             | I32 (l, r) ->
                 let lz = z_of_coq l in
                 let plen = List.length s - List.length r in
                 if ZZ.gt lz ZZ.zero && ZZ.leq lz (z_of_coq max) && ZZ.to_int lz <= List.length r then begin
                   let li = ZZ.to_int lz in
                   let rec drop n l = if n = 0 then l else match l with [] -> [] | _ :: t -> drop (n - 1) t in
                   frame_ends (drop li r) (pos + plen + li) ((pos + plen + li) :: acc) (fuel - 1)
                 end else List.rev acc
             | _ -> List.rev acc in
           let ends = frame_ends stream 0 [] 64 in
           (* the first frame whose length prefix is complete but zero, negative, not an integer, outside int32 or above
              the maximum: the connection must stop there with an error, before any payload byte is consumed *)
           let rec drop n l = if n = 0 then l else match l with [] -> [] | _ :: t -> drop (n - 1) t in
           let bad_prefix : (int * int) option =
             let idx = List.length ends in
             let pos = (match List.rev ends with [] -> 0 | e :: _ -> e) in
             let s = drop pos stream in
             if s = [] then None else
             match dec_int32 s with
             | I32 (l, r) ->
                 let lz = z_of_coq l in
                 if ZZ.leq lz ZZ.zero || ZZ.gt lz (z_of_coq max) then Some (idx, pos + (List.length s - List.length r)) else None
             | I32Bad _ -> Some (idx, pos + 1)
             | I32Overflow -> (match dec_int64 s with DOk (_, r) -> Some (idx, pos + (List.length s - List.length r)) | _ -> None)
             | I32Short -> None in
           let prefix_problem =
             match bad_prefix with
             | Some (idx, limit) when idx < List.length iouts ->
                 let o = List.nth iouts idx and c = List.nth icons idx in
                 if not (String.length o >= 4 && String.sub o 0 4 = "err:") then
                   Some (Printf.sprintf "frame#%d has an invalid length prefix but was delivered as %s" idx o)
                 else if c > limit then
                   Some (Printf.sprintf "frame#%d has an invalid length prefix ending at byte %d but %d bytes were consumed" idx limit c)
                 else None
             | _ -> None in
           let errh = split_on ',' (kv "errh" ok) in
           let text_problem =
             let nfull = List.length ends in
             let base = String.concat "/" [ kv "stream" k; kv "max" k; kv "pending" k; kv "protocols" k ] in
             let rec go i = function
               | [] -> None
               | h :: r ->
                   if i >= nfull || h = "-" || i >= List.length iouts then None else begin
                     let key = base ^ "#" ^ string_of_int i in
                     match Hashtbl.find_opt err_seen key with
                     | None -> Hashtbl.replace err_seen key (h, id); go (i + 1) r
                     | Some (h0, id0) when h0 <> h ->
                         Some (Printf.sprintf "frame#%d is complete in the stream; NextFrame's error for it (%s) has a different text here than in case %s, which differs only in how the bytes were split into reads" i (List.nth iouts i) id0)
                     | Some _ -> go (i + 1) r
                   end in
             go 0 errh in
           (match (match prefix_problem with Some w -> Some ("bad-prefix-not-fatal", w) | None -> (match text_problem with Some w -> Some ("error-depends-on-chunking", w) | None -> None)) with
            | Some (sg, why) -> Printf.sprintf "PROPFAIL %s sig=%s %s" id sg why
            | None ->
           let cons_bad = ref None in
           List.iteri (fun i e ->
             if !cons_bad = None && i < List.length icons && List.nth icons i <> e then cons_bad := Some (i, e, List.nth icons i)) ends;
           (match !cons_bad with
            | Some (i, e, c) ->
                Printf.sprintf "PROPFAIL %s sig=consumption frame#%d is complete in the stream and ends at byte %d, but %d bytes were consumed when NextFrame returned %s" id i e c
                  (try List.nth iouts i with _ -> "?")
            | None ->
           (match hostile_pred slen (kv "end" k) iouts icons with
            | Some why -> Printf.sprintf "PROPFAIL %s sig=%s %s" id why why
            | None ->
           if List.mem "unspec" mouts then Printf.sprintf "AGREE %s unspec" id
           else if List.length mouts <> List.length iouts then
             Printf.sprintf "MISMATCH %s outcome-count model=%s impl=%s" id (String.concat "|" mouts) (String.concat "|" iouts)
           else begin
             let bad = ref None in
             List.iteri (fun i (m, im) -> if !bad = None && not (matches endk m im) then bad := Some (i, m, im)) (List.combine mouts iouts);
             match !bad with
             | Some (i, m, im) -> Printf.sprintf "MISMATCH %s frame#%d model=%s impl=%s" id i m im
             | None ->
                 (* consumption: exact for every non-final frame and for fatal prefix errors *)
                 let n = List.length mc in
                 let cbad = ref None in
                 List.iteri (fun i (m, im) ->
                   let mo = List.nth mouts i in
                   let exact = i < n - 1 || mo = "err:pktlen" || mo = "err:prefix" || mo = "err:pkthdr" || mo = "err:decode" in
                   if !cbad = None && exact && m <> im then cbad := Some (i, m, im)) (List.combine mc icons);
                 (match !cbad with
                  | Some (i, m, im) -> Printf.sprintf "PROPFAIL %s sig=consumption frame#%d consumed: model=%d impl=%d" id i m im
                  | None ->
                      if expect <> "" && expect <> String.concat "|" mouts then
                        Printf.sprintf "MISMATCH %s generator-expectation model=%s expected=%s" id (String.concat "|" mouts) expect
                      else Printf.sprintf "AGREE %s %s" id (if kv "nt" k = "1" then "nontrivial" else "trivial"))
           end))))
  | _ -> "SKIP"
