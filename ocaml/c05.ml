(* C05: hostile streams through the white-box frame reader (dec cases, shared with C04) and through a whole
   transport on the simulated connection (scn cases): the transport's final error must be of the class the model's
   last outcome allows. *)
open Model
open Util

let sample_field (evs : string list) (tag : string) (field : string) : string option =
  List.fold_left (fun acc e ->
    match String.split_on_char '/' e with
    | "sample" :: t :: rest when t = tag ->
        let body = String.concat "/" rest in
        List.fold_left (fun a kvs ->
          match String.index_opt kvs '=' with
          | Some i when String.sub kvs 0 i = field -> Some (String.sub kvs (i + 1) (String.length kvs - i - 1))
          | _ -> a) acc (String.split_on_char ',' body)
    | _ -> acc) None evs

(* which Server.Err() classes realise a final model outcome, given how the connection ended *)
let allowed (last : string) (endk : string) : string list =
  match last with
  | "err:eof" -> (match endk with "eof" | "op" -> [ "eof" ] | _ -> [ "injected" ])
  | "err:prefixtrunc" -> [ "eof"; "ueof"; "injected"; "op" ]
  | "err:prefix" -> [ "codec" ]
  | "err:pktlen" | "err:pkthdr" -> [ "packetizer" ]
  | "err:trunc" -> [ "ueof"; "injected"; "op"; "decode" ]   (* decoded as far as it goes: the decoder may reject what is there before the bytes run out (see Dec.matches) *)
  | "err:decode" -> [ "decode" ]
  | _ -> []

let run_case (toks : string list) (obs : (string, string list) Hashtbl.t) : string =
  match toks with
  | "dec" :: _ -> Dec.run_case toks obs
  | "scn" :: id :: rest ->
      let k = parse_kv rest in
      (match Hashtbl.find_opt obs id with
       | None -> Printf.sprintf "MISMATCH %s no-observation" id
       | Some ot ->
           let okv = parse_kv (List.tl (List.tl ot)) in
           if kv "res" okv = "panic" then Printf.sprintf "PROPFAIL %s sig=panic transport panicked: %s" id (kv "msg" okv) else
           let evs = C02.events_of ot in
           let ops = List.map (String.split_on_char '/') (split_on ';' (kv "script" k)) in
           let fed = String.concat "" (List.filter_map (function "feed" :: h :: _ -> Some h | _ -> None) ops) in
           let endk = List.fold_left (fun a -> function [ "readerr"; e ] -> e | _ -> a) "eof" ops in
           let env = Dec.parse_env k in
           let max = Values.z_to_coq (ZZ.of_string (let m = kv "max" k in if m = "" then "1048576" else m)) in
           let mo = run_frames (nat_of_int 64) env max (bytes_of_hex fed) in
           let mouts = List.map (fun o -> if List.exists Dec.has_container_key (Dec.outcome_vals o) then "unspec" else Dec.print_outcome o) mo in
           let last = List.nth mouts (List.length mouts - 1) in
           if List.exists (fun e -> String.length e >= 8 && String.sub e 0 8 = "timeout/") evs then
             Printf.sprintf "PROPFAIL %s sig=hang transport did not stop within the bound on a finished hostile stream: %s" id
               (String.concat "," (List.filter (fun e -> String.length e >= 8 && String.sub e 0 8 = "timeout/") evs))
           else
           let err = match sample_field evs "end" "err" with Some e -> e | None -> "?" in
           let done_ = sample_field evs "end" "done" in
           if done_ <> Some "1" then Printf.sprintf "PROPFAIL %s sig=not-done transport not done after the stream ended" id
           else if List.mem "unspec" mouts then Printf.sprintf "AGREE %s unspec" id
           else begin
             let cls = if String.length err >= 4 && String.sub err 0 4 = "app:" then "app" else err in
             let al = allowed last endk in
             if last = "err:trunc" && cls = "eof" then
               Printf.sprintf "PROPFAIL %s sig=truncation-reported-as-eof stream ended inside a frame body but Server.Err() is io.EOF" id
             else if List.mem cls al then Printf.sprintf "AGREE %s nontrivial" id
             else Printf.sprintf "MISMATCH %s final error: model last outcome %s allows {%s}, implementation Err()=%s" id last (String.concat "," al) err
           end)
  | _ -> "SKIP"
