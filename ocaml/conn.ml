(* C14 / C15 / C16: the Connection.  Abstracts the harness' event log into Model.cev, evaluates the extracted monitors
   on it, and for sequential scripts runs the extracted transition system on the same script and compares the
   per-goroutine projections.  CancellableTimer scripts are compared with the extracted timer model. *)
open Model
open Util

let zi (i : int) = Values.z_to_coq (ZZ.of_int i)
let b2s b = if b then "true" else "false"

let dial_out_s (d : dial_out) = match d with DOk0 -> "ok" | DFail -> "fail" | DFatal -> "fatal"
let conn_out_s = function OOk -> "ok" | OFail -> "fail" | OFatal -> "fatal"
let cmd_out_s = function XOk -> "ok" | XEof -> "eof" | XEofDisc -> "eofdisc" | XRetriable -> "retriable" | XOther -> "other"
let cerr_s = function
  | ENone -> "ok" | EEof -> "eof" | ERetriable -> "retriable" | EOther -> "other" | EConnFatal -> "connect-fatal" | ECtx -> "ctx"
  | ECanceled -> "canceled" | EDialFail -> "dialfail" | EConnFail -> "connfail"

let zs z = ZZ.to_string (Values.z_of_coq z)

let cev_s = function
  | EvDisc st -> "disc:" ^ zs st
  | EvTimerStart -> "timerstart"
  | EvTimerElapsed -> "elapsed"
  | EvDelayDone -> "delaydone"
  | EvDialBegin -> "dialbegin"
  | EvDialEnd (o, x) -> "dialend:" ^ dial_out_s o ^ ":" ^ zs x
  | EvRegister x -> "register:" ^ zs x
  | EvOnConnect o -> "onconnect:" ^ conn_out_s o
  | EvConnErr -> "connerr"
  | EvFinalize x -> "finalize:" ^ zs x
  | EvCmdStart (c, f, n) -> Printf.sprintf "cmdstart:%s:force=%s:firenow=%s" (zs c) (b2s f) (b2s n)
  | EvFireNow c -> "firenow:" ^ zs c
  | EvWaiting (c, f, s) -> Printf.sprintf "waiting:%s:firenow=%s:spawned=%s" (zs c) (b2s f) (b2s s)
  | EvExec (c, k, o) -> Printf.sprintf "exec:%s:%s:%s" (zs c) (zs k) (cmd_out_s o)
  | EvCmdErr c -> "cmderr:" ^ zs c
  | EvCmdRet (c, e) -> Printf.sprintf "cmdret:%s:%s" (zs c) (cerr_s e)
  | EvCancel c -> "cancel:" ^ zs c
  | EvDisconnect -> "disconnect"
  | EvFastForward -> "fastforward"
  | EvShutdown -> "shutdown"

let tval (fs : string list) : int =
  List.fold_left (fun acc f -> if String.length f > 2 && String.sub f 0 2 = "t=" then int_of_string (String.sub f 2 (String.length f - 2)) else acc) (-1) fs
let fval key (fs : string list) : string =
  let p = key ^ "=" in
  let n = String.length p in
  List.fold_left (fun acc f -> if String.length f >= n && String.sub f 0 n = p then String.sub f n (String.length f - n) else acc) "" fs

let cmd_out_of = function
  | "ok" -> XOk | "eof" -> XEof | "eofdisc" -> XEofDisc | "retriable" -> XRetriable | "other" -> XOther | s -> failwith ("cmd outcome " ^ s)
let dial_out_of (s : string) : dial_out = match s with "ok" -> DOk0 | "fail" | "dns" | "opdns" | "timeout" | "refused" -> DFail | "fatal" -> DFatal | s -> failwith ("dial outcome " ^ s)
let conn_out_of = function "ok" -> OOk | "fail" -> OFail | "fatal" -> OFatal | s -> failwith ("connect outcome " ^ s)

(* implementation events -> cev; also the direct (implementation-only) findings *)
type absres = { evs : cev list; direct : string list; lazy_ : bool; force : bool }

let abstract ?(firstdelay = 0) ?(window = -1) ?(backoff = 1) ?(cmdbackoff = 1) (events : string list) : absres =
  let last_connerr = ref (-1) in
  let last_cmderr = Hashtbl.create 8 in
  let last_status = ref 0 in
  let direct = ref [] in
  let out = ref [] in
  let lazy_ = ref false and force = ref false in
  let cancelled = Hashtbl.create 8 in
  let timer_start = ref (-1) and timer_d = ref 0 and first_fire = ref (-1) in
  let sticky_req = ref false in   (* a fire-now command registered with the running sequence (lives until the sequence's outcome) *)
  let req = Hashtbl.create 8 in   (* commands whose fire-now marker was seen and that have not executed / returned since *)
  let add e = out := e :: !out in
  List.iter
    (fun ev ->
      let fs = String.split_on_char '/' ev in
      match fs with
      | "new" :: _ -> lazy_ := fval "lazy" fs = "true"; force := fval "force" fs = "true"
      | "ondisconnected" :: st :: _ -> last_connerr := -1; last_status := int_of_string st; add (EvDisc (zi (int_of_string st)))
      | "timerstart" :: _ ->
          let dns = int_of_string (fval "d" fs) in
          (* the delay chosen: exactly the first-connect delay, or a value in [0, window) (0 for a zero window) *)
          if firstdelay > 0 && !last_status = 2 then begin
            if dns <> firstdelay * 1000000 then direct := Printf.sprintf "sig=delay-value the first-connect delay started is %d ns, configured %d ms" dns firstdelay :: !direct
          end else if window >= 0 then begin
            if (window = 0 && dns <> 0) || (window > 0 && (dns < 0 || dns >= window * 1000000)) then
              direct := Printf.sprintf "sig=delay-value the reconnect delay started is %d ns, outside [0, %d ms)" dns window :: !direct
          end else direct := Printf.sprintf "sig=delay-unconfigured a connect delay of %d ns was started although none is configured for this kind of sequence" dns :: !direct;
          timer_start := tval fs; timer_d := dns / 1000000; first_fire := -1; add EvTimerStart
      | "delaydone" :: _ ->
          let t = tval fs in
          let ran_out = !timer_start >= 0 && t - !timer_start >= !timer_d - 1 in
          (* a delay that ended within 100 ms of a fire request is credited to the request *)
          let credited = (!first_fire >= 0 && t - !first_fire <= 100) || ((Hashtbl.length req > 0 || !sticky_req) && t - !timer_start <= 100) in
          if ran_out && not credited then add EvTimerElapsed;
          timer_start := -1;
          add EvDelayDone
      | "dial-begin" :: _ ->
          if !last_connerr >= 0 && tval fs - !last_connerr < backoff - 1 then
            direct := Printf.sprintf "sig=retry-before-backoff the next dial began %d ms after the failure was notified, the configured backoff is %d ms" (tval fs - !last_connerr) backoff :: !direct;
          last_connerr := -1;
          if fval "inprogress" fs <> "1" then direct := Printf.sprintf "sig=two-dials-in-progress a Dial began while %s were in progress" (fval "inprogress" fs) :: !direct;
          add EvDialBegin
      | "dial-end" :: _ :: "ok" :: x :: _ -> add (EvDialEnd (DOk0, zi (int_of_string x)))
      | "dial-end" :: _ :: "fail" :: _ -> add (EvDialEnd (DFail, zi 0))
      | "dial-end" :: _ :: "fatal" :: _ -> sticky_req := false; add (EvDialEnd (DFatal, zi 0))
      | "register" :: x :: _ -> add (EvRegister (zi (int_of_string x)))
      | "onconnect" :: _ :: o :: _ -> if o = "fatal" then sticky_req := false; add (EvOnConnect (conn_out_of o))
      | "onconnecterror" :: _ ->
          if fval "d" fs <> "" && int_of_string (fval "d" fs) <> backoff * 1000000 then
            direct := Printf.sprintf "sig=backoff-value OnConnectError was told a backoff of %s ns, the configured one is %d ms" (fval "d" fs) backoff :: !direct;
          last_connerr := tval fs;
          add EvConnErr
      | "finalize" :: x :: _ -> sticky_req := false; add (EvFinalize (zi (int_of_string x)))
      | "cmdstart" :: id :: _ -> add (EvCmdStart (zi (int_of_string id), fval "force" fs = "true", fval "firenow" fs = "true"))
      | "firenow" :: id :: _ ->
          Hashtbl.replace req id ();
          if !timer_start >= 0 && !first_fire < 0 then first_fire := tval fs;
          add (EvFireNow (zi (int_of_string id)))
      | "waiting" :: id :: _ ->
          let fn = fval "firenow" fs = "true" in
          if fn then sticky_req := true;
          if fn && !timer_start >= 0 && !first_fire < 0 then first_fire := tval fs;
          add (EvWaiting (zi (int_of_string id), fn, fval "status" fs <> "1"))
      | "exec" :: id :: k :: o :: rest ->
          Hashtbl.remove req id;
          (match Hashtbl.find_opt last_cmderr id with
           | Some t0 when tval rest >= 0 && tval rest - t0 < cmdbackoff - 1 ->
               direct := Printf.sprintf "sig=retry-before-backoff command %s was executed again %d ms after its retriable failure was notified, the command backoff is %d ms" id (tval rest - t0) cmdbackoff :: !direct
           | _ -> ());
          Hashtbl.remove last_cmderr id;
          if fval "cstate" rest <> "ok" && fval "client" rest = "true" then
            direct := Printf.sprintf "sig=exec-with-unconnected-client command %s was executed with a client whose connect callback %s" id
                        (match fval "cstate" rest with "pending" -> "had not returned yet" | "failed" -> "had failed" | s -> "is " ^ s) :: !direct;
          if fval "client" rest <> "true" then direct := Printf.sprintf "sig=exec-without-client command %s was executed with a nil client" id :: !direct;
          add (EvExec (zi (int_of_string id), zi (int_of_string k), cmd_out_of o))
      | "ondocommanderror" :: id :: _ ->
          if fval "d" fs <> "" && int_of_string (fval "d" fs) <> cmdbackoff * 1000000 then
            direct := Printf.sprintf "sig=backoff-value OnDoCommandError was told a backoff of %s ns, the configured one is %d ms" (fval "d" fs) cmdbackoff :: !direct;
          Hashtbl.replace last_cmderr id (tval fs);
          (match int_of_string_opt id with Some i -> add (EvCmdErr (zi i)) | None -> direct := "sig=cmderr-unknown OnDoCommandError with an error no command returned" :: !direct)
      | "cmdret" :: id :: cls :: _ ->
          Hashtbl.remove req id;
          let i = int_of_string id in
          let e = match cls with
            | "ok" -> ENone | "eof" -> EEof | "retriable" -> ERetriable | "other" -> EOther | "connect-fatal" -> EConnFatal
            | "ctx" -> if Hashtbl.mem cancelled i then ECtx else ECanceled
            | s -> direct := Printf.sprintf "sig=unknown-error command %s returned %s" id s :: !direct; EOther in
          add (EvCmdRet (zi i, e))
      | "cancelcmd" :: id :: _ -> Hashtbl.replace cancelled (int_of_string id) (); add (EvCancel (zi (int_of_string id)))
      | "disconnect" :: _ -> add EvDisconnect
      | "fastforward" :: _ -> if !timer_start >= 0 && !first_fire < 0 then first_fire := tval fs; add EvFastForward
      | "shutdown" :: _ -> last_connerr := -1; add EvShutdown
      | "timeout" :: what -> direct := Printf.sprintf "sig=stuck:%s the harness gave up waiting (5 s) for: %s" (List.hd (what @ [ "?" ])) (String.concat "/" what) :: !direct
      | _ -> ())
    events;
  { evs = List.rev !out; direct = List.rev !direct; lazy_ = !lazy_; force = !force }

let opts_of k = { co_force_initial_backoff = kv "forcebackoff" k = "1";
                  co_first_delay = (kv "firstdelay" k <> "" && kv "firstdelay" k <> "0");
                  co_window = kv "window" k <> "" }

(* the model script from the harness script *)
let model_inputs k =
  let ops = split_on ';' (kv "script" k) in
  let cmds = ref [] and sops = ref [] in
  List.iter
    (fun op ->
      match String.split_on_char '/' op with
      | "cmd" :: id :: outs :: fn :: _ ->
          let i = zi (int_of_string id) in
          cmds := new_cmd i false (fn = "1") (List.map cmd_out_of (split_on ',' outs)) :: !cmds;
          sops := SStart i :: !sops
      | "force" :: id :: _ ->
          let i = zi (int_of_string id) in
          cmds := new_cmd i true false [] :: !cmds;
          sops := SStart i :: !sops
      | "cancelcmd" :: id :: _ -> sops := SCancel (zi (int_of_string id)) :: !sops
      | [ "disconnect" ] -> sops := SDisconnect :: !sops
      | [ "shutdown" ] -> sops := SShutdown :: !sops
      | [ "fastforward" ] -> sops := SFastForward :: !sops
      | "waitdelay" :: _ | "longsettle" :: _ -> sops := SElapse :: !sops
      | [ "holddial" ] -> sops := SHold :: !sops
      | [ "releasedial" ] -> sops := SRelease :: !sops
      | _ -> ())
    ops;
  let lst key conv = if kv key k = "" || kv key k = "-" then [] else List.map conv (split_on ',' (kv key k)) in
  (lst "dials" dial_out_of, lst "conns" conn_out_of, List.rev !cmds, List.rev !sops)

let first_diff (a : string list) (b : string list) : string =
  let rec go i a b = match a, b with
    | [], [] -> "none"
    | x :: r, y :: s when x = y -> go (i + 1) r s
    | x :: _, y :: _ -> Printf.sprintf "#%d model=%s impl=%s" i x y
    | x :: _, [] -> Printf.sprintf "#%d model=%s impl=<end>" i x
    | [], y :: _ -> Printf.sprintf "#%d model=<end> impl=%s" i y in
  go 0 a b

let run_conn which toks obs =
  match toks with
  | "conn" :: id :: rest ->
      let k = parse_kv rest in
      (match Hashtbl.find_opt obs id with
       | None -> Printf.sprintf "MISMATCH %s no-observation" id
       | Some ot ->
           let okv = parse_kv (List.tl (List.tl ot)) in
           if kv "panic" okv <> "" then Printf.sprintf "PROPFAIL %s sig=panic the harness case panicked: %s" id (kv "panic" okv) else
           let events = split_on ';' (kv "ev" okv) in
           let a = abstract ~firstdelay:(match int_of_string_opt (kv "firstdelay" k) with Some d -> d | None -> 0)
                     ~window:(match int_of_string_opt (kv "window" k) with Some w -> w | None -> -1)
                     ~backoff:(match int_of_string_opt (kv "backoff" k) with Some w when w > 0 -> w | _ -> 1)
                     ~cmdbackoff:(match int_of_string_opt (kv "cmdbackoff" k) with Some w when w > 0 -> w | _ -> 1) events in
           let fails = ref (List.map (fun d -> d) a.direct) in
           let chk name b what = if not b then fails := Printf.sprintf "sig=%s %s" name what :: !fails in
           chk "c14-one-dial" (c14_one_dial a.evs) "two dial attempts overlapped";
           chk "c14-sequence-shape" (c14_sequences a.force a.evs)
             "the reconnect sequences were not: announced once with the right status, each dial preceded by the announcement or one error notification, protocols registered before OnConnect, one Finalize after OnConnect, at most one dial after Shutdown";
           chk "c15-commands" (c15_commands a.evs)
             "a command ran without a published client / was not re-run after EOF or a retriable error exactly once notified / returned something else than its last outcome, its context's error or the fatal connect error";
           if which <> "C14" && which <> "C15" then
             chk "c16-delay" (c16_delay (not a.lazy_) a.evs)
               "a dial began while the connect delay was pending, the delay ended early without a fire, or it ran to its end although a fire-now command was waiting / it was fast-forwarded";
           (* sequential scripts: the model run on the same script *)
           let tie =
             if kv "mode" k <> "seq" then []
             else begin
               let ds, cs, cmds, sops = model_inputs k in
               let mtr = run_script expected_ccfg (opts_of k) (not a.lazy_) ds cs cmds sops in
               let diffs = ref [] in
               let cmp name m i =
                 let ms = List.map cev_s m and is = List.map cev_s i in
                 if ms <> is then diffs := Printf.sprintf "%s: %s" name (first_diff ms is) :: !diffs in
               cmp "sequence" (seq_projection mtr) (seq_projection a.evs);
               List.iter (fun c -> cmp ("command " ^ zs c.cm_id) (cmd_projection c.cm_id mtr) (cmd_projection c.cm_id a.evs)) cmds;
               List.rev !diffs
             end in
           let nontrivial = List.exists (function EvConnErr | EvDisconnect | EvShutdown | EvTimerStart | EvCmdErr _ | EvCancel _ -> true | EvExec (_, _, o) -> o <> XOk | _ -> false) a.evs in
           match List.rev !fails, tie with
           | f :: _, _ -> Printf.sprintf "PROPFAIL %s %s" id f
           | [], d :: _ -> Printf.sprintf "MISMATCH %s sig=model-differs %s" id d
           | [], [] -> Printf.sprintf "AGREE %s %s" id (if nontrivial then "nontrivial" else "trivial"))
  | "slowdial" :: id :: rest ->
      (* a slow dial through a built-in connection transport: commands whose contexts end meanwhile return promptly *)
      let k = parse_kv rest in
      (match Hashtbl.find_opt obs id with
       | None -> Printf.sprintf "MISMATCH %s no-observation" id
       | Some ot ->
           let okv = parse_kv (List.tl (List.tl ot)) in
           if kv "panic" okv <> "" then Printf.sprintf "PROPFAIL %s sig=panic the harness case panicked: %s" id (kv "panic" okv) else
           let ms x = try int_of_string (kv x okv) with _ -> 99999 in
           let bad who cls m =
             if cls = "blocked" || m > 1500 then Some (Printf.sprintf "command %s %s after its context ended (returned %s after %d ms)" who (if cls = "blocked" then "is still blocked 3 s" else "returned late") cls m)
             else if cls <> "ctx" then Some (Printf.sprintf "command %s returned %s, not its context's error" who cls)
             else None in
           (match bad "A (which started the sequence)" (kv "a" okv) (ms "ams"), bad "B (submitted during the dial)" (kv "b" okv) (ms "bms") with
            | Some w, _ | None, Some w -> Printf.sprintf "PROPFAIL %s sig=stuck:command-during-slow-dial:%s %s" id (kv "kind" k) w
            | None, None ->
                if ms "isconnectedms" < 0 || ms "isconnectedms" > 1500 then
                  Printf.sprintf "PROPFAIL %s sig=stuck:isconnected-during-slow-dial:%s IsConnected did not answer while the dial was in progress" id (kv "kind" k)
                else Printf.sprintf "AGREE %s nontrivial" id))
  | "ctrans" :: id :: rest ->
      let k = parse_kv rest in
      (match Hashtbl.find_opt obs id with
       | None -> Printf.sprintf "MISMATCH %s no-observation" id
       | Some ot ->
           let okv = parse_kv (List.tl (List.tl ot)) in
           if kv "panic" okv <> "" then Printf.sprintf "PROPFAIL %s sig=panic the harness case panicked: %s" id (kv "panic" okv) else
           let tls = kv "kind" k = "tls" in
           let views = List.map (String.split_on_char '=') (split_on '|' (kv "views" okv)) in
           let st = ref ct0 in
           let res = ref None in
           List.iter (fun v ->
             if !res = None then
               match v with
               | [ op; r; view ] ->
                   let o = (match op with "dialok" -> CtDialOk | "dialfail" -> CtDialFail | "finalize" -> CtFinalize | _ -> CtClose) in
                   st := ctstep tls !st o;
                   let mv = String.concat "," (List.map (fun ((i, a), b) -> Printf.sprintf "%s:%s:%s" (zs i) (b2s a) (b2s b)) (ct_view !st)) in
                   if String.length r >= 5 && String.sub r 0 5 = "panic" then
                     res := Some (Printf.sprintf "PROPFAIL %s sig=ctransport-panic:%s %s on the connection transport panicked (%s); open transports/connections now %s, should be %s" id op op r view mv)
                   else if r <> "ok" then res := Some (Printf.sprintf "MISMATCH %s sig=ctransport-dial a scripted successful dial failed: %s" id r)
                   else if mv <> view then
                     res := Some (Printf.sprintf "PROPFAIL %s sig=ctransport-left-open:%s after %s the transports (id:connected:connection-open) are %s, every transport that is neither current nor staged must be closed with its connection: %s" id op op view mv)
               | _ -> res := Some (Printf.sprintf "MISMATCH %s malformed view" id)) views;
           match !res with Some r -> r | None -> Printf.sprintf "AGREE %s nontrivial" id)
  | "timer" :: id :: rest ->
      let k = parse_kv rest in
      (match Hashtbl.find_opt obs id with
       | None -> Printf.sprintf "MISMATCH %s no-observation" id
       | Some ot ->
           let okv = parse_kv (List.tl (List.tl ot)) in
           if kv "panic" okv <> "" then Printf.sprintf "PROPFAIL %s sig=panic a timer operation panicked: %s" id (kv "panic" okv) else
           let log = List.map (String.split_on_char '/') (split_on ';' (kv "log" okv)) in
           let slack = (match int_of_string_opt (kv "slack" k) with Some s -> s | None -> 120) in
           if List.exists (fun l -> List.hd l = "timeout") log then Printf.sprintf "PROPFAIL %s sig=timer-deadlock a timer operation never returned (8 s)" id else
           let threads = split_on '|' (kv "threads" k) in
           let fails = ref [] in
           (* StartRandom: range *)
           List.iter (function
             | [ _; "rstart"; w; d ] ->
                 let w = ZZ.of_string w and d = ZZ.of_string d in
                 let ok = if ZZ.equal w ZZ.zero then ZZ.equal d ZZ.zero else ZZ.geq d ZZ.zero && ZZ.lt d w in
                 if not ok then fails := Printf.sprintf "sig=random-delay-out-of-window StartRandom(%s) returned %s" (ZZ.to_string w) (ZZ.to_string d) :: !fails
             | _ -> ()) log;
           if List.length threads = 1 then begin
             (* one goroutine: the model's Wait return times *)
             let ops = List.filter_map (fun o -> match String.split_on_char ':' o with
               | [ "start"; d ] -> Some (TmStart (zi (int_of_string d)))
               | [ "fire" ] -> Some TmFireNow | [ "wait" ] -> Some TmWait
               | [ "sleep"; d ] -> Some (TmSleep (zi (int_of_string d))) | _ -> None) (split_on ',' (List.hd threads)) in
             let want = List.map (fun z -> ZZ.to_int (Values.z_of_coq z)) (wait_times tm0 ops) in
             let got = List.filter_map (function [ _; "wait"; _; e ] -> Some (int_of_string e) | _ -> None) log in
             if List.length want <> List.length got then fails := Printf.sprintf "sig=timer-log %d waits expected, %d logged" (List.length want) (List.length got) :: !fails
             else List.iteri (fun i w ->
               let g = List.nth got i in
               if g < w - 1 then fails := Printf.sprintf "sig=wait-returned-early Wait #%d returned at %d ms, the most recently started timer fires at %d ms" i g w :: !fails
               else if g > w + slack then fails := Printf.sprintf "sig=wait-returned-late Wait #%d returned at %d ms, it should have returned at %d ms" i g w :: !fails) want
           end else begin
             (* several goroutines: a Wait that began when no start/fire was in flight obeys the latest completed start *)
             let entries = List.filter_map (function [ _; op; b; e ] when op <> "rstart" -> Some (op, int_of_string b, int_of_string e) | _ -> None) log in
             let durs = Hashtbl.create 8 in
             List.iteri (fun ti th -> List.iteri (fun oi o -> match String.split_on_char ':' o with
               | [ "start"; d ] -> Hashtbl.replace durs (Printf.sprintf "%d.%d" ti oi) (int_of_string d) | _ -> ()) (split_on ',' th)) threads;
             let starts = List.filter_map (function [ key; "start"; b; e ] -> Some (int_of_string b, int_of_string e, (try Hashtbl.find durs key with Not_found -> 0)) | _ -> None) log in
             let fires = List.filter_map (function ("fire", b, e) -> Some (b, e) | _ -> None) entries in
             List.iter (function
               | ("wait", wb, we) ->
                   let m = 3 in
                   (* operations on the timer that overlap [wb-m, we+m] other than sleeps and waits *)
                   let interfering = List.exists (fun (b, e, _) -> e >= wb - m && b <= we + m) starts || List.exists (fun (b, e) -> e >= wb - m && b <= we + m) fires in
                   if not interfering then begin
                     let before_s = List.filter (fun (_, e, _) -> e < wb - m) starts and before_f = List.filter (fun (_, e) -> e < wb - m) fires in
                     let last_s = List.fold_left (fun acc (b, e, d) -> match acc with Some (_, e0, _) when e0 >= e -> acc | _ -> Some (b, e, d)) None before_s in
                     let last_f = List.fold_left (fun acc (_, e) -> max acc e) (-1) before_f in
                     let last_se = match last_s with Some (_, e, _) -> e | None -> -1000 in
                     if abs (last_se - last_f) <= m && last_s <> None && last_f >= 0 then ()       (* order of the last start and fire unknown *)
                     else match last_s with
                     | Some (sb, se, d) when se > last_f ->
                         if List.length (List.filter (fun (_, e, _) -> abs (e - se) <= m) before_s) = 1 then begin
                           if we < sb + d - 1 then fails := Printf.sprintf "sig=wait-returned-early a Wait returned at %d ms, the timer started at %d ms for %d ms had not fired" we sb d :: !fails
                           else if we > max wb (se + d) + slack then fails := Printf.sprintf "sig=wait-returned-late a Wait begun at %d ms returned at %d ms, the timer was due at %d ms" wb we (se + d) :: !fails
                         end
                     | _ -> if we > wb + slack then fails := Printf.sprintf "sig=wait-returned-late a Wait begun at %d ms with no timer running returned at %d ms" wb we :: !fails
                   end
               | _ -> ()) entries
           end;
           match List.rev !fails with
           | f :: _ -> Printf.sprintf "PROPFAIL %s %s" id f
           | [] -> Printf.sprintf "AGREE %s nontrivial" id)
  | _ -> "SKIP"
