#!/bin/sh
# Re-extract the models (they depend on Generated.v) and build the driver.  cwd-independent.
set -e
D=$(cd "$(dirname "$0")" && pwd)
mkdir -p "$D/gen" "$D/_build"
(cd "$D/gen" && coqc -Q "$D/../coq" FMP "$D/../coq/Extract/Extract.v" >/dev/null)
cp "$D/gen/model.ml" "$D/gen/model.mli" "$D"/*.ml "$D/_build/"
cd "$D/_build"
ocamlfind ocamlopt -w -a -package zarith,str,unix -linkpkg model.mli model.ml util.ml values.ml c18.ml dec.ml c02.ml c05.ml abstract.ml c13.ml c01.ml c19.ml c06.ml c07.ml conn.ml c17.ml driver.ml -o "$D/../bin/driver"
