(* C02 encode side: frames captured from the real API against the model's encoder and decoder. *)
open Model
open Util
open Values

let rec has_multi_map (v : mval) : bool =
  match v with
  | VMap l -> List.length l >= 2 || List.exists (fun (k, x) -> has_multi_map k || has_multi_map x) l
  | VArr l -> List.exists has_multi_map l
  | _ -> false

let events_of (ot : string list) : string list =
  let k = parse_kv (List.tl (List.tl ot)) in
  split_on ';' (kv "ev" k)

let writes_of (evs : string list) : string list =
  List.filter_map (fun e -> match String.split_on_char '/' e with
    | ["write"; h] -> Some h
    | _ -> None) evs

let inflated_of (evs : string list) : (n list * n list option) list =
  List.filter_map (fun e -> match String.split_on_char '/' e with
    | ["inflated"; c; p] -> Some (bytes_of_hex c, Some (bytes_of_hex (if p = "-" then "" else p)))
    | _ -> None) evs

let env_for (m : msg) (infl : (n list * n list option) list) : denv =
  let meth_env me =
    let (p, mm) = split_method me in [ (p, [mm]) ] in
  match m with
  | MCall (_, me, _, _) | MNotify (me, _, _) | MCallC (_, _, me, _, _) | MCancel (_, me) ->
      { protocols = meth_env me; pending = []; inflated = infl }
  | MResp (q, _, _) ->
      { protocols = []; pending = [ (q, { ci_ctype = Z0; ci_has_res = true; ci_unwrap = true }) ]; inflated = infl }

(* check one captured frame against the message the model expects; compressed = the argument/result travels
   compressed, so byte equality is replaced by decode equality through the inflate oracle *)
let check_frame (max : Model.z) (hexbytes : string) (m : msg) (expect : outcome) (compressed : bool)
    (infl : (n list * n list option) list) : string option =
  let bs = bytes_of_hex hexbytes in
  let fv = frame_val m in
  let exact = not compressed && not (has_multi_map fv) in
  let byte_problem =
    if exact then
      match encode_frame max m with
      | None -> Some "model refuses the frame as too big but the implementation wrote it"
      | Some mb -> if hex_of_bytes mb = hexbytes then None
                   else Some (Printf.sprintf "bytes differ: model=%s impl=%s" (hex_of_bytes mb) hexbytes)
    else None in
  (* a compressed argument travels as compress(msgpack(arg)): a non-empty byte string that the standard library inflates (the
     oracle table has it); the decoder's leniency towards an empty payload is not part of the wire format *)
  let payload_problem =
    if not compressed then None else
    match dec_int32 bs with
    | I32 (_, rest) ->
        (match decode rest with
         | DOk (VArr (VInt t :: els), _) when ZZ.equal (z_of_coq t) (ZZ.of_int 4) && List.length els >= 4 ->
             (match List.nth els 3 with
              | VBin [] -> Some "the compressed argument is an empty byte string, not compress(msgpack(argument))"
              | VBin pl -> (match List.assoc_opt pl infl with
                            | Some (Some _) -> None
                            | _ -> Some "the compressed argument does not inflate with the standard library")
              | _ -> Some "the compressed argument is not a byte string")
         | _ -> None)
    | _ -> None in
  match (match byte_problem with Some p -> Some p | None -> payload_problem) with
  | Some p -> Some p
  | None ->
      let (o, rest) = next_frame (env_for m infl) max bs in
      if rest <> [] then Some "the write holds more than one frame"
      else if Dec.print_outcome o <> Dec.print_outcome expect then
        Some (Printf.sprintf "decoded frame differs: model-decode=%s expected=%s" (Dec.print_outcome o) (Dec.print_outcome expect))
      else begin
        (* the length prefix is the canonical integer encoding of the content length *)
        match dec_int32 bs with
        | I32 (l, r) ->
            let p = List.length bs - List.length r in
            let canon = enc (VInt l) in
            if List.length canon <> p then Some "length prefix is not in the narrowest width" else None
        | _ -> Some "length prefix unreadable"
      end

let run_case (toks : string list) (obs : (string, string list) Hashtbl.t) : string =
  match toks with
  | "enc" :: id :: rest ->
      let k = parse_kv rest in
      (match Hashtbl.find_opt obs id with
       | None -> Printf.sprintf "MISMATCH %s no-observation" id
       | Some ot ->
           let okv = parse_kv (List.tl (List.tl ot)) in
           if kv "res" okv = "panic" then Printf.sprintf "PROPFAIL %s sig=panic scenario panicked: %s" id (kv "msg" okv) else
           let evs = events_of ot in
           let ws = writes_of evs in
           let infl = inflated_of evs in
           let max = z_to_coq (ZZ.of_string (kv "max" k)) in
           let zf name = z_to_coq (ZZ.of_string (kv name k)) in
           let meth = bytes_of_hex (kv "meth" k) in
           let tags = parse_opt (kv "tags" k) in
           let arg () = parse (kv "arg" k) in
           let has_comp c = has_compressor c in
           (* expected frames in wire order: (message to encode, expected decode, compressed?) *)
           let plain m = (m, outcome_of_msg m, false) in
           let expected : (msg * outcome * bool) list =
             match kv "kind" k with
             | "call" -> [ plain (MCall (zf "seq", meth, arg (), tags)) ]
             | "callc" ->
                 let c = zf "ctype" in
                 if has_comp c then [ (MCallC (zf "seq", c, meth, VNil, tags), OCallC (zf "seq", c, meth, arg (), tags), true) ]
                 else [ plain (MCallC (zf "seq", c, meth, arg (), tags)) ]
             | "notify" -> [ plain (MNotify (meth, arg (), tags)) ]
             | "cancel" -> [ plain (MCall (zf "seq", meth, arg (), tags)); plain (MCancel (zf "seq", meth)) ]
             | "resp" -> [ plain (MResp (zf "seq", parse (kv "err" k), parse (kv "res" k))) ]
             | _ -> [] in
           if List.length ws <> List.length expected then
             Printf.sprintf "PROPFAIL %s sig=frame-count expected %d frames on the wire, saw %d" id (List.length expected) (List.length ws)
           else begin
             let problems = List.filter_map (fun (w, (m, eo, comp)) -> check_frame max w m eo comp infl) (List.combine ws expected) in
             match problems with
             | [] ->
                 let nt = (match kv "kind" k with "call" | "callc" | "notify" -> tags <> None | _ -> true) in
                 Printf.sprintf "AGREE %s %s" id (if nt then "nontrivial" else "trivial")
             | p :: _ -> Printf.sprintf "PROPFAIL %s sig=wire-layout-%s %s" id (kv "kind" k) p
           end)
  | "dec" :: _ -> Dec.run_case toks obs
  | _ -> "SKIP"
