(* C13 and C03: the monitors of Model/Props.v on the abstracted implementation trace. *)
open Model
open Util

let with_trace (toks : string list) (obs : (string, string list) Hashtbl.t) (f : string -> (string * string) list -> string list -> aev list -> string) : string =
  match toks with
  | "scn" :: id :: rest ->
      let k = parse_kv rest in
      (match Hashtbl.find_opt obs id with
       | None -> Printf.sprintf "MISMATCH %s no-observation" id
       | Some ot ->
           let okv = parse_kv (List.tl (List.tl ot)) in
           if kv "res" okv = "panic" then Printf.sprintf "PROPFAIL %s sig=panic scenario panicked: %s" id (kv "msg" okv) else
           let evs = C02.events_of ot in
           let max = Values.z_to_coq (ZZ.of_string (let m = kv "max" k in if m = "" then "1048576" else m)) in
           f id k evs (Abstract.abstract_with (Some (Abstract.known_methods (kv "protocols" k))) max evs))
  | _ -> "SKIP"

let nt k = if kv "nt" k = "1" then "nontrivial" else "trivial"

let run_c13 toks obs =
  with_trace toks obs (fun id k evs tr ->
    if not (accepts notifier_step None tr) then Printf.sprintf "PROPFAIL %s sig=notifier-not-exact a send-notifier run is not immediately followed by the write of the frame it announces (or a call/notification frame was written unannounced)" id
    else if (let qs = List.filter_map (function ANotifier q when ZZ.geq (Values.z_of_coq q) ZZ.zero -> Some (ZZ.to_string (Values.z_of_coq q)) | _ -> None) tr in
             List.length (List.sort_uniq compare qs) <> List.length qs) then
      Printf.sprintf "PROPFAIL %s sig=notifier-twice the send notifier ran more than once for one call (same seqno)" id
    else if (let ws = List.filter_map (function AWrite fi | AWriteFail fi when (fi.fi_kind = KCall || fi.fi_kind = KCallC) -> Some (ZZ.to_string (Values.z_of_coq fi.fi_seq)) | _ -> None) tr in
             List.length (List.sort_uniq compare ws) <> List.length ws) then
      Printf.sprintf "PROPFAIL %s sig=call-frame-handed-over-twice one call frame (same seqno) was handed to the connection more than once" id
    else if not (accepts seqno_step [] tr) then Printf.sprintf "PROPFAIL %s sig=seqno-reused two call frames on the wire carry the same sequence number" id
    else if not (accepts cancel_step [] tr) then Printf.sprintf "PROPFAIL %s sig=cancel-before-call a cancellation frame precedes its call frame on the wire" id
    else if not (accepts order_step { o_returned = []; o_befores = []; o_written = [] } tr) then Printf.sprintf "PROPFAIL %s sig=order-not-kept a send that began after another had returned reached the wire before it" id
    else if List.exists (fun nn ->
              (* these sends returned a context error while the writer was stuck inside Write (script knowledge): they were
                 abandoned before the hand-off, so no call / notification frame of theirs may ever be written *)
              let nz = Values.z_to_coq (ZZ.of_string nn) in
              List.exists (function ARet (c, RCtx) -> c = nz | _ -> false) tr &&
              List.exists (function AWrite fi | AWriteFail fi -> fi.fi_nonce = nz && (fi.fi_kind = KCall || fi.fi_kind = KCallC || fi.fi_kind = KNotify) | _ -> false) tr)
            (split_on ',' (kv "neverwritten" k)) then
      Printf.sprintf "PROPFAIL %s sig=abandoned-send-written a send that returned its context's error while the writer was stuck inside Write (so it was never handed over) reached the wire afterwards" id
    else match Abstract.timeouts evs with
      | [] -> Printf.sprintf "AGREE %s %s" id (nt k)
      | t :: _ -> Printf.sprintf "MISMATCH %s harness wait timed out: %s" id t)

let run_c03 toks obs =
  with_trace toks obs (fun id k evs tr ->
    if not (frames_whole tr) then Printf.sprintf "PROPFAIL %s sig=not-a-whole-frame a Write on the connection is not exactly one complete frame within the maximum frame length" id
    else if not (refused_write_nothing tr) then Printf.sprintf "PROPFAIL %s sig=refused-but-written a send refused as too big still put a frame on the wire" id
    else begin
      (* expectations written into the case by the generator: ops that must return with a given class *)
      let exp = split_on ',' (kv "expect" k) in
      let rets = List.filter_map (function ARet (c, r) -> Some (ZZ.to_string (Values.z_of_coq c), r) | _ -> None) tr in
      let cls = function ROk -> "ok" | RAppErr -> "app" | REof -> "eof" | RCtx -> "ctx" | RTooBig -> "toobig" | RWriteErr -> "werr" | ROther -> "other" in
      let bad = List.filter (fun e ->
        match String.split_on_char ':' e with
        | [ c; want ] -> (match List.assoc_opt c rets with Some r -> not (List.mem (cls r) (String.split_on_char '+' want)) | None -> true)
        | _ -> false) exp in
      (* deterministic scripts state how many Writes they cause in total *)
      let nwrites = List.length (List.filter (function AWrite _ | AWriteFail _ -> true | _ -> false) tr) in
      let want = kv "writes" k in
      if bad = [] && want <> "" && nwrites > int_of_string want && List.exists (fun e -> match String.split_on_char ':' e with [ _; "toobig" ] -> true | _ -> false) exp then
        Printf.sprintf "PROPFAIL %s sig=refused-but-written the script's operations account for %s writes but %d were made: the refused oversize send put something on the wire" id want nwrites
      else if bad = [] && want <> "" && nwrites <> int_of_string want then
        Printf.sprintf "MISMATCH %s expected %s writes, saw %d" id want nwrites
      else
      match bad with
      | b :: _ ->
          (match String.split_on_char ':' b with
           | [ c; "toobig" ] -> Printf.sprintf "PROPFAIL %s sig=oversize-not-refused operation %s exceeds the frame limit but was not refused with the too-big error" id c
           | [ c; "ok" ] -> Printf.sprintf "PROPFAIL %s sig=connection-unusable-after-refusal operation %s after a refused oversize send did not succeed" id c
           | _ -> Printf.sprintf "MISMATCH %s expectation %s not met" id b)
      | [] ->
          (match Abstract.timeouts evs with
           | [] -> Printf.sprintf "AGREE %s %s" id (nt k)
           | t :: _ -> Printf.sprintf "MISMATCH %s harness wait timed out: %s" id t)
    end)

(* both ends are the package: the caller's cancellation must reach the handler *)
let run_e2ec toks obs =
  match toks with
  | "e2ec" :: id :: rest ->
      let k = parse_kv rest in
      (match Hashtbl.find_opt obs id with
       | None -> Printf.sprintf "MISMATCH %s no-observation" id
       | Some ot ->
           let okv = parse_kv (List.tl (List.tl ot)) in
           if kv "panic" okv <> "" then Printf.sprintf "PROPFAIL %s sig=panic %s" id (kv "panic" okv)
           else if kv "setup" okv <> "" then Printf.sprintf "MISMATCH %s could not set up a loopback pair" id
           else if kv "ret" okv <> "ctx" then
             Printf.sprintf "PROPFAIL %s sig=cancel-not-prompt:e2e-%s-%s the cancelled call returned %s after %s ms instead of its context's error" id (kv "when" k) (kv "how" k) (kv "ret" okv) (kv "retms" okv)
           else if kv "hstarted" okv = "true" && kv "hctx" okv <> "1" then
             Printf.sprintf "PROPFAIL %s sig=cancel-does-not-reach-handler:e2e-%s-%s the caller cancelled its call (frame %s), the handler ran and its context was not cancelled within 2.5 s" id (kv "when" k) (kv "how" k)
               (if kv "when" k = "inflight" then "still being written" else "already written")
           else Printf.sprintf "AGREE %s nontrivial" id)
  | _ -> "SKIP"

let run_e2eb toks obs =
  match toks with
  | "e2eb" :: id :: _ ->
      (match Hashtbl.find_opt obs id with
       | None -> Printf.sprintf "MISMATCH %s no-observation" id
       | Some ot ->
           let okv = parse_kv (List.tl (List.tl ot)) in
           let iv x = try int_of_string (kv x okv) with _ -> -1 in
           if kv "panic" okv <> "" then Printf.sprintf "PROPFAIL %s sig=panic %s" id (kv "panic" okv)
           else if kv "setup" okv <> "" then Printf.sprintf "MISMATCH %s could not set up a loopback pair" id
           else if iv "started" < iv "n" then Printf.sprintf "MISMATCH %s harness wait timed out: only %d of %d handlers started" id (iv "started") (iv "n")
           else if iv "returned" < iv "n" then
             Printf.sprintf "PROPFAIL %s sig=cancel-not-prompt:e2e-burst %d of %d calls cancelled together behind a stuck writer did not return within 3 s" id (iv "n" - iv "returned") (iv "n")
           else if iv "cancelled" < iv "n" then
             Printf.sprintf "PROPFAIL %s sig=cancel-does-not-reach-handler:e2e-burst %d calls were cancelled together while the writer was stuck; once the peer read again only %d of their handlers saw their context cancelled" id (iv "n") (iv "cancelled")
           else Printf.sprintf "AGREE %s nontrivial" id)
  | _ -> "SKIP"

let run_e2en toks obs =
  match toks with
  | "e2en" :: id :: rest ->
      let k = parse_kv rest in
      (match Hashtbl.find_opt obs id with
       | None -> Printf.sprintf "MISMATCH %s no-observation" id
       | Some ot ->
           let okv = parse_kv (List.tl (List.tl ot)) in
           if kv "panic" okv <> "" then Printf.sprintf "PROPFAIL %s sig=panic %s" id (kv "panic" okv)
           else if kv "setup" okv <> "" then Printf.sprintf "MISMATCH %s setup failed: %s" id (kv "setup" okv)
           else if kv "foreign" okv <> "0" then
             Printf.sprintf "PROPFAIL %s sig=foreign-cancel:e2e-notify-abandoned-%s %s running notification handler(s) had their context cancelled although nobody cancelled them and the transport was open (a later Notify was abandoned by its caller while its frame was being written)" id (kv "how" k) (kv "foreign" okv)
           else Printf.sprintf "AGREE %s nontrivial" id)
  | _ -> "SKIP"

(* a Connection over real transports: the Connection's own client against a scripted server *)
let run_cc toks obs =
  match toks with
  | "cc" :: id :: rest ->
      (match Hashtbl.find_opt obs id with
       | None -> Printf.sprintf "MISMATCH %s no-observation" id
       | Some ot ->
           let okv = parse_kv (List.tl (List.tl ot)) in
           let k = parse_kv rest in
           let maxret = (try int_of_string (kv "maxret" k) with _ -> 0) and retms = (try int_of_string (kv "retms" okv) with _ -> 0) in
           if kv "panic" okv <> "" then Printf.sprintf "PROPFAIL %s sig=panic %s" id (kv "panic" okv)
           else if maxret > 0 && retms > maxret then
             Printf.sprintf "PROPFAIL %s sig=cancel-not-prompt:connection-client-retry a call with a %s ms timeout made through the Connection's client returned after %d ms (every attempt carries the timeout: at most %d ms here)" id (kv "timeout" k) retms maxret
           else if kv "atret" okv <> kv "after" okv then
             Printf.sprintf "PROPFAIL %s sig=late-write:connection-client the result value of a call made through the Connection's client changed after the call had returned (%s at return after %s ms, %s later; error %s)" id
               (kv "atret" okv) (kv "retms" okv) (kv "after" okv) (kv "err" okv)
           else if kv "err" okv = "-" && kv "atret" okv = "s:696e697469616c" then
             Printf.sprintf "PROPFAIL %s sig=wrong-result:connection-client the call returned success but its result value was not written" id
           else Printf.sprintf "AGREE %s nontrivial" id)
  | _ -> "SKIP"

(* the second half of C09 is a statement about quiescent points after the transport began to stop: the harness marks each
   point at which it judged the run quiescent ("settled"); the predicate is evaluated on every prefix that ends at one *)
let quiescent_prefixes_ok k (evs : string list) : bool =
  let max = Values.z_to_coq (ZZ.of_string (let m = kv "max" k in if m = "" then "1048576" else m)) in
  let known = Some (Abstract.known_methods (kv "protocols" k)) in
  let rec go (pre : string list) (rest : string list) =
    match rest with
    | [] -> true
    | "settled" :: r -> c09_close_cancels_all (Abstract.abstract_with known max (List.rev pre)) && go ("settled" :: pre) r
    | e :: r -> go (e :: pre) r in
  go [] evs

let run_c09 toks obs =
  match toks with "e2ec" :: _ -> run_e2ec toks obs | "e2eb" :: _ -> run_e2eb toks obs | "e2en" :: _ -> run_e2en toks obs | _ ->
  with_trace toks obs (fun id k evs tr ->
    if not (c09_only_own tr) then Printf.sprintf "PROPFAIL %s sig=%s a handler's context was cancelled although its caller did not cancel it and the transport was not closing" id
        (if kv "family" k = "" then "foreign-cancel" else "foreign-cancel:" ^ kv "family" k)
    else if not (c09_close_cancels_all tr) || not (quiescent_prefixes_ok k evs) then Printf.sprintf "PROPFAIL %s sig=%s the transport stopped but a handler still running did not have its context cancelled" id
        (if kv "family" k = "" then "not-cancelled-on-close" else "not-cancelled-on-close:" ^ kv "family" k)
    else match Abstract.timeouts evs with
      | [] -> Printf.sprintf "AGREE %s %s" id (nt k)
      | t :: _ -> Printf.sprintf "MISMATCH %s harness wait timed out: %s" id t)

let run_c11 toks obs =
  with_trace toks obs (fun id k evs tr ->
    let calls = List.filter_map (fun e -> match String.split_on_char '/' e with
      | [ "callstart"; c ] when String.length c > 0 && c.[0] = 'c' -> Some (Abstract.id_num c) | _ -> None) evs in
    if List.mem "timeout/close-returns" evs then
      Printf.sprintf "PROPFAIL %s sig=%s Close did not return: the transport is stopped but its connection was never closed and its loops are still there" id
        (if kv "family" k = "" then "close-hangs" else "close-hangs:" ^ kv "family" k)
    else if not (c11_pred calls tr) then begin
      let dump = List.filter (fun e -> String.length e >= 5 && String.sub e 0 5 = "dump/") evs in
      Printf.sprintf "PROPFAIL %s sig=%s at quiescence a goroutine of the library survives a stopped transport whose handlers and calls have all returned, or the pending-call table holds a call that is not outstanding; %s" id
        (if kv "family" k = "" then "leak" else "leak:" ^ kv "family" k) (String.concat " " dump)
    end
    else match Abstract.timeouts evs with
      | [] -> Printf.sprintf "AGREE %s %s" id (nt k)
      | t :: _ -> Printf.sprintf "MISMATCH %s harness wait timed out: %s" id t)

(* C10: nobody blocks for ever.  Every harness wait that timed out names an API call, a Close or a handler that is still
   blocked; every operation outstanding when the transport stopped returns io.EOF, the write error or its context's
   error (or the reply that had already arrived); operations started after the stop fail at once with io.EOF. *)
let run_c10 toks obs =
  with_trace toks obs (fun id k evs tr ->
    let fam = if kv "family" k = "" then "" else ":" ^ kv "family" k in
    match Abstract.timeouts evs with
    | t :: _ -> Printf.sprintf "PROPFAIL %s sig=blocked-forever%s still blocked after the bound: %s" id fam t
    | [] ->
        let exp = split_on ',' (kv "expect" k) in
        let rets = List.filter_map (function ARet (c, r) -> Some (ZZ.to_string (Values.z_of_coq c), r) | _ -> None) tr in
        let cls = function ROk -> "ok" | RAppErr -> "app" | REof -> "eof" | RCtx -> "ctx" | RTooBig -> "toobig" | RWriteErr -> "werr" | ROther -> "other" in
        let bad = List.filter (fun e ->
          match String.split_on_char ':' e with
          | [ c; want ] -> (match List.assoc_opt c rets with Some r -> not (List.mem (cls r) (String.split_on_char '+' want)) | None -> true)
          | _ -> false) exp in
        match bad with
        | b :: _ -> Printf.sprintf "PROPFAIL %s sig=wrong-error-after-stop%s an operation did not end with an allowed result (%s; got %s)" id fam b
                      (match String.split_on_char ':' b with c :: _ -> (match List.assoc_opt c rets with Some r -> cls r | None -> "no return") | _ -> "?")
        | [] -> Printf.sprintf "AGREE %s %s" id (nt k))
