(* C19: context derivation trees against Model/Tags.v, and the tags on frames written by the client. *)
open Model
open Util
open Values

let good = { t_read_copies = true; t_add_copies = true }

let tagmap_of_text (s : string) : (n list * mval) list =
  if s = "-" || s = "" then [] else
  match parse s with
  | VMap l -> List.filter_map (fun (k, v) -> match k with VStr b -> Some (b, v) | _ -> None) l
  | _ -> []

let print_tagmap (t : (n list * mval) list) : string = print (VMap (List.map (fun (k, v) -> (VStr k, v)) t))

let run_case toks obs =
  match toks with
  | "tags" :: id :: rest ->
      let k = parse_kv rest in
      (match Hashtbl.find_opt obs id with
       | None -> Printf.sprintf "MISMATCH %s no-observation" id
       | Some ot ->
           let okv = parse_kv (List.tl (List.tl ot)) in
           if kv "res" okv = "panic" then Printf.sprintf "PROPFAIL %s sig=panic tag functions panicked: %s" id (kv "msg" okv) else
           let ops = split_on ';' (kv "ops" k) in
           let iviews = split_on ';' (kv "views" okv) in
           (* run the model, mapping the harness' client-map indices and context indices to model ids *)
           let h = ref th0 and cmaps = ref [] and cctx = ref [ Z0 ] in
           let bad = ref None in
           let prev_view = ref "" in
           List.iteri (fun i op ->
             let f = String.split_on_char ':' op in
             let nth l j = List.nth (List.rev !l) j in
             let idx s = int_of_string s in
             let mop =
               (match f with
                | "new" :: r -> Some (TNewMap (tagmap_of_text (String.concat ":" r)))
                | [ "add"; c; m ] -> if idx c < List.length !cctx && idx m < List.length !cmaps then Some (TAdd (nth cctx (idx c), nth cmaps (idx m))) else None
                | [ "read"; c ] -> if idx c < List.length !cctx then Some (TRead (nth cctx (idx c))) else None
                | [ "der"; c; _ ] -> if idx c < List.length !cctx then Some (TDerive (nth cctx (idx c))) else None
                | "mut" :: m :: kx :: v -> if idx m < List.length !cmaps then Some (TMutate (nth cmaps (idx m), bytes_of_hex kx, parse (String.concat ":" v))) else None
                | _ -> None) in
             (match mop with
              | Some o ->
                  let (h', res) = tstep good !h o in
                  h := h';
                  (match o, res with
                   | TNewMap _, Some m | TRead _, Some m -> cmaps := m :: !cmaps
                   | TAdd _, Some c | TDerive _, Some c -> cctx := c :: !cctx
                   | _ -> ())
              | None -> ());
             let mview = String.concat "|" (List.map (fun c -> match tags_of !h c with Some t -> print_tagmap t | None -> "-") (List.rev !cctx)) in
             let iview = (try List.nth iviews i with _ -> "?") in
             if !bad = None && mview <> iview then begin
               (* is it a violation of the property itself? an old context's view changed *)
               let old_changed =
                 (let a = String.split_on_char '|' !prev_view and b = String.split_on_char '|' iview in
                  !prev_view <> "" && List.length b >= List.length a &&
                  List.exists2 (fun x y -> x <> y) a (List.filteri (fun j _ -> j < List.length a) b)) in
               bad := Some (i, op, mview, iview, old_changed)
             end;
             prev_view := iview) ops;
           (match !bad with
            | Some (i, op, m, im, true) ->
                Printf.sprintf "PROPFAIL %s sig=context-mutated op#%d (%s): the tags seen through a previously derived context changed: %s (model %s)" id i op im m
            | Some (i, op, m, im, false) ->
                Printf.sprintf "MISMATCH %s op#%d (%s): model views %s, implementation %s" id i op m im
            | None -> Printf.sprintf "AGREE %s %s" id (if List.length ops >= 3 then "nontrivial" else "trivial")))
  | "scn" :: _ when List.exists (fun t -> String.length t >= 10 && String.sub t 0 10 = "expectinv=") toks ->
      (* the serving side: what each handler saw, judged as in C01 *)
      C01.run_c01 toks obs
  | "scn" :: _ ->
      (* tags on the frames the client writes: expectation computed by Model.traveling_tags *)
      C13.with_trace toks obs (fun id k evs tr ->
        let is_call = kv "tkind" k <> "notify" in
        let ctx_tags = (match kv "ctxtags" k with "-" | "" -> None | s -> Some (tagmap_of_text s)) in
        let selected = tagmap_of_text (kv "selected" k) in
        let want = traveling_tags is_call (kv "tagsfunc" k = "1") ctx_tags selected in
        let want_s = (match want with None -> "-" | Some t -> print_tagmap t) in
        (* the first frame written is the message *)
        let frames = C02.writes_of evs in
        match frames with
        | [] -> Printf.sprintf "MISMATCH %s nothing written" id
        | h :: _ ->
            let bs = bytes_of_hex h in
            let got =
              (match dec_int32 bs with
               | I32 (_, rest) ->
                   (match decode rest with
                    | DOk (VArr (VInt t :: els), _) ->
                        let ti = ZZ.to_int (z_of_coq t) in
                        let base = (match ti with 0 -> 3 | 4 -> 4 | 2 -> 2 | _ -> 99) in
                        if List.length els > base then print (List.nth els base) else "-"
                    | _ -> "?")
               | _ -> "?") in
            (* and what the handler on the other side would see: feed the frame to the model decoder *)
            (* the caller's own context shows the same tags after the operation as before it *)
            let mutated = List.filter_map (fun e -> match String.split_on_char '/' e with
              | "ctxtags" :: cid :: b :: a :: _ when b <> a -> Some (cid, b, a)
              | _ -> None) evs in
            if got <> want_s then
              Printf.sprintf "PROPFAIL %s sig=tags-not-delivered:%s the frame carries tags %s, the caller's context and tag function give %s" id (kv "tkind" k) got want_s
            else (match mutated with
              | (cid, b, a) :: _ ->
                  Printf.sprintf "PROPFAIL %s sig=caller-context-mutated:%s the caller's own context showed tags %s before operation %s and %s after it" id (kv "tkind" k) b cid a
              | [] -> C01.timeouts_or_agree id k evs))
  | _ -> "SKIP"
