(* From the Go harness' event strings to the abstract events of Model/Events.v.  Trusted glue. *)
open Model
open Util
open Values

let zc (i : int) : Model.z = z_to_coq (ZZ.of_int i)

(* the nonce convention: arguments and results are a[i:<nonce>, ...] *)
let nonce_of (v : mval) : Model.z =
  match v with
  | VArr (VInt n :: _) -> n
  | VInt n -> n
  | _ -> zc (-1)

let frame_info_of (max : Model.z) (infl : (n list * n list option) list) (bs : n list) : frame_info =
  let bad = { fi_kind = KBad; fi_seq = zc (-1); fi_nonce = zc (-1); fi_ok = false } in
  match dec_int32 bs with
  | I32 (l, rest) ->
      let lz = z_of_coq l in
      if ZZ.leq lz ZZ.zero || ZZ.gt lz (z_of_coq max) || ZZ.to_int lz <> List.length rest then bad
      else begin
        match decode rest with
        | DOk (VArr (VInt t :: els), []) ->
            let ti = ZZ.to_int (z_of_coq t) in
            let whole k q nn = { fi_kind = k; fi_seq = q; fi_nonce = nn; fi_ok = true } in
            (match ti, els with
             | 0, VInt q :: _ :: a :: _ -> whole KCall q (nonce_of a)
             | 4, VInt q :: _ :: _ :: a :: _ ->
                 let a' = (match a with
                           | VBin p -> (match List.assoc_opt p infl with
                                        | Some (Some plain) -> (match decode plain with DOk (v, _) -> v | _ -> a)
                                        | _ -> a)
                           | _ -> a) in
                 whole KCallC q (nonce_of a')
             | 1, VInt q :: _ :: r :: _ ->
                 let r' = (match r with
                           | VBin p -> (match List.assoc_opt p infl with
                                        | Some (Some plain) -> (match decode plain with DOk (v, _) -> v | _ -> r)
                                        | _ -> r)
                           | _ -> r) in
                 whole KResp q (nonce_of r')
             | 2, _ :: a :: _ -> whole KNotify (zc (-1)) (nonce_of a)
             | 3, VInt q :: _ -> whole KCancel q (zc (-1))
             | _ -> { bad with fi_ok = true })
        | _ -> bad
      end
  | _ -> bad

let rclass_of (s : string) : rclass =
  if s = "nil" then ROk
  else if String.length s >= 4 && String.sub s 0 4 = "app:" then RAppErr
  else match s with
    | "eof" -> REof
    | "ctx-canceled" | "ctx-deadline" -> RCtx
    | "too-big" -> RTooBig
    | "write-injected" | "op" -> RWriteErr
    | _ -> ROther

let id_num (s : string) : Model.z =
  (* c12 / n3 / h0 -> 12 / 3 / 0 *)
  let digits = String.concat "" (List.filter_map (fun c -> if c >= '0' && c <= '9' then Some (String.make 1 c) else None)
                                   (List.init (String.length s) (String.get s))) in
  if digits = "" then zc (-1) else z_to_coq (ZZ.of_string digits)

let sample_kv (body : string) : (string * string) list =
  List.filter_map (fun kvs ->
    match String.index_opt kvs '=' with
    | Some i -> Some (String.sub kvs 0 i, String.sub kvs (i + 1) (String.length kvs - i - 1))
    | None -> None) (String.split_on_char ',' body)

let abstract (max : Model.z) (evs : string list) : aev list =
  let infl = C02.inflated_of evs in
  let fed : (string * frame_info) list ref = ref [] in     (* nonce (decimal) -> request frame *)
  List.filter_map (fun e ->
    match String.split_on_char '/' e with
    | [ "callstart"; c ] -> Some (AStart (id_num c))
    | [ "sn"; q ] -> Some (ANotifier (z_to_coq (ZZ.of_string q)))
    | [ "write"; h ] -> Some (AWrite (frame_info_of max infl (bytes_of_hex h)))
    | [ "write"; h; "partial" ] -> None
    | [ "writefail"; h ] -> Some (AWriteFail (frame_info_of max infl (bytes_of_hex h)))
    | "ret" :: c :: cls :: _ -> Some (ARet (id_num c, rclass_of cls))
    | [ "cancel"; c ] -> Some (ACtx (id_num c))
    | [ "feed"; h ] ->
        let fi = frame_info_of max infl (bytes_of_hex (if h = "-" then "" else h)) in
        fed := (ZZ.to_string (z_of_coq fi.fi_nonce), fi) :: !fed;
        Some (AFeed (fi, true))
    | "hstart" :: h :: _ :: a :: _ ->
        let nn = (try nonce_of (parse a) with _ -> zc (-1)) in
        let fi = (match List.assoc_opt (ZZ.to_string (z_of_coq nn)) !fed with
                  | Some fi -> fi
                  | None -> { fi_kind = KBad; fi_seq = zc (-1); fi_nonce = nn; fi_ok = true }) in
        Some (AHStart (id_num h, fi))
    | [ "hctx"; h ] -> Some (AHCtx (id_num h))
    | [ "hret"; h ] -> Some (AHRet (id_num h))
    | [ "close-begin" ] -> Some ACloseBegin
    | [ "close-end" ] -> Some ACloseEnd
    | [ "connclose" ] -> Some AConnClose
    | [ "readerr"; _ ] -> Some AReadErr
    | "observe" :: _ :: rest ->
        let k = sample_kv (String.concat "/" rest) in
        let g x = try List.assoc x k with Not_found -> "" in
        let code = (match g "err" with
                    | "nil" -> 0 | "eof" -> 1 | "ueof" -> 2 | "packetizer" -> 3 | "decode" -> 4 | "injected" -> 5 | "op" -> 6 | "codec" -> 7
                    | _ -> 8) in
        Some (AObserve (g "done" = "1", g "connected" = "1", zc code))
    | "watch-violation" :: _ -> Some AWatchViolation
    | "sample" :: _ :: rest ->
        let k = sample_kv (String.concat "/" rest) in
        let g x = try List.assoc x k with Not_found -> "" in
        let zi x = z_to_coq (ZZ.of_string (if g x = "" then "0" else g x)) in
        Some (ASample (zi "pending", zi "goroutines", g "done" = "1", g "connected" = "1", g "err" = "nil"))
    | _ -> None) evs

let timeouts (evs : string list) : string list =
  List.filter (fun e -> String.length e >= 8 && String.sub e 0 8 = "timeout/") evs
