(* From the Go harness' event strings to the abstract events of Model/Events.v.  Trusted glue. *)
open Model
open Util
open Values

let zc (i : int) : Model.z = z_to_coq (ZZ.of_int i)

(* the nonce convention: arguments and results are a[i:<nonce>, ...] *)
let nonce_of (v : mval) : Model.z =
  match v with
  | VArr (VInt n :: _) -> n
  | VInt n -> n
  | _ -> zc (-1)

let frame_info_of (max : Model.z) (infl : (n list * n list option) list) (bs : n list) : frame_info =
  let bad = { fi_kind = KBad; fi_seq = zc (-1); fi_nonce = zc (-1); fi_ok = false } in
  match dec_int32 bs with
  | I32 (l, rest) ->
      let lz = z_of_coq l in
      if ZZ.leq lz ZZ.zero || ZZ.gt lz (z_of_coq max) || ZZ.to_int lz <> List.length rest then bad
      else begin
        match decode rest with
        | DOk (VArr (VInt t :: els), []) ->
            let ti = ZZ.to_int (z_of_coq t) in
            let whole k q nn = { fi_kind = k; fi_seq = q; fi_nonce = nn; fi_ok = true } in
            (match ti, els with
             | 0, VInt q :: _ :: a :: _ -> whole KCall q (nonce_of a)
             | 4, VInt q :: _ :: _ :: a :: _ ->
                 let a' = (match a with
                           | VBin p -> (match List.assoc_opt p infl with
                                        | Some (Some plain) -> (match decode plain with DOk (v, _) -> v | _ -> a)
                                        | _ -> a)
                           | _ -> a) in
                 whole KCallC q (nonce_of a')
             | 1, VInt q :: _ :: r :: _ ->
                 let r' = (match r with
                           | VBin p -> (match List.assoc_opt p infl with
                                        | Some (Some plain) -> (match decode plain with DOk (v, _) -> v | _ -> r)
                                        | _ -> r)
                           | _ -> r) in
                 whole KResp q (nonce_of r')
             | 2, _ :: a :: _ -> whole KNotify (zc (-1)) (nonce_of a)
             | 3, VInt q :: _ -> whole KCancel q (zc (-1))
             | _ -> { bad with fi_ok = true })
        | _ -> bad
      end
  | _ -> bad

let rclass_of (s : string) : rclass =
  if s = "nil" then ROk
  else if String.length s >= 4 && String.sub s 0 4 = "app:" then RAppErr
  else match s with
    | "eof" -> REof
    | "ctx-canceled" | "ctx-deadline" -> RCtx
    | "too-big" -> RTooBig
    | "write-injected" | "op" -> RWriteErr
    | _ -> ROther

let id_num (s : string) : Model.z =
  (* c12 / n3 / h0 -> 12 / 3 / 0 *)
  let digits = String.concat "" (List.filter_map (fun c -> if c >= '0' && c <= '9' then Some (String.make 1 c) else None)
                                   (List.init (String.length s) (String.get s))) in
  if digits = "" then zc (-1) else z_to_coq (ZZ.of_string digits)

let abstract (max : Model.z) (evs : string list) : aev list =
  let infl = C02.inflated_of evs in
  List.filter_map (fun e ->
    match String.split_on_char '/' e with
    | [ "callstart"; c ] -> Some (AStart (id_num c))
    | [ "sn"; q ] -> Some (ANotifier (z_to_coq (ZZ.of_string q)))
    | [ "write"; h ] -> Some (AWrite (frame_info_of max infl (bytes_of_hex h)))
    | [ "write"; h; "partial" ] -> None
    | [ "writefail"; h ] -> Some (AWriteFail (frame_info_of max infl (bytes_of_hex h)))
    | "ret" :: c :: cls :: _ -> Some (ARet (id_num c, rclass_of cls))
    | [ "cancel"; c ] -> Some (ACtx (id_num c))
    | "hstart" :: h :: _ :: a :: _ ->
        let nn = (try nonce_of (parse a) with _ -> zc (-1)) in
        Some (AHStart (id_num h, { fi_kind = KBad; fi_seq = zc (-1); fi_nonce = nn; fi_ok = true }))
    | [ "hctx"; h ] -> Some (AHCtx (id_num h))
    | [ "hret"; h ] -> Some (AHRet (id_num h))
    | [ "close-begin" ] -> Some ACloseBegin
    | [ "close-end" ] -> Some ACloseEnd
    | [ "connclose" ] -> Some AConnClose
    | _ -> None) evs

let timeouts (evs : string list) : string list =
  List.filter (fun e -> String.length e >= 8 && String.sub e 0 8 = "timeout/") evs
