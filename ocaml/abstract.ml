(* From the Go harness' event strings to the abstract events of Model/Events.v.  Trusted glue. *)
open Model
open Util
open Values

let zc (i : int) : Model.z = z_to_coq (ZZ.of_int i)

(* the nonce convention: arguments and results are a[i:<nonce>, ...] *)
let nonce_of (v : mval) : Model.z =
  match v with
  | VArr (VInt n :: _) -> n
  | VInt n -> n
  | _ -> zc (-1)

let frame_info_of (max : Model.z) (infl : (n list * n list option) list) (bs : n list) : frame_info =
  let bad = { fi_kind = KBad; fi_seq = zc (-1); fi_nonce = zc (-1); fi_ok = false } in
  match dec_int32 bs with
  | I32 (l, rest) ->
      let lz = z_of_coq l in
      if ZZ.leq lz ZZ.zero || ZZ.gt lz (z_of_coq max) || ZZ.to_int lz <> List.length rest then bad
      else begin
        match decode rest with
        | DOk (VArr (VInt t :: els), []) ->
            let ti = ZZ.to_int (z_of_coq t) in
            let whole k q nn = { fi_kind = k; fi_seq = q; fi_nonce = nn; fi_ok = true } in
            (match ti, els with
             | 0, VInt q :: _ :: a :: _ -> whole KCall q (nonce_of a)
             | 4, VInt q :: _ :: _ :: a :: _ ->
                 let a' = (match a with
                           | VBin p -> (match List.assoc_opt p infl with
                                        | Some (Some plain) -> (match decode plain with DOk (v, _) -> v | _ -> a)
                                        | _ -> a)
                           | _ -> a) in
                 whole KCallC q (nonce_of a')
             | 1, VInt q :: _ :: r :: _ ->
                 let r' = (match r with
                           | VBin p -> (match List.assoc_opt p infl with
                                        | Some (Some plain) -> (match decode plain with DOk (v, _) -> v | _ -> r)
                                        | _ -> r)
                           | _ -> r) in
                 whole KResp q (nonce_of r')
             | 2, _ :: a :: _ -> whole KNotify (zc (-1)) (nonce_of a)
             | 3, VInt q :: _ -> whole KCancel q (zc (-1))
             | _ -> { bad with fi_ok = true })
        | _ -> bad
      end
  | _ -> bad

let rclass_of (s : string) : rclass =
  if s = "nil" then ROk
  else if String.length s >= 4 && String.sub s 0 4 = "app:" then RAppErr
  else match s with
    | "eof" -> REof
    | "ctx-canceled" | "ctx-deadline" -> RCtx
    | "too-big" -> RTooBig
    | "write-injected" | "op" -> RWriteErr
    | _ -> ROther

let id_num (s : string) : Model.z =
  (* c12 / n3 / h0 -> 12 / 3 / 0 *)
  let digits = String.concat "" (List.filter_map (fun c -> if c >= '0' && c <= '9' then Some (String.make 1 c) else None)
                                   (List.init (String.length s) (String.get s))) in
  if digits = "" then zc (-1) else z_to_coq (ZZ.of_string digits)

let sample_kv (body : string) : (string * string) list =
  List.filter_map (fun kvs ->
    match String.index_opt kvs '=' with
    | Some i -> Some (String.sub kvs 0 i, String.sub kvs (i + 1) (String.length kvs - i - 1))
    | None -> None) (String.split_on_char ',' body)

let kind_of_tag (t : string) : fkind =
  match t with
  | "Call" -> KCall | "CallCompressed" -> KCallC | "Response" -> KResp | "Notify" -> KNotify | "Cancel" -> KCancel | _ -> KBad

(* method name of a request frame (as bytes), if it is one *)
let method_of (bs : n list) : string option =
  match dec_int32 bs with
  | I32 (_, rest) ->
      (match decode rest with
       | DOk (VArr (VInt t :: els), _) ->
           (match ZZ.to_int (z_of_coq t), els with
            | 0, _ :: VStr m :: _ -> Some (string_of_bytes m)
            | 4, _ :: _ :: VStr m :: _ -> Some (string_of_bytes m)
            | 2, VStr m :: _ -> Some (string_of_bytes m)
            | _ -> None)
       | _ -> None)
  | _ -> None

let abstract_with (known0 : string list option) (max : Model.z) (evs : string list) : aev list =
  let infl = C02.inflated_of evs in
  (* the registered methods grow when a protocol is registered on the running transport ("registered/<name hex>:<methods>") *)
  let known_now : string list option ref = ref known0 in
  let late_methods (spec : string) : string list =
    match String.index_opt spec ':' with
    | Some i ->
        let p = string_of_hex (String.sub spec 0 i) in
        List.map (fun m -> let mn = string_of_hex m in if p = "" then mn else p ^ "." ^ mn)
          (split_on '+' (String.sub spec (i + 1) (String.length spec - i - 1)))
    | None -> [] in
  let fed : (string * frame_info) list ref = ref [] in     (* nonce (decimal) -> request frame *)
  (* operations that have returned: a context ended AFTER its operation returned is no cancellation of that operation *)
  let returned : string list ref = ref [] in
  List.concat_map (fun e ->
    match String.split_on_char '/' e with
    | "ret" :: c :: "nil" :: buf :: _ ->
        returned := c :: !returned;
        let r = (try nonce_of (parse buf) with _ -> zc (-1)) in
        [ ARet (id_num c, ROk); AResult (id_num c, r) ]
    | [ "feed"; h ] ->
        (* split the fed bytes into frames along their length prefixes; a remainder that is not a whole frame is one
           (malformed) event *)
        let rec split (bs : n list) (acc : aev list) : aev list =
          if bs = [] then List.rev acc else
          match dec_int32 bs with
          | I32 (l, rest) when ZZ.gt (z_of_coq l) ZZ.zero && ZZ.to_int (z_of_coq l) <= List.length rest ->
              let li = ZZ.to_int (z_of_coq l) in
              let plen = List.length bs - List.length rest in
              let rec take n l = if n = 0 then [] else match l with [] -> [] | x :: t -> x :: take (n - 1) t in
              let rec drop n l = if n = 0 then l else match l with [] -> [] | _ :: t -> drop (n - 1) t in
              let fb = take (plen + li) bs in
              let fi = frame_info_of max infl fb in
              fed := (ZZ.to_string (z_of_coq fi.fi_nonce), fi) :: !fed;
              let kn = (match !known_now, method_of fb with
                        | Some l, Some m -> List.mem m l
                        | _, _ -> true) in
              split (drop li rest) (AFeed (fi, kn) :: acc)
          | _ ->
              let fi = frame_info_of max infl bs in
              List.rev (AFeed (fi, true) :: acc) in
        split (bytes_of_hex (if h = "-" then "" else h)) []
    | [ "registered"; spec ] ->
        (match !known_now with Some l -> known_now := Some (late_methods spec @ l) | None -> ());
        []
    | [ "bufs"; body ] ->
        List.filter_map (fun kvs -> match String.split_on_char '=' kvs with
          | [ c; v ] -> Some (ABuf (id_num c, v = "1")) | _ -> None) (String.split_on_char ',' body)
    | [ "record"; tag; size ] ->
        (* tag = "<Type> <method>"; the method's trailing digits identify the operation *)
        let t = string_of_hex (if tag = "-" then "" else tag) in
        (match String.index_opt t ' ' with
         | Some i ->
             let ty = String.sub t 0 i and me = String.sub t (i + 1) (String.length t - i - 1) in
             [ ARecord (kind_of_tag ty, id_num me, z_to_coq (ZZ.of_string size)) ]
         | None -> [ ARecord (KBad, zc (-1), z_to_coq (ZZ.of_string size)) ])
    | _ -> (match (fun e ->
    match String.split_on_char '/' e with
    | [ "callstart"; c ] -> Some (AStart (id_num c))
    | [ "sn"; q ] -> Some (ANotifier (z_to_coq (ZZ.of_string q)))
    | [ "write"; h ] -> Some (AWrite (frame_info_of max infl (bytes_of_hex h)))
    | [ "write"; h; "partial" ] -> None
    | [ "writefail"; h ] -> Some (AWriteFail (frame_info_of max infl (bytes_of_hex h)))
    | "ret" :: c :: cls :: _ -> returned := c :: !returned; Some (ARet (id_num c, rclass_of cls))
    | [ "cancel"; c ] -> if List.mem c !returned then None else Some (ACtx (id_num c))
    | [ "feed"; h ] -> None   (* handled below: one event per frame in the fed bytes *)
    | "hstart" :: h :: _ :: a :: _ ->
        let nn = (try nonce_of (parse a) with _ -> zc (-1)) in
        let fi = (match List.assoc_opt (ZZ.to_string (z_of_coq nn)) !fed with
                  | Some fi -> fi
                  | None -> { fi_kind = KBad; fi_seq = zc (-1); fi_nonce = nn; fi_ok = true }) in
        Some (AHStart (id_num h, fi))
    | [ "hctx"; h ] -> Some (AHCtx (id_num h))
    | [ "hret"; h ] -> Some (AHRet (id_num h))
    | [ "close-begin" ] -> Some ACloseBegin
    | [ "close-end" ] -> Some ACloseEnd
    | [ "connclose" ] -> Some AConnClose
    | [ "readerr"; _ ] -> Some AReadErr
    | "observe" :: _ :: rest ->
        let k = sample_kv (String.concat "/" rest) in
        let g x = try List.assoc x k with Not_found -> "" in
        let code = (match g "err" with
                    | "nil" -> 0 | "eof" -> 1 | "ueof" -> 2 | "packetizer" -> 3 | "decode" -> 4 | "injected" -> 5 | "op" -> 6 | "codec" -> 7
                    | _ -> 8) in
        Some (AObserve (g "done" = "1", g "connected" = "1", zc code))
    | "watch-violation" :: _ -> Some AWatchViolation
    | "sample" :: _ :: rest ->
        let k = sample_kv (String.concat "/" rest) in
        let g x = try List.assoc x k with Not_found -> "" in
        let zi x = z_to_coq (ZZ.of_string (if g x = "" then "0" else g x)) in
        (* the goroutine count is a difference to a baseline taken when the case started; a goroutine of an EARLIER case that
           was still exiting then makes it negative: that is measurement noise, not a leak *)
        let gz = let z = ZZ.of_string (if g "goroutines" = "" then "0" else g "goroutines") in z_to_coq (if ZZ.lt z ZZ.zero then ZZ.zero else z) in
        Some (ASample (zi "pending", gz, g "done" = "1", g "connected" = "1", g "err" = "nil"))
    | _ -> None) e with Some x -> [ x ] | None -> [])) evs

let abstract (max : Model.z) (evs : string list) : aev list = abstract_with None max evs

(* protocols=<prot hex>:<m hex>+<m hex>;...  ->  full method names *)
let known_methods (spec : string) : string list =
  if spec = "" || spec = "-" then [] else
  List.concat_map (fun ps ->
    match String.index_opt ps ':' with
    | Some i ->
        let p = string_of_hex (String.sub ps 0 i) in
        let ms = split_on '+' (String.sub ps (i + 1) (String.length ps - i - 1)) in
        List.map (fun m -> let mn = string_of_hex m in if p = "" then mn else p ^ "." ^ mn) ms
    | None -> []) (String.split_on_char ';' spec)

let timeouts (evs : string list) : string list =
  List.filter (fun e -> String.length e >= 8 && String.sub e 0 8 = "timeout/") evs
