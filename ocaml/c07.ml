(* C07: not-found requests answered and harmless, strays ignored, fatal classes fatal, lifecycle observers agree. *)
open Model
open Util

let contains (hay : string) (needle : string) : bool =
  let n = String.length needle and h = String.length hay in
  let rec go i = i + n <= h && (String.sub hay i n = needle || go (i + 1)) in
  n = 0 || go 0

(* error text of every response frame on the wire, by seqno *)
let response_errors (evs : string list) : (string * string) list =
  List.filter_map (fun e ->
    match String.split_on_char '/' e with
    | [ "write"; h ] ->
        let bs = bytes_of_hex h in
        (match dec_int32 bs with
         | I32 (_, rest) ->
             (match decode rest with
              | DOk (VArr (VInt t :: VInt q :: er :: _), _) when ZZ.equal (Values.z_of_coq t) ZZ.one ->
                  let txt = (match er with VStr s -> string_of_bytes s | VNil -> "" | v -> Values.print v) in
                  Some (ZZ.to_string (Values.z_of_coq q), txt)
              | _ -> None)
         | _ -> None)
    | _ -> None) evs

(* both ends are the package: a call (plain, then compressed, then plain again) naming a protocol or method nobody
   registered.  Each must be answered with the same not-found error, and the connection must go on working. *)
let run_e2e toks obs =
  match toks with
  | "e2e" :: id :: rest ->
      let k = parse_kv rest in
      (match Hashtbl.find_opt obs id with
       | None -> Printf.sprintf "MISMATCH %s no-observation" id
       | Some ot ->
           let okv = parse_kv (List.tl (List.tl ot)) in
           if kv "panic" okv <> "" then Printf.sprintf "PROPFAIL %s sig=panic a call naming an unregistered method panicked: %s" id (kv "panic" okv)
           else if kv "setup" okv <> "" then Printf.sprintf "MISMATCH %s could not set up a loopback pair: %s" id (kv "setup" okv)
           else begin
             let plain = kv "plain" okv and comp = kv "comp" okv and follow = kv "followup" okv in
             let is_nf s = contains s "not found" || contains s "notfound" || contains s "6e6f7420666f756e64" in
             if not (is_nf plain) then
               Printf.sprintf "PROPFAIL %s sig=not-found-not-answered:e2e a call naming an unregistered %s was answered %s" id (kv "method" k) plain
             else if comp <> plain then
               Printf.sprintf "PROPFAIL %s sig=not-found-not-answered:e2e-compressed:ctype-%s a compressed call naming an unregistered %s returned %s, the same call uncompressed %s" id (kv "ctype" k) (kv "method" k) comp plain
             else if follow <> plain then
               Printf.sprintf "PROPFAIL %s sig=anomaly-disturbs-traffic:e2e after a compressed not-found call the next call on the connection returned %s instead of %s" id follow plain
             else Printf.sprintf "AGREE %s nontrivial" id
           end)
  | _ -> "SKIP"

let run_case toks obs =
  match toks with "e2e" :: _ -> run_e2e toks obs | _ ->
  C13.with_trace toks obs (fun id k evs tr ->
    if not (c07_lifecycle tr) then
      Printf.sprintf "PROPFAIL %s sig=%s Done / IsConnected / Err disagree, the transport came back to life, or the error changed after Done closed" id
        (if kv "family" k = "" then "lifecycle" else "lifecycle:" ^ kv "family" k)
    else begin
      (* not-found requests: answered with an error reply carrying the same seqno and naming what is missing *)
      let resp = response_errors evs in
      let nf = split_on ',' (kv "expectnf" k) in
      let nf_bad = List.filter (fun e ->
        match String.split_on_char ':' e with
        | [ q; name ] -> (match List.assoc_opt q resp with
                          | Some txt -> not (contains txt (string_of_bytes (bytes_of_hex name)))
                          | None -> true)
        | _ -> false) nf in
      (* no handler may run for a not-found request *)
      let hstarts = List.length (List.filter (fun e -> String.length e >= 7 && String.sub e 0 7 = "hstart/") evs) in
      let want_h = (match kv "handlers" k with "" -> -1 | s -> int_of_string s) in
      (* expectations on API results *)
      let exp = split_on ',' (kv "expect" k) in
      let rets = List.filter_map (function ARet (c, r) -> Some (ZZ.to_string (Values.z_of_coq c), r) | _ -> None) tr in
      let cls = function ROk -> "ok" | RAppErr -> "app" | REof -> "eof" | RCtx -> "ctx" | RTooBig -> "toobig" | RWriteErr -> "werr" | ROther -> "other" in
      let bad = List.filter (fun e ->
        match String.split_on_char ':' e with
        | [ c; want ] -> (match List.assoc_opt c rets with Some r -> not (List.mem (cls r) (String.split_on_char '+' want)) | None -> true)
        | _ -> false) exp in
      let last_obs = List.fold_left (fun a e -> match e with AObserve (d, _, er) -> Some (d, ZZ.to_int (Values.z_of_coq er)) | _ -> a) None tr in
      match nf_bad with
      | e :: _ -> Printf.sprintf "PROPFAIL %s sig=not-found-not-answered a call naming an unregistered protocol or method was not answered with an error reply of the same seqno naming it (%s)" id e
      | [] ->
          if want_h >= 0 && hstarts <> want_h then
            Printf.sprintf "PROPFAIL %s sig=anomaly-disturbs-traffic expected %d handler invocations around the anomaly, saw %d" id want_h hstarts
          else if bad <> [] then
            Printf.sprintf "PROPFAIL %s sig=anomaly-disturbs-traffic a valid call issued around a not-found / stray message did not complete as expected (%s)" id (List.hd bad)
          else begin
            if kv "alone" k = "1" && List.mem "timeout/done" evs then
              Printf.sprintf "PROPFAIL %s sig=fatal-not-fatal:alone a framing/decoding violation did not stop the transport by itself (it was still up after the bound, before the stream ended)" id
            else
            match kv "expectend" k, last_obs with
            | "open", Some (true, _) -> Printf.sprintf "PROPFAIL %s sig=non-fatal-was-fatal the transport stopped although only not-found / stray messages were received" id
            | "stopped", Some (false, _) -> Printf.sprintf "PROPFAIL %s sig=fatal-not-fatal the transport is still up after a framing/decoding violation, read error or end of stream" id
            | _ ->
                (match Abstract.timeouts evs with
                 | [] -> Printf.sprintf "AGREE %s %s" id (C13.nt k)
                 | t :: _ -> Printf.sprintf "MISMATCH %s harness wait timed out: %s" id t)
          end
    end)
