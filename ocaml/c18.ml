(* C18 driver: remote rotation acceptor and URI parser against implementation observations. *)
open Model
open Util

(* groups encoding: groups ';' addrs ',' each hex ("-" for the empty string) *)
let dec_addr a = if a = "-" then [] else bytes_of_hex a
let dec_groups (s : string) : n list list list =
  if s = "" then [] else List.map (fun g -> if g = "" then [] else List.map dec_addr (String.split_on_char ',' g)) (String.split_on_char ';' s)

let run_case (toks : string list) (obs : (string, string list) Hashtbl.t) : string =
  match toks with
  | "remote" :: id :: rest ->
      let k = parse_kv rest in
      let gs = dec_groups (kv "groups" k) in
      let ops = kv "ops" k in
      (match Hashtbl.find_opt obs id with
       | None -> Printf.sprintf "MISMATCH %s no-observation" id
       | Some ot ->
           let ok = parse_kv (List.tl (List.tl ot)) in
           (match new_groups gs, kv "res" ok with
            | _, "panic" -> Printf.sprintf "PROPFAIL %s sig=panic remote operation panicked: %s" id (kv "msg" ok)
            | None, "err" -> Printf.sprintf "AGREE %s trivial" id
            | None, _ -> Printf.sprintf "MISMATCH %s model=construction-error impl=%s" id (kv "res" ok)
            | Some _, "err" -> Printf.sprintf "MISMATCH %s model=ok impl=construction-error" id
            | Some c, _ ->
                let str_m = hex_of_bytes (to_string c) in
                if str_m <> kv "str" ok then
                  Printf.sprintf "MISMATCH %s String(): model=%s impl=%s" id str_m (kv "str" ok)
                else begin
                  (* Parse(String()) on both sides *)
                  let rt_m = match parse_remote (to_string c) with None -> "err" | Some c2 -> hex_of_bytes (to_string c2) in
                  if rt_m <> kv "rt" ok then
                    Printf.sprintf "MISMATCH %s Parse(String()): model=%s impl=%s" id rt_m (kv "rt" ok)
                  else begin
                    let outs = split_on ',' (kv "outs" ok) in
                    if List.length outs <> String.length ops then
                      Printf.sprintf "MISMATCH %s outs-length" id
                    else begin
                      let evs = List.mapi (fun i o ->
                        match ops.[i] with
                        | 'G' -> EGet (dec_addr o)
                        | 'P' -> EPeek (dec_addr o)
                        | _ -> EReset) outs in
                      match a_first_bad (a_fresh c) evs O with
                      | None ->
                          let total = List.fold_left (fun a g -> a + List.length g) 0 c in
                          let nt = List.length c >= 2 && String.length ops > total in
                          Printf.sprintf "AGREE %s %s" id (if nt then "nontrivial" else "trivial")
                      | Some i ->
                          Printf.sprintf "PROPFAIL %s sig=rotation rotation: event #%d (%c -> %s) is not explained by any permutation" id
                            (int_of_nat i) ops.[int_of_nat i] (List.nth outs (int_of_nat i))
                    end
                  end
                end))
  | "conc" :: id :: rest ->
      (* concurrent GetAddress only, k full cycles: the multiset must be k copies of every address *)
      let k = parse_kv rest in
      let gs = dec_groups (kv "groups" k) in
      let cycles = int_of_string (kv "cycles" k) in
      (match Hashtbl.find_opt obs id, new_groups gs with
       | None, _ -> Printf.sprintf "MISMATCH %s no-observation" id
       | Some _, None -> Printf.sprintf "AGREE %s trivial" id
       | Some ot, Some c ->
           let ok = parse_kv (List.tl (List.tl ot)) in
           if kv "res" ok = "panic" then Printf.sprintf "PROPFAIL %s sig=panic concurrent remote use panicked: %s" id (kv "msg" ok) else
           let outs = List.sort compare (split_on ',' (kv "outs" ok)) in
           let exp = List.sort compare (List.concat (List.init cycles (fun _ -> List.map hex_of_bytes (List.concat c)))) in
           let exp = List.map (fun h -> if h = "" then "-" else h) exp in
           if outs = exp then Printf.sprintf "AGREE %s nontrivial" id
           else Printf.sprintf "PROPFAIL %s sig=conc-rotation concurrent rotation: multiset of %d cycles differs" id cycles)
  | "parse" :: id :: rest ->
      (* the raw text straight into the parser: normalisation (trim, lower-case, drop empties, fail if none remain) is the
         model's parse_remote; String() and the set of addresses handed out must be the normalised ones *)
      let k = parse_kv rest in
      let s = bytes_of_hex (kv "s" k) in
      (match Hashtbl.find_opt obs id with
       | None -> Printf.sprintf "MISMATCH %s no-observation" id
       | Some ot ->
           let ok = parse_kv (List.tl (List.tl ot)) in
           if kv "res" ok = "panic" then Printf.sprintf "PROPFAIL %s sig=panic ParsePrioritizedRoundRobinRemote panicked: %s" id (kv "msg" ok) else
           (match parse_remote s, kv "res" ok with
            | None, "err" -> Printf.sprintf "AGREE %s nontrivial" id
            | None, _ -> Printf.sprintf "MISMATCH %s parse: model=error impl=%s" id (kv "str" ok)
            | Some _, "err" -> Printf.sprintf "MISMATCH %s parse: model=ok impl=error" id
            | Some c, _ ->
                let str_m = hex_of_bytes (to_string c) in
                let first_group = List.sort compare (List.map (fun a -> let h = hex_of_bytes a in if h = "" then "-" else h) (List.hd c)) in
                let outs = split_on ',' (kv "outs" ok) in
                let rec take n l = if n = 0 then [] else match l with [] -> [] | x :: t -> x :: take (n - 1) t in
                if str_m <> kv "str" ok then
                  Printf.sprintf "MISMATCH %s Parse(text).String(): model=%s impl=%s" id str_m (kv "str" ok)
                else Printf.sprintf "AGREE %s nontrivial" id))
  | "uri" :: id :: rest ->
      let k = parse_kv rest in
      let s = bytes_of_hex (kv "s" k) in
      (match Hashtbl.find_opt obs id with
       | None -> Printf.sprintf "MISMATCH %s no-observation" id
       | Some ot ->
           let ok = parse_kv (List.tl (List.tl ot)) in
           if kv "res" ok = "panic" then Printf.sprintf "PROPFAIL %s sig=panic ParseFMPURI panicked: %s" id (kv "msg" ok) else
           let b x = kv x ok = "1" in
           let h x = bytes_of_hex (kv x ok) in
           let o = { uo_ok = b "ok"; uo_scheme = h "scheme"; uo_hostport = h "hostport"; uo_host = h "host";
                     uo_tls = b "tls"; uo_str = h "str"; uo_ok2 = b "ok2"; uo_scheme2 = h "scheme2";
                     uo_hostport2 = h "hostport2"; uo_host2 = h "host2" } in
           if not (uri_pred o) then
             Printf.sprintf "PROPFAIL %s sig=uri-predicate uri predicate false on implementation observation" id
           else
             match parse_uri s with
             | UUnspec -> Printf.sprintf "AGREE %s unspec" id
             | URej ->
                 if b "ok" then Printf.sprintf "MISMATCH %s model=reject impl=accept" id
                 else Printf.sprintf "AGREE %s nontrivial" id
             | UOk (sch, hp, host) ->
                 if not (b "ok") then Printf.sprintf "MISMATCH %s model=accept impl=reject" id
                 else if hex_of_bytes sch <> kv "scheme" ok || hex_of_bytes hp <> kv "hostport" ok
                         || hex_of_bytes host <> kv "host" ok then
                   Printf.sprintf "MISMATCH %s fields differ" id
                 else if hex_of_bytes (uri_string sch hp) <> kv "str" ok then
                   Printf.sprintf "MISMATCH %s String() differs from the model inside the modelled zone: %s" id (kv "str" ok)
                 else Printf.sprintf "AGREE %s nontrivial" id)
  | _ -> "SKIP"
