(* C01, C08, C12, C20 on the abstracted implementation trace. *)
open Model
open Util

let fam k = if kv "family" k = "" then "" else ":" ^ kv "family" k

let timeouts_or_agree id k evs =
  match Abstract.timeouts evs with
  | [] -> Printf.sprintf "AGREE %s %s" id (C13.nt k)
  | t :: _ -> Printf.sprintf "MISMATCH %s harness wait timed out: %s" id t

(* argument and tags of every handler invocation, by nonce: "nonce -> (arg text, tags text)" *)
let invocations (evs : string list) : (string * (string * string)) list =
  List.filter_map (fun e ->
    match String.split_on_char '/' e with
    | "hstart" :: _ :: _ :: a :: t :: _ ->
        let nn = (try ZZ.to_string (Values.z_of_coq (Abstract.nonce_of (Values.parse a))) with _ -> "?") in
        Some (nn, (a, t))
    | _ -> None) evs

let run_c01 toks obs =
  C13.with_trace toks obs (fun id k evs tr ->
    if not (c01_no_crosstalk tr) then
      Printf.sprintf "PROPFAIL %s sig=crosstalk%s a call returned a result that the peer did not send for that call's seqno" id (fam k)
    else if not (c01_never_twice tr) then
      Printf.sprintf "PROPFAIL %s sig=twice%s a delivered request was invoked twice, or a call was sent two replies" id (fam k)
    else if kv "quiescent" k = "1" && not (c01_invoked_once tr) then
      Printf.sprintf "PROPFAIL %s sig=not-invoked-once%s a delivered call or notification for a registered method did not cause exactly one handler invocation" id (fam k)
    else begin
      (* argument and tags exactly as supplied: the generator states them per nonce *)
      let inv = invocations evs in
      let wants = split_on ',' (kv "expectinv" k) in
      let bad = List.filter (fun w ->
        match String.split_on_char '~' w with
        | [ nn; a; t ] -> (match List.assoc_opt nn inv with
                           | Some (a', t') -> Values.print (Values.parse a) <> Values.print (Values.parse a') ||
                                              (let norm x = if x = "-" then "-" else Values.print (Values.parse x) in norm t <> norm t')
                           | None -> kv "quiescent" k = "1")
        | _ -> false) wants in
      (* replies: every handler that returned on a live transport and was not cancelled is answered exactly once,
         with the result it produced (expectreply=<seq>~<nonce>) *)
      let rwants = split_on ',' (kv "expectreply" k) in
      let rbad = List.filter (fun w ->
        match String.split_on_char '~' w with
        | [ q; nn ] ->
            let qz = Values.z_to_coq (ZZ.of_string q) and nz = Values.z_to_coq (ZZ.of_string nn) in
            count_ev (replied_to qz nz) tr <> S O
        | _ -> false) rwants in
      (* results of our own calls *)
      let exp = split_on ',' (kv "expect" k) in
      let rets = List.filter_map (function ARet (c, r) -> Some (ZZ.to_string (Values.z_of_coq c), r) | _ -> None) tr in
      let cls = function ROk -> "ok" | RAppErr -> "app" | REof -> "eof" | RCtx -> "ctx" | RTooBig -> "toobig" | RWriteErr -> "werr" | ROther -> "other" in
      let ebad = List.filter (fun e ->
        match String.split_on_char ':' e with
        | [ c; want ] -> (match List.assoc_opt c rets with Some r -> not (List.mem (cls r) (String.split_on_char '+' want)) | None -> true)
        | _ -> false) exp in
      match bad, rbad, ebad with
      | b :: _, _, _ -> Printf.sprintf "PROPFAIL %s sig=wrong-argument-or-tags%s handler invocation differs from what the caller supplied (%s)" id (fam k) b
      | _, r :: _, _ -> Printf.sprintf "PROPFAIL %s sig=reply-count%s a call whose handler returned on a live transport was not sent exactly one reply carrying its result (seq~nonce %s)" id (fam k) r
      | _, _, e :: _ -> Printf.sprintf "PROPFAIL %s sig=wrong-result%s a call did not return the result or error its invocation produced (%s)" id (fam k) e
      | _ -> timeouts_or_agree id k evs
    end)

let run_c08 toks obs =
  C13.with_trace toks obs (fun id k evs tr ->
    match List.filter (fun t -> let n = String.length "timeout/cancel-returned" in String.length t >= n && String.sub t 0 n = "timeout/cancel-returned") (Abstract.timeouts evs)
          @ List.filter (fun t -> String.length t >= 13 && String.sub t 0 13 = "timeout/await") (Abstract.timeouts evs) with
    | t :: _ -> Printf.sprintf "PROPFAIL %s sig=cancel-not-prompt%s the call did not return within the bound after its context ended: %s" id (fam k) t
    | [] ->
        if not (c08_pred tr) then
          Printf.sprintf "PROPFAIL %s sig=cancel-contract%s a cancelled call did not return the context's error (its reply had not arrived), or its call frame was written and no cancellation frame with its seqno followed it" id (fam k)
        else if not (c08_reaches_handler tr) then
          Printf.sprintf "PROPFAIL %s sig=cancel-does-not-reach-handler%s the peer cancelled a call whose handler is running and the handler's context was not cancelled" id (fam k)
        else if not (accepts cancel_step [] tr) then
          Printf.sprintf "PROPFAIL %s sig=cancel-before-call%s a cancellation frame precedes its call frame" id (fam k)
        else timeouts_or_agree id k evs)

let run_c12 toks obs =
  C13.with_trace toks obs (fun id k evs tr ->
    if not (c12_pred tr) then
      Printf.sprintf "PROPFAIL %s sig=late-write%s the result buffer of a call changed after the call had returned" id (fam k)
    else timeouts_or_agree id k evs)

let run_c20 toks obs =
  C13.with_trace toks obs (fun id k evs tr ->
    (* wants=<kind>~<nonce>~<size>+<size>,... *)
    let kind_of = function "call" -> KCall | "callc" -> KCallC | "resp" -> KResp | "notify" -> KNotify | "cancel" -> KCancel | _ -> KBad in
    let wants = List.filter_map (fun w ->
      match String.split_on_char '~' w with
      | [ kd; nn; sizes ] ->
          Some ((kind_of kd, Values.z_to_coq (ZZ.of_string nn)), List.map (fun s -> Values.z_to_coq (ZZ.of_string s)) (String.split_on_char '+' sizes))
      | _ -> None) (split_on ',' (kv "wants" k)) in
    let bad = List.filter (fun w -> not (c20_one tr w)) wants in
    match bad with
    | ((kd, nn), sizes) :: _ ->
        let got = records_of kd nn tr in
        Printf.sprintf "PROPFAIL %s sig=%s%s operation %s: expected exactly one record with size in {%s}, got sizes [%s]" id
          (if List.length got = 1 then "record-size" else if got = [] then "record-missing" else "record-duplicated") (fam k)
          (ZZ.to_string (Values.z_of_coq nn)) (String.concat "," (List.map (fun s -> ZZ.to_string (Values.z_of_coq s)) sizes))
          (String.concat "," (List.map (fun s -> ZZ.to_string (Values.z_of_coq s)) got))
    | [] -> timeouts_or_agree id k evs)

let debug_abstract toks obs =
  C13.with_trace toks obs (fun id k evs tr ->
    let show = function
      | AFeed (fi, _) -> Printf.sprintf "feed(k=%s,q=%s,n=%s,ok=%b)" (match fi.fi_kind with KCall -> "call" | KCallC -> "callc" | KResp -> "resp" | KNotify -> "notify" | KCancel -> "cancel" | KBad -> "bad") (ZZ.to_string (Values.z_of_coq fi.fi_seq)) (ZZ.to_string (Values.z_of_coq fi.fi_nonce)) fi.fi_ok
      | AHStart (h, fi) -> Printf.sprintf "hstart(%s,n=%s)" (ZZ.to_string (Values.z_of_coq h)) (ZZ.to_string (Values.z_of_coq fi.fi_nonce))
      | AWrite fi -> Printf.sprintf "write(q=%s,n=%s)" (ZZ.to_string (Values.z_of_coq fi.fi_seq)) (ZZ.to_string (Values.z_of_coq fi.fi_nonce))
      | _ -> "." in
    "DEBUG " ^ id ^ " " ^ String.concat " " (List.map show tr))
