(* C01, C08, C12, C20 on the abstracted implementation trace. *)
open Model
open Util

let fam k = if kv "family" k = "" then "" else ":" ^ kv "family" k

let timeouts_or_agree id k evs =
  match Abstract.timeouts evs with
  | [] -> Printf.sprintf "AGREE %s %s" id (C13.nt k)
  | t :: _ -> Printf.sprintf "MISMATCH %s harness wait timed out: %s" id t

(* argument and tags of every handler invocation, by nonce: "nonce -> (arg text, tags text)" *)
let invocations (evs : string list) : (string * (string * string)) list =
  List.filter_map (fun e ->
    match String.split_on_char '/' e with
    | "hstart" :: _ :: _ :: a :: t :: _ ->
        let nn = (try ZZ.to_string (Values.z_of_coq (Abstract.nonce_of (Values.parse a))) with _ -> "?") in
        Some (nn, (a, t))
    | _ -> None) evs

(* tags on the request frames we wrote, by the nonce of their argument: sorted "key=value" bindings, or "-" *)
let tagmap_of_text (s : string) : (n list * mval) list =
  if s = "-" || s = "" then [] else
  match Values.parse s with
  | VMap l -> List.filter_map (fun (k, v) -> match k with VStr b -> Some (b, v) | _ -> None) l
  | _ -> []

let canon_tags (t : (n list * mval) list) : string =
  if t = [] then "-" else
  String.concat "," (List.sort compare (List.map (fun (k, v) -> hex_of_bytes k ^ "=" ^ Values.print v) (tm_norm t)))

let written_tags (evs : string list) : (string * string) list =
  List.filter_map (fun e ->
    match String.split_on_char '/' e with
    | [ "write"; h ] ->
        (match dec_int32 (bytes_of_hex h) with
         | I32 (_, rest) ->
             (match decode rest with
              | DOk (VArr (VInt t :: els), _) ->
                  let ti = ZZ.to_int (Values.z_of_coq t) in
                  let base = (match ti with 0 -> 3 | 4 -> 4 | 2 -> 2 | _ -> 99) in
                  if base = 99 || List.length els < base then None else
                  let a = List.nth els (base - 1) in
                  let tg = if List.length els > base then
                             (match List.nth els base with
                              | VMap l -> canon_tags (List.filter_map (fun (k, v) -> match k with VStr b -> Some (b, v) | _ -> None) l)
                              | v -> "?" ^ Values.print v)
                           else "-" in
                  Some (ZZ.to_string (Values.z_of_coq (Abstract.nonce_of a)), tg)
              | _ -> None)
         | _ -> None)
    | _ -> None) evs

let run_c01 toks obs =
  C13.with_trace toks obs (fun id k evs tr ->
    (* calls made from one context that already carries tags: each frame carries session + own tags (Model.Tags.tm_merge) *)
    let tagbad =
      if kv "calltags" k = "" then [] else begin
        let sess = tagmap_of_text (kv "session" k) in
        let wt = written_tags evs in
        List.filter_map (fun w ->
          match String.split_on_char '~' w with
          | [ nn; own ] ->
              let want = canon_tags (tm_merge sess (tagmap_of_text own)) in
              (match List.assoc_opt nn wt with
               | Some got when got = want -> None
               | Some got -> Some (Printf.sprintf "call %s: frame carries tags %s, its context gives %s" nn got want)
               | None -> None)
          | _ -> None) (split_on '|' (kv "calltags" k))
      end in
    (* every call of a scenario has its own argument (nonce = call id): two call frames carrying the same argument means one
       of them carries another call's *)
    let dup_arg =
      (let ns = List.filter_map (function AWrite fi when (fi.fi_kind = KCall || fi.fi_kind = KCallC) && ZZ.geq (Values.z_of_coq fi.fi_nonce) ZZ.zero -> Some (ZZ.to_string (Values.z_of_coq fi.fi_nonce)) | _ -> None) tr in
       List.length (List.sort_uniq compare ns) <> List.length ns) in
    if tagbad <> [] then
      Printf.sprintf "PROPFAIL %s sig=wrong-argument-or-tags%s %s" id (fam k) (List.hd tagbad)
    else if dup_arg then
      Printf.sprintf "PROPFAIL %s sig=wrong-argument-or-tags%s two call frames on the wire carry the same argument although every call was given its own" id (fam k)
    else
    if not (c01_no_crosstalk tr) then
      Printf.sprintf "PROPFAIL %s sig=crosstalk%s a call returned a result that the peer did not send for that call's seqno" id (fam k)
    else if not (c01_never_twice tr) then
      Printf.sprintf "PROPFAIL %s sig=twice%s a delivered request was invoked twice, or a call was sent two replies" id (fam k)
    else if kv "quiescent" k = "1" && not (c01_invoked_once tr) then
      Printf.sprintf "PROPFAIL %s sig=not-invoked-once%s a delivered call or notification for a registered method did not cause exactly one handler invocation" id (fam k)
    else begin
      (* argument and tags exactly as supplied: the generator states them per nonce *)
      let inv = invocations evs in
      let wants = split_on '|' (kv "expectinv" k) in
      let bad = List.filter (fun w ->
        match String.split_on_char '~' w with
        | [ nn; a; t ] -> (match List.assoc_opt nn inv with
                           | Some (a', t') -> Values.print (Values.parse a) <> Values.print (Values.parse a') ||
                                              (let norm x = if x = "-" then "-" else Values.print (Values.parse x) in norm t <> norm t')
                           | None -> kv "quiescent" k = "1")
        | _ -> false) wants in
      (* replies: every handler that returned on a live transport and was not cancelled is answered exactly once,
         with the result it produced (expectreply=<seq>~<nonce>) *)
      let rwants = split_on ',' (kv "expectreply" k) in
      let rbad = List.filter (fun w ->
        match String.split_on_char '~' w with
        | [ q; nn ] ->
            let qz = Values.z_to_coq (ZZ.of_string q) and nz = Values.z_to_coq (ZZ.of_string nn) in
            count_ev (replied_to qz nz) tr <> S O
        | _ -> false) rwants in
      (* results of our own calls *)
      let exp = split_on ',' (kv "expect" k) in
      let rets = List.filter_map (function ARet (c, r) -> Some (ZZ.to_string (Values.z_of_coq c), r) | _ -> None) tr in
      let cls = function ROk -> "ok" | RAppErr -> "app" | REof -> "eof" | RCtx -> "ctx" | RTooBig -> "toobig" | RWriteErr -> "werr" | ROther -> "other" in
      let ebad = List.filter (fun e ->
        match String.split_on_char ':' e with
        | [ c; want ] -> (match List.assoc_opt c rets with Some r -> not (List.mem (cls r) (String.split_on_char '+' want)) | None -> true)
        | _ -> false) exp in
      match bad, rbad, ebad with
      | b :: _, _, _ -> Printf.sprintf "PROPFAIL %s sig=wrong-argument-or-tags%s handler invocation differs from what the caller supplied (%s)" id (fam k) b
      | _, r :: _, _ -> Printf.sprintf "PROPFAIL %s sig=reply-count%s a call whose handler returned on a live transport was not sent exactly one reply carrying its result (seq~nonce %s)" id (fam k) r
      | _, _, e :: _ -> Printf.sprintf "PROPFAIL %s sig=wrong-result%s a call did not return the result or error its invocation produced (%s)" id (fam k) e
      | _ -> timeouts_or_agree id k evs
    end)

let run_c08 toks obs =
  match toks with "e2ec" :: _ -> C13.run_e2ec toks obs | "e2eb" :: _ -> C13.run_e2eb toks obs | "cc" :: _ -> C13.run_cc toks obs | _ ->
  C13.with_trace toks obs (fun id k evs tr ->
    match List.filter (fun t -> let n = String.length "timeout/cancel-returned" in String.length t >= n && String.sub t 0 n = "timeout/cancel-returned") (Abstract.timeouts evs)
          @ List.filter (fun t -> String.length t >= 13 && String.sub t 0 13 = "timeout/await") (Abstract.timeouts evs) with
    | t :: _ -> Printf.sprintf "PROPFAIL %s sig=cancel-not-prompt%s the call did not return within the bound after its context ended: %s" id (fam k) t
    | [] ->
        if not (c08_pred tr) then
          Printf.sprintf "PROPFAIL %s sig=cancel-contract%s a cancelled call did not return the context's error (its reply had not arrived), or its call frame was written and no cancellation frame with its seqno followed it" id (fam k)
        else if not (c08_reaches_handler tr) then
          Printf.sprintf "PROPFAIL %s sig=cancel-does-not-reach-handler%s the peer cancelled a call whose handler is running and the handler's context was not cancelled" id (fam k)
        else if not (accepts cancel_step [] tr) then
          Printf.sprintf "PROPFAIL %s sig=cancel-before-call%s a cancellation frame precedes its call frame" id (fam k)
        else timeouts_or_agree id k evs)

let run_c12 toks obs =
  match toks with "cc" :: _ -> C13.run_cc toks obs | _ ->
  C13.with_trace toks obs (fun id k evs tr ->
    if not (c12_pred tr) then
      Printf.sprintf "PROPFAIL %s sig=late-write%s the result buffer of a call changed after the call had returned" id (fam k)
    else timeouts_or_agree id k evs)

(* C20: the sizes a record may carry are computed here from the raw frames of the event log:
   F(n)  = bytes of the frame written for operation n;  L(q) = content length of the peer's response with seqno q;
   Lreq(n) = content length of the peer's request with nonce n;  Freply(q) = bytes of the response written with seqno q *)
let run_c20_inst toks obs =
  match toks with
  | "inst" :: id :: rest ->
      let k = parse_kv rest in
      (match Hashtbl.find_opt obs id with
       | None -> Printf.sprintf "MISMATCH %s no-observation" id
       | Some ot ->
           let okv = parse_kv (List.tl (List.tl ot)) in
           if kv "res" okv = "panic" then Printf.sprintf "PROPFAIL %s sig=panic instrumenter panicked" id else
           let zi s = Values.z_to_coq (ZZ.of_string s) in
           let ops = List.map (fun o -> match o.[0] with
             | 'i' -> IIncrement (zi (String.sub o 1 (String.length o - 1)))
             | 'f' -> IFinish
             | _ -> IRecordAndFinish (zi (String.sub o 1 (String.length o - 1)))) (List.filter (fun o -> o <> "-" && o <> "") (split_on ',' (kv "ops" k))) in
           let (_, puts) = irun inst0 ops in
           (* refusals, step by step *)
           let rec refs s = function
             | [] -> []
             | o :: r -> let ((s1, _), refused) = istep s o in
                         (match o with IIncrement _ -> refs s1 r | _ -> (if refused then "1" else "0") :: refs s1 r) in
           let mputs = String.concat "," (List.map (fun z -> ZZ.to_string (Values.z_of_coq z)) puts) in
           let mref = String.concat "," (refs inst0 ops) in
           let nfin = List.length (List.filter (function IIncrement _ -> false | _ -> true) ops) in
           if List.length (split_on ',' (kv "puts" okv)) > 1 then
             Printf.sprintf "PROPFAIL %s sig=record-duplicated one instrumenter stored %s records" id (kv "puts" okv)
           else if kv "storage" k <> "" || kv "conc" k = "1" then
             (* a storage that is slow or reports an error after storing, finishes racing each other: what each finish returns
                is the storage's business; exactly one record must have been stored if anything was finished at all *)
             (if nfin >= 1 && List.length (split_on ',' (kv "puts" okv)) <> 1 then
                Printf.sprintf "PROPFAIL %s sig=record-missing %d finishing operations stored no record" id nfin
              else Printf.sprintf "AGREE %s %s" id (if nfin >= 2 then "nontrivial" else "trivial"))
           else if mputs <> kv "puts" okv || mref <> kv "refused" okv then
             Printf.sprintf "MISMATCH %s instrumenter: model puts=[%s] refused=[%s] impl puts=[%s] refused=[%s]" id mputs mref (kv "puts" okv) (kv "refused" okv)
           else Printf.sprintf "AGREE %s %s" id (if List.length ops >= 2 then "nontrivial" else "trivial"))
  | _ -> "SKIP"

let run_c20 toks obs =
  match toks with
  | "inst" :: _ -> run_c20_inst toks obs
  | _ ->
  C13.with_trace toks obs (fun id k evs tr ->
    let max = Values.z_to_coq (ZZ.of_string (let m = kv "max" k in if m = "" then "1048576" else m)) in
    let infl = C02.inflated_of evs in
    let zs z = ZZ.to_string (Values.z_of_coq z) in
    let written = List.filter_map (fun e -> match String.split_on_char '/' e with
      | [ "write"; h ] -> let fi = Abstract.frame_info_of max infl (bytes_of_hex h) in Some (fi, String.length h / 2)
      | _ -> None) evs in
    let fed = List.concat_map (fun e -> match String.split_on_char '/' e with
      | [ "feed"; h ] ->
          (* content lengths of the frames inside the fed bytes *)
          let rec split (bs : n list) acc =
            if bs = [] then List.rev acc else
            match dec_int32 bs with
            | I32 (l, rest) when ZZ.gt (Values.z_of_coq l) ZZ.zero && ZZ.to_int (Values.z_of_coq l) <= List.length rest ->
                let li = ZZ.to_int (Values.z_of_coq l) in
                let plen = List.length bs - List.length rest in
                let rec take n l = if n = 0 then [] else match l with [] -> [] | x :: t -> x :: take (n - 1) t in
                let rec drop n l = if n = 0 then l else match l with [] -> [] | _ :: t -> drop (n - 1) t in
                split (drop li rest) ((Abstract.frame_info_of max infl (take (plen + li) bs), li) :: acc)
            | _ -> List.rev acc in
          split (bytes_of_hex (if h = "-" then "" else h)) []
      | _ -> []) evs in
    let f_of kind nn = List.filter_map (fun (fi, len) -> if fkind_eqb fi.fi_kind kind && zs fi.fi_nonce = nn then Some (len, zs fi.fi_seq) else None) written in
    let kind_of = function "call" -> KCall | "callc" -> KCallC | "resp" -> KResp | "notify" -> KNotify | "cancel" -> KCancel | _ -> KBad in
    (* wants=<kind>~<nonce>~<mode>  mode: plain | withreply | either | cancelof | served *)
    let problems = List.filter_map (fun w ->
      match String.split_on_char '~' w with
      | [ kd; nn; mode ] ->
          let kind = kind_of kd in
          let nz = Values.z_to_coq (ZZ.of_string nn) in
          let sizes =
            (match mode with
             | "cancelof" ->
                 (* the cancel frame of call nn: found through the call's seqno *)
                 (match f_of KCall nn @ f_of KCallC nn with
                  | (_, q) :: _ -> List.filter_map (fun (fi, len) -> if fi.fi_kind = KCancel && zs fi.fi_seq = q then Some [ len ] else None) written
                  | [] -> [])
             | "served" ->
                 (match List.filter (fun (fi, _) -> zs fi.fi_nonce = nn && (fi.fi_kind = KCall || fi.fi_kind = KCallC)) fed with
                  | (fi, lreq) :: _ ->
                      List.filter_map (fun (wf, len) -> if wf.fi_kind = KResp && zs wf.fi_seq = zs fi.fi_seq then Some [ lreq + len ] else None) written
                  | [] -> [])
             | _ ->
                 (match f_of kind nn with
                  | (f, q) :: _ ->
                      let lr = List.filter_map (fun (fi, l) -> if fi.fi_kind = KResp && zs fi.fi_seq = q then Some l else None) fed in
                      (match mode, lr with
                       | "plain", _ -> [ [ f ] ]
                       | "withreply", l :: _ -> [ [ f + l ] ]
                       | "either", l :: _ -> [ [ f; f + l ] ]
                       | "either", [] -> [ [ f ] ]
                       | _ -> [])
                  | [] -> [])) in
          (match sizes with
           | [] -> None                      (* its frame was not written: the property does not fix the size *)
           | allowed :: _ ->
               let want = ((kind, nz), List.map (fun x -> Values.z_to_coq (ZZ.of_int x)) allowed) in
               if c20_one tr want then None
               else
                 let got = records_of kind nz tr in
                 Some (Printf.sprintf "sig=%s%s operation %s (%s): expected exactly one record with size in {%s}, got sizes [%s]"
                         (if List.length got = 1 then "record-size" else if got = [] then "record-missing" else "record-duplicated") (fam k)
                         nn kd (String.concat "," (List.map string_of_int allowed)) (String.concat "," (List.map zs got))))
      | _ -> None) (split_on ',' (kv "wants" k)) in
    (* every record carries a tag made of a known message type and a method *)
    let bad_tag = List.exists (function ARecord (KBad, _, _) -> true | _ -> false) tr in
    match problems with
    | p :: _ -> Printf.sprintf "PROPFAIL %s %s" id p
    | [] -> if bad_tag then Printf.sprintf "PROPFAIL %s sig=record-tag%s a record was stored under a tag that is not <message type> <method>" id (fam k)
            else timeouts_or_agree id k evs)

let debug_abstract toks obs =
  C13.with_trace toks obs (fun id k evs tr ->
    let show = function
      | AFeed (fi, _) -> Printf.sprintf "feed(k=%s,q=%s,n=%s,ok=%b)" (match fi.fi_kind with KCall -> "call" | KCallC -> "callc" | KResp -> "resp" | KNotify -> "notify" | KCancel -> "cancel" | KBad -> "bad") (ZZ.to_string (Values.z_of_coq fi.fi_seq)) (ZZ.to_string (Values.z_of_coq fi.fi_nonce)) fi.fi_ok
      | AHStart (h, fi) -> Printf.sprintf "hstart(%s,n=%s)" (ZZ.to_string (Values.z_of_coq h)) (ZZ.to_string (Values.z_of_coq fi.fi_nonce))
      | AWrite fi -> Printf.sprintf "write(q=%s,n=%s)" (ZZ.to_string (Values.z_of_coq fi.fi_seq)) (ZZ.to_string (Values.z_of_coq fi.fi_nonce))
      | _ -> "." in
    "DEBUG " ^ id ^ " " ^ String.concat " " (List.map show tr))
