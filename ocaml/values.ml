(* Canonical value text <-> Model.mval.  Same grammar as go/harness/values.go. *)
open Model
open Util

let z_to_coq (z : ZZ.t) : Model.z =
  if ZZ.equal z ZZ.zero then Z0
  else if ZZ.gt z ZZ.zero then Zpos (pos_of_z z)
  else Zneg (pos_of_z (ZZ.neg z))

let z_of_coq (z : Model.z) : ZZ.t =
  match z with Z0 -> ZZ.zero | Zpos p -> z_of_pos p | Zneg p -> ZZ.neg (z_of_pos p)

let n_to_coq (z : ZZ.t) : n = if ZZ.equal z ZZ.zero then N0 else Npos (pos_of_z z)
let n_of_coq (x : n) : ZZ.t = match x with N0 -> ZZ.zero | Npos p -> z_of_pos p

let rec print (v : mval) : string =
  match v with
  | VNil -> "n"
  | VBool true -> "t"
  | VBool false -> "f"
  | VInt z -> "i:" ^ ZZ.to_string (z_of_coq z)
  | VStr s -> "s:" ^ hex_of_bytes s
  | VBin s -> "b:" ^ hex_of_bytes s
  | VF64 b -> Printf.sprintf "d:%s" (let h = ZZ.format "%x" (n_of_coq b) in String.make (16 - String.length h) '0' ^ h)
  | VArr l -> "a[" ^ String.concat "," (List.map print l) ^ "]"
  | VMap l ->
      (* Go map semantics: a repeated key keeps its last value; bin keys become strings *)
      let key k = match k with VBin s -> print (VStr s) | _ -> print k in
      let tbl = Hashtbl.create 8 in
      List.iter (fun (k, x) -> Hashtbl.replace tbl (key k) (print x)) l;
      let parts = Hashtbl.fold (fun k x acc -> (k ^ "=" ^ x) :: acc) tbl [] in
      "m{" ^ String.concat "," (List.sort compare parts) ^ "}"

let print_opt (t : mval option) : string = match t with None -> "-" | Some v -> print v

(* recursive descent parser *)
let parse (s : string) : mval =
  let i = ref 0 in
  let n = String.length s in
  let until () =
    let j = ref !i in
    while !j < n && not (List.mem s.[!j] [','; ']'; '}'; '=']) do incr j done;
    let r = String.sub s !i (!j - !i) in
    i := !j; r in
  let rec value () : mval =
    match s.[!i] with
    | 'n' -> incr i; VNil
    | 't' -> incr i; VBool true
    | 'f' -> incr i; VBool false
    | 'i' -> i := !i + 2; VInt (z_to_coq (ZZ.of_string (until ())))
    | 's' -> i := !i + 2; VStr (bytes_of_hex (until ()))
    | 'b' -> i := !i + 2; VBin (bytes_of_hex (until ()))
    | 'd' -> i := !i + 2; VF64 (n_to_coq (ZZ.of_string_base 16 (until ())))
    | 'a' ->
        i := !i + 2;
        let acc = ref [] in
        while s.[!i] <> ']' do
          acc := value () :: !acc;
          if s.[!i] = ',' then incr i
        done;
        incr i; VArr (List.rev !acc)
    | 'm' ->
        i := !i + 2;
        let acc = ref [] in
        while s.[!i] <> '}' do
          let k = value () in
          incr i;
          let v = value () in
          acc := (k, v) :: !acc;
          if s.[!i] = ',' then incr i
        done;
        incr i; VMap (List.rev !acc)
    | c -> failwith (Printf.sprintf "bad value text at %d: %c" !i c)
  in
  let v = value () in
  if !i <> n then failwith "trailing garbage in value";
  v

let parse_opt (s : string) : mval option = if s = "-" || s = "" then None else Some (parse s)
