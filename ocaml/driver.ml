(* driver <property> <cases> <obs> : one verdict line per case. *)
let () =
  let prop = Sys.argv.(1) in
  let cases = Util.read_lines Sys.argv.(2) in
  let obs = Util.index_obs (Util.read_lines Sys.argv.(3)) in
  let run = match prop with
    | "C18" -> C18.run_case
    | "C04" -> Dec.run_case
    | "C05" -> C05.run_case
    | "C02" -> C02.run_case
    | "C13" -> C13.run_c13
    | "C03" -> C13.run_c03
    | "C07" -> C07.run_case
    | "C09" -> C13.run_c09
    | "C11" -> C13.run_c11
    | "C10" -> C13.run_c10
    | "C01" -> C01.run_c01
    | "DEBUG" -> C01.debug_abstract
    | "C08" -> C01.run_c08
    | "C12" -> C01.run_c12
    | "C20" -> C01.run_c20
    | "C19" -> C19.run_case
    | "C06" -> C06.run_case
    | "C14" -> Conn.run_conn "C14"
    | "C15" -> Conn.run_conn "C15"
    | "C16" -> Conn.run_conn "C16"
    | "C17" -> C17.run_case
    | _ -> prerr_endline ("unknown property " ^ prop); exit 2 in
  List.iter
    (fun l ->
      if l <> "" && l.[0] <> '#' then begin
        let toks = String.split_on_char ' ' l in
        let v = try run toks obs with e -> Printf.sprintf "MISMATCH %s driver-exception %s" (try List.nth toks 1 with _ -> "?") (Printexc.to_string e) in
        print_endline v
      end)
    cases
