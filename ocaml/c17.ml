(* C17: the outcome of real TLS dials against Model/Tls.v *)
open Model
open Util

let zi (i : int) = Values.z_to_coq (ZZ.of_int i)
let name_id = function "srv.test" -> 1 | "other.test" -> 2 | "evil.test" -> 3 | "pair.test" -> 4 | _ -> 9
let issuer_of = function "ca1" -> CA1 | "ca2" -> CA2 | _ -> SelfSigned

let cert_of = function
  | "valid" -> { c_issuer = CA1; c_name = zi 1; c_expired = false }
  | "pairvalid" -> { c_issuer = CA1; c_name = zi 4; c_expired = false }
  | "otherca" -> { c_issuer = CA2; c_name = zi 1; c_expired = false }
  | "othername" -> { c_issuer = CA1; c_name = zi 2; c_expired = false }
  | "expired" -> { c_issuer = CA1; c_name = zi 1; c_expired = true }
  | "selfsigned" -> { c_issuer = SelfSigned; c_name = zi 1; c_expired = false }
  | "expired-otherca" -> { c_issuer = CA2; c_name = zi 1; c_expired = true }
  | "othername-otherca" -> { c_issuer = CA2; c_name = zi 2; c_expired = false }
  | s -> failwith ("cert " ^ s)

let dres_s = function
  | DROk -> "ok" | DRBadRoots -> "bad-roots" | DRNoServerName -> "no-servername" | DRUnknownAuthority -> "unknown-authority"
  | DRExpired -> "expired" | DRWrongName -> "wrong-name" | DRTimeout -> "timeout" | DRBroken -> "broken"

let run_case toks obs =
  match toks with
  | "tls" :: id :: rest ->
      let k = parse_kv rest in
      (match Hashtbl.find_opt obs id with
       | None -> Printf.sprintf "MISMATCH %s no-observation" id
       | Some ot ->
           let okv = parse_kv (List.tl (List.tl ot)) in
           if kv "panic" okv <> "" then Printf.sprintf "PROPFAIL %s sig=panic the dial panicked: %s" id (kv "panic" okv) else
           let ctor = match kv "ctor" k with
             | "pem" | "pemdialable" -> CtorPEM (true, [ issuer_of (kv "roots" k) ])
             | "pembad" | "pemempty" | "pemblank" | "pemtext" -> CtorPEM (false, [])
             | "config" ->
                 CtorConfig { t_roots = (match kv "roots" k with "" | "none" -> None | r -> Some [ issuer_of r ]);
                              t_name = (match kv "name" k with "" | "-" -> None | n -> Some (zi (name_id n)));
                              t_skip = kv "skip" k = "1" }
             | _ -> CtorDefault in
           let beh = match kv "behaviour" k with "stall" -> Stalls | "closemid" -> ClosesMid | "garbage" -> Garbage | _ -> Handshakes in
           let want = dial ctor (zi (name_id (kv "host" k))) (cert_of (kv "cert" k)) beh in
           let got = kv "res" okv in
           let timeout = (match int_of_string_opt (kv "timeout" k) with Some t -> t | None -> 0) in
           let el = (match int_of_string_opt (kv "elapsed" okv) with Some t -> t | None -> -1) in
           let authenticated = (want = DROk) in
           if got = "ok" && not authenticated then
             Printf.sprintf "PROPFAIL %s sig=tls-unauthenticated-dial:%s the dial succeeded although the server's certificate (%s) does not satisfy the configuration (%s); a correct client reports %s"
               id (dres_s want) (kv "cert" k) (kv "ctor" k) (dres_s want)
           else if (kv "transport" okv = "true" || kv "staged" okv = "true") && got <> "ok" then
             Printf.sprintf "PROPFAIL %s sig=tls-transport-after-failed-dial the dial failed (%s) but a transport was created" id got
           else if got = "hang" then
             Printf.sprintf "PROPFAIL %s sig=tls-dial-hangs the dial did not return within the handshake timeout (%d ms) plus 2 s" id timeout
           else if want = DRTimeout && (got <> "timeout" || el < timeout - 5 || el > timeout + 400) then
             Printf.sprintf "PROPFAIL %s sig=tls-handshake-not-bounded a peer that never completes the handshake: dial returned %s after %d ms, the handshake timeout is %d ms" id got el timeout
           else if kv "alias" okv = "true" then
             Printf.sprintf "PROPFAIL %s sig=tls-config-aliased the connection transport holds the caller's own tls.Config object" id
           else if got <> dres_s want then
             Printf.sprintf "MISMATCH %s sig=tls-outcome:%s:%s the dial returned %s, the model says %s" id (dres_s want) got got (dres_s want)
           else Printf.sprintf "AGREE %s nontrivial" id)
  | "tlspair" :: id :: rest ->
      let k = parse_kv rest in
      (match Hashtbl.find_opt obs id with
       | None -> Printf.sprintf "MISMATCH %s no-observation" id
       | Some ot ->
           let okv = parse_kv (List.tl (List.tl ot)) in
           if kv "panic" okv <> "" then Printf.sprintf "PROPFAIL %s sig=panic the dial panicked: %s" id (kv "panic" okv) else
           let ctor_of i =
             match kv (Printf.sprintf "ctor%d" i) k with
             | "pem" | "pemdialable" -> CtorPEM (true, [ issuer_of (kv (Printf.sprintf "roots%d" i) k) ])
             | "config" -> CtorConfig { t_roots = (match kv (Printf.sprintf "roots%d" i) k with "" | "none" -> None | r -> Some [ issuer_of r ]);
                                        t_name = (match kv (Printf.sprintf "name%d" i) k with "" | "-" -> None | n -> Some (zi (name_id n)));
                                        t_skip = false }
             | _ -> CtorDefault in
           let got = split_on ',' (kv "results" okv) in
           if List.length got <> 2 then Printf.sprintf "MISMATCH %s two dials scripted, %d results" id (List.length got) else
           let res = ref None in
           List.iteri (fun i g ->
             if !res = None then
               match String.split_on_char '/' g with
               | [ r; xp; sv ] ->
                   let want = dial (ctor_of (i + 1)) (zi (name_id (kv "host" k))) (cert_of (kv "cert" k)) Handshakes in
                   if r = "ok" && want <> DROk then
                     res := Some (Printf.sprintf "PROPFAIL %s sig=tls-unauthenticated-dial:second-transport:%s dial #%d (its own roots/config do not accept the server's certificate: %s) succeeded%s" id (dres_s want) (i + 1) (dres_s want)
                                    (if sv = "resumed" then " by resuming a session another transport had established" else ""))
                   else if xp = "true" && r <> "ok" then res := Some (Printf.sprintf "PROPFAIL %s sig=tls-transport-after-failed-dial dial #%d failed (%s) but returned a transport" id (i + 1) r)
                   else if r <> dres_s want then res := Some (Printf.sprintf "MISMATCH %s sig=tls-outcome:pair dial #%d returned %s, the model says %s" id (i + 1) r (dres_s want))
               | _ -> res := Some (Printf.sprintf "MISMATCH %s malformed" id)) got;
           match !res with Some r -> r | None -> Printf.sprintf "AGREE %s nontrivial" id)
  | "tlsseq" :: id :: rest ->
      let k = parse_kv rest in
      (match Hashtbl.find_opt obs id with
       | None -> Printf.sprintf "MISMATCH %s no-observation" id
       | Some ot ->
           let okv = parse_kv (List.tl (List.tl ot)) in
           if kv "panic" okv <> "" then Printf.sprintf "PROPFAIL %s sig=panic the dial panicked: %s" id (kv "panic" okv) else
           let ctor = match kv "ctor" k with
             | "pem" | "pemdialable" -> CtorPEM (true, [ issuer_of (kv "roots" k) ])
             | _ -> CtorDefault in
           let steps = split_on ',' (kv "dials" k) and got = split_on ',' (kv "results" okv) in
           if List.length steps <> List.length got then Printf.sprintf "MISMATCH %s %d dials scripted, %d results" id (List.length steps) (List.length got) else
           let res = ref None in
           List.iteri (fun i st ->
             if !res = None then
               match String.split_on_char ':' st, String.split_on_char '/' (List.nth got i) with
               | host :: cert :: beh :: _, [ g; xp ] ->
                   let b = match beh with "stall" -> Stalls | "closemid" -> ClosesMid | "garbage" -> Garbage | _ -> Handshakes in
                   let want = dial ctor (zi (name_id host)) (cert_of cert) b in
                   if g = "ok" && want <> DROk then
                     res := Some (Printf.sprintf "PROPFAIL %s sig=tls-unauthenticated-dial:redial:%s dial #%d to %s succeeded although the server's certificate (%s) is not valid for that host under the configured roots; a correct client reports %s" id (dres_s want) i host cert (dres_s want))
                   else if xp = "true" && g <> "ok" then res := Some (Printf.sprintf "PROPFAIL %s sig=tls-transport-after-failed-dial dial #%d failed (%s) but returned a transport" id i g)
                   else if g <> dres_s want then res := Some (Printf.sprintf "MISMATCH %s sig=tls-outcome:redial dial #%d to %s returned %s, the model says %s" id i host g (dres_s want))
               | _ -> res := Some (Printf.sprintf "MISMATCH %s malformed" id)) steps;
           match !res with Some r -> r | None -> Printf.sprintf "AGREE %s nontrivial" id)
  | _ -> "SKIP"
