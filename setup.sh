#!/bin/sh
# Build the framework from files on disk only (offline): translator, Coq development, extracted model driver.
set -e
cd "$(dirname "$0")"
export GOFLAGS=-mod=mod GOPROXY=off GOSUMDB=off GOTOOLCHAIN=local
mkdir -p bin evidence replays
(cd go && go build -o ../bin/gen ./gen)
./bin/gen -repo "${VERIF_REPO:-/repo}" -o coq/Model/Generated.v
(cd coq && coq_makefile -f _CoqProject -o Makefile >/dev/null && timeout 3000 make -j16 >/dev/null)
rm -f bin/driver.stamp
python3 - <<'PY'
import sys, os
sys.path.insert(0, "lib")
import common as C
ok, msg = C.ensure_driver()
if not ok:
    print(msg); sys.exit(1)
PY
# warm the Go build cache for the harness
(cd "${VERIF_REPO:-/repo}" && go test -vet=off -count=1 -run '^$' ./rpc/ >/dev/null 2>&1 || true)
echo setup ok
