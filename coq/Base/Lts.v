(* Generic labelled transition systems: run, invariants, canonical quiescence. *)
From Coq Require Import List.
Import ListNotations.

Section Lts.
  Variables (state label : Type).
  Variable step : state -> label -> option state.

  Fixpoint run (s : state) (ls : list label) : option state :=
    match ls with
    | [] => Some s
    | l :: ls' => match step s l with
                  | Some s' => run s' ls'
                  | None => None
                  end
    end.

  Lemma run_app : forall ls1 ls2 s,
      run s (ls1 ++ ls2) =
      match run s ls1 with Some s' => run s' ls2 | None => None end.
  Proof.
    induction ls1 as [|l ls1 IH]; intros ls2 s; simpl; [reflexivity|].
    destruct (step s l) as [s'|]; [apply IH | reflexivity].
  Qed.

  Lemma run_snoc : forall ls l s s' s'',
      run s ls = Some s' -> step s' l = Some s'' -> run s (ls ++ [l]) = Some s''.
  Proof.
    intros ls l s s' s'' H1 H2. rewrite run_app, H1. simpl. rewrite H2. reflexivity.
  Qed.

  (* the invariant principle: every "for all schedules" theorem is an instance *)
  Theorem invariant_run : forall (Inv : state -> Prop),
      (forall s l s', Inv s -> step s l = Some s' -> Inv s') ->
      forall ls s s', Inv s -> run s ls = Some s' -> Inv s'.
  Proof.
    intros Inv Hstep. induction ls as [|l ls IH]; intros s s' Hi Hr; simpl in Hr.
    - inversion Hr; subst; exact Hi.
    - destruct (step s l) as [s1|] eqn:E; [|discriminate].
      eapply IH; [eapply Hstep; eauto | exact Hr].
  Qed.

  (* two-state invariants (monotone quantities) *)
  Theorem relation_run : forall (R : state -> state -> Prop),
      (forall s, R s s) -> (forall a b c, R a b -> R b c -> R a c) ->
      (forall s l s', step s l = Some s' -> R s s') ->
      forall ls s s', run s ls = Some s' -> R s s'.
  Proof.
    intros R Hrefl Htrans Hstep. induction ls as [|l ls IH]; intros s s' Hr; simpl in Hr.
    - inversion Hr; subst; apply Hrefl.
    - destruct (step s l) as [s1|] eqn:E; [|discriminate].
      eapply Htrans; [eapply Hstep; eauto | apply IH; exact Hr].
  Qed.

  (* canonical scheduler: run the first enabled internal label until none (fuelled) *)
  Variable enabled : state -> list label.

  Fixpoint quiesce (fuel : nat) (s : state) : state * list label :=
    match fuel with
    | O => (s, [])
    | S f =>
        match enabled s with
        | [] => (s, [])
        | l :: _ =>
            match step s l with
            | Some s' => let (s'', ls) := quiesce f s' in (s'', l :: ls)
            | None => (s, [])
            end
        end
    end.

  Lemma quiesce_run : forall f s s' ls, quiesce f s = (s', ls) -> run s ls = Some s'.
  Proof.
    induction f as [|f IH]; intros s s' ls H; simpl in H.
    - inversion H; subst; reflexivity.
    - destruct (enabled s) as [|l r]; [inversion H; subst; reflexivity|].
      destruct (step s l) as [s1|] eqn:E; [|inversion H; subst; reflexivity].
      destruct (quiesce f s1) as [s2 ls2] eqn:Q. inversion H; subst.
      simpl. rewrite E. apply IH. exact Q.
  Qed.
End Lts.

Arguments run {state label} step s ls.
Arguments quiesce {state label} step enabled fuel s.
