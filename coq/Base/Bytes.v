(* Bytes as N < 256; strings are byte lists. Definitions only. *)
From Coq Require Export List NArith ZArith Bool Lia.
Export ListNotations.
Open Scope N_scope.

Definition byte := N.
Definition bytes := list N.

Definition byte_ok (b : N) : bool := b <? 256.
Definition bytes_ok (bs : bytes) : bool := forallb byte_ok bs.

Definition len {A} (bs : list A) : N := N.of_nat (length bs).

Fixpoint bytes_eqb (a b : bytes) : bool :=
  match a, b with
  | [], [] => true
  | x :: a', y :: b' => (x =? y) && bytes_eqb a' b'
  | _, _ => false
  end.

(* big-endian fixed width encodings, by division (never shifts) *)
Fixpoint be_bytes (w : nat) (n : N) : bytes :=
  match w with
  | O => []
  | S w' => (n / 256 ^ N.of_nat w') mod 256 :: be_bytes w' n
  end.

Fixpoint be_value (bs : bytes) : N :=
  match bs with
  | [] => 0
  | b :: r => b * 256 ^ N.of_nat (length r) + be_value r
  end.

Fixpoint list_eqb {A} (eqb : A -> A -> bool) (a b : list A) : bool :=
  match a, b with
  | [], [] => true
  | x :: a', y :: b' => eqb x y && list_eqb eqb a' b'
  | _, _ => false
  end.

Definition option_eqb {A} (eqb : A -> A -> bool) (a b : option A) : bool :=
  match a, b with
  | None, None => true
  | Some x, Some y => eqb x y
  | _, _ => false
  end.
