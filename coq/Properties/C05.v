(* C05 — Hostile or damaged input fails closed: bounded, classified, never a panic.
   Statements only; every proof is [exact <lemma>].  What is proved is the framing-level part (classification and
   consumption on the flat and on the chunked reader model); absence of panics and the allocation bound inside
   go-codec are tested by the correspondence run, not proved. *)
From FMP Require Import Base.Bytes Model.Generated Model.Msgpack Model.Frame Model.Reader
     Proofs.MsgpackProofs Proofs.FrameProofs Proofs.ReaderProofs.
From FMP Require Import Model.Paths Proofs.PathsC05.
From FMP Require Import Model.CodecCfg Proofs.CodecCfgProofs.
Open Scope N_scope.

(* io.EOF is reported exactly when the stream ends on a frame boundary *)
Theorem C05_eof_only_at_boundary : forall e max s, fst (next_frame e max s) = OErr EEOF <-> s = [].
Proof. exact eof_only_at_boundary. Qed.

(* a stream that ends inside the body of a frame is never reported as a clean end of stream: the outcome is fatal,
   is not EOF, and everything has been consumed *)
Theorem C05_truncated_body_not_eof : forall e max L p content,
    (0 < L <= max)%Z -> (max <= 2147483647)%Z -> In p (int_opts L) -> len content < Z.to_N L ->
    exists o, next_frame e max (p ++ content) = (o, []) /\ continues o = false /\ o <> OErr EEOF.
Proof. exact truncated_body_not_eof. Qed.

(* a length prefix that is zero, negative or above the maximum stops the connection before any payload byte is
   consumed (the residual stream is exactly what followed the prefix), for every integer width *)
Theorem C05_bad_length_stops_before_payload : forall e max z p rest,
    (z <= 0 \/ max < z)%Z -> (-2147483648 <= z <= 2147483647)%Z -> In p (int_opts z) ->
    next_frame e max (p ++ rest) = (OErr EPktLen, rest).
Proof. exact bad_length_stops_before_payload. Qed.

Theorem C05_out_of_range_length_stops_before_payload : forall e max z p rest,
    (z < -2147483648 \/ 2147483647 < z)%Z -> (- two63z <= z < two64z)%Z -> In p (int_opts z) -> (0 < max)%Z ->
    exists c, (c = EPrefixBad \/ c = EPktLen) /\ next_frame e max (p ++ rest) = (OErr c, rest).
Proof. exact out_of_range_length_stops_before_payload. Qed.

Theorem C05_nil_length_stops_before_payload : forall e max rest,
    next_frame e max (0xc0 :: rest) = (OErr EPktLen, rest).
Proof. exact nil_length_stops_before_payload. Qed.

(* a prefix that is not an integer at all *)
Theorem C05_non_integer_prefix_stops : forall e max b rest,
    is_int_lead b = false -> b <> 0xc0 -> next_frame e max (b :: rest) = (OErr EPrefixBad, rest).
Proof. exact non_integer_prefix_stops. Qed.

(* malformed content: a first byte that is not a fixarray header of 1..15 elements is fatal, after the frame *)
Theorem C05_bad_header_is_fatal : forall e max L p nb c rest,
    (0 < L <= max)%Z -> (max <= 2147483647)%Z -> In p (int_opts L) -> len (nb :: c) = Z.to_N L ->
    (nb < 0x91 \/ 0x9f < nb) ->
    next_frame e max (p ++ (nb :: c) ++ rest) = (OErr EPktHdr, rest).
Proof. exact bad_header_is_fatal. Qed.

(* all of this holds under every chunking of the incoming bytes *)
Theorem C05_chunked_refines_flat : forall e max r o r',
    rd_wf r -> next_frame_ch e max r = (o, r') -> next_frame e max (abs r) = (o, abs r') /\ rd_wf r'.
Proof. exact next_frame_ch_refines. Qed.

(* non-vacuity *)
Example ex_trunc : fst (next_frame (mkEnv [] [] []) 100 [6; 0x93; 3; 5]) = OErr EDecode. Proof. vm_compute. reflexivity. Qed.
Example ex_neg : next_frame (mkEnv [] [] []) 100 [0xd0; 0xff; 1; 2] = (OErr EPktLen, [1; 2]). Proof. vm_compute. reflexivity. Qed.
Example ex_big : next_frame (mkEnv [] [] []) 100 [0xce; 0; 1; 0; 0; 9] = (OErr EPktLen, [9]). Proof. vm_compute. reflexivity. Qed.

(* no retry inside the frame reader (regenerated): a hostile stream cannot keep it spinning on one frame *)
Theorem C05_one_read_attempt_per_frame : cdf_nextframe_once codecfacts_now = true.
Proof. exact codec_nextframe_once. Qed.

(* on every path through packetizer.NextFrame as it is in the source now the length prefix is decoded first and once, and on the ways out taken for an unreadable, zero, negative or too large prefix nothing of the payload is touched (no ReadByte, no decodeRPC, no drain); the function calls nothing outside the listed vocabulary *)
Theorem C05_source_prefix_checked_before_payload : nextframe_paths_prefix_first = true.
Proof. exact paths_nextframe_prefix_first. Qed.

Print Assumptions C05_eof_only_at_boundary.
Print Assumptions C05_truncated_body_not_eof.
Print Assumptions C05_bad_length_stops_before_payload.
Print Assumptions C05_out_of_range_length_stops_before_payload.
Print Assumptions C05_nil_length_stops_before_payload.
Print Assumptions C05_non_integer_prefix_stops.
Print Assumptions C05_bad_header_is_fatal.
Print Assumptions C05_chunked_refines_flat.
Print Assumptions C05_one_read_attempt_per_frame.
Print Assumptions C05_source_prefix_checked_before_payload.
