(* C01 — Every call is answered by its own handler invocation, exactly once.
   Statements only; every proof is [exact <lemma>]. *)
From FMP Require Import Base.Bytes Base.Lts Model.Events Model.Skeleton Model.Props Model.Dispatch Model.Receiver
     Model.Writer Model.Generated Model.Msgpack Model.Frame
     Proofs.DispatchProofs Proofs.ReceiverProofs Proofs.WriterProofs Proofs.MsgpackProofs Proofs.FrameProofs
     Proofs.SkeletonProofs Proofs.ReceiverProgress Proofs.WriterProgress
     Model.Tags Model.TagsCfg Proofs.TagsProofs Proofs.TagsCfgProofs.
From FMP Require Import Model.Paths Proofs.PathsC01.
Open Scope Z_scope.

(* no caller ever observes another call's reply, whatever the order and delay in which replies arrive: every result
   handed to a caller was sent by the peer for that call's seqno - every skeleton, population, schedule *)
Theorem C01_no_crosstalk : forall sk cs ls st,
    dfresh_ok cs = true -> run (dstep sk) (dinit cs) ls = Some st -> c01_no_crosstalk (dtrace st) = true.
Proof. exact disp_no_crosstalk. Qed.

(* seqnos of calls on one transport are pairwise distinct, so "that call's seqno" identifies it *)
Theorem C01_seqnos_distinct : forall sk cs ls st x y,
    dfresh_ok cs = true -> run (dstep sk) (dinit cs) ls = Some st ->
    In x (dcalls st) -> In y (dcalls st) -> dc_pc x <> DNew -> dc_pc y <> DNew -> dc_seq x = dc_seq y -> dc_nonce x = dc_nonce y.
Proof. exact disp_seqnos_distinct. Qed.

(* the call is in the table exactly while it is outstanding (registered before its frame is visible, removed on
   every return path) *)
Theorem C01_registered_while_outstanding : forall sk cs ls st c,
    sk_removecall_deferred sk = true -> dfresh_ok cs = true -> run (dstep sk) (dinit cs) ls = Some st ->
    (zmem c (d_table st) = true <-> exists x, dfind c (dcalls st) = Some x /\ is_outstanding x = true).
Proof. exact disp_table_exact. Qed.

(* exactly the argument and tags the caller supplied: the frame the caller writes decodes, under every legal encoding,
   to the same method, argument and tags (C02) *)
Theorem C01_argument_and_tags_travel : forall e max m extra ch p rest,
    wf_msg m = true -> forallb wf_val extra = true -> extras_ok m extra = true -> env_accepts e m = true ->
    (length (frame_elems m ++ extra) <= 15)%nat ->
    (Z.of_N (len (content_alt ch m extra)) <= max)%Z -> (max <= 2147483647)%Z ->
    In p (int_opts (Z.of_N (len (content_alt ch m extra)))) ->
    next_frame e max (p ++ content_alt ch m extra ++ rest) = (outcome_of_msg m, rest).
Proof. exact decode_any_legal. Qed.

(* a reply is one whole frame carrying the request's seqno, written at most once per sender (C03/C13), and the
   serving side never loses a registered handler (C09/C11) *)
Theorem C01_reply_frames_whole : forall sk ss ls st,
    fresh_ok ss = true -> run (step sk) (init ss) ls = Some st -> c03_pred (trace st) = true.
Proof. exact writer_c03. Qed.

Theorem C01_generated_ok : skeleton_now = expected_skeleton /\ sk_addcall_before_write expected_skeleton = true.
Proof. exact (conj generated_ok eq_refl). Qed.

Example ex_reverse_order : exists st,
    run (dstep expected_skeleton) (dinit [fresh_call 1; fresh_call 2])
        [DStart 1; DWrite 1; DStart 2; DWrite 2; DInResp 1 2; DDecodeErr; DDecodeRes; DDeliver; DTakeReply 2; DFinish 2;
         DInResp 0 1; DDecodeErr; DDecodeRes; DDeliver; DTakeReply 1; DFinish 1] = Some st
    /\ c01_no_crosstalk (dtrace st) = true /\ length (dtrace st) = 10%nat.
Proof. eexists. split; [vm_compute; reflexivity | split; vm_compute; reflexivity]. Qed.
Example ex_monitor_rejects :
    c01_no_crosstalk [AWrite (mkFI KCall 0 1 true); AWrite (mkFI KCall 1 2 true); AFeed (mkFI KResp 1 2 true) true; AResult 1 2] = false.
Proof. vm_compute. reflexivity. Qed.

(* ---------- exactly one handler invocation per delivered request (serving side, every schedule) ---------- *)
(* no request is handed to a handler twice *)
Theorem C01_never_invoked_twice : forall sk ls st n,
    run (rstep sk) rinit ls = Some st -> (count_ev (invoked_for n) (rtrace st) <= 1)%nat.
Proof. exact recv_never_invoked_twice. Qed.
(* every invocation is for a request fed earlier, with exactly that request's kind, seqno and argument nonce *)
Theorem C01_invocation_has_request : forall sk ls st h fi,
    run (rstep sk) rinit ls = Some st -> In (AHStart h fi) (rtrace st) ->
    exists pre post, rtrace st = pre ++ AHStart h fi :: post /\ In (AFeed fi true) pre.
Proof. exact recv_invocation_has_request. Qed.
(* whenever the receive goroutine is back at reading and the transport is not stopped, every request delivered so far has
   been handed to a handler exactly once *)
Theorem C01_invoked_exactly_once : forall sk ls st,
    run (rstep sk) rinit ls = Some st -> stopped st = false -> recv st = RIdle -> c01_invoked_once (rtrace st) = true.
Proof. exact recv_invoked_exactly_once. Qed.
(* a decoded request is always handed over while the transport is not stopped *)
Theorem C01_handoff_serves_unless_stopped : forall sk ls st h,
    run (rstep sk) rinit ls = Some st -> recv st = RBegin h -> stopped st = false ->
    exists st', rstep sk st RBeginRv = Some st' /\
                In (AHStart h (match hfind h (handlers st) with Some x => req_info x | None => mkFI Events.KBad 0 0 false end)) (rtrace st').
Proof. exact recv_handoff_serves_unless_stopped. Qed.

(* ---------- exactly one reply (send side, every schedule) ---------- *)
(* no frame - reply, call, notification - is written twice *)
Theorem C01_written_at_most_once : forall sk ss ls st c,
    fresh_ok ss = true -> run (step sk) (init ss) ls = Some st -> (writes_of c (trace st) <= 1)%nat.
Proof. exact writer_at_most_once. Qed.
(* a reply (or notification) that returned success had its frame written exactly once; one that was never handed to the
   writer wrote nothing *)
Theorem C01_ok_means_written_once : forall sk ss ls st c s,
    fresh_ok ss = true -> run (step sk) (init ss) ls = Some st -> find c (senders st) = Some s ->
    s_kind s <> SCall -> s_kind s <> SCancelFrame -> s_pc s = PRet ROk -> writes_of c (trace st) = 1%nat.
Proof. exact writer_ok_means_written_once. Qed.
Theorem C01_unhanded_writes_nothing : forall sk ss ls st c s,
    fresh_ok ss = true -> run (step sk) (init ss) ls = Some st -> find c (senders st) = Some s ->
    s_handed s = false -> writes_of c (trace st) = 0%nat.
Proof. exact unhanded_writes_nothing. Qed.
(* progress: from ANY reachable state a started reply (or notification) that has not returned can return within 8 steps of
   its own and of the writer goroutine; and if nothing is wrong - its frame fits, its context has not ended, the transport is
   neither closing nor stopped, the connection accepts writes - it returns success, i.e. exactly one reply frame is written *)
Theorem C01_reply_can_complete : forall ss ls st c s,
    fresh_ok ss = true -> run (step expected_skeleton) (init ss) ls = Some st ->
    find c (senders st) = Some s -> (s_kind s = SNotify \/ s_kind s = SReply) ->
    s_pc s <> PNew -> (forall r, s_pc s <> PRet r) ->
    exists ls' st' s' r, (length ls' <= 8)%nat /\ forallb (own_label c) ls' = true /\
       run (step expected_skeleton) st ls' = Some st' /\ find c (senders st') = Some s' /\ s_pc s' = PRet r /\
       (s_size_ok s = true -> s_ctx s = false -> done_closed st = false -> stop_closed st = false -> conn_ok st = true ->
        writer_alive st = true -> r = ROk).
Proof. exact writer_sender_can_finish. Qed.
Theorem C01_writer_alive_until_closed : forall sk ss ls st,
    fresh_ok ss = true -> run (step sk) (init ss) ls = Some st -> done_closed st = false -> writer_alive st = true.
Proof. exact writer_alive_until_closed. Qed.


(* "exactly the RPC tags the caller supplied", on the caller's side: calls made from one context that already carries
   tags (a session), each adding its own, keep the session's tags extended by their own - and go on showing exactly
   that whatever sibling is derived, whatever is added to the session, read out, or written into the maps that were
   passed in afterwards (Model/Tags.v; both copies are facts of the regenerated order census) *)
Theorem C01_sibling_calls_keep_their_own_tags : forall ops c m addm later,
    let h := trun good th0 ops in
    (exists x, zfind c (ctxs h) = Some x) -> zfind m (maps h) = Some addm ->
    tags_of (trun good th0 (ops ++ TAdd c m :: later)) (next_ctx h) =
      Some (tm_merge (match tags_of h c with Some t => t | None => [] end) addm)
    /\ tags_of (trun good th0 (ops ++ TAdd c m :: later)) c = tags_of h c.
Proof. exact sibling_tags_for_ever. Qed.
Theorem C01_tag_copies_generated_ok : tcfg_now = good.
Proof. exact tcfg_generated_ok. Qed.

(* on every path through the function bodies as they are in the source now (Generated.body_census, enumerated by Model/Paths.v) of the three Serve functions the handler is invoked exactly once; calls reply after it, a notification never replies *)
Theorem C01_source_handler_invoked_once : serve_paths_handler_once = true.
Proof. exact paths_serve_handler_once. Qed.

Print Assumptions C01_no_crosstalk.
Print Assumptions C01_seqnos_distinct.
Print Assumptions C01_registered_while_outstanding.
Print Assumptions C01_argument_and_tags_travel.
Print Assumptions C01_reply_frames_whole.
Print Assumptions C01_generated_ok.
Print Assumptions C01_never_invoked_twice.
Print Assumptions C01_invocation_has_request.
Print Assumptions C01_invoked_exactly_once.
Print Assumptions C01_handoff_serves_unless_stopped.
Print Assumptions C01_written_at_most_once.
Print Assumptions C01_ok_means_written_once.
Print Assumptions C01_unhanded_writes_nothing.
Print Assumptions C01_reply_can_complete.
Print Assumptions C01_writer_alive_until_closed.
Print Assumptions C01_sibling_calls_keep_their_own_tags.
Print Assumptions C01_tag_copies_generated_ok.
Print Assumptions C01_source_handler_invoked_once.
