(* C01 — Every call is answered by its own handler invocation, exactly once.
   Statements only; every proof is [exact <lemma>]. *)
From FMP Require Import Base.Bytes Base.Lts Model.Events Model.Skeleton Model.Props Model.Dispatch Model.Receiver
     Model.Writer Model.Generated Model.Msgpack Model.Frame
     Proofs.DispatchProofs Proofs.ReceiverProofs Proofs.WriterProofs Proofs.MsgpackProofs Proofs.FrameProofs
     Proofs.SkeletonProofs.
Open Scope Z_scope.

(* no caller ever observes another call's reply, whatever the order and delay in which replies arrive: every result
   handed to a caller was sent by the peer for that call's seqno - every skeleton, population, schedule *)
Theorem C01_no_crosstalk : forall sk cs ls st,
    dfresh_ok cs = true -> run (dstep sk) (dinit cs) ls = Some st -> c01_no_crosstalk (dtrace st) = true.
Proof. exact disp_no_crosstalk. Qed.

(* seqnos of calls on one transport are pairwise distinct, so "that call's seqno" identifies it *)
Theorem C01_seqnos_distinct : forall sk cs ls st x y,
    dfresh_ok cs = true -> run (dstep sk) (dinit cs) ls = Some st ->
    In x (dcalls st) -> In y (dcalls st) -> dc_pc x <> DNew -> dc_pc y <> DNew -> dc_seq x = dc_seq y -> dc_nonce x = dc_nonce y.
Proof. exact disp_seqnos_distinct. Qed.

(* the call is in the table exactly while it is outstanding (registered before its frame is visible, removed on
   every return path) *)
Theorem C01_registered_while_outstanding : forall sk cs ls st c,
    sk_removecall_deferred sk = true -> dfresh_ok cs = true -> run (dstep sk) (dinit cs) ls = Some st ->
    (zmem c (d_table st) = true <-> exists x, dfind c (dcalls st) = Some x /\ is_outstanding x = true).
Proof. exact disp_table_exact. Qed.

(* exactly the argument and tags the caller supplied: the frame the caller writes decodes, under every legal encoding,
   to the same method, argument and tags (C02) *)
Theorem C01_argument_and_tags_travel : forall e max m extra ch p rest,
    wf_msg m = true -> forallb wf_val extra = true -> extras_ok m extra = true -> env_accepts e m = true ->
    (length (frame_elems m ++ extra) <= 15)%nat ->
    (Z.of_N (len (content_alt ch m extra)) <= max)%Z -> (max <= 2147483647)%Z ->
    In p (int_opts (Z.of_N (len (content_alt ch m extra)))) ->
    next_frame e max (p ++ content_alt ch m extra ++ rest) = (outcome_of_msg m, rest).
Proof. exact decode_any_legal. Qed.

(* a reply is one whole frame carrying the request's seqno, written at most once per sender (C03/C13), and the
   serving side never loses a registered handler (C09/C11) *)
Theorem C01_reply_frames_whole : forall sk ss ls st,
    fresh_ok ss = true -> run (step sk) (init ss) ls = Some st -> c03_pred (trace st) = true.
Proof. exact writer_c03. Qed.

Theorem C01_generated_ok : skeleton_now = expected_skeleton /\ sk_addcall_before_write expected_skeleton = true.
Proof. exact (conj generated_ok eq_refl). Qed.

Example ex_reverse_order : exists st,
    run (dstep expected_skeleton) (dinit [fresh_call 1; fresh_call 2])
        [DStart 1; DWrite 1; DStart 2; DWrite 2; DInResp 1 2; DDecodeErr; DDecodeRes; DDeliver; DTakeReply 2; DFinish 2;
         DInResp 0 1; DDecodeErr; DDecodeRes; DDeliver; DTakeReply 1; DFinish 1] = Some st
    /\ c01_no_crosstalk (dtrace st) = true /\ length (dtrace st) = 10%nat.
Proof. eexists. split; [vm_compute; reflexivity | split; vm_compute; reflexivity]. Qed.
Example ex_monitor_rejects :
    c01_no_crosstalk [AWrite (mkFI KCall 0 1 true); AWrite (mkFI KCall 1 2 true); AFeed (mkFI KResp 1 2 true) true; AResult 1 2] = false.
Proof. vm_compute. reflexivity. Qed.

Print Assumptions C01_no_crosstalk.
Print Assumptions C01_seqnos_distinct.
Print Assumptions C01_registered_while_outstanding.
Print Assumptions C01_argument_and_tags_travel.
Print Assumptions C01_reply_frames_whole.
Print Assumptions C01_generated_ok.
