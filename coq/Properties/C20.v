(* C20 — Each RPC is accounted exactly once, under its tag, with its wire size.
   Statements only; every proof is [exact <lemma>].  Proved: the record state machine (one Put however often and in
   whatever order it is finished; a second finish is refused; the stored size is the sum of what was added before the
   first finish).  That every way an RPC can end reaches exactly one finish, and which sizes are added, is checked on
   the implementation against sizes recomputed from the raw frames. *)
From FMP Require Import Base.Bytes Model.Instrument Model.Events Model.Props.
From FMP Require Import Model.CodecCfg Proofs.CodecCfgProofs.
From FMP Require Import Model.Paths Proofs.PathsC20.
Open Scope Z_scope.

Theorem C20_one_record_per_instrumenter : forall ops,
    length (snd (irun inst0 ops)) = if existsb finishes ops then 1%nat else 0%nat.
Proof. exact one_record_per_instrumenter. Qed.

Theorem C20_second_finish_refused : forall s, i_finished s = true ->
    (forall n, snd (fst (istep s (IRecordAndFinish n))) = [] /\ snd (istep s (IRecordAndFinish n)) = true) /\
    snd (fst (istep s IFinish)) = [] /\ snd (istep s IFinish) = true.
Proof. exact second_finish_refused. Qed.

Theorem C20_recorded_size_is_sum : forall ops sz,
    snd (irun inst0 ops) = [sz] -> sz = sum_before_finish ops.
Proof. exact recorded_size_is_sum. Qed.

(* the shape of a served call's record: request payload length, then the reply frame, then finish *)
Example ex_served : snd (irun inst0 [IIncrement 20; IRecordAndFinish 11; IRecordAndFinish 11]) = [31].
Proof. reflexivity. Qed.
(* a client call whose reply arrived before it finished *)
Example ex_client : snd (irun inst0 [IIncrement 8; IRecordAndFinish 12]) = [20].
Proof. reflexivity. Qed.

(* ---------- every way an RPC can end reaches exactly one finish (paths of the regenerated function bodies) ----------
   Model/Paths.v enumerates every path through dispatch.Call / Notify / handleCancel, the two Reply functions and the two Serve
   functions as they are in the source now (all branches, select arms, early returns, deferred calls in reverse order): once
   the frame has been handed to the encoder the record is finished exactly once, after that point; never twice on any path;
   every served call goes through Reply.  The definitions named here are in Model/Paths.v. *)
Theorem C20_call_paths_accounted : call_paths_accounted = true. Proof. exact paths_call_accounted. Qed.
Theorem C20_notify_paths_accounted : notify_paths_accounted = true. Proof. exact paths_notify_accounted. Qed.
Theorem C20_cancel_paths_accounted : cancel_paths_accounted = true. Proof. exact paths_cancel_accounted. Qed.
Theorem C20_reply_paths_accounted : reply_paths_accounted = true. Proof. exact paths_reply_accounted. Qed.
Theorem C20_never_accounted_twice : never_accounted_twice = true. Proof. exact paths_never_accounted_twice. Qed.
Theorem C20_serve_paths_reply : serve_paths_reply = true. Proof. exact paths_serve_replies. Qed.
Theorem C20_paths_nonvacuous : paths_nonvacuous = true. Proof. exact paths_are_nonvacuous. Qed.

(* the size a record is finished with is what the encoder reports: 0 for a refused frame, the byte count of the frame otherwise, on both entries (regenerated return census of codec.go) *)
Theorem C20_encoder_reports_the_frame_bytes : cdf_size_reported codecfacts_now = true.
Proof. exact codec_size_reported. Qed.

(* on every path through the function body as it is in the source now (regenerated into Generated.body_census, enumerated by Model/Paths.v) of NetworkInstrumenter.Finish: at most one Put, under the lock, none on the path that refuses *)
Theorem C20_source_finish_paths : finish_paths_once = true.
Proof. exact paths_finish_once. Qed.

(* on every path through the function bodies as they are in the source now (Generated.body_census, enumerated by Model/Paths.v) of rpcResponseMessage.DecodeMessage: the reply payload length is added to the record of the call once, immediately after the call was found, not deferred, before the decoder can be replaced by the one over the decompressed result, and on every way out on which the call was found *)
Theorem C20_source_reply_size_added_once : response_size_paths = true.
Proof. exact paths_response_size. Qed.

Print Assumptions C20_one_record_per_instrumenter.
Print Assumptions C20_second_finish_refused.
Print Assumptions C20_recorded_size_is_sum.
Print Assumptions C20_call_paths_accounted.
Print Assumptions C20_notify_paths_accounted.
Print Assumptions C20_cancel_paths_accounted.
Print Assumptions C20_reply_paths_accounted.
Print Assumptions C20_never_accounted_twice.
Print Assumptions C20_serve_paths_reply.
Print Assumptions C20_paths_nonvacuous.
Print Assumptions C20_encoder_reports_the_frame_bytes.
Print Assumptions C20_source_finish_paths.
Print Assumptions C20_source_reply_size_added_once.

(* ---- the source itself refines the record state machine: rpc/instrument.go's IncrementSize / EndCall / RecordAndFinish /
   Finish, translated statement by statement (Generated.golite_funcs) and run by the GoLite interpreter (Model/GoLite.v),
   do exactly what Instrument.istep says, on EVERY model state, as long as the int64 size does not overflow (the hand
   model counts in unbounded Z; the last theorem says what the source does beyond that).  The storage's Put is an external
   call: it is recorded (callee, evaluated arguments, among them the record with its current Size) and its result is the
   oracle value VExt k of the k-th recorded call.  tag, Ctime, storage and the context are arbitrary. ---- *)
From FMP Require Import Model.GenTypes Model.Generated Model.GoLite Proofs.GoLiteProofs Proofs.GoLiteInstrProofs.

Section SourceRefinement.
  Variable permI : nat -> nat -> list nat.
  Variable tag : list N.
  Variables ctime storage : val.
  Local Notation irepr := (GoLiteInstrProofs.irepr tag ctime storage).
  Local Notation put_event := (GoLiteInstrProofs.put_event tag ctime).

  (* ends normally in the state representing the model's next state: no effect recorded (effects = []), the mutex
     acquired and released exactly once (acq = rel = 1, held = []) *)
  Theorem C20_source_increment_refines_model : forall fuel dur s n, (1 <= fuel)%nat ->
      in_range64 (i_size s) -> in_range64 n -> in_range64 (i_size s + n) ->
      run_fun_args permI fuel golite_funcs name_increment [VInt n] (irepr dur s) =
      RNormal (with_mutex 1 1 (irepr dur (fst (fst (istep s (IIncrement n)))))).
  Proof. exact (golite_increment_refines permI tag ctime storage). Qed.

  (* not finished: exactly one Put carrying the current size, the record becomes finished, the Put's result is returned;
     finished: no Put, state unchanged, "record already finished" is returned *)
  Theorem C20_source_finish_refines_model : forall fuel dur s ctx, (1 <= fuel)%nat ->
      run_fun_args permI fuel golite_funcs name_finish [ctx] (irepr dur s) =
      RReturn (finish_result (snd (istep s IFinish)))
              (with_effects (map (put_event ctx dur) (snd (fst (istep s IFinish))))
                 (with_mutex 1 1 (irepr dur (fst (fst (istep s IFinish)))))).
  Proof. exact (golite_finish_refines permI tag ctime storage). Qed.

  (* IncrementSize, EndCall, Finish in this order (three lock/unlock pairs); on a finished record the size is still
     incremented and nothing is put *)
  Theorem C20_source_record_and_finish_refines_model : forall fuel dur s ctx n, (2 <= fuel)%nat ->
      in_range64 (i_size s) -> in_range64 n -> in_range64 (i_size s + n) ->
      run_fun_args permI fuel golite_funcs name_raf [ctx; VInt n] (irepr dur s) =
      RReturn (finish_result (snd (istep s (IRecordAndFinish n))))
              (with_effects (map (put_event ctx dur_after) (snd (fst (istep s (IRecordAndFinish n)))))
                 (with_mutex 3 3 (irepr dur_after (fst (fst (istep s (IRecordAndFinish n))))))).
  Proof. exact (golite_record_and_finish_refines permI tag ctime storage). Qed.

  (* without the no-overflow hypothesis the stored size is the 64-bit two's complement wrap of the sum *)
  Theorem C20_source_size_wraps_at_2_63 : forall fuel dur s n, (1 <= fuel)%nat ->
      run_fun_args permI fuel golite_funcs name_increment [VInt n] (irepr dur s) =
      RNormal (with_mutex 1 1 (irepr dur (mkInst (wrap 64 (i_size s + n)) (i_finished s)))).
  Proof. exact (golite_increment_wraps permI tag ctime storage). Qed.
End SourceRefinement.

(* nothing of the four translated bodies fell outside the translator's subset *)
Theorem C20_source_translation_complete :
  forallb (fun nm => match lookup nm golite_funcs with
                     | Some g => forallb stmt_ok (gf_body g)
                     | None => false
                     end) instr_names = true.
Proof. exact golite_instr_no_unsupported. Qed.

(* a concrete record: increment 5, record-and-finish 7 puts size 12 once; from 2^63-1 one more byte stores -2^63 *)
Example ex_source_chain_sizes : snd (irun inst0 [IIncrement 5; IRecordAndFinish 7; IFinish]) = [12%Z].
Proof. exact ex_golite_instr_matches_model. Qed.
Example ex_source_wraps :
  run_fun_args ex_permI 1 golite_funcs name_increment [VInt 1]
               (GoLiteInstrProofs.irepr [] VUnit VPtr VUnit (mkInst (2 ^ 63 - 1) false)) =
  RNormal (with_mutex 1 1 (GoLiteInstrProofs.irepr [] VUnit VPtr VUnit (mkInst (- 2 ^ 63) false))).
Proof. exact ex_golite_increment_wraps. Qed.

Print Assumptions C20_source_increment_refines_model.
Print Assumptions C20_source_finish_refines_model.
Print Assumptions C20_source_record_and_finish_refines_model.
Print Assumptions C20_source_size_wraps_at_2_63.
Print Assumptions C20_source_translation_complete.
