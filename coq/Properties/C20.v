(* C20 — Each RPC is accounted exactly once, under its tag, with its wire size.
   Statements only; every proof is [exact <lemma>].  Proved: the record state machine (one Put however often and in
   whatever order it is finished; a second finish is refused; the stored size is the sum of what was added before the
   first finish).  That every way an RPC can end reaches exactly one finish, and which sizes are added, is checked on
   the implementation against sizes recomputed from the raw frames. *)
From FMP Require Import Base.Bytes Model.Instrument Model.Events Model.Props.
From FMP Require Import Model.CodecCfg Proofs.CodecCfgProofs.
From FMP Require Import Model.Paths Proofs.PathsC20.
Open Scope Z_scope.

Theorem C20_one_record_per_instrumenter : forall ops,
    length (snd (irun inst0 ops)) = if existsb finishes ops then 1%nat else 0%nat.
Proof. exact one_record_per_instrumenter. Qed.

Theorem C20_second_finish_refused : forall s, i_finished s = true ->
    (forall n, snd (fst (istep s (IRecordAndFinish n))) = [] /\ snd (istep s (IRecordAndFinish n)) = true) /\
    snd (fst (istep s IFinish)) = [] /\ snd (istep s IFinish) = true.
Proof. exact second_finish_refused. Qed.

Theorem C20_recorded_size_is_sum : forall ops sz,
    snd (irun inst0 ops) = [sz] -> sz = sum_before_finish ops.
Proof. exact recorded_size_is_sum. Qed.

(* the shape of a served call's record: request payload length, then the reply frame, then finish *)
Example ex_served : snd (irun inst0 [IIncrement 20; IRecordAndFinish 11; IRecordAndFinish 11]) = [31].
Proof. reflexivity. Qed.
(* a client call whose reply arrived before it finished *)
Example ex_client : snd (irun inst0 [IIncrement 8; IRecordAndFinish 12]) = [20].
Proof. reflexivity. Qed.

(* ---------- every way an RPC can end reaches exactly one finish (paths of the regenerated function bodies) ----------
   Model/Paths.v enumerates every path through dispatch.Call / Notify / handleCancel, the two Reply functions and the two Serve
   functions as they are in the source now (all branches, select arms, early returns, deferred calls in reverse order): once
   the frame has been handed to the encoder the record is finished exactly once, after that point; never twice on any path;
   every served call goes through Reply.  The definitions named here are in Model/Paths.v. *)
Theorem C20_call_paths_accounted : call_paths_accounted = true. Proof. exact paths_call_accounted. Qed.
Theorem C20_notify_paths_accounted : notify_paths_accounted = true. Proof. exact paths_notify_accounted. Qed.
Theorem C20_cancel_paths_accounted : cancel_paths_accounted = true. Proof. exact paths_cancel_accounted. Qed.
Theorem C20_reply_paths_accounted : reply_paths_accounted = true. Proof. exact paths_reply_accounted. Qed.
Theorem C20_never_accounted_twice : never_accounted_twice = true. Proof. exact paths_never_accounted_twice. Qed.
Theorem C20_serve_paths_reply : serve_paths_reply = true. Proof. exact paths_serve_replies. Qed.
Theorem C20_paths_nonvacuous : paths_nonvacuous = true. Proof. exact paths_are_nonvacuous. Qed.

(* the size a record is finished with is what the encoder reports: 0 for a refused frame, the byte count of the frame otherwise, on both entries (regenerated return census of codec.go) *)
Theorem C20_encoder_reports_the_frame_bytes : cdf_size_reported codecfacts_now = true.
Proof. exact codec_size_reported. Qed.

(* on every path through the function body as it is in the source now (regenerated into Generated.body_census, enumerated by Model/Paths.v) of NetworkInstrumenter.Finish: at most one Put, under the lock, none on the path that refuses *)
Theorem C20_source_finish_paths : finish_paths_once = true.
Proof. exact paths_finish_once. Qed.

(* on every path through the function bodies as they are in the source now (Generated.body_census, enumerated by Model/Paths.v) of rpcResponseMessage.DecodeMessage: the reply payload length is added to the record of the call once, immediately after the call was found, not deferred, before the decoder can be replaced by the one over the decompressed result, and on every way out on which the call was found *)
Theorem C20_source_reply_size_added_once : response_size_paths = true.
Proof. exact paths_response_size. Qed.

Print Assumptions C20_one_record_per_instrumenter.
Print Assumptions C20_second_finish_refused.
Print Assumptions C20_recorded_size_is_sum.
Print Assumptions C20_call_paths_accounted.
Print Assumptions C20_notify_paths_accounted.
Print Assumptions C20_cancel_paths_accounted.
Print Assumptions C20_reply_paths_accounted.
Print Assumptions C20_never_accounted_twice.
Print Assumptions C20_serve_paths_reply.
Print Assumptions C20_paths_nonvacuous.
Print Assumptions C20_encoder_reports_the_frame_bytes.
Print Assumptions C20_source_finish_paths.
Print Assumptions C20_source_reply_size_added_once.
