(* C20 — Each RPC is accounted exactly once, under its tag, with its wire size.
   Statements only; every proof is [exact <lemma>].  Proved: the record state machine (one Put however often and in
   whatever order it is finished; a second finish is refused; the stored size is the sum of what was added before the
   first finish).  That every way an RPC can end reaches exactly one finish, and which sizes are added, is checked on
   the implementation against sizes recomputed from the raw frames. *)
From FMP Require Import Base.Bytes Model.Instrument Model.Events Model.Props.
Open Scope Z_scope.

Theorem C20_one_record_per_instrumenter : forall ops,
    length (snd (irun inst0 ops)) = if existsb finishes ops then 1%nat else 0%nat.
Proof. exact one_record_per_instrumenter. Qed.

Theorem C20_second_finish_refused : forall s, i_finished s = true ->
    (forall n, snd (fst (istep s (IRecordAndFinish n))) = [] /\ snd (istep s (IRecordAndFinish n)) = true) /\
    snd (fst (istep s IFinish)) = [] /\ snd (istep s IFinish) = true.
Proof. exact second_finish_refused. Qed.

Theorem C20_recorded_size_is_sum : forall ops sz,
    snd (irun inst0 ops) = [sz] -> sz = sum_before_finish ops.
Proof. exact recorded_size_is_sum. Qed.

(* the shape of a served call's record: request payload length, then the reply frame, then finish *)
Example ex_served : snd (irun inst0 [IIncrement 20; IRecordAndFinish 11; IRecordAndFinish 11]) = [31].
Proof. reflexivity. Qed.
(* a client call whose reply arrived before it finished *)
Example ex_client : snd (irun inst0 [IIncrement 8; IRecordAndFinish 12]) = [20].
Proof. reflexivity. Qed.

Print Assumptions C20_one_record_per_instrumenter.
Print Assumptions C20_second_finish_refused.
Print Assumptions C20_recorded_size_is_sum.
