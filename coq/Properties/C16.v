(* C16 — connect-delay timers hold dialing back until they fire or are fast-forwarded.
   Statements only; every proof is [exact <lemma>].
   Model/Timer.v: CancellableTimer as one goroutine at a time sees it, with a logical clock;
   Model/TimerConc.v: any number of goroutines, one label per atomic step (swap / get under the mutex, firing the old
   signal, arming time.AfterFunc, the runtime firing a due timer);
   Model/Connection.v + ConnProps.v: the connect delay inside the reconnect sequence. *)
From FMP Require Import Base.Bytes Base.Lts Model.Timer Model.TimerConc Model.Connection Model.ConnProps Model.ConnCfg Model.TimerCfg
     Proofs.TimerProofs Proofs.TimerConcProofs Proofs.ConnProofs Proofs.ConnCfgProofs.
From FMP Require Import Model.Paths Proofs.PathsC16.
Open Scope Z_scope.

(* ---------- the delay chosen ---------- *)
(* StartRandom: a 63-bit random number modulo the window: 0 for a zero window, in [0, window) otherwise *)
Theorem C16_random_delay_in_window : forall rnd w, 0 <= w -> 0 <= rnd ->
    (w = 0 -> random_delay rnd w = 0) /\ (0 < w -> 0 <= random_delay rnd w < w).
Proof. exact random_delay_in_window. Qed.

(* ---------- one goroutine: when Wait returns ---------- *)
Theorem C16_wait_immediate_when_idle : forall st, current st = None -> wait st = st.
Proof. exact wait_immediate_when_idle. Qed.
Theorem C16_wait_immediate_after_fire_now : forall st, wait (fire_now st) = fire_now st.
Proof. exact wait_immediate_after_fire_now. Qed.
(* after ANY history, Wait after Start(d) returns exactly when d has elapsed: not before, and no later *)
Theorem C16_wait_after_start_returns_at_due : forall ops d,
    let st := tmrun tm0 ops in now (wait (start d st)) = now st + Z.max d 0.
Proof. exact wait_after_start_returns_at_due. Qed.
(* ... and only the most recently started timer counts, whether it is sooner or later than the one before *)
Theorem C16_wait_returns_after_latest : forall ops d1 d2,
    let st := tmrun tm0 ops in now (wait (start d2 (start d1 st))) = now st + Z.max d2 0.
Proof. exact wait_returns_after_latest. Qed.
(* every unfired current signal has a runtime timer armed for it: a Wait is always released *)
Theorem C16_every_wait_released : forall ops, tm_wf (tmrun tm0 ops) /\ tm_inv (tmrun tm0 ops).
Proof. exact reach_wf_inv. Qed.

(* ---------- any number of goroutines, every interleaving ---------- *)
(* no operation other than a Wait on an unfired signal can ever be stuck (no deadlock on the mutex, no panic state) *)
Theorem C16_only_waits_block : forall threads s t p,
    tids_ok threads = true -> reach threads s -> thfind t (tc_threads s) = Some p ->
    match p with TIdle | TDone => True | TWaitBlocked i => True | _ => exists s', tcstep s (TStep t) = Some s' end.
Proof. exact tc_only_waits_block. Qed.
(* a blocked Wait's signal is fired, or has a runtime timer armed, or its starter is about to arm one: no deadlock *)
Theorem C16_blocked_wait_is_released : forall threads s t i,
    tids_ok threads = true -> reach threads s -> thfind t (tc_threads s) = Some (TWaitBlocked i) ->
    zin i (tc_fired s) = true \/ (exists due, In (i, due) (tc_armed s)) \/
    (exists u d old, thfind u (tc_threads s) = Some (TStartFire d i old)) \/ (exists u d, thfind u (tc_threads s) = Some (TStartArm d i)).
Proof. exact tc_blocked_can_be_released. Qed.
Theorem C16_due_timer_fires : forall s i due, In (i, due) (tc_armed s) -> due <= tc_now s -> exists s', tcstep s (TTimerFire i) = Some s'.
Proof. exact tc_timer_fires. Qed.
(* Wait returns only when the signal it last saw as current has fired (or there is none) *)
Theorem C16_wait_returns_with_current_fired : forall threads s t f oldf s',
    tids_ok threads = true -> reach threads s ->
    thfind t (tc_threads s) = Some (TWaitTest f oldf) -> tcstep s (TStep t) = Some s' -> thfind t (tc_threads s') = Some TDone ->
    f = oldf /\ match f with Some j => zin j (tc_fired s) = true /\ tc_cur s = tc_cur s' | None => True end.
Proof. exact tc_wait_done_means_current_fired. Qed.
(* not before: a signal that is still current and fired was fired by its own timer, at or after its due time *)
Theorem C16_current_signal_fires_only_when_due : forall threads s i t0 d,
    tids_ok threads = true -> reach threads s ->
    tc_cur s = Some i -> zin i (tc_fired s) = true -> In (i, t0, d) (tc_started s) -> t0 + d <= tc_now s.
Proof. exact tc_current_fired_means_due. Qed.

(* ---------- inside the Connection, every schedule ---------- *)
(* no dial while a delay is pending; the delay ends only by its timer running out or by a fire; once a fire-now command
   waits for the sequence - whether it arrived before, while or after the timer was started - or the running timer was
   fast-forwarded, the delay does not run to its end *)
Theorem C16_connection_delay : forall cfg o eager ds cs cm st,
    cc_spawn_guarded cfg = true -> cc_firenow_sticky cfg = true -> cc_connected_needs_client cfg = true ->
    cmds_fresh cm = true -> reachable cfg o eager ds cs cm st ->
    c16_delay eager (ctrace st) = true.
Proof. exact conn_delay. Qed.
(* the mechanism before the repair (a fire-now request made before the timer exists is lost) breaks it: witness *)
Theorem C16_firenow_lost_refuted : exists o ds cs cm ls st,
    cmds_fresh cm = true /\
    run (cstep (mkCcfg true true true true true true true false) o) (cinit o ds cs cm) ls = Some st /\ c16_delay false (ctrace st) = false.
Proof. exact conn_firenow_lost_refuted. Qed.

(* the source has the shapes the models assume (regenerated from reconnect_backoff.go and connection.go) *)
Theorem C16_generated_ok : timerfacts_now = expected_timerfacts /\ ccfg_now = expected_ccfg /\ cc_firenow_sticky expected_ccfg = true.
Proof. exact (conj timerfacts_generated_ok (conj ccfg_generated_ok eq_refl)). Qed.

(* on every path through the function body as it is in the source now (regenerated into Generated.body_census, enumerated by Model/Paths.v) of Connection.doReconnect: a delay timer is started at most once, the requested fire-now is applied after the start and before the wait, the wait precedes the retry loop *)
Theorem C16_source_delay_paths : doreconnect_paths = true.
Proof. exact paths_doreconnect_delay. Qed.

Print Assumptions C16_random_delay_in_window.
Print Assumptions C16_wait_immediate_when_idle.
Print Assumptions C16_wait_immediate_after_fire_now.
Print Assumptions C16_wait_after_start_returns_at_due.
Print Assumptions C16_wait_returns_after_latest.
Print Assumptions C16_every_wait_released.
Print Assumptions C16_only_waits_block.
Print Assumptions C16_blocked_wait_is_released.
Print Assumptions C16_due_timer_fires.
Print Assumptions C16_wait_returns_with_current_fired.
Print Assumptions C16_current_signal_fires_only_when_due.
Print Assumptions C16_connection_delay.
Print Assumptions C16_firenow_lost_refuted.
Print Assumptions C16_generated_ok.
Print Assumptions C16_source_delay_paths.
