(* C02 — Wire format of every message kind is exact and accepts any legal encoding.
   Statements only; every proof is [exact <lemma>]. *)
From FMP Require Import Base.Bytes Model.Generated Model.Msgpack Model.Frame Proofs.MsgpackProofs Proofs.FrameProofs.
Open Scope N_scope.

(* every legal msgpack encoding (any integer / string / container width, chosen by any choice list) of a
   well-formed value decodes back to that value and leaves what follows untouched *)
Theorem C02_mp_roundtrip : forall v ch rest, wf_val v = true -> decode (fst (enc_alt ch v) ++ rest) = DOk v rest.
Proof. exact mp_roundtrip. Qed.

Theorem C02_mp_roundtrip_canonical : forall v rest, wf_val v = true -> decode (enc v ++ rest) = DOk v rest.
Proof. exact mp_roundtrip_canon. Qed.

(* typed fields (type, seqno, compression type: integers; method: string) accept every legal width *)
Theorem C02_int_field_any_width : forall z o rest,
    (- two63z <= z < two64z)%Z -> In o (int_opts z) -> dec_int64 (o ++ rest) = DOk (wrap64 z) rest.
Proof. exact dec_int64_opts. Qed.

Theorem C02_string_field_any_width : forall s h rest,
    bytes_ok s = true -> In h (str_hdr_opts (len s)) -> dec_string (h ++ s ++ rest) = DOk s rest.
Proof. exact dec_string_opts. Qed.

Theorem C02_encoder_emits_bytes : forall v, wf_val v = true -> bytes_ok (enc v) = true.
Proof. exact enc_bytes_ok. Qed.

(* the five layouts, byte for byte: [0,seq,method,arg(,tags)] [4,seq,ctype,method,arg(,tags)] [1,seq,err,res]
   [2,method,arg(,tags)] [3,seq,method], fixarray header 0x90+n, preceded by the msgpack integer of the content length *)
Theorem C02_frame_layout_exact : forall m, enc (frame_val m) = spec_bytes m.
Proof. exact frame_layout_exact. Qed.

Theorem C02_encode_frame_exact : forall max m,
    (Z.of_N (len (spec_bytes m)) <= max)%Z ->
    encode_frame max m = Some (enc_int (Z.of_N (len (spec_bytes m))) ++ spec_bytes m).
Proof. exact encode_frame_exact. Qed.

(* conversely: any such message, with any legal width for every integer, string and container inside it and for the
   length prefix, and any number of extra trailing elements, is decoded to the same type, seqno, method, argument,
   error, result and tags *)
Theorem C02_decode_any_legal : forall e max m extra ch p rest,
    wf_msg m = true -> forallb wf_val extra = true -> extras_ok m extra = true -> env_accepts e m = true ->
    (length (frame_elems m ++ extra) <= 15)%nat ->
    (Z.of_N (len (content_alt ch m extra)) <= max)%Z -> (max <= 2147483647)%Z ->
    In p (int_opts (Z.of_N (len (content_alt ch m extra)))) ->
    next_frame e max (p ++ content_alt ch m extra ++ rest) = (outcome_of_msg m, rest).
Proof. exact decode_any_legal. Qed.

(* non-vacuity: a nested value, a non-canonical encoding of it, and its decoding *)
Definition ex_v := VArr [VInt 0; VInt 300; VStr [112; 46; 109]; VMap [(VStr [107], VInt (-5))]].
Example ex_wf : wf_val ex_v = true. Proof. vm_compute. reflexivity. Qed.
Example ex_alt_differs : fst (enc_alt [1; 1; 2; 1; 1; 1; 1]%nat ex_v) <> enc ex_v. Proof. vm_compute. discriminate. Qed.
Example ex_alt_decodes : decode (fst (enc_alt [1; 1; 2; 1; 1; 1; 1]%nat ex_v)) = DOk ex_v []. Proof. vm_compute. reflexivity. Qed.

Print Assumptions C02_mp_roundtrip.
Print Assumptions C02_mp_roundtrip_canonical.
Print Assumptions C02_int_field_any_width.
Print Assumptions C02_string_field_any_width.
Print Assumptions C02_encoder_emits_bytes.
Print Assumptions C02_frame_layout_exact.
Print Assumptions C02_encode_frame_exact.
Print Assumptions C02_decode_any_legal.
