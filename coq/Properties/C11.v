(* C11 — Closing a transport releases every goroutine and table entry it created.
   Statements only; every proof is [exact <lemma>].  What is proved is enabledness (no goroutine of the serving or
   sending side can be parked for ever once the transport has stopped); that the goroutines actually exit is
   observed by the harness (goroutine dump at quiescence). *)
From FMP Require Import Base.Bytes Base.Lts Model.Events Model.Skeleton Model.Props Model.Receiver Model.Writer
     Proofs.ReceiverProofs Proofs.WriterProofs Proofs.SkeletonProofs.
From FMP Require Import Model.CodecCfg Proofs.CodecCfgProofs.
From FMP Require Import Model.Paths Proofs.PathsC11.
From FMP Require Import Proofs.ReceiverQuiesce.
Open Scope Z_scope.

(* serving side: the receive goroutine, every goroutine reporting the end of its handler, and the task loop can move *)
Theorem C11_serving_side_never_stuck : forall ls st,
    run (rstep expected_skeleton) rinit ls = Some st -> stopped st = true ->
    recv_can_move expected_skeleton st = true /\
    (forall x, In x (handlers st) -> hd_pc x = HEnding -> ending_can_move expected_skeleton st (hd_id x) = true) /\
    (tl_alive st = true -> rstep expected_skeleton st RTaskLoopExit <> None).
Proof. exact recv_no_goroutine_stuck. Qed.

(* sending side: a caller / notifier blocked anywhere has a step of its own once stop and done are closed *)
Theorem C11_sending_side_never_stuck : forall ss ls st c s,
    fresh_ok ss = true -> run (step expected_skeleton) (init ss) ls = Some st ->
    find c (senders st) = Some s -> blocked_pc (s_pc s) = true ->
    stop_closed st = true -> done_closed st = true -> s_kind s <> SReply ->
    exists l st', own_step c l = true /\ step expected_skeleton st l = Some st'.
Proof. exact stop_unblocks. Qed.

Theorem C11_generated_ok : skeleton_now = expected_skeleton.
Proof. exact generated_ok. Qed.

(* the mechanism before the repair: a handler that returns after Close is parked on the bare taskEndCh send for ever *)
Theorem C11_taskend_bare_parks_forever : exists ls st h,
    run (rstep old_skeleton) rinit ls = Some st /\ stopped st = true /\
    (exists x, hfind h (handlers st) = Some x /\ hd_pc x = HEnding) /\
    forall ls' st', run (rstep old_skeleton) st ls' = Some st' ->
                    exists x', hfind h (handlers st') = Some x' /\ hd_pc x' = HEnding.
Proof. exact recv_taskend_bare_parks_forever. Qed.

Example ex_stopped_reachable : exists st,
    run (rstep expected_skeleton) rinit [RInCall 5; RBeginRv; RStop; RTaskLoopExit; RHandlerRet 0] = Some st
    /\ stopped st = true /\ ending_can_move expected_skeleton st 0 = true.
Proof. eexists. split; [vm_compute; reflexivity | split; vm_compute; reflexivity]. Qed.

(* the pending-call table: on every path through dispatch.Call as it is in the source now (Model/Paths.v), a call that was
   registered is unregistered exactly once (the deferred RemoveCall), whatever branch, select arm or return is taken; and
   the frame is handed to the encoder only after the registration *)
Theorem C11_call_paths_unregister : call_paths_unregister = true. Proof. exact paths_call_unregisters. Qed.

(* ---------- everything can exit: bounded quiescence of the serving side after stop ---------- *)
Theorem C11_can_quiesce_after_stop : forall ls st,
    run (rstep expected_skeleton) rinit ls = Some st -> stopped st = true ->
    exists ls' st', (length ls' <= length (endings st) + 3)%nat /\ forallb internal ls' = true /\
                    run (rstep expected_skeleton) st ls' = Some st' /\ quiet st'.
Proof. exact recv_can_quiesce_after_stop. Qed.
(* once quiet nothing of the library moves any more *)
Theorem C11_quiet_is_final : forall sk st l, quiet st -> internal l = true -> rstep sk st l = None.
Proof. exact recv_quiet_is_final. Qed.
(* a handler function that returns after the stop can still exit (the seeded "bare send" variants cannot: refuted above) *)
Theorem C11_late_handler_can_exit : forall ls st h st1,
    run (rstep expected_skeleton) rinit ls = Some st -> stopped st = true ->
    rstep expected_skeleton st (RHandlerRet h) = Some st1 ->
    exists st2, (rstep expected_skeleton st1 (REndStop h) = Some st2 \/ rstep expected_skeleton st1 (REndRv h) = Some st2) /\
                (forall x, hfind h (handlers st2) = Some x -> hd_pc x = HGone).
Proof. exact recv_late_handler_can_exit. Qed.

(* the task loop releases its table when it stops (regenerated order census of receiver.go) *)
Theorem C11_task_loop_cancels_its_table_on_stop : cdf_taskloop_cancels codecfacts_now = true.
Proof. exact codec_taskloop_cancels. Qed.

Print Assumptions C11_serving_side_never_stuck.
Print Assumptions C11_sending_side_never_stuck.
Print Assumptions C11_generated_ok.
Print Assumptions C11_taskend_bare_parks_forever.
Print Assumptions C11_call_paths_unregister.
Print Assumptions C11_can_quiesce_after_stop.
Print Assumptions C11_quiet_is_final.
Print Assumptions C11_late_handler_can_exit.
Print Assumptions C11_task_loop_cancels_its_table_on_stop.
