(* C10 — No caller or closer blocks forever when the connection dies or is closed.
   Statements only; every proof is [exact <lemma>].  The theorems give enabledness (safety form of "returns"): in every
   reachable state after the fault each blocked goroutine has a step it can take by itself; that these steps are taken
   within bounded time is observed by the harness. *)
From FMP Require Import Base.Bytes Base.Lts Model.Events Model.Skeleton Model.Props Model.Writer Model.Receiver
     Model.Lifecycle Proofs.WriterProofs Proofs.ReceiverProofs Proofs.LifecycleProofs Proofs.CloseProofs
     Proofs.SkeletonProofs.
From FMP Require Import Model.Paths Proofs.PathsC10.
From FMP Require Import Proofs.WriterProgress Proofs.WriterCancel Proofs.ReceiverQuiesce.
Open Scope Z_scope.

(* every wait of a call / notification has a stop or done arm: once the transport has stopped a blocked caller can
   move by itself (and what it returns then is io.EOF, the write error or its context's error: see rclass_of) *)
Theorem C10_blocked_callers_released : forall ss ls st c s,
    fresh_ok ss = true -> run (step expected_skeleton) (init ss) ls = Some st ->
    find c (senders st) = Some s -> blocked_pc (s_pc s) = true ->
    stop_closed st = true -> done_closed st = true -> s_kind s <> SReply ->
    exists l st', own_step c l = true /\ step expected_skeleton st l = Some st'.
Proof. exact stop_unblocks. Qed.

(* ... and whenever its own context ends (replies included: a handler's context is cancelled by Close, C09) *)
Theorem C10_ctx_releases : forall ss ls st c s,
    fresh_ok ss = true -> run (step expected_skeleton) (init ss) ls = Some st ->
    find c (senders st) = Some s -> blocked_pc (s_pc s) = true -> s_ctx s = true ->
    exists l st', own_step c l = true /\ step expected_skeleton st l = Some st'.
Proof. exact ctx_unblocks. Qed.

(* a reply is the one sender without a stop arm: it relies on its context (recorded as a theorem, not hidden) *)
Theorem C10_reply_needs_its_context :
  exists ss ls st c s,
    fresh_ok ss = true /\ run (step expected_skeleton) (init ss) ls = Some st /\
    find c (senders st) = Some s /\ s_pc s = PWait1 /\ s_kind s = SReply /\
    stop_closed st = true /\ done_closed st = true /\
    forall l, own_step c l = true -> step expected_skeleton st l = None.
Proof. exact stop_unblocks_reply_false. Qed.

(* Close itself returns: the two goroutines it waits for can always move - the task loop exits on the stop channel ... *)
Theorem C10_close_wait_for_task_loop : forall ls st,
    run (rstep expected_skeleton) rinit ls = Some st -> stopped st = true ->
    recv_can_move expected_skeleton st = true /\
    (forall x, In x (handlers st) -> hd_pc x = HEnding -> ending_can_move expected_skeleton st (hd_id x) = true) /\
    (tl_alive st = true -> rstep expected_skeleton st RTaskLoopExit <> None).
Proof. exact recv_no_goroutine_stuck. Qed.

(* ... and the writer is never stuck: with a bundle it notifies and writes (a Write on the closed connection returns),
   idle with done closed it exits *)
Theorem C10_close_wait_for_writer : forall sk ss ls st,
    fresh_ok ss = true -> run (step sk) (init ss) ls = Some st ->
    (writer st = None -> done_closed st = true -> writer_alive st = true -> step sk st LWriterExit <> None) /\
    (forall c, writer st = Some (c, WGot) -> step sk st LWriterNotify <> None) /\
    (forall c, writer st = Some (c, WNotified) -> step sk st LWriterWrite <> None).
Proof. exact writer_never_stuck. Qed.

(* Close may be repeated or raced: the once admits one winner, and stopping is irreversible *)
Theorem C10_close_idempotent : forall sk ls st st',
    run (lcstep sk) st ls = Some st' -> lc_stop_closed st = true -> lc_stop_closed st' = true.
Proof. exact lifecycle_stop_irreversible. Qed.

Theorem C10_generated_ok : skeleton_now = expected_skeleton.
Proof. exact generated_ok. Qed.

(* ---------- bounded completion after the transport has stopped ---------- *)
(* every started call / notification that has not returned can return with its own steps only, within 3 steps (3 are
   needed: three_self_steps_needed); a reply has no stop arm and relies on its context (writer_stopped_reply_stuck shows the
   hypothesis cannot be dropped; with its context ended it returns: C08_cancelled_sender_returns) *)
Theorem C10_stopped_sender_returns : forall ss ls st c s,
    fresh_ok ss = true -> run (step expected_skeleton) (init ss) ls = Some st ->
    find c (senders st) = Some s -> s_pc s <> PNew -> (forall r, s_pc s <> PRet r) ->
    done_closed st = true -> stop_closed st = true -> s_kind s <> SReply ->
    exists ls' st' s' r, (length ls' <= 3)%nat /\ forallb (self_label c) ls' = true /\
       run (step expected_skeleton) st ls' = Some st' /\ find c (senders st') = Some s' /\ s_pc s' = PRet r.
Proof. exact writer_stopped_sender_returns. Qed.
(* the serving side: from any reachable stopped state the library's goroutines all finish on their own within
   (handlers reporting their end) + 3 internal steps; only handler FUNCTIONS still running remain, with cancelled contexts *)
Theorem C10_serving_side_quiesces : forall ls st,
    run (rstep expected_skeleton) rinit ls = Some st -> stopped st = true ->
    exists ls' st', (length ls' <= length (endings st) + 3)%nat /\ forallb internal ls' = true /\
                    run (rstep expected_skeleton) st ls' = Some st' /\ quiet st' /\
                    forall x, In x (handlers st') -> hd_pc x = HRun -> hd_ctx x = true.
Proof. exact recv_can_quiesce_after_stop_cancelled. Qed.

(* on every path through the writer loop as it is in the source now the goroutine returns only through the arm that Close enables, never after a Write: a failed write does not take the receiver of the hand-off channel away *)
Theorem C10_source_writer_survives_write_errors : writer_loop_exits_only_when_done = true.
Proof. exact paths_writer_exits_only_when_done. Qed.

Print Assumptions C10_blocked_callers_released.
Print Assumptions C10_ctx_releases.
Print Assumptions C10_reply_needs_its_context.
Print Assumptions C10_close_wait_for_task_loop.
Print Assumptions C10_close_wait_for_writer.
Print Assumptions C10_close_idempotent.
Print Assumptions C10_generated_ok.
Print Assumptions C10_stopped_sender_returns.
Print Assumptions C10_serving_side_quiesces.
Print Assumptions C10_source_writer_survives_write_errors.
