(* C18 — Remote address rotation and address parsing are complete and stable.
   Statements only; every proof is [exact <lemma>]. *)
From Coq Require Import Permutation.
From FMP Require Import Base.Bytes Model.Generated Model.Remote Model.Uri Proofs.RemoteProofs Proofs.UriProofs.

Section Rotation.
  (* rand.Perm as an arbitrary oracle; the only assumption is that it returns permutations *)
  Variable perm : nat -> list addr -> list addr.
  Hypothesis perm_ok : forall n g, Permutation (perm n g) g.

  (* Between resets: every address of the first group exactly once in some order, then every address of
     the next group, and so on; the object is exhausted exactly at the end of the cycle. *)
  Theorem C18_cycle_visits_each_group_exactly_once : forall r, wf_groups (addrs r) ->
      exists pieces,
        Forall2 (@Permutation addr) pieces (addrs r) /\
        fst (gets perm (total (addrs r)) (reset perm r)) = map Some (concat pieces) /\
        iter (snd (gets perm (total (addrs r)) (reset perm r))) = [] /\
        addrs (snd (gets perm (total (addrs r)) (reset perm r))) = addrs r.
  Proof. exact (cycle_after_reset perm perm_ok). Qed.

  (* ... starting over after the last *)
  Theorem C18_exhausted_restarts : forall r, wf_groups (addrs r) -> iter r = [] ->
      get perm r = get perm (reset perm r) /\ peek perm r = peek perm (reset perm r).
  Proof. exact (exhausted_restarts perm perm_ok). Qed.

  (* GetAddress/Peek never index out of range, and keep the object well formed, for every op sequence *)
  Theorem C18_ops_total : forall r o, wf r -> wf (snd (rstep perm r o)).
  Proof. exact (rstep_wf perm perm_ok). Qed.

  Theorem C18_get_returns : forall r, wf r -> exists a, fst (get perm r) = Some a /\ wf (snd (get perm r)).
  Proof. exact (get_wf perm perm_ok). Qed.

  Theorem C18_peek_is_next_get : forall r, wf r -> fst (get perm (snd (peek perm r))) = fst (peek perm r).
  Proof. exact (peek_is_next_get perm perm_ok). Qed.

  Theorem C18_peek_changes_nothing : forall r o, wf r ->
      rstep perm (snd (peek perm r)) o = rstep perm (ensure perm r) o /\
      fst (get perm (ensure perm r)) = fst (get perm r) /\
      snd (get perm (ensure perm r)) = snd (get perm r) /\
      peek perm (ensure perm r) = peek perm r.
  Proof. exact (peek_pure perm perm_ok). Qed.

  (* Reset restarts from the first group with all addresses *)
  Theorem C18_reset_restarts : forall r, Forall2 (@Permutation addr) (iter (reset perm r)) (addrs r).
  Proof. exact (reset_iter perm perm_ok). Qed.

  (* The acceptor used by the correspondence check accepts every behaviour of the object
     (no false alarm is possible as long as rand.Perm returns permutations). *)
  Theorem C18_model_accepted : forall c ops, wf_groups c ->
      exists es a', events ops (fst (rrun perm (fresh perm c) ops)) = Some es /\
                    a_run (a_fresh c) es = Some a'.
  Proof. exact (model_accepted perm perm_ok). Qed.
End Rotation.

Theorem C18_clean_idempotent : forall gs, clean (clean gs) = clean gs.
Proof. exact clean_idem. Qed.

Theorem C18_construction_normalises : forall gs,
    Forall (fun g => g <> []) (clean gs) /\ Forall (Forall (fun a => a <> [])) (clean gs).
Proof. exact (fun gs => conj (clean_no_empty_group gs) (clean_no_empty_addr gs)). Qed.

Theorem C18_parse_tostring_roundtrip : forall gs c,
    new_groups gs = Some c -> Forall (Forall sep_free) c -> parse_remote (to_string c) = Some c.
Proof. exact parse_tostring_roundtrip. Qed.

(* URIs: everything accepted has a whitelisted scheme, a port separator and a non-empty host *)
Theorem C18_uri_rejects : forall s sch hp h,
    parse_uri s = UOk sch hp h ->
    scheme_ok sch = true /\ h <> [] /\ count_colons hp = 1%nat /\
    (exists p, hp = h ++ colon :: p /\ forallb is_digit p = true) /\
    forallb is_auth_char hp = true.
Proof. exact uri_accept_shape. Qed.

Theorem C18_uri_tls_iff_scheme : forall sch, use_tls sch = true <-> sch = scheme_tls.
Proof. exact (fun sch => bytes_eqb_eq sch scheme_tls). Qed.

Theorem C18_uri_string_roundtrip : forall s sch hp h,
    parse_uri s = UOk sch hp h -> parse_uri (uri_string sch hp) = UOk sch hp h.
Proof. exact uri_string_roundtrip. Qed.

Theorem C18_uri_model_satisfies_predicate : forall s o, obs_of_model s = Some o -> uri_pred o = true.
Proof. exact model_satisfies_pred. Qed.

(* facts regenerated from fmp_uri.go that the URI theorems rest on *)
Theorem C18_generated_ok : scheme_const_ok scheme_standard = true /\ scheme_const_ok scheme_tls = true /\
                           bytes_eqb scheme_standard scheme_tls = false.
Proof. exact scheme_consts_ok. Qed.

(* ---- non-vacuity ---- *)
Definition ex_groups : list (list bytes) := [[[32; 65; 46; 99]; []; [98]]; [[32]]; [[67; 58; 49]]].
Example ex_clean : new_groups ex_groups = Some [[[97; 46; 99]; [98]]; [[99; 58; 49]]].
Proof. vm_compute. reflexivity. Qed.
Example ex_wf : wf_groups [[[97; 46; 99]; [98]]; [[99; 58; 49]]].
Proof. split; [discriminate|]. repeat constructor; discriminate. Qed.
Example ex_uri : parse_uri [70;109;112;114;112;99;43;116;108;115;58;47;47;104;46;120;58;52;52;51;47;97]
                 = UOk scheme_tls [104;46;120;58;52;52;51] [104;46;120].
Proof. vm_compute. reflexivity. Qed.
Example ex_accept : a_run (a_fresh [[[1];[2]];[[3]]]) [EPeek [2]; EGet [2]; EGet [1]; EPeek [3]; EGet [3]; EGet [1]; EReset; EGet [2]] <> None.
Proof. vm_compute. discriminate. Qed.
Example ex_reject : a_run (a_fresh [[[1];[2]];[[3]]]) [EGet [2]; EGet [3]] = None.
Proof. vm_compute. reflexivity. Qed.

Print Assumptions C18_cycle_visits_each_group_exactly_once.
Print Assumptions C18_exhausted_restarts.
Print Assumptions C18_ops_total.
Print Assumptions C18_get_returns.
Print Assumptions C18_peek_is_next_get.
Print Assumptions C18_peek_changes_nothing.
Print Assumptions C18_reset_restarts.
Print Assumptions C18_model_accepted.
Print Assumptions C18_clean_idempotent.
Print Assumptions C18_construction_normalises.
Print Assumptions C18_parse_tostring_roundtrip.
Print Assumptions C18_uri_rejects.
Print Assumptions C18_uri_tls_iff_scheme.
Print Assumptions C18_uri_string_roundtrip.
Print Assumptions C18_uri_model_satisfies_predicate.
Print Assumptions C18_generated_ok.

(* ---- the source itself refines the model: rpc/remote.go's resetLocked/Reset/GetAddress/Peek, translated statement
   by statement (Generated.golite_funcs) and run by the GoLite interpreter (Model/GoLite.v), compute exactly
   Remote.reset/get/peek on EVERY model state; index-out-of-range panics correspond to the model's None.
   rand.Perm is an arbitrary oracle returning permutations of 0..k-1. ---- *)
From FMP Require Import Model.GoLite Proofs.GoLiteProofs.

Section SourceRefinement.
  Variable permI : nat -> nat -> list nat.
  Hypothesis permI_ok : forall n k, Permutation (permI n k) (seq 0 k).

  Theorem C18_source_reset_refines_model : forall fuel r, (2 <= fuel)%nat ->
      run_fun permI fuel golite_funcs name_reset (repr r) =
      RNormal (with_mutex 1 1 (repr (Remote.reset (GoLiteProofs.perm permI) r))).
  Proof. exact (golite_reset_refines permI permI_ok). Qed.

  Theorem C18_source_get_refines_model : forall fuel r,
      (2 + length (Remote.addrs r) + length (Remote.iter r) <= fuel)%nat ->
      match Remote.get (GoLiteProofs.perm permI) r with
      | (Some a, r') => run_fun permI fuel golite_funcs name_get (repr r) =
                        RReturn (VStr a) (with_mutex 1 1 (repr r'))
      | (None, _) => run_fun permI fuel golite_funcs name_get (repr r) = RPanic PIndex
      end.
  Proof. exact (golite_get_refines permI permI_ok). Qed.

  Theorem C18_source_peek_refines_model : forall fuel r, (2 <= fuel)%nat ->
      match Remote.peek (GoLiteProofs.perm permI) r with
      | (Some a, r') => run_fun permI fuel golite_funcs name_peek (repr r) =
                        RReturn (VStr a) (with_mutex 1 1 (repr r'))
      | (None, _) => run_fun permI fuel golite_funcs name_peek (repr r) = RPanic PIndex
      end.
  Proof. exact (golite_peek_refines permI permI_ok). Qed.
End SourceRefinement.

(* nothing of the translated method bodies (resetLocked, Reset, GetAddress, Peek, nextSeqid) fell outside the translator's subset; the construction functions are covered by C18_source_construction_complete *)
Theorem C18_source_translation_complete : no_unsupported golite_funcs = true.
Proof. exact golite_no_unsupported. Qed.

Print Assumptions C18_source_reset_refines_model.
Print Assumptions C18_source_get_refines_model.
Print Assumptions C18_source_peek_refines_model.
Print Assumptions C18_source_translation_complete.

(* ---- construction and printing, from the source: NewPrioritizedRoundRobinRemote, ParsePrioritizedRoundRobinRemote and
   prioritizedRoundRobinRemote.String translated statement by statement and run by the GoLite interpreter compute
   Remote.new_groups / parse_remote / to_string on EVERY input, and the object built is the model's freshly reset remote.
   strings.ToLower / TrimSpace / Split / Join are interpreted as Remote.lower_b / trim / split / join (ASCII zone, one-byte
   separators): that mapping is trusted, and compared against the real package by the differential families of C18. ---- *)
From FMP Require Import Model.GenTypes Proofs.GoLiteCtorProofs.

Section SourceConstruction.
  Variable permI : nat -> nat -> list nat.
  Hypothesis permI_ok : forall n k, Permutation (permI n k) (seq 0 k).

  Theorem C18_source_string_refines_model : forall fuel r, (1 <= fuel)%nat ->
      run_fun permI fuel golite_funcs name_string (repr r) = RReturn (VStr (Remote.to_string (Remote.addrs r))) (repr r).
  Proof. exact (golite_string_refines permI). Qed.

  Theorem C18_source_new_refines_model : forall fuel (gs : list (list bytes)) d, (3 <= fuel)%nat ->
      run_fun_args permI fuel golite_funcs name_new [enc_groups gs] (mkState [] [] d 0 0 [] [] []) =
      RReturn (fst (new_result permI (Remote.new_groups gs) d)) (snd (new_result permI (Remote.new_groups gs) d)).
  Proof. exact (golite_new_refines permI permI_ok). Qed.

  Theorem C18_source_parse_refines_model : forall fuel (s : bytes) d, (3 <= fuel)%nat ->
      run_fun_args permI fuel golite_funcs name_parse [VStr s] (mkState [] [] d 0 0 [] [] []) =
      RReturn (fst (new_result permI (Remote.parse_remote s) d)) (snd (new_result permI (Remote.parse_remote s) d)).
  Proof. exact (golite_parse_refines permI permI_ok). Qed.

  (* new_result, spelled out: err_no_address = VErr "addressGroups has no address",
     new_object r = VRec [("addresses", enc_groups (addrs r)); ("toIterate", enc_groups (iter r))] *)
  Theorem C18_source_new_result : forall o d,
      new_result permI o d =
      match o with
      | None => (VTuple [VNil; err_no_address], mkState [] [] d 0 0 [] [] [])
      | Some c => let r := Remote.reset (GoLiteProofs.perm permI) (Remote.mkRemote c [] d) in
                  (VTuple [new_object r; VNil], repr r)
      end.
  Proof. reflexivity. Qed.
End SourceConstruction.

Theorem C18_source_construction_complete :
  forallb (fun nm => match lookup nm golite_funcs with
                     | Some g => forallb stmt_ok (gf_body g)
                     | None => false
                     end) ctor_names = true.
Proof. exact golite_ctor_no_unsupported. Qed.

Print Assumptions C18_source_string_refines_model.
Print Assumptions C18_source_new_refines_model.
Print Assumptions C18_source_parse_refines_model.
Print Assumptions C18_source_new_result.
Print Assumptions C18_source_construction_complete.
