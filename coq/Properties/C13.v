(* C13 — Sends keep their order, seqnos are never reused, send notifier is exact.
   Statements only; every proof is [exact <lemma>].  The monitors are those evaluated on the implementation's
   event log (Model/Props.v); the transition system is Model/Writer.v, for EVERY skeleton (the safety statements do
   not depend on which select arms exist), every population of senders and every schedule. *)
From FMP Require Import Base.Bytes Base.Lts Model.Events Model.Skeleton Model.Props Model.Writer
     Proofs.WriterProofs Proofs.SkeletonProofs.
From FMP Require Import Model.Paths Proofs.PathsC13.
From FMP Require Import Model.CodecCfg Proofs.CodecCfgProofs.
Open Scope Z_scope.

Theorem C13_notifier_exact : forall sk ss ls st,
    fresh_ok ss = true -> all_announce ss = true -> run (step sk) (init ss) ls = Some st ->
    accepts notifier_step None (trace st) = true.
Proof. exact writer_notifier_exact. Qed.

Theorem C13_seqnos_distinct : forall sk ss ls st,
    fresh_ok ss = true -> run (step sk) (init ss) ls = Some st -> accepts seqno_step [] (trace st) = true.
Proof. exact writer_seqnos_distinct. Qed.

Theorem C13_cancel_never_precedes_call : forall sk ss ls st,
    fresh_ok ss = true -> run (step sk) (init ss) ls = Some st -> accepts cancel_step [] (trace st) = true.
Proof. exact writer_cancel_after_call. Qed.

Theorem C13_order_kept : forall sk ss ls st,
    fresh_ok ss = true -> run (step sk) (init ss) ls = Some st ->
    accepts order_step (mkO [] [] []) (trace st) = true.
Proof. exact writer_order_kept. Qed.

Theorem C13_all : forall sk ss ls st,
    fresh_ok ss = true -> all_announce ss = true -> run (step sk) (init ss) ls = Some st -> c13_pred (trace st) = true.
Proof. exact writer_c13. Qed.

(* never for a send abandoned before reaching the connection *)
Theorem C13_abandoned_never_written : forall sk ss ls st c s fi,
    fresh_ok ss = true -> run (step sk) (init ss) ls = Some st ->
    find c (senders st) = Some s -> s_handed s = false ->
    (In (AWrite fi) (trace st) \/ In (AWriteFail fi) (trace st)) -> fi_nonce fi <> c.
Proof. exact unhanded_never_written. Qed.

Theorem C13_generated_ok : skeleton_now = expected_skeleton.
Proof. exact generated_ok. Qed.

(* non-vacuity: a schedule with a cancelled call, a notification, an oversized call and a failed write *)
Definition ex_ss := [fresh_sender 1 SCall true true; fresh_sender 2 SNotify true true; fresh_sender 3 SCall false true;
                     fresh_sender 4 SCall true true].
Definition ex_ls := [LStart 1; LEncode 1; LHandoff 1; LStart 2; LEncode 2; LWriterNotify; LCtxDone 1; LWaitCtx 1;
                     LQueueCancel 1; LWriterWrite; LHandoff 2; LWriterNotify; LWriterWrite; LRecvVerdict 2;
                     LHandoff (cancel_nonce 1); LWriterNotify; LWriterWrite; LStart 3; LEncode 3; LRecvVerdict 3;
                     LStart 4; LEncode 4; LHandoff 4; LWriterNotify; LConnFail; LWriterWrite; LRecvVerdict 4].
Example ex_reachable : exists st, run (step expected_skeleton) (init ex_ss) ex_ls = Some st /\ length (trace st) = 16%nat.
Proof. eexists. split; [vm_compute; reflexivity | vm_compute; reflexivity]. Qed.
Example ex_hyps : fresh_ok ex_ss = true /\ all_announce ex_ss = true. Proof. vm_compute. auto. Qed.
(* the monitor does reject something *)
Example ex_rejects : accepts notifier_step None [ANotifier 1; AWrite (mkFI KCall 2 0 true)] = false.
Proof. vm_compute. reflexivity. Qed.

(* the model gives calls, notifications and replies the blocking hand-off (which watches the context) and cancellations the asynchronous one; so does the source (regenerated order census of dispatch.go and request.go) *)
Theorem C13_senders_use_the_modelled_hand_off : cdf_blocking_senders codecfacts_now = true /\ cdf_cancel_async codecfacts_now = true.
Proof. exact codec_blocking_senders. Qed.

(* on every path through the function body as it is in the source now (regenerated into Generated.body_census, enumerated by Model/Paths.v) of framedMsgpackEncoder.writerLoop: the notifier is immediately followed by the Write, at most one of each per queue item, none on the way out *)
Theorem C13_source_notifier_immediately_before_write : writer_paths_notify_then_write = true.
Proof. exact paths_writer_notify_then_write. Qed.

Print Assumptions C13_notifier_exact.
Print Assumptions C13_seqnos_distinct.
Print Assumptions C13_cancel_never_precedes_call.
Print Assumptions C13_order_kept.
Print Assumptions C13_all.
Print Assumptions C13_abandoned_never_written.
Print Assumptions C13_generated_ok.
Print Assumptions C13_senders_use_the_modelled_hand_off.
Print Assumptions C13_source_notifier_immediately_before_write.

(* ---- the source of callContainer.nextSeqid (rpc/call.go), translated statement by statement
   (Generated.golite_funcs) and run by the GoLite interpreter: returns the counter, increments it with 64-bit
   two's complement wrap-around, under the mutex; 2^64 successive calls return pairwise distinct numbers, and the
   next one repeats the first. ---- *)
From FMP Require Import Model.Generated Model.GoLite Proofs.GoLiteProofs.

Theorem C13_source_nextSeqid : forall permI fuel s, (1 <= fuel)%nat ->
    run_fun permI fuel golite_funcs name_nextSeqid (seq_state s) =
    RReturn (VInt s) (with_mutex 1 1 (seq_state (wrap 64 (s + 1)))).
Proof. exact golite_nextSeqid_spec. Qed.

Theorem C13_source_seqids_distinct_below_2_64 : forall permI (n : nat) fuel s,
    (1 <= fuel)%nat -> in_range64 s -> (Z.of_nat n <= 2 ^ 64)%Z ->
    NoDup (seq_returns permI fuel n (seq_state s)).
Proof. exact golite_seqids_distinct. Qed.

Theorem C13_source_seqids_repeat_after_2_64 : forall permI (n : nat) fuel s,
    (1 <= fuel)%nat -> in_range64 s -> Z.of_nat n = (2 ^ 64)%Z ->
    nth n (seq_returns permI fuel (S n) (seq_state s)) VUnit = VInt s /\
    nth 0 (seq_returns permI fuel (S n) (seq_state s)) VUnit = VInt s /\
    ~ NoDup (seq_returns permI fuel (S n) (seq_state s)).
Proof. exact golite_seqids_wrap_refuted. Qed.

Print Assumptions C13_source_nextSeqid.
Print Assumptions C13_source_seqids_distinct_below_2_64.
Print Assumptions C13_source_seqids_repeat_after_2_64.
