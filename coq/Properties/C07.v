(* C07 — Only framing/decoding violations are fatal, and lifecycle observers agree.
   Statements only; every proof is [exact <lemma>]. *)
From FMP Require Import Base.Bytes Base.Lts Model.Events Model.Skeleton Model.Props Model.Lifecycle
     Model.Generated Model.GenTypes Model.Msgpack Model.Frame Proofs.LifecycleProofs Proofs.SkeletonProofs Proofs.ClassifyProofs.
From FMP Require Import Model.Paths Proofs.PathsC07.
From FMP Require Import Model.CodecCfg Proofs.CodecCfgProofs.
Open Scope Z_scope.

(* under every schedule of local closers, the receive loop's own exit and observers: Done closes once, IsConnected is
   its negation and never becomes true again, err() is nil before and one fixed non-nil value afterwards - also when the
   transport was closed locally or the receive loop was never started *)
Theorem C07_observers_agree : forall ls st,
    run (lcstep expected_skeleton) lc_init ls = Some st -> c07_lifecycle (lc_trace st) = true.
Proof. exact lifecycle_observers_agree. Qed.

Theorem C07_stop_irreversible : forall sk ls st st',
    run (lcstep sk) st ls = Some st' -> lc_stop_closed st = true -> lc_stop_closed st' = true.
Proof. exact lifecycle_stop_irreversible. Qed.

Theorem C07_err_fixed : forall ls ls' st st',
    run (lcstep expected_skeleton) lc_init ls = Some st -> lc_stop_closed st = true ->
    run (lcstep expected_skeleton) st ls' = Some st' -> lc_stop_err st' = lc_stop_err st /\ lc_stop_err st <> 0.
Proof. exact lifecycle_err_fixed. Qed.

(* which outcomes of the frame reader let the receive loop go on: exactly messages and the three not-found classes *)
Theorem C07_continues_iff_not_fatal : forall o,
    continues o = true <-> (forall c, o <> OErr c) /\ o <> OUnspec.
Proof. exact continues_iff_not_fatal. Qed.

(* the classification lists of the source (shouldContinue / shouldReceive), regenerated on every run *)
Theorem C07_classification_generated_ok :
    cases_shouldContinue = [("nil", "true"); ("CallNotFoundError", "true"); ("MethodNotFoundError", "true");
                            ("ProtocolNotFoundError", "true"); ("default", "false")]%string /\
    cases_shouldReceive = [("nil", "true"); ("MethodNotFoundError", "true"); ("ProtocolNotFoundError", "true");
                           ("default", "false")]%string /\
    skeleton_now = expected_skeleton.
Proof. exact (conj eq_refl (conj eq_refl generated_ok)). Qed.

(* the mechanism before the repair: a local Close, then an observer sees Done closed with err() == nil *)
Theorem C07_local_close_err_nil_refuted : exists ls st,
    run (lcstep old_lc_skeleton) lc_init ls = Some st /\ c07_lifecycle (lc_trace st) = false.
Proof. exact lifecycle_local_close_err_nil_refuted. Qed.

Example ex_obs : exists st, run (lcstep expected_skeleton) lc_init
    [LcObserve; LcStartLoop; LcLoopErr 3; LcLocalEnterOnce; LcOnceAssign; LcObserve; LcOnceCloseStop; LcObserve; LcOnceRest; LcLoopEnterOnce; LcObserve] = Some st
    /\ lc_trace st = [AObserve false true 0; AObserve false true 0; AObserve true false 1; AObserve true false 1].
Proof. eexists. split; vm_compute; reflexivity. Qed.

(* the model turns every read error into the end of the transport because reading a frame never retries: NextFrame and the error-remembering reader contain no loop and decode the length prefix once (regenerated) *)
Theorem C07_one_read_attempt_per_frame : cdf_nextframe_once codecfacts_now = true.
Proof. exact codec_nextframe_once. Qed.

(* not-found is answered, not fatal: on every path through the function body as it is in the source now (regenerated into Generated.body_census, enumerated by Model/Paths.v) of receiveHandler.handleReceiveDispatch, a request whose decoding recorded an error or whose protocol / method is not registered gets exactly one Reply as the last action and no handler goroutine; a servable request gets no Reply from the receive goroutine and exactly one goroutine, started on the arm that registered its task *)
Theorem C07_source_not_found_is_replied_once : dispatch_paths_notfound = true.
Proof. exact paths_dispatch_notfound. Qed.

(* a response for an unknown seqno is ignored: DecodeMessage stops after decoding the seqno, unwraps and decompresses nothing; receiveResponse hands over at most once and has a default arm *)
Theorem C07_source_unknown_response_ignored : response_paths_unknown_ignored = true.
Proof. exact paths_response_unknown_ignored. Qed.

(* whatever ends the receive loop, closeWithErr is the last call of the goroutine, exactly once, and Receive only follows NextFrame *)
Theorem C07_source_receive_loop_closes : receive_loop_paths_close = true.
Proof. exact paths_receive_loop_close. Qed.

Print Assumptions C07_observers_agree.
Print Assumptions C07_stop_irreversible.
Print Assumptions C07_err_fixed.
Print Assumptions C07_continues_iff_not_fatal.
Print Assumptions C07_classification_generated_ok.
Print Assumptions C07_local_close_err_nil_refuted.
Print Assumptions C07_one_read_attempt_per_frame.
Print Assumptions C07_source_not_found_is_replied_once.
Print Assumptions C07_source_unknown_response_ignored.
Print Assumptions C07_source_receive_loop_closes.
