(* C19 — RPC tags travel with the call and contexts are never mutated.
   Statements only; every proof is [exact <lemma>].  Model/Tags.v: an explicit heap of mutable maps, immutable
   contexts, the client free to mutate every map it passed in or read out, at any time. *)
From FMP Require Import Base.Bytes Model.Msgpack Model.Tags Model.TagsCfg Proofs.TagsProofs Proofs.TagsCfgProofs.
From FMP Require Import Model.CodecCfg Proofs.CodecCfgProofs.
Open Scope Z_scope.

(* neither the map passed in nor a map read out aliases a context's own tag storage: after ANY sequence of operations
   no map stored in a context is one the client holds *)
Theorem C19_stored_maps_private : forall ops, th_wf (trun good th0 ops) /\ private (trun good th0 ops).
Proof. exact reach_wf_private. Qed.

(* adding tags returns a new context and never changes the tags seen through any previously derived context; nor does
   any read, or any mutation of a map the client holds *)
Theorem C19_old_contexts_unchanged : forall ops o c,
    let h := trun good th0 ops in
    (exists x, zfind c (ctxs h) = Some x) -> tags_of (fst (tstep good h o)) c = tags_of h c.
Proof. exact old_contexts_unchanged. Qed.

Theorem C19_add_extends : forall ops c m addm,
    let h := trun good th0 ops in
    (exists x, zfind c (ctxs h) = Some x) -> zfind m (maps h) = Some addm ->
    exists c', snd (tstep good h (TAdd c m)) = Some c' /\ c' = next_ctx h /\
               tags_of (fst (tstep good h (TAdd c m))) c' =
               Some (tm_merge (match tags_of h c with Some t => t | None => [] end) addm).
Proof. exact add_extends. Qed.

Theorem C19_read_is_a_copy : forall ops c t,
    let h := trun good th0 ops in
    tags_of h c = Some t ->
    exists m, snd (tstep good h (TRead c)) = Some m /\ zfind m (maps (fst (tstep good h (TRead c)))) = Some t /\
              map_of_ctx h c <> Some m.
Proof. exact read_is_a_copy. Qed.

(* every other way of deriving a context (a value, a cancel function, a deadline, the fire-now marker) leaves the tags
   alone: the derived context shows exactly what its parent shows *)
Theorem C19_other_derivations_keep_tags : forall ops c,
    let h := trun good th0 ops in
    (exists x, zfind c (ctxs h) = Some x) ->
    snd (tstep good h (TDerive c)) = Some (next_ctx h) /\
    tags_of (fst (tstep good h (TDerive c))) (next_ctx h) = tags_of h c.
Proof. exact derive_keeps_tags. Qed.

(* the tags that travel: the context's, joined for calls by the selected context values (which win on a clash) *)
Theorem C19_merge_lookup : forall cur add k,
    tm_get k (tm_merge cur add) = match tm_get k (rev add) with Some v => Some v | None => tm_get k cur end.
Proof. exact merge_get. Qed.

(* the source copies in both places (order census of context.go, regenerated) *)
Theorem C19_generated_ok : tcfg_now = expected_tcfg /\ expected_tcfg = good.
Proof. exact (conj tcfg_generated_ok eq_refl). Qed.

(* getting either copy wrong breaks the property: witnesses *)
Theorem C19_add_in_place_refuted : exists ops o c,
    let h := trun (mkTcfg true false) th0 ops in
    (exists x, zfind c (ctxs h) = Some x) /\ tags_of (fst (tstep (mkTcfg true false) h o)) c <> tags_of h c.
Proof. exact add_in_place_refuted. Qed.
Theorem C19_read_aliases_refuted : exists ops o c,
    let h := trun (mkTcfg false true) th0 ops in
    (exists x, zfind c (ctxs h) = Some x) /\ tags_of (fst (tstep (mkTcfg false true) h o)) c <> tags_of h c.
Proof. exact read_aliases_refuted. Qed.

Example ex_travel : traveling_tags true true (Some [([97%N], VInt 1)]) [([116%N], VStr [118%N])] = Some [([116%N], VStr [118%N]); ([97%N], VInt 1)].
Proof. vm_compute. reflexivity. Qed.
Example ex_notify_ignores_selected : traveling_tags false true (Some [([97%N], VInt 1)]) [([116%N], VStr [118%N])] = Some [([97%N], VInt 1)].
Proof. vm_compute. reflexivity. Qed.
Example ex_none : traveling_tags true true None [] = None. Proof. vm_compute. reflexivity. Qed.

(* the serving side: loadContext makes a map for this message, decodes into it and stores it under a context derived from Background (regenerated assignment census of message.go) *)
Theorem C19_each_message_decodes_its_tags_into_its_own_map : cdf_tags_fresh_map codecfacts_now = true.
Proof. exact codec_tags_fresh_map. Qed.

Print Assumptions C19_stored_maps_private.
Print Assumptions C19_old_contexts_unchanged.
Print Assumptions C19_add_extends.
Print Assumptions C19_read_is_a_copy.
Print Assumptions C19_merge_lookup.
Print Assumptions C19_generated_ok.
Print Assumptions C19_add_in_place_refuted.
Print Assumptions C19_read_aliases_refuted.
Print Assumptions C19_each_message_decodes_its_tags_into_its_own_map.
Print Assumptions C19_other_derivations_keep_tags.
