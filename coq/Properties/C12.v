(* C12 — The caller's result buffer is never written after the call has returned.
   Statements only; every proof is [exact <lemma>].  The full property is FALSE of the mechanism the code uses (the
   receive goroutine decodes into the caller's buffer after looking the call up, with no ordering against the caller's
   return): the refutations are theorems, their witnesses replay on the implementation and are listed in
   known_findings.json; what does hold is proved as _partial. *)
From FMP Require Import Base.Bytes Base.Lts Model.Events Model.Skeleton Model.Props Model.Dispatch
     Proofs.DispatchProofs Proofs.SkeletonProofs.
From FMP Require Import Model.Paths Proofs.PathsC12.
Open Scope Z_scope.

(* full statement, refuted: a schedule of the model on which the buffer changes after the call returned
   (look-up, the caller is cancelled and returns, the result is decoded) *)
Theorem C12_no_write_after_return_refuted : exists cs ls st,
    dfresh_ok cs = true /\ run (dstep expected_skeleton) (dinit cs) ls = Some st /\ c12_pred (dtrace st) = false.
Proof. exact disp_late_write_refuted. Qed.

(* ... and it needs no cancellation: a duplicated reply looked up while the caller is between taking its reply and the
   deferred RemoveCall (found while proving the partial statement below) *)
Theorem C12_duplicate_reply_refuted :
    ~ (forall sk cs ls st,
         dfresh_ok cs = true -> schedule_avoids sk (dinit cs) ls = true -> run (dstep sk) (dinit cs) ls = Some st ->
         c12_pred (dtrace st) = true).
Proof. exact disp_no_late_write_partial_original_false. Qed.

(* partial: if no call returns (by cancellation, stop, or normally) while the receive goroutine is between looking it
   up and decoding its result, and RemoveCall is deferred, the buffer is never written after the return *)
Theorem C12_no_write_after_return_partial : forall sk cs ls st,
    sk_removecall_deferred sk = true -> dfresh_ok cs = true ->
    schedule_avoids' sk (dinit cs) ls = true ->
    run (dstep sk) (dinit cs) ls = Some st -> c12_pred (dtrace st) = true.
Proof. exact disp_no_late_write_partial. Qed.

(* partial: whatever is written into a call's buffer, at any time, is the result of a response that carried that
   call's own seqno *)
Theorem C12_buffer_written_only_by_own_reply : forall sk cs ls st x,
    dfresh_ok cs = true -> run (dstep sk) (dinit cs) ls = Some st -> In x (dcalls st) -> dc_buf x <> -1 ->
    In (AFeed (mkFI KResp (dc_seq x) (dc_buf x) true) true) (dtrace st).
Proof. exact disp_buffer_written_by_own_reply. Qed.

Theorem C12_generated_ok : skeleton_now = expected_skeleton /\ sk_removecall_deferred expected_skeleton = true.
Proof. exact (conj generated_ok eq_refl). Qed.

(* on every path through the function body as it is in the source now (regenerated into Generated.body_census, enumerated by Model/Paths.v) of rpcResponseMessage.DecodeMessage: the call is looked up (once) before anything is unwrapped, and nothing is unwrapped or decompressed for an unknown seqno *)
Theorem C12_source_lookup_before_unwrap : response_paths_unknown_ignored = true.
Proof. exact paths_response_lookup_first. Qed.

Print Assumptions C12_no_write_after_return_refuted.
Print Assumptions C12_duplicate_reply_refuted.
Print Assumptions C12_no_write_after_return_partial.
Print Assumptions C12_buffer_written_only_by_own_reply.
Print Assumptions C12_generated_ok.
Print Assumptions C12_source_lookup_before_unwrap.
