(* C17 — TLS connections authenticate the server and bound the handshake.
   Statements only; every proof is [exact <lemma>].  Model/Tls.v: crypto/tls + crypto/x509 reduced to their three checks
   (chain to a configured root, validity period, host name); what configuration a dial uses is connection.go's logic. *)
From FMP Require Import Base.Bytes Model.Tls Model.TlsCfg Proofs.TlsProofs Proofs.TlsCfgProofs.
Open Scope Z_scope.

(* a dial completes exactly with a peer that handshakes and whose certificate satisfies the effective configuration *)
Theorem C17_dial_ok_iff : forall k host s b,
    dial k host s b = DROk <->
    exists c, effective k host = Some c /\ b = Handshakes /\ verify c s = DROk /\ (t_skip c = true \/ t_name c <> None).
Proof. exact dial_ok_iff. Qed.

(* constructed from root certificates: the server's certificate chains to those roots, is within its validity period
   and is valid for the host being dialed (for every dial: the name is taken from the address of that dial) *)
Theorem C17_pem_authenticates : forall p roots host s b,
    dial (CtorPEM p roots) host s b = DROk ->
    p = true /\ b = Handshakes /\ existsb (issuer_eqb (c_issuer s)) roots = true /\ c_expired s = false /\ c_name s = host.
Proof. exact pem_authenticates. Qed.

(* with neither roots nor a configuration only the system roots count: none of the test issuers *)
Theorem C17_default_rejects_private_issuers : forall host s b, dial CtorDefault host s b = DROk -> False.
Proof. exact default_authenticates. Qed.

(* with a supplied configuration: what that configuration demands, nothing less *)
Theorem C17_config_satisfied : forall c host s b,
    dial (CtorConfig c) host s b = DROk ->
    b = Handshakes /\ (t_skip c = true \/ (chains c s = true /\ c_expired s = false /\ name_ok c s = true)).
Proof. exact config_satisfied. Qed.

(* a wrong issuer, a wrong name or an expired certificate fails the dial and no transport is created *)
Theorem C17_bad_certificates_rejected : forall k host s c,
    effective k host = Some c -> t_skip c = false ->
    (chains c s = false \/ c_expired s = true \/ name_ok c s = false) ->
    dial k host s Handshakes <> DROk /\ transport_created (dial k host s Handshakes) = false.
Proof. exact bad_certificates_rejected. Qed.
Theorem C17_no_transport_unless_ok : forall k host s b, transport_created (dial k host s b) = true -> dial k host s b = DROk.
Proof. exact no_transport_unless_ok. Qed.

(* a peer that never completes the handshake: the dial fails (by the timer arm of the select), it neither succeeds nor
   is it left to the peer *)
Theorem C17_stalled_handshake_fails : forall k host s,
    dial k host s Stalls = DRTimeout \/ dial k host s Stalls = DRBadRoots \/ dial k host s Stalls = DRNoServerName.
Proof. exact stalled_handshake_fails. Qed.

(* the supplied configuration is copied: later changes by the caller have no effect; keeping the caller's object is refuted *)
Theorem C17_copy_isolates : forall given mutated host s b,
    dial (CtorConfig (stored_after_mutation true given mutated)) host s b = dial (CtorConfig given) host s b.
Proof. exact copy_isolates. Qed.
Theorem C17_alias_refuted : exists given mutated host s b,
    dial (CtorConfig (stored_after_mutation false given mutated)) host s b <> dial (CtorConfig given) host s b.
Proof. exact alias_refuted. Qed.

(* the source: the configuration built from root certificates sets RootCAs and ServerName, the fallback sets ServerName,
   InsecureSkipVerify is mentioned nowhere, the handshake is raced against a timer with a default for a zero timeout, the
   constructor clones the caller's configuration (regenerated from connection.go / copy_tls_config_go18.go) *)
Theorem C17_generated_ok : tlsfacts_now = expected_tlsfacts.
Proof. exact tlsfacts_generated_ok. Qed.

Example ex_valid : dial (CtorPEM true [CA1]) 1 (mkCert CA1 1 false) Handshakes = DROk. Proof. reflexivity. Qed.
Example ex_other_ca : dial (CtorPEM true [CA1]) 1 (mkCert CA2 1 false) Handshakes = DRUnknownAuthority. Proof. reflexivity. Qed.
Example ex_other_name : dial (CtorPEM true [CA1]) 2 (mkCert CA1 1 false) Handshakes = DRWrongName. Proof. reflexivity. Qed.
Example ex_expired : dial (CtorPEM true [CA1]) 1 (mkCert CA1 1 true) Handshakes = DRExpired. Proof. reflexivity. Qed.

Print Assumptions C17_dial_ok_iff.
Print Assumptions C17_pem_authenticates.
Print Assumptions C17_default_rejects_private_issuers.
Print Assumptions C17_config_satisfied.
Print Assumptions C17_bad_certificates_rejected.
Print Assumptions C17_no_transport_unless_ok.
Print Assumptions C17_stalled_handshake_fails.
Print Assumptions C17_copy_isolates.
Print Assumptions C17_alias_refuted.
Print Assumptions C17_generated_ok.
