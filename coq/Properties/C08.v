(* C08 — Cancellation and timeouts end the call promptly and reach its handler.
   Statements only; every proof is [exact <lemma>].  Promptness is proved in its safety form (an enabled step of the
   caller's own in every state once its context has ended, whatever writer and reader are doing); the bound itself is
   observed by the harness. *)
From FMP Require Import Base.Bytes Base.Lts Model.Events Model.Skeleton Model.Props Model.Writer Model.Receiver
     Proofs.WriterProofs Proofs.ReceiverProofs Proofs.SkeletonProofs.
From FMP Require Import Model.Paths Proofs.PathsC08.
From FMP Require Import Model.CodecCfg Proofs.CodecCfgProofs.
From FMP Require Import Proofs.WriterProgress Proofs.WriterCancel.
Open Scope Z_scope.

(* both waits of a call, and the hand-off to the writer, select on the caller's context: once it has ended the caller
   always has a step of its own - even if the peer has stopped reading (writer blocked) or answering *)
Theorem C08_cancel_unblocks : forall ss ls st c s,
    fresh_ok ss = true -> run (step expected_skeleton) (init ss) ls = Some st ->
    find c (senders st) = Some s -> blocked_pc (s_pc s) = true -> s_ctx s = true ->
    exists l st', own_step c l = true /\ step expected_skeleton st l = Some st'.
Proof. exact ctx_unblocks. Qed.

(* a call that returned the context's error after its frame was handed to the writer has queued a cancel frame with
   its seqno ... *)
Theorem C08_cancel_frame_queued : forall sk ss ls st c s,
    fresh_ok ss = true -> run (step sk) (init ss) ls = Some st ->
    find c (senders st) = Some s -> s_kind s = SCall -> s_pc s = PRet RCtx -> s_handed s = true ->
    exists t, find (cancel_nonce c) (senders st) = Some t /\ s_kind t = SCancelFrame /\ s_seq t = s_seq s.
Proof. exact ret_ctx_has_cancel_sender. Qed.

(* ... which can always move (to the writer when idle, away when the encoder is done), without blocking the caller *)
Theorem C08_cancel_frame_can_move : forall ss ls st c t,
    fresh_ok ss = true -> run (step expected_skeleton) (init ss) ls = Some st ->
    find (cancel_nonce c) (senders st) = Some t -> s_pc t = PAsyncSelect ->
    (writer st = None -> writer_alive st = true -> step expected_skeleton st (LHandoff (cancel_nonce c)) <> None) /\
    (done_closed st = true -> step expected_skeleton st (LAbandonDone (cancel_nonce c)) <> None).
Proof. exact cancel_sender_can_move. Qed.

(* ... and never precedes its call on the wire *)
Theorem C08_cancel_never_precedes_call : forall sk ss ls st,
    fresh_ok ss = true -> run (step sk) (init ss) ls = Some st -> accepts cancel_step [] (trace st) = true.
Proof. exact writer_cancel_after_call. Qed.

(* serving side: the task is registered synchronously before the next frame is read, so a cancellation finds it; and
   only that handler is cancelled (C09) *)
Theorem C08_cancel_reaches_only_its_handler : forall sk ls st,
    sk_notify_key_unique sk = true -> sk_cancel_negative_ignored sk = true ->
    run (rstep sk) rinit ls = Some st -> c09_only_own (rtrace st) = true.
Proof. exact recv_c09_only_own. Qed.

Theorem C08_generated_ok : skeleton_now = expected_skeleton.
Proof. exact generated_ok. Qed.

Example ex_cancel_reaches : exists st,
    run (rstep expected_skeleton) rinit [RInCall 7; RBeginRv; RInCancel 7; RCancelRv] = Some st /\
    (exists x, hfind 0 (handlers st) = Some x /\ hd_pc x = HRun /\ hd_ctx x = true).
Proof. eexists. split; [vm_compute; reflexivity|]. eexists. vm_compute. repeat split. Qed.

(* ---------- bounded completion: cancellation ends the call with the call's own steps only ---------- *)
(* from ANY reachable state, a started call, notification or reply whose context has ended and that has not returned can
   return using only ITS OWN steps - no step of the writer goroutine, of the peer or of another sender is needed - within 4
   steps (3 suffice, and the context's error is always reachable: Proofs/WriterCancel.v) *)
Theorem C08_cancelled_sender_returns : forall ss ls st c s,
    fresh_ok ss = true -> run (step expected_skeleton) (init ss) ls = Some st ->
    find c (senders st) = Some s -> s_kind s <> SCancelFrame ->
    s_pc s <> PNew -> (forall r, s_pc s <> PRet r) -> s_ctx s = true ->
    exists ls' st' s' r, (length ls' <= 4)%nat /\ forallb (self_label c) ls' = true /\
       run (step expected_skeleton) st ls' = Some st' /\ find c (senders st') = Some s' /\ s_pc s' = PRet r.
Proof. exact writer_cancelled_sender_returns. Qed.
(* the step by which a call gives up after its frame was handed over queues the cancellation frame with the call's seqno *)
Theorem C08_cancelled_call_queues_cancel : forall ss ls st c s st' s',
    fresh_ok ss = true -> run (step expected_skeleton) (init ss) ls = Some st ->
    find c (senders st) = Some s -> s_kind s = SCall -> s_pc s = PCancel ->
    step expected_skeleton st (LQueueCancel c) = Some st' -> find c (senders st') = Some s' ->
    s_pc s' = PRet RCtx /\ exists k, find (cancel_nonce c) (senders st') = Some k /\ s_kind k = SCancelFrame /\ s_seq k = s_seq s.
Proof. exact writer_cancelled_call_queues_cancel. Qed.

(* a cancellation frame is queued behind whatever the writer already accepted without blocking the caller: handleCancel uses the asynchronous entry, nothing else does (regenerated) *)
Theorem C08_cancellation_uses_the_async_hand_off : cdf_blocking_senders codecfacts_now = true /\ cdf_cancel_async codecfacts_now = true.
Proof. exact codec_blocking_senders. Qed.

(* on every path through dispatch.Call as it is in the source now, leaving through a context arm (in either wait) means
   handleCancel was called exactly once, after the hand-off to the encoder and before the call is unregistered, and no other
   way out calls it; handleCancel queues exactly one cancellation frame on every path and returns the context's error *)
Theorem C08_source_cancel_paths : call_paths_cancel = true.
Proof. exact paths_call_cancel. Qed.

Print Assumptions C08_cancel_unblocks.
Print Assumptions C08_cancel_frame_queued.
Print Assumptions C08_cancel_frame_can_move.
Print Assumptions C08_cancel_never_precedes_call.
Print Assumptions C08_cancel_reaches_only_its_handler.
Print Assumptions C08_generated_ok.
Print Assumptions C08_cancelled_sender_returns.
Print Assumptions C08_cancelled_call_queues_cancel.
Print Assumptions C08_cancellation_uses_the_async_hand_off.
Print Assumptions C08_source_cancel_paths.
