(* C09 — A handler's context is cancelled only for its own cancellation or on close.
   Statements only; every proof is [exact <lemma>].  Model/Receiver.v, every schedule of the receive goroutine, the task
   loop, the handler goroutines and Close.  Environment hypotheses built into the model: seqnos of the peer's calls are
   non-negative and not reused while a call with that seqno is still being served.  Cancellation frames may name any
   seqno: a negative one is dropped by the receive goroutine when [sk_cancel_negative_ignored] holds (notification
   handlers are filed under negative keys), and reaches the task loop otherwise. *)
From FMP Require Import Base.Bytes Base.Lts Model.Events Model.Skeleton Model.Props Model.Receiver
     Proofs.ReceiverProofs Proofs.SkeletonProofs.
From FMP Require Import Model.Paths Proofs.PathsC09.
From FMP Require Import Model.CodecCfg Proofs.CodecCfgProofs.
Open Scope Z_scope.

(* the completion or cancellation of any other call or notification never cancels a running handler's context *)
Theorem C09_cancelled_only_for_own_reasons : forall sk ls st,
    sk_notify_key_unique sk = true -> sk_cancel_negative_ignored sk = true ->
    run (rstep sk) rinit ls = Some st -> c09_only_own (rtrace st) = true.
Proof. exact recv_c09_only_own. Qed.

(* when the transport closes, the context of every handler still running is cancelled *)
Theorem C09_close_cancels_all : forall sk ls st x,
    sk_notify_key_unique sk = true -> run (rstep sk) rinit ls = Some st ->
    tl_alive st = false -> In x (handlers st) -> hd_pc x = HRun -> hd_ctx x = true.
Proof. exact recv_close_cancels_all. Qed.

Theorem C09_taskloop_exits_only_after_stop : forall sk ls st,
    run (rstep sk) rinit ls = Some st -> tl_alive st = false -> stopped st = true.
Proof. exact recv_taskloop_exits_only_after_stop. Qed.

(* the current source files every notification under its own key *)
Theorem C09_generated_ok : skeleton_now = expected_skeleton /\ sk_notify_key_unique expected_skeleton = true.
Proof. exact (conj generated_ok eq_refl). Qed.

(* ... and drops cancellation frames with a negative seqno *)
Theorem C09_generated_guard_ok : sk_cancel_negative_ignored skeleton_now = true.
Proof. exact (f_equal sk_cancel_negative_ignored generated_ok). Qed.

(* the mechanism before the repair (one shared key -1), kept as theorems: both halves of the property fail *)
Theorem C09_shared_key_refuted : exists ls st,
    run (rstep old_skeleton) rinit ls = Some st /\ c09_only_own (rtrace st) = false.
Proof. exact recv_c09_shared_key_refuted. Qed.

Theorem C09_shared_key_close_refuted : exists ls st x,
    run (rstep old_skeleton) rinit ls = Some st /\ tl_alive st = false /\ In x (handlers st) /\
    hd_pc x = HRun /\ hd_ctx x = false.
Proof. exact recv_shared_key_close_refuted. Qed.

(* without the guard on negative seqnos a cancellation frame naming -1 cancels the first notification's handler *)
Theorem C09_negative_cancel_refuted : exists sk ls st,
    sk_notify_key_unique sk = true /\ sk_cancel_negative_ignored sk = false /\
    run (rstep sk) rinit ls = Some st /\ c09_only_own (rtrace st) = false.
Proof. exact recv_negative_cancel_refuted. Qed.

(* ... and with the guard the same frames leave that handler alone *)
Example ex_negative_cancel_ignored : exists st,
    run (rstep expected_skeleton) rinit [RInNotify; RBeginRv; RInCancel (-1)] = Some st /\
    recv st = RIdle /\ c09_only_own (rtrace st) = true /\
    (exists x, hfind 0 (handlers st) = Some x /\ hd_pc x = HRun /\ hd_ctx x = false).
Proof. eexists. split; [vm_compute; reflexivity|]. split; [reflexivity|]. split; [vm_compute; reflexivity|].
       eexists. vm_compute. repeat split. Qed.

(* non-vacuity: two notifications and a cancelled call under the current skeleton *)
Example ex_run : exists st, run (rstep expected_skeleton) rinit
    [RInNotify; RBeginRv; RInNotify; RBeginRv; RInCall 7; RBeginRv; RInCancel 7; RCancelRv; RHandlerRet 0; REndRv 0; RStop; RTaskLoopExit] = Some st
    /\ c09_only_own (rtrace st) = true /\ length (rtrace st) = 11%nat.
Proof. eexists. split; [vm_compute; reflexivity | split; vm_compute; reflexivity]. Qed.

(* the model cancels every registered handler when the task loop sees the stop; the source calls the cancel functions of its table in the stop arm before closing closedCh, and on cancel / end for the one entry (regenerated order census of receiver.go) *)
Theorem C09_task_loop_cancels_its_table_on_stop : cdf_taskloop_cancels codecfacts_now = true.
Proof. exact codec_taskloop_cancels. Qed.

(* on every path through the function body as it is in the source now (regenerated into Generated.body_census, enumerated by Model/Paths.v) of receiveHandler.taskLoop: it leaves only through the stop arm, closing after cancelling; the begin arm cancels nobody; the cancel / end arms call at most the one cancel function they looked up and delete one key *)
Theorem C09_source_taskloop_paths : taskloop_paths = true.
Proof. exact paths_taskloop. Qed.

Print Assumptions C09_cancelled_only_for_own_reasons.
Print Assumptions C09_close_cancels_all.
Print Assumptions C09_taskloop_exits_only_after_stop.
Print Assumptions C09_generated_ok.
Print Assumptions C09_generated_guard_ok.
Print Assumptions C09_shared_key_refuted.
Print Assumptions C09_shared_key_close_refuted.
Print Assumptions C09_negative_cancel_refuted.
Print Assumptions C09_task_loop_cancels_its_table_on_stop.
Print Assumptions C09_source_taskloop_paths.
