(* C03 — Outgoing byte stream is always a sequence of whole, size-limited frames.
   Statements only; every proof is [exact <lemma>]. *)
From FMP Require Import Base.Bytes Base.Lts Model.Events Model.Skeleton Model.Props Model.Writer
     Model.Generated Model.Msgpack Model.Frame Proofs.WriterProofs Proofs.FrameProofs Proofs.SkeletonProofs.
From FMP Require Import Model.Paths Proofs.PathsC03.
From FMP Require Import Model.CodecCfg Proofs.CodecCfgProofs.
Open Scope Z_scope.

(* however many goroutines send at once and whenever their contexts end in mid-send: every Write on the connection is
   one whole frame within the limit, and a send refused as too big puts nothing on the wire *)
Theorem C03_whole_frames_and_refusals : forall sk ss ls st,
    fresh_ok ss = true -> run (step sk) (init ss) ls = Some st -> c03_pred (trace st) = true.
Proof. exact writer_c03. Qed.

(* a sender that abandoned the hand-off (context ended, encoder closed) or was refused contributes no byte *)
Theorem C03_abandon_writes_nothing : forall sk ss ls st c s fi,
    fresh_ok ss = true -> run (step sk) (init ss) ls = Some st ->
    find c (senders st) = Some s -> s_handed s = false ->
    (In (AWrite fi) (trace st) \/ In (AWriteFail fi) (trace st)) -> fi_nonce fi <> c.
Proof. exact unhanded_never_written. Qed.

(* the size check itself: a value whose encoding exceeds the maximum is refused ... *)
Theorem C03_oversize_refused : forall max m,
    (max < Z.of_N (len (enc (frame_val m))))%Z -> encode_frame max m = None.
Proof. exact encode_frame_refuses. Qed.

(* ... and what is not refused is prefix + content in one buffer, which a receiver with the same maximum accepts
   (C02_decode_any_legal / C04_exact_consumption apply to it) *)
Theorem C03_accepted_is_one_frame : forall max m,
    (Z.of_N (len (spec_bytes m)) <= max)%Z ->
    encode_frame max m = Some (enc_int (Z.of_N (len (spec_bytes m))) ++ spec_bytes m).
Proof. exact encode_frame_exact. Qed.

(* a sender blocked anywhere on its way always has a step of its own once its context has ended (for the select arms
   of the current source) *)
Theorem C03_ctx_unblocks : forall ss ls st c s,
    fresh_ok ss = true -> run (step expected_skeleton) (init ss) ls = Some st ->
    find c (senders st) = Some s -> blocked_pc (s_pc s) = true -> s_ctx s = true ->
    exists l st', own_step c l = true /\ step expected_skeleton st l = Some st'.
Proof. exact ctx_unblocks. Qed.

Theorem C03_generated_ok : skeleton_now = expected_skeleton.
Proof. exact generated_ok. Qed.

Example ex_refusal_reachable :
  exists st, run (step expected_skeleton) (init [fresh_sender 3 SCall false true]) [LStart 3; LEncode 3; LRecvVerdict 3] = Some st
             /\ trace st = [AStart 3; ARet 3 RTooBig].
Proof. eexists. split; vm_compute; reflexivity. Qed.

(* the model refuses an oversize frame at the one place every sender goes through; in the source both entries of the encoder (blocking and asynchronous) take their bytes from encodeFrame, whose comparison with the maximum precedes anything it returns (regenerated censuses of codec.go) *)
Theorem C03_every_frame_passes_the_length_check : cdf_length_checked codecfacts_now = true.
Proof. exact codec_length_checked. Qed.

(* on every path through the function bodies as they are in the source now (Generated.body_census, enumerated by Model/Paths.v) of encodeFrame, encodeAndWriteInternal, EncodeAndWriteAsync, EncodeAndWrite: the content size is compared before a frame is assembled, the refusing path assembles nothing, the frame is obtained before anything is handed to the writer and each entry has a way out that hands nothing over *)
Theorem C03_source_refusal_before_handoff : encoder_paths_refuse_before_handoff = true.
Proof. exact paths_encoder_refuse_before_handoff. Qed.

(* on every path through the writer loop as it is in the source now the only calls are the notifier and ONE e.writer.Write per queue item (and close on the way out): no buffering layer, no second write, no flush *)
Theorem C03_source_one_write_per_item : writer_loop_vocabulary = true.
Proof. exact paths_writer_vocabulary. Qed.

Print Assumptions C03_whole_frames_and_refusals.
Print Assumptions C03_abandon_writes_nothing.
Print Assumptions C03_oversize_refused.
Print Assumptions C03_accepted_is_one_frame.
Print Assumptions C03_ctx_unblocks.
Print Assumptions C03_generated_ok.
Print Assumptions C03_every_frame_passes_the_length_check.
Print Assumptions C03_source_refusal_before_handoff.
Print Assumptions C03_source_one_write_per_item.
