(* C15 — a command runs only on an established connection and is retried exactly when due.
   Statements only; every proof is [exact <lemma>].  Model/Connection.v (DoCommand's loop: fire-now marker,
   waitForConnection's critical section, the wait on the sequence's channel or the caller's context, the command
   function under the retry helper, the io.EOF re-loop) and the command monitor of ConnProps.v. *)
From FMP Require Import Base.Bytes Base.Lts Model.Connection Model.ConnProps Model.ConnCfg Proofs.ConnProofs Proofs.ConnCfgProofs.
From FMP Require Import Model.Paths Proofs.PathsC15.
Open Scope Z_scope.

(* on every trace, under every schedule: a command function runs only once a client has been published by a Finalize
   (the connect callback succeeded); its k-th execution follows its (k-1)-th; after an execution under which the
   transport died it runs again only after a later Finalize (or through the sequence that had just finalized); a
   retriable failure is notified exactly once before the next execution; what DoCommand returns is the last execution's
   outcome unchanged, or - only while waiting for a connection - the context's error (the context had ended), the
   connect error (a connect failure was declared fatal) or the shutdown error; a forced reconnect returns nil only after a
   Finalize *)
Theorem C15_commands : forall cfg o eager ds cs cm st,
    cc_spawn_guarded cfg = true -> cc_retry_only_eof cfg = true -> cc_connected_needs_client cfg = true ->
    cmds_fresh cm = true -> reachable cfg o eager ds cs cm st ->
    c15_commands (ctrace st) = true.
Proof. exact conn_commands. Qed.

(* all waiters of one sequence read the same outcome *)
Theorem C15_outcome_functional : forall cfg o eager ds cs cm st g e1 e2,
    cc_spawn_guarded cfg = true -> reachable cfg o eager ds cs cm st ->
    In (g, e1) (finished st) -> In (g, e2) (finished st) -> e1 = e2.
Proof. exact conn_outcome_functional. Qed.

(* the source: retry exactly on io.EOF, connected = transport connected and client published, client published together
   with Finalize after OnConnect (regenerated from connection.go) *)
Theorem C15_generated_ok : ccfg_now = expected_ccfg /\ cc_retry_only_eof expected_ccfg = true /\
                           cc_connected_needs_client expected_ccfg = true /\ cc_publish_with_finalize expected_ccfg = true.
Proof. exact (conj ccfg_generated_ok (conj eq_refl (conj eq_refl eq_refl))). Qed.

Example ex_run : exists ls st, run (cstep (mkCcfg true true true true true true true true) (mkCopts false true false))
   (cinit (mkCopts false true false) [DFail] [] [new_cmd 1 false true [XEofDisc]]) ls = Some st /\ (length ls >= 30)%nat.
Proof. exact conn_example. Qed.

(* on every path through the function body as it is in the source now (regenerated into Generated.body_census, enumerated by Model/Paths.v) of Connection.DoCommand: the command is attempted only after waitForConnection returned in the same round; a fire-now marker is applied before waiting *)
Theorem C15_source_docommand_paths : docommand_paths = true.
Proof. exact paths_docommand. Qed.

Print Assumptions C15_commands.
Print Assumptions C15_outcome_functional.
Print Assumptions C15_generated_ok.
Print Assumptions C15_source_docommand_paths.
