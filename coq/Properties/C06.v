(* C06 — compression is transparent and compressor state never leaks between uses.
   Statements only; every proof is [exact <lemma>].  The codecs themselves (DEFLATE+CRC, msgpackzip) are the section
   variables [comp]/[decomp] of Proofs/CompressProofs.v: any pair of functions with the round-trip law. *)
From FMP Require Import Base.Bytes Base.Lts Model.Generated Model.Msgpack Model.Frame Model.Compress Proofs.CompressProofs.
Open Scope Z_scope.

(* which types have a compressor: gzip and msgpackzip; none and every unknown type are treated as no compression, on
   both ends (the frame decoder uses the same test) *)
Theorem C06_unknown_is_none : forall c, (c <> compression_gzip /\ c <> compression_msgpackzip) <-> compressor_for c = None.
Proof. exact unknown_is_none. Qed.
Theorem C06_decoder_agrees : forall c, has_compressor c = true <-> compressor_for c <> None.
Proof. exact has_compressor_iff. Qed.

(* a compressed call delivers the argument: the frame that carries comp(enc a) as a byte string decodes, at a receiver
   whose decompressor inverts comp, to the call with argument a *)
Theorem C06_call_transparent : forall (comp : bytes -> bytes) (decomp : bytes -> option bytes),
    (forall x, decomp (comp x) = Some x) -> (forall x, comp x <> []) ->
    (forall x, bytes_ok x = true -> bytes_ok (comp x) = true /\ (len (comp x) < two32)%N) ->
    forall e max q ct me a t rest,
      has_compressor ct = true -> wf_seq q = true -> wf_val (VStr me) = true -> wf_val a = true ->
      tags_ok t = true -> forallb wf_val (opt_tags t) = true ->
      find_method e me = None ->
      assoc_bytes (comp (enc a)) (inflated e) = Some (decomp (comp (enc a))) ->
      let m := MCallC q ct me (VBin (comp (enc a))) t in
      (Z.of_N (len (spec_bytes m)) <= max)%Z -> (max <= 2147483647)%Z ->
      next_frame e max (enc_int (Z.of_N (len (spec_bytes m))) ++ spec_bytes m ++ rest) = (OCallC q ct me a t, rest).
Proof. exact compressed_call_transparent. Qed.

(* ... and the result: the reply to a pending compressed call carries comp(enc r) and decodes to r *)
Theorem C06_reply_transparent : forall (comp : bytes -> bytes) (decomp : bytes -> option bytes),
    (forall x, decomp (comp x) = Some x) -> (forall x, comp x <> []) ->
    (forall x, bytes_ok x = true -> bytes_ok (comp x) = true /\ (len (comp x) < two32)%N) ->
    forall e max q ct er r rest,
      has_compressor ct = true -> wf_seq q = true -> wf_val er = true -> wf_val r = true ->
      assoc_z q (pending e) = Some (mkCI ct true true) ->
      assoc_bytes (comp (enc r)) (inflated e) = Some (decomp (comp (enc r))) ->
      let m := MResp q er (VBin (comp (enc r))) in
      (Z.of_N (len (spec_bytes m)) <= max)%Z -> (max <= 2147483647)%Z ->
      next_frame e max (enc_int (Z.of_N (len (spec_bytes m))) ++ spec_bytes m ++ rest) = (OResp q er r, rest).
Proof. exact compressed_reply_transparent. Qed.

(* the pooled gzip readers: under every interleaving of any number of Decompress calls, with failing ones in between,
   every call on a well-formed input returns that input's own decompression and every call on a malformed one fails;
   no broken reader ever enters the pool *)
Theorem C06_pool_independent : forall wellformed inputs pool0 ls st,
    (forall r, In r pool0 -> r <> RBroken) ->
    NoDup (map fst inputs) ->
    run (pstep wellformed false) (pinit inputs pool0) ls = Some st ->
    results_ok wellformed inputs st /\ (forall r, In r (pool st) -> r <> RBroken).
Proof. exact pool_independent. Qed.

(* returning a reader whose Reset failed to the pool would break it: a witness *)
Theorem C06_put_after_failed_reset_refuted : exists wellformed inputs ls st,
    NoDup (map fst inputs) /\ run (pstep wellformed true) (pinit inputs []) ls = Some st /\ ~ results_ok wellformed inputs st.
Proof. exact pool_put_after_failed_reset_refuted. Qed.

Print Assumptions C06_unknown_is_none.
Print Assumptions C06_decoder_agrees.
Print Assumptions C06_call_transparent.
Print Assumptions C06_reply_transparent.
Print Assumptions C06_pool_independent.
Print Assumptions C06_put_after_failed_reset_refuted.
