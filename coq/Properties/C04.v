(* C04 — Decoding is independent of read chunking and resynchronises on every frame.
   Statements only; every proof is [exact <lemma>]. *)
From FMP Require Import Base.Bytes Model.Generated Model.Msgpack Model.Frame Model.Reader
     Proofs.MsgpackProofs Proofs.ReaderProofs Proofs.FrameProofs.
From FMP Require Import Model.Paths Proofs.PathsC04.
Open Scope N_scope.

(* the buffered reader with looping consumers delivers exactly the next n bytes of the stream, however the
   connection cut it into reads; an unsatisfied read has consumed (and returns) everything that was left *)
Theorem C04_read_full_abs : forall fuel n r a r' ok,
    rd_wf r -> (length (abs r) < fuel)%nat -> rd_read_full fuel n r = (a, r', ok) ->
    rd_wf r' /\
    (ok = true  -> take (abs r) n = Some (a, abs r')) /\
    (ok = false -> take (abs r) n = None /\ abs r' = [] /\ a = abs r).
Proof. exact read_full_abs. Qed.

(* one frame read through any chunking = the flat decoder, outcome AND residual stream *)
Theorem C04_next_frame_chunked_refines_flat : forall e max r o r',
    rd_wf r -> next_frame_ch e max r = (o, r') ->
    next_frame e max (abs r) = (o, abs r') /\ rd_wf r'.
Proof. exact next_frame_ch_refines. Qed.

Theorem C04_run_chunked_refines_flat : forall fuel e max r,
    rd_wf r -> run_frames_ch fuel e max r = run_frames fuel e max (abs r).
Proof. exact run_frames_ch_refines. Qed.

(* for every sequence of frames and every way the bytes are split across reads (down to one byte at a time,
   empty reads included) the receiver yields the same sequence of messages and errors *)
Theorem C04_chunking_irrelevant : forall fuel e max cs cs',
    concat cs = concat cs' ->
    run_frames_ch fuel e max (of_chunks cs) = run_frames_ch fuel e max (of_chunks cs').
Proof. exact chunking_irrelevant. Qed.

Theorem C04_of_chunks : forall cs, abs (of_chunks cs) = concat cs /\ rd_wf (of_chunks cs).
Proof. exact of_chunks_abs. Qed.

(* exactly the declared length of each frame is consumed, WHATEVER its content (shorter or longer than its array header
   implies, invalid header or type, unknown method): the residual stream is what follows the declared bytes ... *)
Theorem C04_exact_consumption : forall e max L p content rest,
    (0 < L <= max)%Z -> (max <= 2147483647)%Z -> In p (int_opts L) -> len content = Z.to_N L ->
    snd (next_frame e max (p ++ content ++ rest)) = rest.
Proof. exact exact_consumption. Qed.

(* ... the outcome of a frame does not depend on what follows it ... *)
Theorem C04_outcome_is_local : forall e max L p content rest rest',
    (0 < L <= max)%Z -> (max <= 2147483647)%Z -> In p (int_opts L) -> len content = Z.to_N L ->
    fst (next_frame e max (p ++ content ++ rest)) = fst (next_frame e max (p ++ content ++ rest')).
Proof. exact outcome_is_local. Qed.

(* ... so the following frame is always decoded from its first byte *)
Theorem C04_resync_step : forall fuel e max L p content rest,
    (0 < L <= max)%Z -> (max <= 2147483647)%Z -> In p (int_opts L) -> len content = Z.to_N L ->
    run_frames (S fuel) e max (p ++ content ++ rest) =
      (let o := fst (next_frame e max (p ++ content)) in
       if continues o then o :: run_frames fuel e max rest else [o]).
Proof. exact resync_step. Qed.

(* non-vacuity: two cancel frames, read whole and one byte at a time *)
Definition ex_env := mkEnv [] [] [].
Definition ex_stream : bytes := [6; 0x93; 3; 5; 0xa2; 112; 113] ++ [5; 0x93; 3; 6; 0xa1; 122].
Example ex_flat : run_frames 5 ex_env 100 ex_stream = [OCancel 5 [112; 113]; OCancel 6 [122]; OErr EEOF].
Proof. vm_compute. reflexivity. Qed.
Example ex_bytewise : run_frames_ch 5 ex_env 100 (of_chunks (map (fun b => [b]) ex_stream))
                      = [OCancel 5 [112; 113]; OCancel 6 [122]; OErr EEOF].
Proof. vm_compute. reflexivity. Qed.

(* on every path through packetizer.NextFrame as it is in the source now, once a frame reader exists the frame is drained exactly once, after everything else, whatever the outcome (bad header byte, decode error, unknown method, success); drain is one Discard of what remains and nothing else *)
Theorem C04_source_every_frame_drained_once : nextframe_paths_drain_always = true.
Proof. exact paths_nextframe_drain_always. Qed.

Print Assumptions C04_read_full_abs.
Print Assumptions C04_next_frame_chunked_refines_flat.
Print Assumptions C04_run_chunked_refines_flat.
Print Assumptions C04_chunking_irrelevant.
Print Assumptions C04_of_chunks.
Print Assumptions C04_exact_consumption.
Print Assumptions C04_outcome_is_local.
Print Assumptions C04_resync_step.
Print Assumptions C04_source_every_frame_drained_once.
