(* C14 — one reconnect sequence at a time, announced once, waiters released together.
   Statements only; every proof is [exact <lemma>].  Model/Connection.v: the Connection as a transition system
   (one goroutine per reconnect sequence, one per command / forced reconnect, the environment: transport dying,
   Shutdown, contexts ending, fast-forward, the timer); ConnProps.v: the monitors; CTransport.v: the built-in
   connection transports' bookkeeping. *)
From FMP Require Import Base.Bytes Base.Lts Model.Connection Model.ConnProps Model.ConnCfg Model.CTransport
     Proofs.ConnProofs Proofs.ConnCfgProofs Proofs.CTransportProofs.
From FMP Require Import Model.Paths Proofs.PathsC14.
From FMP Require Import Proofs.ConnProgress.
Open Scope Z_scope.

(* however commands, forced reconnects, disconnections and Shutdown race: at most one dial attempt is in progress *)
Theorem C14_one_dial_in_progress : forall cfg o eager ds cs cm st,
    cc_spawn_guarded cfg = true -> cmds_fresh cm = true -> reachable cfg o eager ds cs cm st ->
    c14_one_dial (ctrace st) = true.
Proof. exact conn_one_dial. Qed.

(* each sequence is announced exactly once, with the first-connection status for the first sequence unless initial
   backoff is forced and the non-first status afterwards; every dial follows the announcement or exactly one error
   notification; the protocols are registered on the dialed transport before OnConnect; Finalize happens once, on that
   transport, after OnConnect succeeded; after Shutdown at most one more dial begins *)
Theorem C14_sequence_shape : forall cfg o eager ds cs cm st,
    cc_spawn_guarded cfg = true -> cc_register_before_onconnect cfg = true -> cmds_fresh cm = true ->
    reachable cfg o eager ds cs cm st ->
    c14_sequences (co_force_initial_backoff o) (ctrace st) = true.
Proof. exact conn_sequences. Qed.

(* waiters are released together with the same outcome: what a sequence releases its waiters with is a function of the
   sequence and never changes; a waiter reads exactly that (LWake) *)
Theorem C14_outcome_functional : forall cfg o eager ds cs cm st g e1 e2,
    cc_spawn_guarded cfg = true -> reachable cfg o eager ds cs cm st ->
    In (g, e1) (finished st) -> In (g, e2) (finished st) -> e1 = e2.
Proof. exact conn_outcome_functional. Qed.
Theorem C14_outcome_stable : forall cfg o eager ds cs cm st ls st' g e,
    reachable cfg o eager ds cs cm st ->
    run (cstep cfg o) st ls = Some st' -> ffind g (finished st) = Some e -> ffind g (finished st') = Some e.
Proof. exact conn_outcome_stable. Qed.
(* ... and only after Finalize, or with the fatal connect error: part of the command monitor (C15), re-exported here *)
Theorem C14_released_after_finalize : forall cfg o eager ds cs cm st,
    cc_spawn_guarded cfg = true -> cc_retry_only_eof cfg = true -> cc_connected_needs_client cfg = true ->
    cmds_fresh cm = true -> reachable cfg o eager ds cs cm st ->
    c15_commands (ctrace st) = true.
Proof. exact conn_commands. Qed.

(* Shutdown: a cancelled sequence can always finish within 12 of its own steps (the connect-delay timer running out
   included), releasing its waiters, and dials at most once more *)
Theorem C14_shutdown_terminates : forall cfg o eager ds cs cm st g s,
    cc_spawn_guarded cfg = true -> cmds_fresh cm = true -> reachable cfg o eager ds cs cm st ->
    sfind g (seqs st) = Some s -> sq_cancelled s = true ->
    exists ls st', (length ls <= 12)%nat /\ forallb (is_seq_label g) ls = true /\
                   run (cstep cfg o) st ls = Some st' /\ sfind g (seqs st') = None /\ ffind g (finished st') <> None /\
                   (dial_begins (ctrace st') <= dial_begins (ctrace st) + 1)%nat.
Proof. exact conn_shutdown_terminates. Qed.

(* without the "only if none is registered" guard two sequences dial at once: witness *)
Theorem C14_unguarded_refuted : exists cfg o ds cs cm ls st,
    cc_spawn_guarded cfg = false /\ cmds_fresh cm = true /\
    run (cstep cfg o) (cinit o ds cs cm) ls = Some st /\ c14_one_dial (ctrace st) = false.
Proof. exact conn_unguarded_refuted. Qed.

(* the built-in plain and TLS connection transports, after ANY sequence of successful / failed Dials, Finalize and Close:
   every transport that is neither current nor staged is closed together with its network connection; Close closes all *)
Theorem C14_earlier_transports_closed : forall tls ops, ct_inv (ctrun tls ct0 ops).
Proof. exact ct_earlier_closed. Qed.
Theorem C14_close_closes_all : forall tls ops x,
    In x (xps (ctstep tls (ctrun tls ct0 ops) CtClose)) -> x_open x = false /\ x_conn_open x = false.
Proof. exact ct_close_closes_all. Qed.
Theorem C14_dial_stages : forall tls ops,
    let s := ctstep tls (ctrun tls ct0 ops) CtDialOk in
    exists x, In x (xps s) /\ ct_staged s = Some (x_id x) /\ x_open x = true /\ x_conn_open x = true.
Proof. exact ct_dial_stages. Qed.

(* the source has the structure the transition system assumes (regenerated from connection.go) *)
Theorem C14_generated_ok : ccfg_now = expected_ccfg /\ cc_spawn_guarded expected_ccfg = true /\ cc_register_before_onconnect expected_ccfg = true.
Proof. exact (conj ccfg_generated_ok (conj eq_refl eq_refl)). Qed.

(* ---------- progress: a running sequence can always finish, every waiter can be released ---------- *)
(* from ANY reachable state the running sequence reaches its end using only its own steps and the timer running out, within
   14 * (scripted failures left + 1) + 4 steps (7 * failures + 12 suffice: conn_sequence_can_finish_tight) *)
Theorem C14_sequence_can_finish : forall cfg o eager ds cs cm st g s,
    cc_spawn_guarded cfg = true -> cmds_fresh cm = true -> reachable cfg o eager ds cs cm st ->
    sfind g (seqs st) = Some s ->
    exists ls st', (length ls <= 14 * (budget st + 1) + 4)%nat /\ forallb (is_seq_label g) ls = true /\
                   run (cstep cfg o) st ls = Some st' /\ sfind g (seqs st') = None /\ ffind g (finished st') <> None.
Proof. exact conn_sequence_can_finish. Qed.
Theorem C14_waiter_can_be_released : forall cfg o eager ds cs cm st c x g,
    cc_spawn_guarded cfg = true -> cmds_fresh cm = true -> reachable cfg o eager ds cs cm st ->
    cfindc c (cmds st) = Some x -> cm_pc x = CWait g ->
    exists ls st' st'', (length ls <= 14 * (budget st + 1) + 4)%nat /\
                   run (cstep cfg o) st ls = Some st' /\ cstep cfg o st' (LWake c) = Some st''.
Proof. exact conn_waiter_can_be_released. Qed.
(* with no scripted failure left and no Shutdown the sequence ends with success *)
Theorem C14_sequence_succeeds_when_nothing_fails : forall cfg o eager ds cs cm st g s,
    cc_spawn_guarded cfg = true -> cmds_fresh cm = true -> reachable cfg o eager ds cs cm st ->
    sfind g (seqs st) = Some s -> sq_cancelled s = false -> dials st = [] -> conns st = [] ->
    (match sq_pc s with SCheck e => e = ENone | SNotify _ | SBackoff | SFinishing => False | _ => True end) ->
    exists ls st', (length ls <= 18)%nat /\ forallb (is_seq_label g) ls = true /\
                   run (cstep cfg o) st ls = Some st' /\ ffind g (finished st') = Some ENone.
Proof. exact conn_sequence_succeeds_when_nothing_fails. Qed.

(* every path through Connection.connect as it is in the source now (Model/Paths.v): Finalize at most once, and only after
   a Dial and an OnConnect on that same path *)
Theorem C14_connect_paths : connect_paths_ordered = true. Proof. exact paths_connect_order. Qed.

(* on every path through the function body as it is in the source now (regenerated into Generated.body_census, enumerated by Model/Paths.v) of Connection.doReconnect: OnDisconnected first and once, one retry loop, waiters released under the mutex after it *)
Theorem C14_source_doreconnect_paths : doreconnect_paths = true.
Proof. exact paths_doreconnect. Qed.

Print Assumptions C14_one_dial_in_progress.
Print Assumptions C14_sequence_shape.
Print Assumptions C14_outcome_functional.
Print Assumptions C14_outcome_stable.
Print Assumptions C14_released_after_finalize.
Print Assumptions C14_shutdown_terminates.
Print Assumptions C14_unguarded_refuted.
Print Assumptions C14_earlier_transports_closed.
Print Assumptions C14_close_closes_all.
Print Assumptions C14_dial_stages.
Print Assumptions C14_generated_ok.
Print Assumptions C14_connect_paths.
Print Assumptions C14_sequence_can_finish.
Print Assumptions C14_waiter_can_be_released.
Print Assumptions C14_sequence_succeeds_when_nothing_fails.
Print Assumptions C14_source_doreconnect_paths.
