(* transport.go: Close / closeWithErr under a sync.Once, the receive loop's exit, and the three accessors
   Done / IsConnected / err, as a labelled transition system.  Error values are small codes (0 = nil, 1 = io.EOF).
   Whether the stop error is stored inside the once comes from Skeleton.v.  Definitions only. *)
From FMP Require Import Base.Bytes Base.Lts Model.Events Model.Skeleton.
Open Scope Z_scope.

Inductive loop_pc :=
| LpNotStarted            (* Run / the first call has not started the receive loop yet *)
| LpRunning
| LpHasErr (e : Z)        (* NextFrame returned a fatal error; about to close the transport with it *)
| LpInOnce                (* inside closeWithErr *)
| LpExited.

Inductive once_pc :=
| OnceFree                (* nobody has entered the once *)
| OnceAssign (e : Z)      (* the winner is about to store the stop error *)
| OnceClose (e : Z)       (* ... then closes the stop channel *)
| OnceRest                (* ... then the rest of the shutdown (dispatcher, receiver, encoder, connection) *)
| OnceDone.

Record lcstate := mkLc {
  lc_loop : loop_pc;
  lc_once : once_pc;
  lc_stop_closed : bool;
  lc_stop_err : Z;          (* the stopErr field; 0 = nil *)
  lc_hist : list aev
}.

Definition lc_init : lcstate := mkLc LpNotStarted OnceFree false 0 [].

Inductive lclabel :=
| LcStartLoop               (* Run() *)
| LcLoopErr (e : Z)         (* the receive loop gets a fatal error (e <> 0) *)
| LcLoopAssignOutside       (* old code: t.stopErr = err before t.Close(), outside the once *)
| LcLoopEnterOnce           (* the loop calls closeWithErr(err) / Close() *)
| LcLocalEnterOnce          (* somebody calls Close(): closeWithErr(io.EOF) *)
| LcOnceAssign
| LcOnceCloseStop
| LcOnceRest
| LcObserve.                (* any goroutine reads Done, IsConnected and err() (each derives from the stop channel) *)

Definition lcstep (sk : skeleton) (st : lcstate) (l : lclabel) : option lcstate :=
  match l with
  | LcStartLoop =>
      match lc_loop st with
      | LpNotStarted => Some (mkLc LpRunning (lc_once st) (lc_stop_closed st) (lc_stop_err st) (lc_hist st))
      | _ => None
      end
  | LcLoopErr e =>
      match lc_loop st with
      | LpRunning => if e =? 0 then None else Some (mkLc (LpHasErr e) (lc_once st) (lc_stop_closed st) (lc_stop_err st) (lc_hist st))
      | _ => None
      end
  | LcLoopAssignOutside =>
      match lc_loop st with
      | LpHasErr e => if sk_stop_err_in_once sk then None
                      else Some (mkLc (LpHasErr e) (lc_once st) (lc_stop_closed st) e (lc_hist st))
      | _ => None
      end
  | LcLoopEnterOnce =>
      match lc_loop st, lc_once st with
      | LpHasErr e, OnceFree => Some (mkLc LpInOnce (OnceAssign e) (lc_stop_closed st) (lc_stop_err st) (lc_hist st))
      | LpHasErr _, OnceDone => Some (mkLc LpExited OnceDone (lc_stop_closed st) (lc_stop_err st) (lc_hist st))
      | _, _ => None       (* the once is running in another goroutine: Do blocks until it is done *)
      end
  | LcLocalEnterOnce =>
      match lc_once st with
      | OnceFree => Some (mkLc (lc_loop st) (OnceAssign 1) (lc_stop_closed st) (lc_stop_err st) (lc_hist st))
      | _ => None
      end
  | LcOnceAssign =>
      match lc_once st with
      | OnceAssign e =>
          Some (mkLc (lc_loop st) (OnceClose e) (lc_stop_closed st)
                     (if sk_stop_err_in_once sk then e else lc_stop_err st) (lc_hist st))
      | _ => None
      end
  | LcOnceCloseStop =>
      match lc_once st with
      | OnceClose _ => Some (mkLc (lc_loop st) OnceRest true (lc_stop_err st) (lc_hist st))
      | _ => None
      end
  | LcOnceRest =>
      match lc_once st with
      | OnceRest => Some (mkLc (match lc_loop st with LpInOnce => LpExited | p => p end) OnceDone
                               (lc_stop_closed st) (lc_stop_err st) (lc_hist st))
      | _ => None
      end
  | LcObserve =>
      Some (mkLc (lc_loop st) (lc_once st) (lc_stop_closed st) (lc_stop_err st)
                 (AObserve (lc_stop_closed st) (negb (lc_stop_closed st))
                           (if lc_stop_closed st then lc_stop_err st else 0) :: lc_hist st))
  end.

Definition lc_trace (st : lcstate) : list aev := rev (lc_hist st).
