(* compressor.go / compress_gzip.go / protocol.go (NewCompressor): which compression types have a compressor, the
   transparency of a compressed argument, and the reader pool of the gzip compressor as a transition system.
   The codecs themselves (DEFLATE, CRC, msgpackzip) are section variables with their round-trip law as hypothesis.
   Definitions only. *)
From FMP Require Import Base.Bytes Base.Lts Model.Generated Model.Msgpack Model.Frame.
Open Scope Z_scope.

(* ---------- the compressor cache: ctype -> compressor (None: treat as no compression) ---------- *)
Inductive alg := AGzip | AMsgpackzip.

Definition compressor_for (c : Z) : option alg :=
  if c =? compression_gzip then Some AGzip
  else if c =? compression_msgpackzip then Some AMsgpackzip
  else None.

(* ---------- the gzip reader pool ----------
   A pooled reader is Fresh, or holds the leftovers of an earlier stream (Used), or is Broken (a Reset on it failed:
   its state is undefined).  Reset on any reader with a well-formed input makes it Ready for that input; with a
   malformed input it fails and leaves the reader Broken.  Reading from a Ready reader yields the decompression of the
   input it was reset to; reading from anything else would yield garbage. *)
Inductive rstate := RFresh | RUsed | RBroken | RReady (inp : Z).

Inductive upc :=                 (* one Decompress call *)
| UStart (inp : Z)
| UGot (r : rstate) (inp : Z)    (* took a reader from the pool (or a new one) *)
| UReset (r : rstate) (inp : Z)  (* Reset succeeded *)
| URead (r : rstate) (inp : Z) (out : option Z)   (* stream read (None = garbage) *)
| UDone (out : option Z) (ok : bool).              (* returned: value (None = garbage) or error *)

Record pstate := mkP { pool : list rstate; users : list (Z * upc) }.

Inductive plabel :=
| PGetPooled (u : Z) (i : nat)   (* sync.Pool.Get returns the i-th pooled reader *)
| PGetNew (u : Z)                (* ... or a new one *)
| PReset (u : Z)
| PRead (u : Z)
| PCloseAndPut (u : Z).

Section Pool.
  Variable wellformed : Z -> bool.         (* does this input start a valid gzip stream? *)
  Variable put_after_failed_reset : bool.  (* false in the source: getGzipReader returns before installing the Put closure *)

  Fixpoint ufind (u : Z) (l : list (Z * upc)) : option upc :=
    match l with [] => None | (k, v) :: r => if k =? u then Some v else ufind u r end.
  Definition uset (u : Z) (v : upc) (l : list (Z * upc)) : list (Z * upc) := (u, v) :: filter (fun p => negb (fst p =? u)) l.

  Fixpoint remove_nth {A} (i : nat) (l : list A) : list A :=
    match i, l with
    | O, _ :: r => r
    | S j, x :: r => x :: remove_nth j r
    | _, [] => []
    end.

  Definition pstep (st : pstate) (l : plabel) : option pstate :=
    match l with
    | PGetPooled u i =>
        match ufind u (users st), nth_error (pool st) i with
        | Some (UStart inp), Some r => Some (mkP (remove_nth i (pool st)) (uset u (UGot r inp) (users st)))
        | _, _ => None
        end
    | PGetNew u =>
        match ufind u (users st) with
        | Some (UStart inp) => Some (mkP (pool st) (uset u (UGot RFresh inp) (users st)))
        | _ => None
        end
    | PReset u =>
        match ufind u (users st) with
        | Some (UGot r inp) =>
            if wellformed inp then
              (* a reader whose earlier Reset failed is in an undefined state: nothing is assumed about it *)
              Some (mkP (pool st) (uset u (UReset (match r with RBroken => RBroken | _ => RReady inp end) inp) (users st)))
            else
              (* Reset failed: Decompress returns the error; the reader is put back only if the (wrong) code does so *)
              Some (mkP (if put_after_failed_reset then RBroken :: pool st else pool st) (uset u (UDone None false) (users st)))
        | _ => None
        end
    | PRead u =>
        match ufind u (users st) with
        | Some (UReset r inp) =>
            let out := match r with RReady i => if i =? inp then Some inp else None | _ => None end in
            Some (mkP (pool st) (uset u (URead r inp out) (users st)))
        | _ => None
        end
    | PCloseAndPut u =>
        match ufind u (users st) with
        | Some (URead r inp out) => Some (mkP (RUsed :: pool st) (uset u (UDone out true) (users st)))
        | _ => None
        end
    end.
End Pool.

Fixpoint ifind (u : Z) (l : list (Z * Z)) : option Z :=
  match l with [] => None | (k, v) :: r => if k =? u then Some v else ifind u r end.

(* every finished Decompress of a well-formed input returned that input's own decompression *)
Definition results_ok (wellformed : Z -> bool) (inputs : list (Z * Z)) (st : pstate) : Prop :=
  forall u out ok, ufind u (users st) = Some (UDone out ok) ->
    exists inp, ifind u inputs = Some inp /\
      (if wellformed inp then ok = true /\ out = Some inp else ok = false).

Definition pinit (inputs : list (Z * Z)) (pool0 : list rstate) : pstate :=
  mkP pool0 (map (fun p => (fst p, UStart (snd p))) inputs).
