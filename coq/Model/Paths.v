(* Every path through a function body regenerated from the source (Generated.body_census): branches of if / select /
   switch are all taken, a loop body runs zero times or once, a return ends the function, deferred calls run at the end in
   reverse order.  A path is the list of calls executed, in order.  Definitions only. *)
From Coq Require Import Bool.
From FMP Require Import Model.GenTypes Model.Generated.
Open Scope string_scope.

Inductive ditem := DCallI (f : string) | DBlockI (b : list stm).

Record pst := mkPst { p_tr : list string (* most recent first *); p_def : list ditem; p_ret : bool }.

Definition pst0 : pst := mkPst [] [] false.

Fixpoint exec (fuel : nat) (b : list stm) (s : pst) : list pst :=
  match fuel with
  | O => [s]
  | S f =>
      match b with
      | [] => [s]
      | st :: rest =>
          if p_ret s then [s] else
          let after :=
            match st with
            | SCallF c => [mkPst (c :: p_tr s) (p_def s) false]
            | SDeferF c => [mkPst (p_tr s) (DCallI c :: p_def s) false]
            | SDeferBlock bl => [mkPst (p_tr s) (DBlockI bl :: p_def s) false]
            | SGo _ => [s]
            | SReturn => [mkPst (p_tr s) (p_def s) true]
            | SIf _ t e => (exec f t s ++ exec f e s)%list
            | SSelect arms => flat_map (fun a => exec f (snd a) s) arms
            | SLoop bl => s :: exec f bl s
            end in
          flat_map (fun s' => exec f rest s') after
      end
  end.

(* the deferred calls, last registered first; a deferred closure is executed like a body of its own *)
Fixpoint run_defers (fuel : nat) (ds : list ditem) (trs : list (list string)) : list (list string) :=
  match ds with
  | [] => trs
  | DCallI c :: r => run_defers fuel r (map (fun tr => c :: tr) trs)
  | DBlockI b :: r =>
      run_defers fuel r (flat_map (fun tr => map (fun s => p_tr s) (exec fuel b (mkPst tr [] false))) trs)
  end.

Definition fuel0 : nat := 200.

Definition traces (body : list stm) : list (list string) :=
  flat_map (fun s => map (@rev string) (run_defers fuel0 (p_def s) [p_tr s])) (exec fuel0 body pst0).

Definition traces_of (fn : string) : list (list string) :=
  match lookup fn body_census with Some b => traces b | None => [] end.

(* ---------- predicates on one path ---------- *)
Definition occurs (x : string) (tr : list string) : bool := existsb (String.eqb x) tr.
Definition count_of (x : string) (tr : list string) : nat := length (filter (String.eqb x) tr).

Fixpoint after_first (x : string) (tr : list string) : option (list string) :=
  match tr with [] => None | y :: r => if String.eqb x y then Some r else after_first x r end.

(* if [trigger] is executed then [target] is executed exactly once on the whole path, and after the trigger *)
Definition then_exactly_once (trigger target : string) (tr : list string) : bool :=
  match after_first trigger tr with
  | None => true
  | Some rest => Nat.eqb (count_of target tr) 1 && occurs target rest
  end.

(* [x] is executed at most once *)
Definition at_most_once (x : string) (tr : list string) : bool := Nat.leb (count_of x tr) 1.

(* if [y] is executed, [x] was executed before it *)
Definition preceded_by (x y : string) (tr : list string) : bool :=
  match after_first x tr with
  | Some rest => true
  | None => negb (occurs y tr)
  end && match after_first y tr with Some rest => negb (occurs x rest) || occurs x tr | None => true end.

Definition all_paths (fn : string) (p : list string -> bool) : bool :=
  let t := traces_of fn in negb (Nat.eqb (length t) 0) && forallb p t.
Definition some_path (fn : string) (p : list string -> bool) : bool := existsb p (traces_of fn).

(* ---------- the path properties the property files state (named here so that those files need no string notation) ---------- *)
Definition call_paths_accounted : bool :=
  all_paths "dispatch.Call" (then_exactly_once "d.writer.EncodeAndWrite" "record.RecordAndFinish").
Definition notify_paths_accounted : bool :=
  all_paths "dispatch.Notify" (then_exactly_once "d.writer.EncodeAndWrite" "record.RecordAndFinish").
Definition cancel_paths_accounted : bool :=
  all_paths "dispatch.handleCancel" (then_exactly_once "d.writer.EncodeAndWriteAsync" "record.RecordAndFinish").
Definition reply_paths_accounted : bool :=
  all_paths "callRequest.Reply" (then_exactly_once "enc.EncodeAndWrite" "r.RecordAndFinish") &&
  all_paths "callCompressedRequest.Reply" (then_exactly_once "enc.EncodeAndWrite" "r.RecordAndFinish").
Definition never_accounted_twice : bool :=
  all_paths "dispatch.Call" (at_most_once "record.RecordAndFinish") &&
  all_paths "dispatch.Notify" (at_most_once "record.RecordAndFinish") &&
  all_paths "dispatch.handleCancel" (at_most_once "record.RecordAndFinish") &&
  all_paths "callRequest.Reply" (at_most_once "r.RecordAndFinish") &&
  all_paths "callCompressedRequest.Reply" (at_most_once "r.RecordAndFinish").
Definition serve_paths_reply : bool :=
  all_paths "callRequest.Serve" (then_exactly_once "handler.Handler" "r.Reply") &&
  all_paths "callCompressedRequest.Serve" (then_exactly_once "handler.Handler" "r.Reply").
(* a registered call is unregistered exactly once on every way out of Call; the frame is handed over only after registration *)
Definition call_paths_unregister : bool :=
  all_paths "dispatch.Call" (then_exactly_once "d.calls.AddCall" "d.calls.RemoveCall") &&
  all_paths "dispatch.Call" (fun tr => implb (occurs "d.writer.EncodeAndWrite" tr)
                                             (match after_first "d.calls.AddCall" tr with Some r => occurs "d.writer.EncodeAndWrite" r | None => false end)).
(* Connection.connect: Finalize at most once, only after a Dial and an OnConnect on the same path; some path finalizes *)
Definition connect_paths_ordered : bool :=
  all_paths "Connection.connect"
    (fun tr => implb (occurs "c.transport.Finalize" tr)
                     (match after_first "c.transport.Dial" tr with
                      | Some r => match after_first "c.handler.OnConnect" r with Some r2 => occurs "c.transport.Finalize" r2 | None => false end
                      | None => false
                      end)) &&
  all_paths "Connection.connect" (at_most_once "c.transport.Finalize") &&
  some_path "Connection.connect" (occurs "c.transport.Finalize").
(* non-vacuity: Call has a cancellation path that is accounted, a path that fails before anything is handed over, >= 20 paths *)
Definition paths_nonvacuous : bool :=
  some_path "dispatch.Call" (fun tr => occurs "d.handleCancel" tr && occurs "record.RecordAndFinish" tr) &&
  some_path "dispatch.Call" (fun tr => occurs "d.writer.compressData" tr && negb (occurs "d.writer.EncodeAndWrite" tr)) &&
  Nat.leb 20 (length (traces_of "dispatch.Call")).
