(* Every path through a function body regenerated from the source (Generated.body_census): branches of if / select /
   switch are all taken, a loop body runs zero times or once, a return ends the function, deferred calls run at the end in
   reverse order.  A path is the list of calls executed, in order, together with the select / switch arm chosen
   ("arm <label>") and the goroutines started ("go <callee>").  Definitions only. *)
From Coq Require Import Bool.
From FMP Require Import Model.GenTypes Model.Generated.
Open Scope string_scope.

Inductive ditem := DCallI (f : string) | DBlockI (b : list stm).

Record pst := mkPst { p_tr : list string (* most recent first *); p_def : list ditem; p_ret : bool }.

Definition pst0 : pst := mkPst [] [] false.

Fixpoint exec (fuel : nat) (b : list stm) (s : pst) : list pst :=
  match fuel with
  | O => [s]
  | S f =>
      match b with
      | [] => [s]
      | st :: rest =>
          if p_ret s then [s] else
          let after :=
            match st with
            | SCallF c => [mkPst (c :: p_tr s) (p_def s) false]
            | SDeferF c => [mkPst (p_tr s) (DCallI c :: p_def s) false]
            | SDeferBlock bl => [mkPst (p_tr s) (DBlockI bl :: p_def s) false]
            | SGo c => [mkPst (("go " ++ c) :: p_tr s) (p_def s) false]
            | SReturn => [mkPst (p_tr s) (p_def s) true]
            | SIf _ t e => (exec f t s ++ exec f e s)%list
            | SSelect arms => flat_map (fun a => exec f (snd a) (mkPst (("arm " ++ fst a) :: p_tr s) (p_def s) false)) arms
            | SLoop bl => s :: exec f bl s
            end in
          flat_map (fun s' => exec f rest s') after
      end
  end.

(* the deferred calls, last registered first; a deferred closure is executed like a body of its own *)
Fixpoint run_defers (fuel : nat) (ds : list ditem) (trs : list (list string)) : list (list string) :=
  match ds with
  | [] => trs
  | DCallI c :: r => run_defers fuel r (map (fun tr => c :: tr) trs)
  | DBlockI b :: r =>
      run_defers fuel r (flat_map (fun tr => map (fun s => p_tr s) (exec fuel b (mkPst tr [] false))) trs)
  end.

Definition fuel0 : nat := 200.

Definition traces (body : list stm) : list (list string) :=
  flat_map (fun s => map (@rev string) (run_defers fuel0 (p_def s) [p_tr s])) (exec fuel0 body pst0).

Definition traces_of (fn : string) : list (list string) :=
  match lookup fn body_census with Some b => traces b | None => [] end.

(* ---------- predicates on one path ---------- *)
Definition occurs (x : string) (tr : list string) : bool := existsb (String.eqb x) tr.
Definition count_of (x : string) (tr : list string) : nat := length (filter (String.eqb x) tr).

Fixpoint after_first (x : string) (tr : list string) : option (list string) :=
  match tr with [] => None | y :: r => if String.eqb x y then Some r else after_first x r end.

(* if [trigger] is executed then [target] is executed exactly once on the whole path, and after the trigger *)
Definition then_exactly_once (trigger target : string) (tr : list string) : bool :=
  match after_first trigger tr with
  | None => true
  | Some rest => Nat.eqb (count_of target tr) 1 && occurs target rest
  end.

(* [x] is executed at most once *)
Definition at_most_once (x : string) (tr : list string) : bool := Nat.leb (count_of x tr) 1.

(* if [y] is executed, [x] was executed before it *)
Definition preceded_by (x y : string) (tr : list string) : bool :=
  match after_first x tr with
  | Some rest => true
  | None => negb (occurs y tr)
  end && match after_first y tr with Some rest => negb (occurs x rest) || occurs x tr | None => true end.

Definition all_paths (fn : string) (p : list string -> bool) : bool :=
  let t := traces_of fn in negb (Nat.eqb (length t) 0) && forallb p t.
Definition some_path (fn : string) (p : list string -> bool) : bool := existsb p (traces_of fn).

(* ---------- the path properties the property files state (named here so that those files need no string notation) ---------- *)
Definition call_paths_accounted : bool :=
  all_paths "dispatch.Call" (then_exactly_once "d.writer.EncodeAndWrite" "record.RecordAndFinish").
Definition notify_paths_accounted : bool :=
  all_paths "dispatch.Notify" (then_exactly_once "d.writer.EncodeAndWrite" "record.RecordAndFinish").
Definition cancel_paths_accounted : bool :=
  all_paths "dispatch.handleCancel" (then_exactly_once "d.writer.EncodeAndWriteAsync" "record.RecordAndFinish").
Definition reply_paths_accounted : bool :=
  all_paths "callRequest.Reply" (then_exactly_once "enc.EncodeAndWrite" "r.RecordAndFinish") &&
  all_paths "callCompressedRequest.Reply" (then_exactly_once "enc.EncodeAndWrite" "r.RecordAndFinish").
Definition never_accounted_twice : bool :=
  all_paths "dispatch.Call" (at_most_once "record.RecordAndFinish") &&
  all_paths "dispatch.Notify" (at_most_once "record.RecordAndFinish") &&
  all_paths "dispatch.handleCancel" (at_most_once "record.RecordAndFinish") &&
  all_paths "callRequest.Reply" (at_most_once "r.RecordAndFinish") &&
  all_paths "callCompressedRequest.Reply" (at_most_once "r.RecordAndFinish").
Definition serve_paths_reply : bool :=
  all_paths "callRequest.Serve" (then_exactly_once "handler.Handler" "r.Reply") &&
  all_paths "callCompressedRequest.Serve" (then_exactly_once "handler.Handler" "r.Reply").
(* a registered call is unregistered exactly once on every way out of Call; the frame is handed over only after registration *)
Definition call_paths_unregister : bool :=
  all_paths "dispatch.Call" (then_exactly_once "d.calls.AddCall" "d.calls.RemoveCall") &&
  all_paths "dispatch.Call" (fun tr => implb (occurs "d.writer.EncodeAndWrite" tr)
                                             (match after_first "d.calls.AddCall" tr with Some r => occurs "d.writer.EncodeAndWrite" r | None => false end)).
(* Connection.connect: Finalize at most once, only after a Dial and an OnConnect on the same path; some path finalizes *)
Definition connect_paths_ordered : bool :=
  all_paths "Connection.connect"
    (fun tr => implb (occurs "c.transport.Finalize" tr)
                     (match after_first "c.transport.Dial" tr with
                      | Some r => match after_first "c.handler.OnConnect" r with Some r2 => occurs "c.transport.Finalize" r2 | None => false end
                      | None => false
                      end)) &&
  all_paths "Connection.connect" (at_most_once "c.transport.Finalize") &&
  some_path "Connection.connect" (occurs "c.transport.Finalize").
(* non-vacuity: Call has a cancellation path that is accounted, a path that fails before anything is handed over, >= 20 paths *)
Definition paths_nonvacuous : bool :=
  some_path "dispatch.Call" (fun tr => occurs "d.handleCancel" tr && occurs "record.RecordAndFinish" tr) &&
  some_path "dispatch.Call" (fun tr => occurs "d.writer.compressData" tr && negb (occurs "d.writer.EncodeAndWrite" tr)) &&
  Nat.leb 20 (length (traces_of "dispatch.Call")).

(* ---------- second batch: receive side, writer loop, reconnect loop (regenerated bodies added to body_census) ---------- *)
Fixpoint immediately_followed (x y : string) (tr : list string) : bool :=
  match tr with
  | [] => true
  | a :: r => (if String.eqb a x then match r with b :: _ => String.eqb b y | [] => false end else true)
              && immediately_followed x y r
  end.
Fixpoint immediately_preceded (x y : string) (prev : option string) (tr : list string) : bool :=   (* every y has x just before it *)
  match tr with
  | [] => true
  | a :: r => (if String.eqb a y then match prev with Some b => String.eqb b x | None => false end else true)
              && immediately_preceded x y (Some a) r
  end.
Definition last_is (x : string) (tr : list string) : bool :=
  match rev tr with a :: _ => String.eqb a x | [] => false end.
(* the names occur in this order (each after the first occurrence of the one before) *)
Fixpoint in_order (xs : list string) (tr : list string) : bool :=
  match xs with
  | [] => true
  | x :: r => match after_first x tr with Some rest => in_order r rest | None => false end
  end.
Definition go_lit : string := "go (func() literal)".

(* C07: a request that cannot be served (its decoding recorded an error, or no such protocol / method) is answered by exactly
   one Reply and starts no handler goroutine; a request that can be served is never answered from the receive goroutine, and
   its goroutine is started only on the arm that registered the task (on the stop arm the context is cancelled instead) *)
Definition dispatch_paths_notfound : bool :=
  all_paths "receiveHandler.handleReceiveDispatch"
    (fun tr => if occurs "req.LogInvocation" tr
               then Nat.eqb (count_of "req.Reply" tr) 1 && negb (occurs go_lit tr) && last_is "req.Reply" tr
               else negb (occurs "req.Reply" tr)) &&
  all_paths "receiveHandler.handleReceiveDispatch"
    (fun tr => implb (occurs go_lit tr)
                     (occurs "arm Arm Send ""r.taskBeginCh""" tr && Nat.eqb (count_of go_lit tr) 1
                      && occurs "r.protHandler.findServeHandler" tr)) &&
  all_paths "receiveHandler.handleReceiveDispatch"
    (fun tr => implb (occurs "arm Arm Recv ""r.stopCh""" tr) (negb (occurs go_lit tr) && occurs "req.CancelFunc()" tr)) &&
  some_path "receiveHandler.handleReceiveDispatch" (occurs go_lit) &&
  Nat.eqb (length (filter (occurs "req.Reply") (traces_of "receiveHandler.handleReceiveDispatch"))) 2.

(* C07 / C12: a response naming an unknown seqno is dropped before its error or result is decoded (one Decode: the seqno),
   nothing is unwrapped into anybody's buffer, and receiveResponse hands a response over at most once, never blocking *)
Definition response_paths_unknown_ignored : bool :=
  all_paths "rpcResponseMessage.DecodeMessage"
    (fun tr => implb (occurs "newCallNotFoundError" tr)
                     (Nat.eqb (count_of "d.Decode" tr) 1 && negb (occurs "r.c.errorUnwrapper.UnwrapError" tr)
                      && negb (occurs "compressor.Decompress" tr) && last_is "newCallNotFoundError" tr)) &&
  all_paths "rpcResponseMessage.DecodeMessage" (preceded_by "cc.RetrieveCall" "r.c.errorUnwrapper.UnwrapError") &&
  all_paths "rpcResponseMessage.DecodeMessage" (at_most_once "cc.RetrieveCall") &&
  all_paths "receiveHandler.receiveResponse"
    (fun tr => Nat.leb (count_of "arm Arm Send ""callResponseCh""" tr) 1
               && implb (occurs "newCallNotFoundError" tr) (negb (occurs "arm Arm Send ""callResponseCh""" tr))) &&
  some_path "receiveHandler.receiveResponse" (occurs "arm default").

(* C13: in the writer goroutine the send notifier runs immediately before the Write of the same queue item, at most one
   Write per item, nothing is written on the way out *)
Definition writer_paths_notify_then_write : bool :=
  all_paths "framedMsgpackEncoder.writerLoop" (immediately_followed "write.sn" "e.writer.Write") &&
  all_paths "framedMsgpackEncoder.writerLoop" (at_most_once "e.writer.Write") &&
  all_paths "framedMsgpackEncoder.writerLoop" (at_most_once "write.sn") &&
  all_paths "framedMsgpackEncoder.writerLoop"
    (fun tr => implb (occurs "arm Arm Recv ""e.doneCh""" tr) (negb (occurs "e.writer.Write" tr) && negb (occurs "write.sn" tr))) &&
  all_paths "framedMsgpackEncoder.writerLoop"
    (fun tr => implb (occurs "e.writer.Write" tr) (occurs "arm Arm Recv ""e.writeCh""" tr)) &&
  some_path "framedMsgpackEncoder.writerLoop" (occurs "write.sn").

(* C07 / C10: whatever ends the receive loop, the transport is closed with that error, as the last thing the goroutine does,
   exactly once; a frame is handed to the receiver only after NextFrame produced it *)
Definition receive_loop_paths_close : bool :=
  all_paths "transport.receiveFramesLoop" (last_is "t.closeWithErr") &&
  all_paths "transport.receiveFramesLoop" (fun tr => Nat.eqb (count_of "t.closeWithErr" tr) 1) &&
  all_paths "transport.receiveFramesLoop" (preceded_by "t.packetizer.NextFrame" "t.receiver.Receive") &&
  some_path "transport.receiveFramesLoop" (occurs "t.receiver.Receive").

(* C20: Finish stores at most one record, and a second Finish (the path that makes the error) stores nothing *)
Definition finish_paths_once : bool :=
  all_paths "NetworkInstrumenter.Finish" (at_most_once "r.storage.Put") &&
  all_paths "NetworkInstrumenter.Finish" (fun tr => implb (occurs "errors.New" tr) (negb (occurs "r.storage.Put" tr))) &&
  all_paths "NetworkInstrumenter.Finish" (preceded_by "r.Lock" "r.storage.Put") &&
  some_path "NetworkInstrumenter.Finish" (occurs "r.storage.Put").

(* C09 / C11: the task loop returns only through its stop arm, having closed its channel after cancelling; the begin arm
   cancels nobody; cancel and end arms call at most the one cancel function they looked up *)
Definition taskloop_paths : bool :=
  all_paths "receiveHandler.taskLoop"
    (fun tr => implb (occurs "close" tr) (occurs "arm Arm Recv ""r.stopCh""" tr && last_is "close" tr)) &&
  all_paths "receiveHandler.taskLoop"
    (fun tr => implb (occurs "arm Arm Recv ""r.taskBeginCh""" tr) (negb (occurs "cancelFunc" tr))) &&
  all_paths "receiveHandler.taskLoop"
    (fun tr => implb (occurs "arm Arm Recv ""r.taskCancelCh""" tr || occurs "arm Arm Recv ""r.taskEndCh""" tr)
                     (Nat.leb (count_of "cancelFunc" tr) 1 && Nat.eqb (count_of "delete" tr) 1)) &&
  some_path "receiveHandler.taskLoop" (fun tr => occurs "arm Arm Recv ""r.stopCh""" tr && occurs "cancelFunc" tr).

(* C15: inside DoCommand the command (backoff.RetryNotify runs it) is attempted only after waitForConnection returned in the
   same round, and a fire-now marker fast-forwards the timer before waiting *)
Definition docommand_paths : bool :=
  all_paths "Connection.DoCommand" (immediately_preceded "c.doCommandBackoff" "backoff.RetryNotify" None) &&
  all_paths "Connection.DoCommand" (preceded_by "c.waitForConnection" "backoff.RetryNotify") &&
  all_paths "Connection.DoCommand" (preceded_by "c.connectDelayTimer.FireNow" "c.connectDelayTimer.FireNow") &&
  all_paths "Connection.DoCommand"
    (fun tr => implb (occurs "c.connectDelayTimer.FireNow" tr)
                     (match after_first "c.connectDelayTimer.FireNow" tr with Some r => occurs "c.waitForConnection" r | None => false end)) &&
  some_path "Connection.DoCommand" (occurs "c.checkForRetry").

(* C14 / C16: one reconnect sequence announces the disconnect first and exactly once, runs exactly one retry loop, starts a
   delay timer at most once and, when it does, asks for the requested fire-now AFTER starting it and BEFORE waiting, and
   releases its waiters (close under the mutex) after the loop *)
Definition doreconnect_paths : bool :=
  all_paths "Connection.doReconnect" (fun tr => match tr with a :: _ => String.eqb a "c.handler.OnDisconnected" | [] => false end) &&
  all_paths "Connection.doReconnect" (fun tr => Nat.eqb (count_of "c.handler.OnDisconnected" tr) 1
                                                && Nat.eqb (count_of "backoff.RetryNotifyWithContext" tr) 1) &&
  all_paths "Connection.doReconnect"
    (fun tr => Nat.leb (count_of "c.connectDelayTimer.StartConstant" tr + count_of "c.connectDelayTimer.StartRandom" tr) 1
               && Nat.eqb (count_of "c.connectDelayTimer.Wait" tr)
                          (count_of "c.connectDelayTimer.StartConstant" tr + count_of "c.connectDelayTimer.StartRandom" tr)) &&
  all_paths "Connection.doReconnect"
    (fun tr => implb (occurs "c.connectDelayTimer.StartConstant" tr)
                     (in_order ["c.connectDelayTimer.StartConstant"; "c.fireConnectDelayTimerIfRequested"; "c.connectDelayTimer.Wait"; "backoff.RetryNotifyWithContext"] tr)
               && implb (occurs "c.connectDelayTimer.StartRandom" tr)
                     (in_order ["c.connectDelayTimer.StartRandom"; "c.fireConnectDelayTimerIfRequested"; "c.connectDelayTimer.Wait"; "backoff.RetryNotifyWithContext"] tr)
               && Nat.eqb (count_of "c.fireConnectDelayTimerIfRequested" tr) (count_of "c.connectDelayTimer.Wait" tr)) &&
  all_paths "Connection.doReconnect"
    (fun tr => match after_first "backoff.RetryNotifyWithContext" tr with
               | Some r => match after_first "c.mutex.Lock" r with Some r2 => occurs "close" r2 | None => false end
               | None => false end) &&
  some_path "Connection.doReconnect" (occurs "c.connectDelayTimer.StartRandom") &&
  some_path "Connection.doReconnect" (fun tr => negb (occurs "c.connectDelayTimer.Wait" tr)).

(* ---------- third batch ---------- *)
(* C01: each Serve invokes the handler exactly once on every path; the call kinds reply after it, a notification never replies *)
Definition serve_paths_handler_once : bool :=
  all_paths "callRequest.Serve" (fun tr => Nat.eqb (count_of "handler.Handler" tr) 1 && in_order ["r.Arg"; "handler.Handler"; "r.Reply"] tr) &&
  all_paths "callCompressedRequest.Serve" (fun tr => Nat.eqb (count_of "handler.Handler" tr) 1 && in_order ["r.Arg"; "handler.Handler"; "r.Reply"] tr) &&
  all_paths "notifyRequest.Serve" (fun tr => Nat.eqb (count_of "handler.Handler" tr) 1 && negb (occurs "r.Reply" tr)).

(* C03: the size of the content is compared before a frame is assembled (the refusing path assembles nothing and encodes only
   the content); both encoder entries obtain the frame first and hand it to the writer afterwards, and there is a way out of
   each on which nothing is handed over (the refusal); the asynchronous entry starts its goroutine only on the default arm *)
Definition encoder_paths_refuse_before_handoff : bool :=
  all_paths "framedMsgpackEncoder.encodeFrame"
    (fun tr => implb (occurs "fmt.Errorf" tr) (negb (occurs "append" tr) && Nat.eqb (count_of "encodeToBytes" tr) 1)) &&
  all_paths "framedMsgpackEncoder.encodeFrame"
    (fun tr => implb (occurs "append" tr) (Nat.eqb (count_of "encodeToBytes" tr) 2 && last_is "append" tr && negb (occurs "fmt.Errorf" tr))) &&
  some_path "framedMsgpackEncoder.encodeFrame" (occurs "fmt.Errorf") &&
  all_paths "framedMsgpackEncoder.encodeAndWriteInternal"
    (fun tr => match tr with a :: _ => String.eqb a "e.encodeFrame" | [] => false end && Nat.eqb (count_of "e.encodeFrame" tr) 1) &&
  some_path "framedMsgpackEncoder.encodeAndWriteInternal" (fun tr => negb (occurs "arm Arm Send ""e.writeCh""" tr) && negb (occurs "arm Arm Recv ""e.doneCh""" tr) && negb (occurs "arm Arm Recv ""ctx.Done()""" tr)) &&
  all_paths "framedMsgpackEncoder.EncodeAndWriteAsync"
    (fun tr => match tr with a :: _ => String.eqb a "e.encodeFrame" | [] => false end
               && implb (occurs go_lit tr) (occurs "arm default" tr) && Nat.leb (count_of go_lit tr) 1) &&
  some_path "framedMsgpackEncoder.EncodeAndWriteAsync" (fun tr => negb (occurs "arm default" tr) && negb (occurs "arm Arm Send ""e.writeCh""" tr) && negb (occurs "arm Arm Recv ""e.doneCh""" tr)) &&
  all_paths "framedMsgpackEncoder.EncodeAndWrite" (fun tr => Nat.eqb (count_of "e.encodeAndWriteInternal" tr) 1).

(* C20: the reply's payload length is added to the call's record right after the call was found - once, not deferred, before
   the decoder can be replaced by the one over the decompressed result - and on every way out on which the call was found *)
Definition response_size_paths : bool :=
  all_paths "rpcResponseMessage.DecodeMessage" (at_most_once "r.c.instrumenter.IncrementSize") &&
  all_paths "rpcResponseMessage.DecodeMessage"
    (fun tr => implb (occurs "r.c.instrumenter.IncrementSize" tr)
                     (in_order ["cc.RetrieveCall"; "int64"; "r.c.instrumenter.IncrementSize"] tr
                      && immediately_followed "int64" "r.c.instrumenter.IncrementSize" tr)) &&
  all_paths "rpcResponseMessage.DecodeMessage"
    (fun tr => implb (occurs "newUncompressedDecoder" tr)
                     (in_order ["r.c.instrumenter.IncrementSize"; "newUncompressedDecoder"] tr)) &&
  all_paths "rpcResponseMessage.DecodeMessage"
    (fun tr => implb (occurs "cc.RetrieveCall" tr && negb (occurs "newCallNotFoundError" tr)) (occurs "r.c.instrumenter.IncrementSize" tr)) &&
  all_paths "rpcResponseMessage.DecodeMessage"
    (fun tr => implb (occurs "r.c.errorUnwrapper.UnwrapError" tr || occurs "compressor.Decompress" tr)
                     (match after_first "r.c.instrumenter.IncrementSize" tr with
                      | Some r => negb (occurs "r.c.instrumenter.IncrementSize" r) | None => false end)) &&
  some_path "rpcResponseMessage.DecodeMessage" (occurs "newUncompressedDecoder").

(* ---------- fourth batch ---------- *)
(* paths together with "did the path end in an explicit return?" (deferred calls are left out: none in the functions used) *)
Definition traces_r (fn : string) : list (list string * bool) :=
  match lookup fn body_census with
  | Some b => map (fun s => (rev (p_tr s), p_ret s)) (exec fuel0 b pst0)
  | None => []
  end.
Definition is_arm (c : string) : bool := String.eqb (substring 0 4 c) "arm ".
Fixpoint mem_str (x : string) (l : list string) : bool := match l with [] => false | y :: r => String.eqb x y || mem_str x r end.

(* C03: the writer goroutine does nothing with a queue item but run its notifier and hand its bytes to the connection in ONE
   Write call: these are the only calls on any path (no buffering layer, no second write, no flush) *)
Definition writer_loop_vocabulary : bool :=
  all_paths "framedMsgpackEncoder.writerLoop"
    (forallb (fun c => is_arm c || mem_str c ["close"; "write.sn"; "e.writer.Write"])) &&
  all_paths "framedMsgpackEncoder.writerLoop" (at_most_once "e.writer.Write") &&
  some_path "framedMsgpackEncoder.writerLoop" (occurs "e.writer.Write").

(* C10: the writer goroutine leaves its loop only through the arm that Close's channel enables - never because a Write failed -
   so a sender that arrives after a failed write still finds a receiver (or the closed channel) *)
Definition writer_loop_exits_only_when_done : bool :=
  let t := traces_r "framedMsgpackEncoder.writerLoop" in
  negb (Nat.eqb (length t) 0) &&
  forallb (fun p => implb (snd p) (occurs "arm Arm Recv ""e.doneCh""" (fst p) && negb (occurs "e.writer.Write" (fst p)))) t &&
  existsb (fun p => snd p) t.

(* ---------- fifth batch: the frame reader ---------- *)
Definition vocabulary (fn : string) (allowed : list string) : bool :=
  all_paths fn (forallb (fun c => is_arm c || mem_str c allowed)).

(* C05: the length prefix is decoded first and once; on the ways out taken for a prefix that cannot be read or is zero,
   negative or above the maximum (the paths without newFrameReader - exactly two of them make a PacketizerError) nothing of
   the payload is touched: no ReadByte, no decodeRPC, no drain *)
Definition nextframe_paths_prefix_first : bool :=
  all_paths "packetizer.NextFrame"
    (fun tr => match tr with a :: _ => String.eqb a "p.lengthDecoder.Decode" | [] => false end
               && Nat.eqb (count_of "p.lengthDecoder.Decode" tr) 1) &&
  all_paths "packetizer.NextFrame"
    (fun tr => implb (negb (occurs "newFrameReader" tr))
                     (negb (occurs "r.ReadByte" tr) && negb (occurs "decodeRPC" tr) && negb (occurs "r.drain" tr))) &&
  Nat.eqb (length (filter (fun tr => occurs "NewPacketizerError" tr && negb (occurs "newFrameReader" tr))
                          (traces_of "packetizer.NextFrame"))) 2 &&
  all_paths "packetizer.NextFrame" (fun tr => implb (occurs "r.ReadByte" tr) (in_order ["newFrameReader"; "r.ReadByte"] tr)) &&
  vocabulary "packetizer.NextFrame" ["p.lengthDecoder.Decode"; "NewPacketizerError"; "newFrameReader"; "r.drain";
                                     "shouldContinue"; "r.ReadByte"; "int"; "decodeRPC"].

(* C04: once a frame reader exists for a frame, every way out - bad header byte, decode error, unknown method, success - drains
   it exactly once, after everything else; drain is ONE Discard of what remains and nothing else *)
Definition nextframe_paths_drain_always : bool :=
  all_paths "packetizer.NextFrame"
    (fun tr => implb (occurs "newFrameReader" tr)
                     (Nat.eqb (count_of "r.drain" tr) 1 && Nat.eqb (count_of "r.ReadByte" tr) 1
                      && match after_first "r.drain" tr with
                         | Some rest => negb (occurs "r.ReadByte" rest) && negb (occurs "decodeRPC" rest) && negb (occurs "newFrameReader" rest)
                         | None => false end)) &&
  all_paths "packetizer.NextFrame" (at_most_once "decodeRPC") &&
  all_paths "packetizer.NextFrame" (at_most_once "newFrameReader") &&
  some_path "packetizer.NextFrame" (fun tr => occurs "NewPacketizerError" tr && occurs "r.drain" tr) &&
  some_path "packetizer.NextFrame" (occurs "decodeRPC") &&
  all_paths "frameReader.drain" (fun tr => Nat.eqb (count_of "l.r.Discard" tr) 1) &&
  vocabulary "frameReader.drain" ["int"; "l.r.Discard"; "int32"; "fmt.Errorf"].

(* ---------- sixth batch: cancellation on the calling side ---------- *)
(* C08: whenever dispatch.Call leaves through a context arm (in either wait) it has called handleCancel exactly once, after the
   hand-off to the encoder and before the call is unregistered; it never does so on any other way out; handleCancel queues
   exactly one cancellation frame, on every path, and returns the context's error *)
Definition call_paths_cancel : bool :=
  all_paths "dispatch.Call"
    (fun tr => if occurs "arm Arm Recv ""c.ctx.Done()""" tr
               then Nat.eqb (count_of "d.handleCancel" tr) 1
                    && in_order ["d.writer.EncodeAndWrite"; "d.handleCancel"; "d.calls.RemoveCall"] tr
               else negb (occurs "d.handleCancel" tr)) &&
  Nat.eqb (length (filter (occurs "d.handleCancel") (traces_of "dispatch.Call")))
          (length (filter (occurs "arm Arm Recv ""c.ctx.Done()""") (traces_of "dispatch.Call"))) &&
  some_path "dispatch.Call" (occurs "d.handleCancel") &&
  all_paths "dispatch.handleCancel"
    (fun tr => Nat.eqb (count_of "d.writer.EncodeAndWriteAsync" tr) 1 && Nat.eqb (count_of "c.ctx.Err" tr) 1
               && in_order ["d.writer.EncodeAndWriteAsync"; "c.ctx.Err"] tr).
