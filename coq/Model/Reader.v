(* The read side under arbitrary chunking: bufio.Reader over a connection that returns the stream in
   arbitrary pieces, consumers that loop until satisfied (go-codec's readx/ReadFull, bufio.Discard), and
   NextFrame expressed through those primitives only.  Definitions only. *)
From FMP Require Import Base.Bytes Model.Msgpack Model.Generated Model.Frame.
Open Scope N_scope.

(* buf: bytes already pulled into the bufio buffer; chunks: what the next Read calls on the connection
   will return, in order (each non-empty); no chunks left = end of stream *)
Record rd := mkRd { buf : bytes; chunks : list bytes }.

Definition abs (r : rd) : bytes := buf r ++ concat (chunks r).

Definition rd_wf (r : rd) : Prop := Forall (fun c => c <> []) (chunks r).

Fixpoint split_at (n : N) (fuel : nat) (s : bytes) : bytes * bytes :=
  if n =? 0 then ([], s) else
  match fuel, s with
  | S f, b :: r => let (a, c) := split_at (n - 1) f r in (b :: a, c)
  | _, _ => ([], s)
  end.

(* one bufio.Reader.Read(p) with len(p) = n > 0: serves from the buffer, pulling one piece from the
   connection when the buffer is empty; may return fewer than n bytes; None = end of stream *)
Definition rd_read (n : N) (r : rd) : option (bytes * rd) :=
  match buf r with
  | [] =>
      match chunks r with
      | [] => None
      | c :: cs => let (a, b) := split_at n (length c) c in Some (a, mkRd b cs)
      end
  | bf => let (a, b) := split_at n (length bf) bf in Some (a, mkRd b (chunks r))
  end.

(* a consumer that loops until it has n bytes (io.ReadFull / ReadAtLeast / Discard);
   the flag says whether it was satisfied *)
Fixpoint rd_read_full (fuel : nat) (n : N) (r : rd) : bytes * rd * bool :=
  if n =? 0 then ([], r, true) else
  match fuel with
  | O => ([], r, false)
  | S f =>
      match rd_read n r with
      | None => ([], r, false)
      | Some (a, r') =>
          match rd_read_full f (n - len a) r' with
          | (b, r'', ok) => (a ++ b, r'', ok)
          end
      end
  end.

Definition fuel_for (r : rd) : nat := S (length (abs r)).

(* how many more bytes the integer format announced by the lead byte occupies *)
Definition int_tail_width (b : N) : N :=
  if (b =? 0xcc) || (b =? 0xd0) then 1
  else if (b =? 0xcd) || (b =? 0xd1) then 2
  else if (b =? 0xce) || (b =? 0xd2) then 4
  else if (b =? 0xcf) || (b =? 0xd3) then 8
  else 0.

(* NextFrame over the chunked reader: the prefix is read byte-wise (lead byte, then its tail), the frame
   body is consumed as exactly the declared number of bytes (clamped reads + drain), and decoded with the
   flat decoder of Frame.v *)
Definition next_frame_ch (e : denv) (max : Z) (r : rd) : outcome * rd :=
  match rd_read_full (fuel_for r) 1 r with
  | (_, r1, false) => (OErr EEOF, r1)
  | (lead, r1, true) =>
      match lead with
      | [b] =>
          match rd_read_full (fuel_for r1) (int_tail_width b) r1 with
          | (_, r2, false) => (OErr EPrefixTrunc, r2)
          | (tail, r2, true) =>
              match dec_int32 (b :: tail) with
              | I32Short => (OErr EPrefixTrunc, r2)
              | I32Bad _ => (OErr EPrefixBad, r2)
              | I32Overflow => (OErr EPrefixBad, r2)
              | I32 l _ =>
                  if (l <=? 0)%Z then (OErr EPktLen, r2)
                  else if (max <? l)%Z then (OErr EPktLen, r2)
                  else
                    match rd_read_full (fuel_for r2) (Z.to_N l) r2 with
                    | (part, r3, false) =>
                        (* the stream ended inside the body: same treatment as Frame.next_frame *)
                        match part with
                        | [] => (OErr ETrunc, r3)
                        | nb :: c =>
                            if (nb <? 0x91) || (0x9f <? nb) then (OErr EPktHdr, r3)
                            else match decode_content e (Z.of_N (nb - 0x90)) c with
                                 | OErr EDecode => (OErr EDecode, r3)
                                 | OUnspec => (OUnspec, r3)
                                 | _ => (OErr ETrunc, r3)
                                 end
                        end
                    | (content, r3, true) =>
                        match content with
                        | [] => (OErr ETrunc, r3)
                        | nb :: c =>
                            if (nb <? 0x91) || (0x9f <? nb) then (OErr EPktHdr, r3)
                            else (decode_content e (Z.of_N (nb - 0x90)) c, r3)
                        end
                    end
              end
          end
      | _ => (OErr EEOF, r1)   (* unreachable: a satisfied 1-byte read returns one byte *)
      end
  end.

Fixpoint run_frames_ch (fuel : nat) (e : denv) (max : Z) (r : rd) : list outcome :=
  match fuel with
  | O => []
  | S f =>
      let (o, r') := next_frame_ch e max r in
      if continues o then o :: run_frames_ch f e max r' else [o]
  end.

(* a stream cut into pieces *)
Definition of_chunks (cs : list bytes) : rd := mkRd [] (filter (fun c => match c with [] => false | _ => true end) cs).
