(* context.go: RPC tags on contexts, over an explicit heap of mutable Go maps so that aliasing can be expressed.
   A context is immutable and points to (at most) one map; the client owns the maps it passes in and reads out and
   may mutate them at any time.  Whether reads and additions copy comes from the regenerated order census
   (Skeleton-like flags passed in as [tcfg]).  Also the client-side rule for which tags travel with each message
   kind (client.go).  Definitions only. *)
From FMP Require Import Base.Bytes Model.Msgpack.
Open Scope Z_scope.

Definition tagmap := list (bytes * mval).      (* key -> value; the first binding of a key is the live one *)

Fixpoint tm_get (k : bytes) (m : tagmap) : option mval :=
  match m with [] => None | (k', v) :: r => if bytes_eqb k k' then Some v else tm_get k r end.
Definition tm_remove (k : bytes) (m : tagmap) : tagmap := filter (fun p => negb (bytes_eqb k (fst p))) m.
Definition tm_set (k : bytes) (v : mval) (m : tagmap) : tagmap := (k, v) :: tm_remove k m.
(* for key, tag := range add { cur[key] = tag } *)
Definition tm_merge (cur add : tagmap) : tagmap := fold_right (fun p acc => tm_set (fst p) (snd p) acc) cur (rev add).

Record tcfg := mkTcfg {
  t_read_copies : bool;      (* TagsFromContext returns a fresh map *)
  t_add_copies : bool        (* AddRPCTagsToContext extends a copy of the current tags, not the stored map *)
}.

(* heap: map id -> contents; contexts: ctx id -> (parent, map id it stores, if any) *)
Record theap := mkTH {
  maps : list (Z * tagmap);
  ctxs : list (Z * option Z);          (* the map a context's tag key resolves to *)
  next_map : Z;
  next_ctx : Z;
  client_maps : list Z                 (* ids of maps the client holds a reference to *)
}.

Definition th0 : theap := mkTH [] [(0, None)] 0 1 [].     (* context 0 = Background *)

Fixpoint zfind {A} (k : Z) (l : list (Z * A)) : option A :=
  match l with [] => None | (k', v) :: r => if k =? k' then Some v else zfind k r end.
Definition zset {A} (k : Z) (v : A) (l : list (Z * A)) : list (Z * A) := (k, v) :: filter (fun p => negb (fst p =? k)) l.

Definition map_of_ctx (h : theap) (c : Z) : option Z := match zfind c (ctxs h) with Some (Some m) => Some m | _ => None end.

(* TagsFromContext as the handler / client sees it: contents of the context's map *)
Definition tags_of (h : theap) (c : Z) : option tagmap :=
  match map_of_ctx h c with Some m => zfind m (maps h) | None => None end.

Inductive top :=
| TNewMap (m : tagmap)                 (* the client builds a map: it owns it *)
| TAdd (c : Z) (m : Z)                 (* AddRPCTagsToContext(ctx c, client map m) -> new context *)
| TRead (c : Z)                        (* TagsFromContext(ctx c) -> a map the client now holds *)
| TMutate (m : Z) (k : bytes) (v : mval)    (* the client writes into a map it holds *)
| TDerive (c : Z).                     (* any other derivation: WithValue, WithCancel, WithTimeout, WithFireNow -> new context *)

(* returns the new heap and the id created (map or context), if any *)
Definition tstep (cfg : tcfg) (h : theap) (o : top) : theap * option Z :=
  match o with
  | TNewMap m =>
      (mkTH ((next_map h, m) :: maps h) (ctxs h) (next_map h + 1) (next_ctx h) (next_map h :: client_maps h), Some (next_map h))
  | TRead c =>
      match map_of_ctx h c with
      | None => (h, None)
      | Some mid =>
          if t_read_copies cfg then
            let cp := match zfind mid (maps h) with Some t => t | None => [] end in
            (mkTH ((next_map h, cp) :: maps h) (ctxs h) (next_map h + 1) (next_ctx h) (next_map h :: client_maps h), Some (next_map h))
          else
            (mkTH (maps h) (ctxs h) (next_map h) (next_ctx h) (mid :: client_maps h), Some mid)     (* aliases the stored map *)
      end
  | TAdd c m =>
      match zfind m (maps h) with
      | None => (h, None)
      | Some addm =>
          match map_of_ctx h c with
          | Some cur_id =>
              let cur := match zfind cur_id (maps h) with Some t => t | None => [] end in
              if t_add_copies cfg then
                let nm := next_map h in
                (mkTH ((nm, tm_merge cur addm) :: maps h) ((next_ctx h, Some nm) :: ctxs h) (nm + 1) (next_ctx h + 1) (client_maps h),
                 Some (next_ctx h))
              else
                (* extends the parent's own map in place and stores it again *)
                (mkTH (zset cur_id (tm_merge cur addm) (maps h)) ((next_ctx h, Some cur_id) :: ctxs h) (next_map h) (next_ctx h + 1)
                      (client_maps h), Some (next_ctx h))
          | None =>
              let nm := next_map h in
              (mkTH ((nm, tm_merge [] addm) :: maps h) ((next_ctx h, Some nm) :: ctxs h) (nm + 1) (next_ctx h + 1) (client_maps h),
               Some (next_ctx h))
          end
      end
  | TDerive c =>
      (* the new context resolves the tag key exactly as its parent does *)
      match zfind c (ctxs h) with
      | Some o => (mkTH (maps h) ((next_ctx h, o) :: ctxs h) (next_map h) (next_ctx h + 1) (client_maps h), Some (next_ctx h))
      | None => (h, None)
      end
  | TMutate m k v =>
      if existsb (fun x => x =? m) (client_maps h) then
        match zfind m (maps h) with
        | Some t => (mkTH (zset m (tm_set k v t) (maps h)) (ctxs h) (next_map h) (next_ctx h) (client_maps h), None)
        | None => (h, None)
        end
      else (h, None)
  end.

Fixpoint trun (cfg : tcfg) (h : theap) (ops : list top) : theap :=
  match ops with [] => h | o :: r => trun cfg (fst (tstep cfg h o)) r end.

(* observation after each operation: the tags visible through every context created so far *)
Definition view (h : theap) : list (Z * option tagmap) := map (fun p => (fst p, tags_of h (fst p))) (ctxs h).

Fixpoint tviews (cfg : tcfg) (h : theap) (ops : list top) : list (list (Z * option tagmap)) :=
  match ops with [] => [] | o :: r => let h' := fst (tstep cfg h o) in view h' :: tviews cfg h' r end.

(* maps as sets of bindings (Go maps are unordered; the first binding of a key wins) *)
Definition tm_norm (m : tagmap) : tagmap :=
  fold_right (fun p acc => if existsb (fun q => bytes_eqb (fst p) (fst q)) acc then acc else p :: acc) [] (rev m).

(* ---------- client.go: which tags travel ---------- *)
(* calls and compressed calls: the context's tags extended with the context values the tag-extraction function
   selects; notifications: only the tags already on the context; nothing when there are none *)
Definition traveling_tags (is_call : bool) (has_tagsfunc : bool) (ctx_tags : option tagmap) (selected : tagmap) : option tagmap :=
  let t := if is_call && has_tagsfunc then Some (tm_merge (match ctx_tags with Some t => t | None => [] end) selected)
           else ctx_tags in
  match t with
  | Some [] => None          (* len(rpcTags) > 0 guards the append *)
  | x => x
  end.
