(* reconnect_backoff.go, concurrently: any number of goroutines starting, firing and waiting on one CancellableTimer.
   One label = one atomic step: swap/get are the critical sections under b.mu; firing the old signal and arming
   time.AfterFunc are separate steps of the starter; a runtime timer fires its signal when the clock has passed its due
   time.  Definitions only. *)
From FMP Require Import Base.Bytes Base.Lts.
Open Scope Z_scope.

(* a fireOnce value: None = the zero value (no channel): fire and wait are no-ops *)
Definition fo := option Z.

Inductive tpc :=
| TIdle
(* StartConstant(d) / StartRandom: f := newFireOnce(); old := swap(f); old.fire(); time.AfterFunc(d, f.fire) *)
| TStartSwap (d : Z)
| TStartFire (d : Z) (f : Z) (old : fo)
| TStartArm (d : Z) (f : Z)
(* FireNow: old := swap(fireOnce{}); old.fire() *)
| TFireSwap
| TFireFire (old : fo)
(* Wait: f := get(); for f != oldF { f.wait(); f, oldF = get(), f } ; oldF starts as the zero value *)
| TWaitGet0
| TWaitTest (f oldf : fo)
| TWaitBlocked (f : Z)         (* inside f.wait() on a real signal *)
| TWaitGet (oldf : fo)
| TDone.

Record tcstate := mkTC {
  tc_fired : list Z;             (* signals whose channel is closed *)
  tc_cur : fo;                   (* b.fo *)
  tc_armed : list (Z * Z);       (* runtime timers: (signal, due time) *)
  tc_now : Z;
  tc_next : Z;                   (* next fresh signal id *)
  tc_threads : list (Z * tpc);
  tc_started : list (Z * Z * Z)  (* history: (signal, time of its swap, duration), most recent first *)
}.

Definition fo_eqb (a b : fo) : bool :=
  match a, b with Some x, Some y => x =? y | None, None => true | _, _ => false end.

Fixpoint zin (x : Z) (l : list Z) : bool := match l with [] => false | y :: r => (x =? y) || zin x r end.

Fixpoint thfind (t : Z) (l : list (Z * tpc)) : option tpc :=
  match l with [] => None | (k, v) :: r => if k =? t then Some v else thfind t r end.
Fixpoint thset (t : Z) (v : tpc) (l : list (Z * tpc)) : list (Z * tpc) :=
  match l with [] => [] | (k, w) :: r => if k =? t then (k, v) :: r else (k, w) :: thset t v r end.

Definition fire (o : fo) (l : list Z) : list Z := match o with Some i => if zin i l then l else i :: l | None => l end.

Inductive tlabel :=
| TStep (t : Z)                  (* thread t takes its next step *)
| TBegin (t : Z) (op : tpc)      (* an idle thread begins an operation: TStartSwap d / TFireSwap / TWaitGet0 *)
| TTick (dt : Z)                 (* time passes *)
| TTimerFire (i : Z).            (* the runtime fires a due timer *)

Definition with_thread (s : tcstate) (t : Z) (p : tpc) : tcstate :=
  mkTC (tc_fired s) (tc_cur s) (tc_armed s) (tc_now s) (tc_next s) (thset t p (tc_threads s)) (tc_started s).

Definition tcstep (s : tcstate) (l : tlabel) : option tcstate :=
  match l with
  | TBegin t op =>
      match thfind t (tc_threads s), op with
      | Some TIdle, TStartSwap d => if d <? 0 then None else Some (with_thread s t op)
      | Some TIdle, TFireSwap | Some TIdle, TWaitGet0 => Some (with_thread s t op)
      | Some TDone, TStartSwap d => if d <? 0 then None else Some (with_thread s t op)
      | Some TDone, TFireSwap | Some TDone, TWaitGet0 => Some (with_thread s t op)
      | _, _ => None
      end
  | TStep t =>
      match thfind t (tc_threads s) with
      | Some (TStartSwap d) =>
          let f := tc_next s in
          Some (mkTC (tc_fired s) (Some f) (tc_armed s) (tc_now s) (f + 1) (thset t (TStartFire d f (tc_cur s)) (tc_threads s))
                     ((f, tc_now s, d) :: tc_started s))
      | Some (TStartFire d f old) =>
          Some (mkTC (fire old (tc_fired s)) (tc_cur s) (tc_armed s) (tc_now s) (tc_next s) (thset t (TStartArm d f) (tc_threads s)) (tc_started s))
      | Some (TStartArm d f) =>
          Some (mkTC (tc_fired s) (tc_cur s) ((f, tc_now s + d) :: tc_armed s) (tc_now s) (tc_next s) (thset t TDone (tc_threads s)) (tc_started s))
      | Some TFireSwap =>
          Some (mkTC (tc_fired s) None (tc_armed s) (tc_now s) (tc_next s) (thset t (TFireFire (tc_cur s)) (tc_threads s)) (tc_started s))
      | Some (TFireFire old) =>
          Some (mkTC (fire old (tc_fired s)) (tc_cur s) (tc_armed s) (tc_now s) (tc_next s) (thset t TDone (tc_threads s)) (tc_started s))
      | Some TWaitGet0 => Some (with_thread s t (TWaitTest (tc_cur s) None))
      | Some (TWaitTest f oldf) =>
          if fo_eqb f oldf then Some (with_thread s t TDone)
          else match f with
               | None => Some (with_thread s t (TWaitGet None))          (* wait on the zero value returns at once *)
               | Some i => Some (with_thread s t (TWaitBlocked i))
               end
      | Some (TWaitBlocked i) => if zin i (tc_fired s) then Some (with_thread s t (TWaitGet (Some i))) else None
      | Some (TWaitGet oldf) => Some (with_thread s t (TWaitTest (tc_cur s) oldf))
      | _ => None
      end
  | TTick dt => if dt <? 0 then None else Some (mkTC (tc_fired s) (tc_cur s) (tc_armed s) (tc_now s + dt) (tc_next s) (tc_threads s) (tc_started s))
  | TTimerFire i =>
      match filter (fun p => (fst p =? i) && (snd p <=? tc_now s)) (tc_armed s) with
      | _ :: _ => Some (mkTC (fire (Some i) (tc_fired s)) (tc_cur s) (filter (fun p => negb (fst p =? i)) (tc_armed s)) (tc_now s) (tc_next s)
                             (tc_threads s) (tc_started s))
      | [] => None
      end
  end.

Definition tcinit (threads : list Z) : tcstate := mkTC [] None [] 0 0 (map (fun t => (t, TIdle)) threads) [].

Fixpoint tids_ok (l : list Z) : bool := match l with [] => true | x :: r => negb (zin x r) && tids_ok r end.
