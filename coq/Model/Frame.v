(* Frames: msgpack(len(content)) ++ content, content = fixarray [type, ...].
   Encoding side: dispatch.go / request.go literals + codec.encodeFrame.
   Decoding side: packetizer.NextFrame + message.decodeRPC, over a flat byte stream.  Definitions only. *)
From FMP Require Import Base.Bytes Model.Msgpack Model.Generated.
Open Scope N_scope.

(* ---------- messages ---------- *)
Inductive msg :=
| MCall (seq : Z) (meth : bytes) (arg : mval) (tags : option mval)
| MCallC (seq : Z) (ctype : Z) (meth : bytes) (arg : mval) (tags : option mval)
| MResp (seq : Z) (err res : mval)
| MNotify (meth : bytes) (arg : mval) (tags : option mval)
| MCancel (seq : Z) (meth : bytes).

Definition opt_tags (t : option mval) : list mval := match t with Some v => [v] | None => [] end.

(* the value handed to the msgpack encoder, field order as in the source literals *)
Definition frame_val (m : msg) : mval :=
  match m with
  | MCall q me a t => VArr ([VInt method_call; VInt q; VStr me; a] ++ opt_tags t)
  | MCallC q c me a t => VArr ([VInt method_call_compressed; VInt q; VInt c; VStr me; a] ++ opt_tags t)
  | MResp q e r => VArr [VInt method_response; VInt q; e; r]
  | MNotify me a t => VArr ([VInt method_notify; VStr me; a] ++ opt_tags t)
  | MCancel q me => VArr [VInt method_cancel; VInt q; VStr me]
  end.

(* the layout written a second time, byte by byte, from the protocol description *)
Definition spec_bytes (m : msg) : bytes :=
  match m with
  | MCall q me a t =>
      [0x90 + 4 + len (opt_tags t)] ++ [0] ++ enc_int q ++ (enc_str_hdr (len me) ++ me) ++ enc a ++ flat_map enc (opt_tags t)
  | MCallC q c me a t =>
      [0x90 + 5 + len (opt_tags t)] ++ [4] ++ enc_int q ++ enc_int c ++ (enc_str_hdr (len me) ++ me) ++ enc a ++ flat_map enc (opt_tags t)
  | MResp q e r => [0x94] ++ [1] ++ enc_int q ++ enc e ++ enc r
  | MNotify me a t =>
      [0x90 + 3 + len (opt_tags t)] ++ [2] ++ (enc_str_hdr (len me) ++ me) ++ enc a ++ flat_map enc (opt_tags t)
  | MCancel q me => [0x93] ++ [3] ++ enc_int q ++ (enc_str_hdr (len me) ++ me)
  end.

(* codec.encodeFrame: None = "frame length too big" *)
Definition encode_value (max : Z) (v : mval) : option bytes :=
  let c := enc v in
  if (max <? Z.of_N (len c))%Z then None else Some (enc_int (Z.of_N (len c)) ++ c).

Definition encode_frame (max : Z) (m : msg) : option bytes := encode_value max (frame_val m).

(* ---------- environment of the decoder ---------- *)
Inductive nfkind := NFProtocol | NFMethod.

Record callinfo := mkCI { ci_ctype : Z; ci_has_res : bool; ci_unwrap : bool }.

Record denv := mkEnv {
  protocols : list (bytes * list bytes);     (* registered protocol -> its methods *)
  pending : list (Z * callinfo);             (* pending-call table *)
  inflated : list (bytes * option bytes)     (* decompression oracle: compressed payload -> result *)
}.

Fixpoint last_dot (s : bytes) : option (bytes * bytes) :=
  match s with
  | [] => None
  | b :: r =>
      match last_dot r with
      | Some (p, m) => Some (b :: p, m)
      | None => if b =? 46 then Some ([], r) else None
      end
  end.

(* util.splitMethodName *)
Definition split_method (n : bytes) : bytes * bytes :=
  match last_dot n with Some pm => pm | None => ([], n) end.

Fixpoint assoc_bytes {A} (k : bytes) (l : list (bytes * A)) : option A :=
  match l with
  | [] => None
  | (k', v) :: r => if bytes_eqb k k' then Some v else assoc_bytes k r
  end.

Fixpoint mem_bytes (k : bytes) (l : list bytes) : bool :=
  match l with [] => false | x :: r => bytes_eqb k x || mem_bytes k r end.

Definition find_method (e : denv) (name : bytes) : option nfkind :=
  let (p, m) := split_method name in
  match assoc_bytes p (protocols e) with
  | None => Some NFProtocol
  | Some ms => if mem_bytes m ms then None else Some NFMethod
  end.

Fixpoint assoc_z {A} (k : Z) (l : list (Z * A)) : option A :=
  match l with
  | [] => None
  | (k', v) :: r => if (k =? k')%Z then Some v else assoc_z k r
  end.

(* which compression types have a compressor (protocol.go NewCompressor) *)
Definition has_compressor (c : Z) : bool := (c =? compression_gzip)%Z || (c =? compression_msgpackzip)%Z.

(* ---------- outcomes ---------- *)
Inductive errclass :=
| EEOF            (* clean end of stream on a frame boundary *)
| EPrefixTrunc    (* stream ended inside the length prefix *)
| EPrefixBad      (* length prefix is not an integer, or does not fit int32 *)
| EPktLen         (* PacketizerError: length <= 0 or > max *)
| EPktHdr         (* PacketizerError: first content byte is not a fixarray header 0x91..0x9f *)
| ETrunc          (* stream ended inside the frame body *)
| EDecode.        (* DecodeError wrapping a field error / bad type / wrong message length *)

Inductive outcome :=
| OCall (seq : Z) (meth : bytes) (arg : mval) (tags : option mval)
| OCallC (seq ctype : Z) (meth : bytes) (arg : mval) (tags : option mval)
| OCallNF (seq : Z) (meth : bytes) (k : nfkind) (compressed : bool)
| ONotify (meth : bytes) (arg : mval) (tags : option mval)
| ONotifyNF (meth : bytes) (k : nfkind)
| OResp (seq : Z) (err res : mval)
| ORespNF (seq : Z)
| OCancel (seq : Z) (meth : bytes)
| OErr (e : errclass)
| OUnspec.

(* field decoding inside the content (clamped to the frame: [c] is exactly the frame body after the header byte) *)
Definition lift {A B} (d : dres A) (k : A -> bytes -> B) (bad : B) (uns : B) : B :=
  match d with
  | DOk v r => k v r
  | DUnspec => uns
  | _ => bad
  end.

(* Typed decoding of CtxRPCTags (map[string]interface{}) as go-codec does it: keys through DecodeString, values
   generic.  The container-length reader is lenient: besides fixmap/map16/map32 it takes 0x00 as a one-byte count
   header and ANY other byte >= 0x80 as a fixmap header with count (b - 0x80) (calibrated on the unchanged tree). *)
Fixpoint dec_tag_pairs (fuel : nat) (n : N) (bs : bytes) {struct fuel} : dres (list (mval * mval)) :=
  if n =? 0 then DOk [] bs else
  match fuel with
  | O => DFuel
  | S f =>
      match dec_string bs with
      | DOk ks r =>
          match bs with
          | 0xc0 :: _ => DBad 0xc0          (* a nil key is refused *)
          | _ =>
              match decode r with
              | DOk v r1 =>
                  match dec_tag_pairs f (n - 1) r1 with
                  | DOk l r' => DOk ((VStr ks, v) :: l) r'
                  | DShort => DShort | DBad b => DBad b | DUnspec => DUnspec | DFuel => DFuel
                  end
              | DShort => DShort | DBad b => DBad b | DUnspec => DUnspec | DFuel => DFuel
              end
          end
      | DShort => DShort | DBad b => DBad b | DUnspec => DUnspec | DFuel => DFuel
      end
  end.

Definition tag_map_header (c : bytes) : option (N * bytes) :=
  match c with
  | [] => None
  | b :: r =>
      if b =? 0x00 then read_be 1 r
      else if b =? 0xde then read_be 2 r
      else if b =? 0xdf then read_be 4 r
      else if 0x80 <=? b then Some (b - 0x80, r)
      else None
  end.

(* loadContext: extra = number of elements beyond the minimum *)
Definition dec_tags (extra : Z) (c : bytes) (k : option mval -> outcome) : outcome :=
  if (extra <=? 0)%Z then k None else
  match c with
  | 0xc0 :: _ => k (Some (VMap []))      (* nil map: tags present but empty *)
  | _ =>
      match tag_map_header c with
      | None => OErr EDecode
      | Some (n, r1) =>
          match dec_tag_pairs (S (length r1)) n r1 with
          | DOk l _ => k (Some (VMap l))
          | DUnspec => OUnspec
          | _ => OErr EDecode
          end
      end
  end.

(* a compressed argument: []byte target (bin or str accepted); empty means "leave the zero argument" *)
Definition dec_compressed (e : denv) (c : bytes) (k : mval -> bytes -> outcome) : outcome :=
  lift (dec_string c)
       (fun payload r =>
          match payload with
          | [] => k VNil r
          | _ => match assoc_bytes payload (inflated e) with
                 | Some (Some plain) =>
                     match decode plain with
                     | DOk v _ => k v r
                     | DUnspec => OUnspec
                     | _ => OErr EDecode
                     end
                 | Some None => OErr EDecode
                 | None => OUnspec         (* oracle has no entry: outside what the harness recorded *)
                 end
          end)
       (OErr EDecode) OUnspec.

Definition decode_content (e : denv) (n : Z) (c : bytes) : outcome :=
  (* n = number of array elements, c = content after the header byte *)
  lift (dec_int64 c) (fun typ c1 =>
    let dl := (n - 1)%Z in
    if (typ =? method_call)%Z then
      if (dl <? minlen_call)%Z then OErr EDecode else
      lift (dec_int64 c1) (fun q c2 =>
      lift (dec_string c2) (fun me c3 =>
        match find_method e me with
        | Some k => OCallNF q me k false
        | None =>
            lift (decode c3) (fun a c4 => dec_tags (dl - minlen_call) c4 (fun t => OCall q me a t))
                 (OErr EDecode) OUnspec
        end) (OErr EDecode) OUnspec) (OErr EDecode) OUnspec
    else if (typ =? method_call_compressed)%Z then
      if (dl <? minlen_call_compressed)%Z then OErr EDecode else
      lift (dec_int64 c1) (fun q c2 =>
      lift (dec_int64 c2) (fun ct c3 =>
      lift (dec_string c3) (fun me c4 =>
        match find_method e me with
        | Some k => OCallNF q me k true
        | None =>
            if has_compressor ct then
              dec_compressed e c4 (fun a c5 => dec_tags (dl - minlen_call_compressed) c5 (fun t => OCallC q ct me a t))
            else
              lift (decode c4) (fun a c5 => dec_tags (dl - minlen_call_compressed) c5 (fun t => OCallC q ct me a t))
                   (OErr EDecode) OUnspec
        end) (OErr EDecode) OUnspec) (OErr EDecode) OUnspec) (OErr EDecode) OUnspec
    else if (typ =? method_response)%Z then
      if (dl <? minlen_response)%Z then OErr EDecode else
      lift (dec_int64 c1) (fun q c2 =>
        match assoc_z q (pending e) with
        | None => ORespNF q
        | Some ci =>
            let after_err (er : mval) (c3 : bytes) : outcome :=
                if negb (ci_has_res ci) then OResp q er VNil else
                if has_compressor (ci_ctype ci) then dec_compressed e c3 (fun r _ => OResp q er r)
                else lift (decode c3) (fun r _ => OResp q er r) (OErr EDecode) OUnspec in
            if ci_unwrap ci then lift (decode c2) after_err (OErr EDecode) OUnspec
            else lift (dec_string c2) (fun s c3 => after_err (VStr s) c3) (OErr EDecode) OUnspec
        end) (OErr EDecode) OUnspec
    else if (typ =? method_notify)%Z then
      if (dl <? minlen_notify)%Z then OErr EDecode else
      lift (dec_string c1) (fun me c2 =>
        match find_method e me with
        | Some k => ONotifyNF me k
        | None =>
            lift (decode c2) (fun a c3 => dec_tags (dl - minlen_notify) c3 (fun t => ONotify me a t))
                 (OErr EDecode) OUnspec
        end) (OErr EDecode) OUnspec
    else if (typ =? method_cancel)%Z then
      if (dl <? minlen_cancel)%Z then OErr EDecode else
      lift (dec_int64 c1) (fun q c2 =>
      lift (dec_string c2) (fun me _ => OCancel q me) (OErr EDecode) OUnspec) (OErr EDecode) OUnspec
    else OErr EDecode)
  (OErr EDecode) OUnspec.

(* NextFrame on a flat stream: outcome and what is left of the stream.
   consumed = |stream| - |rest|.  For a fatal prefix error only the prefix has been consumed. *)
Definition next_frame (e : denv) (max : Z) (s : bytes) : outcome * bytes :=
  match s with
  | [] => (OErr EEOF, [])
  | _ =>
      match dec_int32 s with
      | I32Short => (OErr EPrefixTrunc, [])
      | I32Bad _ => (OErr EPrefixBad, tl s)
      | I32Overflow => (OErr EPrefixBad, match dec_int64 s with DOk _ r => r | _ => [] end)
      | I32 l r =>
          if (l <=? 0)%Z then (OErr EPktLen, r)
          else if (max <? l)%Z then (OErr EPktLen, r)
          else
            match take r (Z.to_N l) with
            | None =>
                (* the stream ends inside the body: the decoder works on what is there; whatever it makes of it,
                   the failed drain wins over success and over errors the loop would continue after *)
                match r with
                | [] => (OErr ETrunc, [])
                | nb :: c =>
                    if (nb <? 0x91) || (0x9f <? nb) then (OErr EPktHdr, [])
                    else match decode_content e (Z.of_N (nb - 0x90)) c with
                         | OErr EDecode => (OErr EDecode, [])
                         | OUnspec => (OUnspec, [])
                         | _ => (OErr ETrunc, [])
                         end
                end
            | Some (content, rest) =>
                match content with
                | [] => (OErr ETrunc, rest)          (* unreachable: l >= 1 *)
                | nb :: c =>
                    if (nb <? 0x91) || (0x9f <? nb) then (OErr EPktHdr, rest)
                    else (decode_content e (Z.of_N (nb - 0x90)) c, rest)
                end
            end
      end
  end.

(* does the receive loop go on after this outcome? (transport.shouldContinue) *)
Definition continues (o : outcome) : bool :=
  match o with
  | OErr _ | OUnspec => false
  | _ => true
  end.

(* the receive loop: frames until a fatal outcome; fuel = number of frames allowed *)
Fixpoint run_frames (fuel : nat) (e : denv) (max : Z) (s : bytes) : list outcome :=
  match fuel with
  | O => []
  | S f =>
      let (o, r) := next_frame e max s in
      if continues o then o :: run_frames f e max r else [o]
  end.

(* decoded view of a message (what the property calls "the same type, seqno, method, argument, error, result, tags") *)
Definition outcome_of_msg (m : msg) : outcome :=
  match m with
  | MCall q me a t => OCall q me a t
  | MCallC q c me a t => OCallC q c me a t
  | MResp q e r => OResp q e r
  | MNotify me a t => ONotify me a t
  | MCancel q me => OCancel q me
  end.

(* ---------- every legal encoding of a message: choices for every width, k extra trailing elements ---------- *)
Fixpoint enc_alt_list (ch : list nat) (l : list mval) : bytes * list nat :=
  match l with
  | [] => ([], ch)
  | x :: r => let (bx, ch1) := enc_alt ch x in
              let (br, ch2) := enc_alt_list ch1 r in (bx ++ br, ch2)
  end.

Definition frame_elems (m : msg) : list mval :=
  match frame_val m with VArr l => l | _ => [] end.

(* the top-level array is a fixarray by the protocol (NextFrame reads its header by hand) *)
Definition content_alt (ch : list nat) (m : msg) (extra : list mval) : bytes :=
  let els := frame_elems m ++ extra in
  (0x90 + len els) :: fst (enc_alt_list ch els).

(* extras are only "extra" when they cannot be taken for the optional tag map *)
Definition extras_ok (m : msg) (extra : list mval) : bool :=
  match extra with
  | [] => true
  | _ => match m with
         | MCall _ _ _ (Some _) | MCallC _ _ _ _ (Some _) | MNotify _ _ (Some _) => true
         | MResp _ _ _ | MCancel _ _ => true
         | _ => false
         end
  end.

(* a tag map as the client produces it: a non-empty map with string keys *)
Definition tags_ok (t : option mval) : bool :=
  match t with
  | None => true
  | Some (VMap l) => forallb (fun kv => match fst kv with VStr _ => true | _ => false end) l
  | Some _ => false
  end.

Definition msg_tags (m : msg) : option mval :=
  match m with
  | MCall _ _ _ t | MCallC _ _ _ _ t | MNotify _ _ t => t
  | _ => None
  end.

Definition wf_seq (q : Z) : bool := ((- two63z <=? q) && (q <? two63z))%Z.

Definition wf_msg (m : msg) : bool :=
  match m with
  | MCall q me a t => wf_seq q && wf_val (VStr me) && wf_val a && tags_ok t && forallb wf_val (opt_tags t)
  | MCallC q c me a t => wf_seq q && wf_seq c && wf_val (VStr me) && wf_val a && tags_ok t && forallb wf_val (opt_tags t)
  | MResp q e r => wf_seq q && wf_val e && wf_val r
  | MNotify me a t => wf_val (VStr me) && wf_val a && tags_ok t && forallb wf_val (opt_tags t)
  | MCancel q me => wf_seq q && wf_val (VStr me)
  end.

(* the receiving environment can take the message: method registered / call pending with a generic unwrapper *)
Definition env_accepts (e : denv) (m : msg) : bool :=
  match m with
  | MCall _ me _ _ | MNotify me _ _ => match find_method e me with None => true | Some _ => false end
  | MCallC _ c me _ _ => match find_method e me with None => negb (has_compressor c) | Some _ => false end
  | MResp q _ _ =>
      match assoc_z q (pending e) with
      | Some ci => ci_has_res ci && ci_unwrap ci && negb (has_compressor (ci_ctype ci))
      | None => false
      end
  | MCancel _ _ => true
  end.
