(* The booleans the transition-system models take from the regenerated blocking / order census.
   [skeleton] is computed from Generated.v; [expected_skeleton] is what the theorems were proved for;
   Proofs/SkeletonProofs.v shows they coincide on the current source (vm_compute). *)
From FMP Require Import Model.GenTypes Model.Generated.
Open Scope string_scope.

Record skeleton := mkSk {
  (* codec.go *)
  sk_handoff_has_done : bool;      (* encodeAndWriteInternal select: <-e.doneCh *)
  sk_handoff_has_ctx : bool;       (* ... <-ctx.Done() *)
  sk_handoff_has_send : bool;      (* ... e.writeCh <- *)
  sk_async_has_done : bool;        (* EncodeAndWriteAsync's goroutine select: <-e.doneCh *)
  sk_async_has_send : bool;
  sk_async_try_has_default : bool; (* EncodeAndWriteAsync's first select has a default arm (never blocks the caller) *)
  sk_writer_has_done : bool;       (* writerLoop select: <-e.doneCh *)
  sk_writer_has_recv : bool;       (* ... <-e.writeCh *)
  (* dispatch.go *)
  sk_call_wait1_has_err : bool;
  sk_call_wait1_has_ctx : bool;
  sk_call_wait1_has_stop : bool;
  sk_call_wait2_has_result : bool;
  sk_call_wait2_has_ctx : bool;
  sk_call_wait2_has_stop : bool;
  sk_notify_wait_has_err : bool;
  sk_notify_wait_has_ctx : bool;
  sk_notify_wait_has_stop : bool;
  sk_cancel_wait_has_default : bool;   (* handleCancel never blocks on the async send's verdict *)
  sk_addcall_before_write : bool;      (* order census: AddCall precedes EncodeAndWrite in dispatch.Call *)
  sk_removecall_deferred : bool;       (* RemoveCall is deferred in dispatch.Call *)
  sk_result_chan_cap1 : bool;
  (* request.go *)
  sk_reply_wait_has_err : bool;
  sk_reply_wait_has_ctx : bool;
  (* receiver.go *)
  sk_taskloop_has_stop : bool;
  sk_taskloop_has_begin : bool;
  sk_taskloop_has_cancel : bool;
  sk_taskloop_has_end : bool;
  sk_taskbegin_has_stop : bool;        (* the send on r.taskBeginCh sits in a select with <-r.stopCh *)
  sk_taskend_has_stop : bool;
  sk_taskcancel_has_stop : bool;
  sk_response_send_nonblocking : bool; (* the send on the call's response channel has a default arm *)
  sk_notify_key_unique : bool;         (* every notification is filed under its own task key *)
  (* transport.go *)
  sk_stop_err_in_once : bool;          (* stopErr is assigned inside the close once, before close(stopCh), and nowhere else *)
  (* receiver.go *)
  sk_cancel_negative_ignored : bool    (* receiveCancel drops a cancellation frame whose seqno is negative *)
}.

Definition selects_of (fn : string) : list (list arm) :=
  match lookup fn blocking_census with
  | Some ops => flat_map (fun o => match o with BSelect a => [a] | _ => [] end) ops
  | None => []
  end.

Definition nth_select (fn : string) (n : nat) : list arm := nth n (selects_of fn) [].

Definition has_bare_send (fn ch : string) : bool :=
  match lookup fn blocking_census with
  | Some ops => existsb (fun o => match o with BSend c => String.eqb c ch | _ => false end) ops
  | None => false
  end.

Fixpoint index_of (c : callsite -> bool) (l : list callsite) (i : nat) : option nat :=
  match l with
  | [] => None
  | x :: r => if c x then Some i else index_of c r (S i)
  end.

Definition calls_of (fn : string) : list callsite := match lookup fn order_census with Some l => l | None => [] end.

Definition is_call (name : string) (c : callsite) : bool := match c with CCall n => String.eqb n name | _ => false end.
Definition is_defer (name : string) (c : callsite) : bool := match c with CDefer n => String.eqb n name | _ => false end.

Definition before (fn a b : string) : bool :=
  match index_of (is_call a) (calls_of fn) 0, index_of (is_call b) (calls_of fn) 0 with
  | Some i, Some j => Nat.ltb i j
  | _, _ => false
  end.

Definition skeleton_now : skeleton :=
  let hand := nth_select "framedMsgpackEncoder.encodeAndWriteInternal" 0 in
  let atry := nth_select "framedMsgpackEncoder.EncodeAndWriteAsync" 0 in
  let agor := nth_select "framedMsgpackEncoder.EncodeAndWriteAsync$1" 0 in
  let wl := nth_select "framedMsgpackEncoder.writerLoop" 0 in
  let w1 := nth_select "dispatch.Call" 0 in
  let w2 := nth_select "dispatch.Call" 1 in
  let nw := nth_select "dispatch.Notify" 0 in
  let hc := nth_select "dispatch.handleCancel" 0 in
  let rw := nth_select "callRequest.Reply" 0 in
  let rwc := nth_select "callCompressedRequest.Reply" 0 in
  let tl := nth_select "receiveHandler.taskLoop" 0 in
  mkSk
    (in_arms (Arm Recv "e.doneCh") hand) (in_arms (Arm Recv "ctx.Done()") hand) (in_arms (Arm Send "e.writeCh") hand)
    (in_arms (Arm Recv "e.doneCh") agor) (in_arms (Arm Send "e.writeCh") agor) (in_arms ArmDefault atry)
    (in_arms (Arm Recv "e.doneCh") wl) (in_arms (Arm Recv "e.writeCh") wl)
    (in_arms (Arm Recv "errCh") w1) (in_arms (Arm Recv "c.ctx.Done()") w1) (in_arms (Arm Recv "d.stopCh") w1)
    (in_arms (Arm Recv "c.resultCh") w2) (in_arms (Arm Recv "c.ctx.Done()") w2) (in_arms (Arm Recv "d.stopCh") w2)
    (in_arms (Arm Recv "errCh") nw) (in_arms (Arm Recv "ctx.Done()") nw) (in_arms (Arm Recv "d.stopCh") nw)
    (in_arms ArmDefault hc)
    (before "dispatch.Call" "d.calls.AddCall" "d.writer.EncodeAndWrite")
    (existsb (is_defer "d.calls.RemoveCall") (calls_of "dispatch.Call"))
    (match result_chan_capacity with Some 1%Z => true | _ => false end)
    (in_arms (Arm Recv "errCh") rw && in_arms (Arm Recv "errCh") rwc)
    (in_arms (Arm Recv "r.ctx.Done()") rw && in_arms (Arm Recv "r.ctx.Done()") rwc)
    (in_arms (Arm Recv "r.stopCh") tl) (in_arms (Arm Recv "r.taskBeginCh") tl)
    (in_arms (Arm Recv "r.taskCancelCh") tl) (in_arms (Arm Recv "r.taskEndCh") tl)
    (let a := nth_select "receiveHandler.handleReceiveDispatch" 0 in
     in_arms (Arm Send "r.taskBeginCh") a && in_arms (Arm Recv "r.stopCh") a
     && negb (has_bare_send "receiveHandler.handleReceiveDispatch" "r.taskBeginCh"))
    (let a := nth_select "receiveHandler.handleReceiveDispatch$1" 0 in
     in_arms (Arm Send "r.taskEndCh") a && in_arms (Arm Recv "r.stopCh") a
     && negb (has_bare_send "receiveHandler.handleReceiveDispatch$1" "r.taskEndCh"))
    (let a := nth_select "receiveHandler.receiveCancel" 0 in
     in_arms (Arm Send "r.taskCancelCh") a && in_arms (Arm Recv "r.stopCh") a
     && negb (has_bare_send "receiveHandler.receiveCancel" "r.taskCancelCh"))
    (let a := nth_select "receiveHandler.receiveResponse" 0 in
     in_arms (Arm Send "callResponseCh") a && in_arms ArmDefault a
     && negb (has_bare_send "receiveHandler.receiveResponse" "callResponseCh"))
    (String.eqb task_key_expr "taskKey" && notify_key_counter)
    (match close_once_sequence with
     | s1 :: s2 :: _ => String.eqb s1 "stopErr=err" && String.eqb s2 "close:t.stopCh"
     | _ => false
     end && negb loop_assigns_stop_err)
    (existsb (String.eqb "rpc.SeqNo() < 0")
       (match lookup "receiveHandler.receiveCancel" cond_census with Some l => l | None => [] end)).

(* the mechanism the theorems were proved for (the unchanged tree, with the repairs recorded in known_findings.json) *)
Definition expected_skeleton : skeleton :=
  mkSk true true true  true true true  true true
       true true true  true true true  true true true
       true true true true
       true true
       true true true true
       true true true true
       true true
       true.
