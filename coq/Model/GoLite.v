(* GoLite: executable semantics of the statement-level translation that go/gen emits as
   [Generated.golite_funcs] (syntax: Model/GenTypes.v).  Definitions only. *)
From FMP Require Import Model.GenTypes.
From FMP Require Model.Remote.
From Coq Require Import Bool Ascii.
Open Scope string_scope.

Inductive val := VInt (z : Z) | VBool (b : bool) | VStr (s : list N) | VList (l : list val) | VUnit
| VNil                              (* nil pointer / nil interface / nil error *)
| VPtr                              (* some non-nil pointer (its target's fields are heap entries) *)
| VErr (s : string)                 (* errors.New(s) *)
| VOpaque (s : string)              (* result of the opaque pure call with source text s *)
| VExt (k : nat)                    (* oracle: whatever the k-th recorded external call returned *)
| VRec (l : list (string * val))    (* a struct value / a fresh object: field name, value *)
| VTuple (l : list val).            (* the values of a multi-value return *)

(* an external call that was made: callee text, evaluated arguments *)
Definition event := (string * list val)%type.

(* why a run panicked *)
Inductive why := PIndex | PType | PUnknownVar | PNegative | PMutex | PNoFunc | PUnsupported | PNil | PArity.

Definition store := list (string * val).

Fixpoint upd (x : string) (v : val) (l : store) : store :=
  match l with
  | [] => [(x, v)]
  | (y, w) :: r => if String.eqb x y then (x, v) :: r else (y, w) :: upd x v r
  end.

(* heap: the receiver's fields ("r.toIterate"); locals: the current frame; drawn: rand.Perm calls so far;
   acq/rel: Lock/Unlock executed so far; held: mutexes now held; defers: pending deferred unlocks of the frame;
   effects: the external calls made so far, oldest first *)
Record state := mkState { heap : store; locals : store; drawn : nat; acq : nat; rel : nat;
                          held : list string; defers : list string; effects : list event }.

Fixpoint is_field (s : string) : bool :=
  match s with
  | EmptyString => false
  | String c r => Ascii.eqb c "." || is_field r
  end.

Definition get_var (x : string) (st : state) : option val :=
  if is_field x then lookup x (heap st) else lookup x (locals st).

Definition set_var (x : string) (v : val) (st : state) : state :=
  if is_field x
  then mkState (upd x v (heap st)) (locals st) (drawn st) (acq st) (rel st) (held st) (defers st) (effects st)
  else mkState (heap st) (upd x v (locals st)) (drawn st) (acq st) (rel st) (held st) (defers st) (effects st).

(* two's complement wrap-around at w bits *)
Definition wrap (w z : Z) : Z := ((z + 2 ^ (w - 1)) mod 2 ^ w - 2 ^ (w - 1))%Z.

Fixpoint nlist_eqb (a b : list N) : bool :=
  match a, b with
  | [], [] => true
  | x :: a', y :: b' => N.eqb x y && nlist_eqb a' b'
  | _, _ => false
  end.

Definition val_eq (a b : val) : option bool :=
  match a, b with
  | VInt x, VInt y => Some (Z.eqb x y)
  | VBool x, VBool y => Some (Bool.eqb x y)
  | VStr x, VStr y => Some (nlist_eqb x y)
  | _, _ => None
  end.

Definition int_op (f : Z -> Z -> val) (a b : val) : option val :=
  match a, b with VInt x, VInt y => Some (f x y) | _, _ => None end.

Definition binop_eval (o : binop) (a b : val) : option val :=
  match o with
  | OEq => option_map VBool (val_eq a b)
  | ONe => option_map (fun x => VBool (negb x)) (val_eq a b)
  | OLt => int_op (fun x y => VBool (x <? y)%Z) a b
  | OLe => int_op (fun x y => VBool (x <=? y)%Z) a b
  | OGt => int_op (fun x y => VBool (y <? x)%Z) a b
  | OGe => int_op (fun x y => VBool (y <=? x)%Z) a b
  | OAdd => int_op (fun x y => VInt (wrap 64 (x + y))) a b
  | OSub => int_op (fun x y => VInt (wrap 64 (x - y))) a b
  end.

(* ---- interpreted primitives: package strings on the ASCII zone, one-byte separators (Model/Remote.v) ---- *)
Fixpoint strs (l : list val) : option (list (list N)) :=
  match l with
  | [] => Some []
  | VStr s :: r => match strs r with Some ss => Some (s :: ss) | None => None end
  | _ => None
  end.

Definition prim_eval (p : string) (args : list val) : option val :=
  if String.eqb p "strings.ToLower" then
    match args with [VStr s] => Some (VStr (map Remote.lower_b s)) | _ => None end
  else if String.eqb p "strings.TrimSpace" then
    match args with [VStr s] => Some (VStr (Remote.trim s)) | _ => None end
  else if String.eqb p "strings.Split" then
    match args with [VStr s; VStr [sep]] => Some (VList (map VStr (Remote.split sep s))) | _ => None end
  else if String.eqb p "strings.Join" then
    match args with
    | [VList l; VStr [sep]] => match strs l with Some ss => Some (VStr (Remote.join sep ss)) | None => None end
    | _ => None
    end
  else None.

(* the fields of a fresh object written under the callee's receiver name *)
Fixpoint install (recv : string) (fs : list (string * val)) (h : store) : store :=
  match fs with
  | [] => h
  | (f, v) :: r => install recv r (upd (recv ++ "." ++ f) v h)
  end.

Inductive eres := EV (v : val) (st : state) | EP (w : why).

Inductive result :=
| RNormal (st : state)
| RReturn (v : val) (st : state)
| RPanic (w : why)
| ROutOfFuel.

Definition funtable := list (string * gfun).

Fixpoint mem_s (x : string) (l : list string) : bool :=
  match l with [] => false | y :: r => String.eqb x y || mem_s x r end.
Fixpoint remove_s (x : string) (l : list string) : list string :=
  match l with [] => [] | y :: r => if String.eqb x y then r else y :: remove_s x r end.

(* Lock on a held mutex never returns (sync.Mutex is not reentrant); Unlock of a free one is a fatal error.
   Both are reported as PMutex. *)
Definition do_lock (m : string) (st : state) : option state :=
  if mem_s m (held st) then None
  else Some (mkState (heap st) (locals st) (drawn st) (S (acq st)) (rel st) (m :: held st) (defers st) (effects st)).
Definition do_unlock (m : string) (st : state) : option state :=
  if mem_s m (held st)
  then Some (mkState (heap st) (locals st) (drawn st) (acq st) (S (rel st)) (remove_s m (held st)) (defers st) (effects st))
  else None.
Definition push_defer (m : string) (st : state) : state :=
  mkState (heap st) (locals st) (drawn st) (acq st) (rel st) (held st) (m :: defers st) (effects st).

Fixpoint run_defers (ds : list string) (st : state) : option state :=
  match ds with
  | [] => Some st
  | m :: r => match do_unlock m st with Some st' => run_defers r st' | None => None end
  end.

(* a call gets a fresh frame; on exit its deferred unlocks run (last in, first out) and the caller's frame is back *)
Definition enter (L : store) (st : state) : state :=
  mkState (heap st) L (drawn st) (acq st) (rel st) (held st) [] (effects st).
Definition with_heap (h : store) (st : state) : state :=
  mkState h (locals st) (drawn st) (acq st) (rel st) (held st) (defers st) (effects st).
Definition add_effect (e : event) (st : state) : state :=
  mkState (heap st) (locals st) (drawn st) (acq st) (rel st) (held st) (defers st) (effects st ++ [e]).
(* parameters bound to argument values, in order *)
Fixpoint bind (ps : list string) (vs : list val) : option store :=
  match ps, vs with
  | [], [] => Some []
  | p :: ps', v :: vs' => match bind ps' vs' with Some L => Some ((p, v) :: L) | None => None end
  | _, _ => None
  end.
(* the fields fs of the struct at heap place x *)
Fixpoint read_fields (x : string) (fs : list string) (h : store) : option (list (string * val)) :=
  match fs with
  | [] => Some []
  | f :: r =>
      match lookup (x ++ "." ++ f) h, read_fields x r h with
      | Some v, Some l => Some ((f, v) :: l)
      | _, _ => None
      end
  end.
Definition leave (caller st : state) : option state :=
  match run_defers (defers st) st with
  | Some s => Some (mkState (heap s) (locals caller) (drawn s) (acq s) (rel s) (held s) (defers caller) (effects s))
  | None => None
  end.

Section Sem.
  (* math/rand.Perm: permI d n is the result of the d-th call, with argument n *)
  Variable permI : nat -> nat -> list nat.

  Definition bump (st : state) : state :=
    mkState (heap st) (locals st) (S (drawn st)) (acq st) (rel st) (held st) (defers st) (effects st).

  Fixpoint eval (e : expr) (st : state) : eres :=
    match e with
    | EVar x => match get_var x st with Some v => EV v st | None => EP PUnknownVar end
    | EInt z => EV (VInt z) st
    | ELen a =>
        match eval a st with
        | EV (VList l) s1 => EV (VInt (Z.of_nat (length l))) s1
        | EV (VStr l) s1 => EV (VInt (Z.of_nat (length l))) s1
        | EV _ _ => EP PType
        | EP w => EP w
        end
    | EIndex a i =>
        match eval a st with
        | EV (VList l) s1 =>
            match eval i s1 with
            | EV (VInt z) s2 =>
                if (z <? 0)%Z then EP PIndex
                else match nth_error l (Z.to_nat z) with Some v => EV v s2 | None => EP PIndex end
            | EV _ _ => EP PType
            | EP w => EP w
            end
        | EV _ _ => EP PType
        | EP w => EP w
        end
    | ESliceFrom a i =>
        match eval a st with
        | EV (VList l) s1 =>
            match eval i s1 with
            | EV (VInt z) s2 =>
                if ((z <? 0) || (Z.of_nat (length l) <? z))%Z then EP PIndex
                else EV (VList (skipn (Z.to_nat z) l)) s2
            | EV _ _ => EP PType
            | EP w => EP w
            end
        | EV _ _ => EP PType
        | EP w => EP w
        end
    | EBin o a b =>
        match eval a st with
        | EV x s1 =>
            match eval b s1 with
            | EV y s2 => match binop_eval o x y with Some v => EV v s2 | None => EP PType end
            | EP w => EP w
            end
        | EP w => EP w
        end
    | EAnd a b =>
        match eval a st with
        | EV (VBool false) s1 => EV (VBool false) s1
        | EV (VBool true) s1 =>
            match eval b s1 with
            | EV (VBool x) s2 => EV (VBool x) s2
            | EV _ _ => EP PType
            | EP w => EP w
            end
        | EV _ _ => EP PType
        | EP w => EP w
        end
    | EOr a b =>
        match eval a st with
        | EV (VBool true) s1 => EV (VBool true) s1
        | EV (VBool false) s1 =>
            match eval b s1 with
            | EV (VBool x) s2 => EV (VBool x) s2
            | EV _ _ => EP PType
            | EP w => EP w
            end
        | EV _ _ => EP PType
        | EP w => EP w
        end
    | EAppend a x =>
        match eval a st with
        | EV (VList l) s1 =>
            match eval x s1 with
            | EV v s2 => EV (VList (l ++ [v])) s2
            | EP w => EP w
            end
        | EV _ _ => EP PType
        | EP w => EP w
        end
    | EMake _ n =>
        match eval n st with
        | EV (VInt z) s1 => if (z <? 0)%Z then EP PNegative else EV (VList []) s1
        | EV _ _ => EP PType
        | EP w => EP w
        end
    | EPerm n =>
        match eval n st with
        | EV (VInt z) s1 =>
            if (z <? 0)%Z then EP PNegative
            else EV (VList (map (fun i => VInt (Z.of_nat i)) (permI (drawn s1) (Z.to_nat z)))) (bump s1)
        | EV _ _ => EP PType
        | EP w => EP w
        end
    | EBool b => EV (VBool b) st
    | ENil => EV VNil st
    | ENot a =>
        match eval a st with
        | EV (VBool b) s1 => EV (VBool (negb b)) s1
        | EV _ _ => EP PType
        | EP w => EP w
        end
    | EIsNil x =>
        match lookup x (heap st) with
        | Some VNil => EV (VBool true) st
        | Some _ => EV (VBool false) st
        | None => EP PUnknownVar
        end
    | EDeref x fs =>
        match lookup x (heap st) with
        | Some VNil => EP PNil
        | Some _ => match read_fields x fs (heap st) with Some l => EV (VRec l) st | None => EP PUnknownVar end
        | None => EP PUnknownVar
        end
    | EErr s => EV (VErr s) st
    | EOpaque s => EV (VOpaque s) st
    | EExtern f args =>
        (fix go (l : list expr) (acc : list val) (st : state) {struct l} : eres :=
           match l with
           | [] => EV (VExt (length (effects st))) (add_effect (f, rev acc) st)
           | a :: r => match eval a st with EV v s1 => go r (v :: acc) s1 | EP w => EP w end
           end) args [] st
    | EStr s => EV (VStr s) st
    | EPrim p args =>
        (fix go (l : list expr) (acc : list val) (st : state) {struct l} : eres :=
           match l with
           | [] => match prim_eval p (rev acc) with Some v => EV v st | None => EP PType end
           | a :: r => match eval a st with EV v s1 => go r (v :: acc) s1 | EP w => EP w end
           end) args [] st
    | ETuple l0 =>
        (fix go (l : list expr) (acc : list val) (st : state) {struct l} : eres :=
           match l with
           | [] => EV (VTuple (rev acc)) st
           | a :: r => match eval a st with EV v s1 => go r (v :: acc) s1 | EP w => EP w end
           end) l0 [] st
    | ENew fs =>
        (fix go (l : list (string * expr)) (acc : list (string * val)) (st : state) {struct l} : eres :=
           match l with
           | [] => EV (VRec (rev acc)) st
           | p :: r =>
               match p with
               | (f, a) => match eval a st with EV v s1 => go r ((f, v) :: acc) s1 | EP w => EP w end
               end
           end) fs [] st
    | EUnsupported _ => EP PUnsupported
    end.

  (* arguments of a call, left to right *)
  Fixpoint eval_list (l : list expr) (st : state) : (list val * state) + why :=
    match l with
    | [] => inl ([], st)
    | a :: r =>
        match eval a st with
        | EV v s1 => match eval_list r s1 with inl (vs, s2) => inl (v :: vs, s2) | inr w => inr w end
        | EP w => inr w
        end
    end.

  Definition opt_result (o : option state) : result :=
    match o with Some s => RNormal s | None => RPanic PMutex end.

  Section Stmt.
    (* [rec] runs a statement list with less fuel: used by for-cond loops and calls only *)
    Variable rec : list stmt -> state -> result.
    Variable ft : funtable.

    Definition do_call (f : string) (args : list val) (st : state) : result :=
      match lookup f ft with
      | None => RPanic PNoFunc
      | Some g =>
          match bind (gf_params g) args with
          | None => RPanic PArity
          | Some L =>
              match rec (gf_body g) (enter L st) with
              | RNormal s => opt_result (leave st s)
              | RReturn v s => match leave st s with Some s' => RReturn v s' | None => RPanic PMutex end
              | r => r
              end
          end
      end.

    Definition set_idx (x : string) (z : Z) (v : val) (st : state) : result :=
      match get_var x st with
      | Some (VList l) =>
          if ((z <? 0) || (Z.of_nat (length l) <=? z))%Z then RPanic PIndex
          else RNormal (set_var x (VList (firstn (Z.to_nat z) l ++ v :: skipn (S (Z.to_nat z)) l)) st)
      | Some _ => RPanic PType
      | None => RPanic PUnknownVar
      end.

    Fixpoint exec_stmt (s : stmt) (st : state) {struct s} : result :=
      let blk := fix blk (l : list stmt) (st : state) {struct l} : result :=
        match l with
        | [] => RNormal st
        | s' :: r => match exec_stmt s' st with RNormal st' => blk r st' | x => x end
        end in
      match s with
      | SSet x e =>
          match eval e st with EV v s1 => RNormal (set_var x v s1) | EP w => RPanic w end
      | SSetIdx x i e =>
          match eval i st with
          | EV (VInt z) s1 =>
              match eval e s1 with EV v s2 => set_idx x z v s2 | EP w => RPanic w end
          | EV _ _ => RPanic PType
          | EP w => RPanic w
          end
      | SInc x w =>
          match get_var x st with
          | Some (VInt z) => RNormal (set_var x (VInt (wrap w (z + 1))) st)
          | Some _ => RPanic PType
          | None => RPanic PUnknownVar
          end
      | SCond c t e =>
          match eval c st with
          | EV (VBool true) s1 => blk t s1
          | EV (VBool false) s1 => blk e s1
          | EV _ _ => RPanic PType
          | EP w => RPanic w
          end
      | SWhile c b =>
          match eval c st with
          | EV (VBool true) s1 => rec (b ++ [SWhile c b]) s1
          | EV (VBool false) s1 => RNormal s1
          | EV _ _ => RPanic PType
          | EP w => RPanic w
          end
      | SRange x e b =>
          match eval e st with
          | EV (VList vs) s1 =>
              (fix loop (vs : list val) (st : state) {struct vs} : result :=
                 match vs with
                 | [] => RNormal st
                 | v :: vs' => match blk b (set_var x v st) with RNormal st' => loop vs' st' | r => r end
                 end) vs s1
          | EV _ _ => RPanic PType
          | EP w => RPanic w
          end
      | SRet None => RReturn VUnit st
      | SRet (Some e) => match eval e st with EV v s1 => RReturn v s1 | EP w => RPanic w end
      | SAddTo x w e =>
          match eval e st with
          | EV (VInt y) s1 =>
              match get_var x s1 with
              | Some (VInt z) => RNormal (set_var x (VInt (wrap w (z + y))) s1)
              | Some _ => RPanic PType
              | None => RPanic PUnknownVar
              end
          | EV _ _ => RPanic PType
          | EP w' => RPanic w'
          end
      | SCallM f args =>
          match eval_list args st with
          | inl (vs, s1) => match do_call f vs s1 with RReturn _ s => RNormal s | r => r end
          | inr w => RPanic w
          end
      | SRetCallM f args =>
          match eval_list args st with
          | inl (vs, s1) => match do_call f vs s1 with RNormal s => RReturn VUnit s | r => r end
          | inr w => RPanic w
          end
      | SCallOn x f args =>
          match eval_list args st with
          | inl (vs, s1) =>
              match get_var x s1, lookup f ft with
              | Some (VRec fs), Some g =>
                  (* a fresh object is not aliased: its fields are copied in under the callee's receiver name and
                     copied back out when the call is over *)
                  match do_call f vs (with_heap (install (gf_recv g) fs (heap s1)) s1) with
                  | RNormal s | RReturn _ s =>
                      match read_fields (gf_recv g) (map fst fs) (heap s) with
                      | Some fs' => RNormal (set_var x (VRec fs') s)
                      | None => RPanic PUnknownVar
                      end
                  | r => r
                  end
              | Some _, Some _ => RPanic PType
              | None, _ => RPanic PUnknownVar
              | _, None => RPanic PNoFunc
              end
          | inr w => RPanic w
          end
      | SLock m => opt_result (do_lock m st)
      | SUnlock m => opt_result (do_unlock m st)
      | SDeferUnlock m => RNormal (push_defer m st)
      | SUnsupported _ => RPanic PUnsupported
      end.

    Fixpoint exec_block (l : list stmt) (st : state) {struct l} : result :=
      match l with
      | [] => RNormal st
      | s' :: r => match exec_stmt s' st with RNormal st' => exec_block r st' | x => x end
      end.

    Definition exec_range (x : string) (b : list stmt) : list val -> state -> result :=
      fix loop (vs : list val) (st : state) {struct vs} : result :=
        match vs with
        | [] => RNormal st
        | v :: vs' => match exec_block b (set_var x v st) with RNormal st' => loop vs' st' | r => r end
        end.
  End Stmt.

  Fixpoint exec (fuel : nat) (ft : funtable) (l : list stmt) (st : state) : result :=
    match fuel with
    | O => ROutOfFuel
    | S f => exec_block (exec f ft) ft l st
    end.

  (* run one translated function as a call from [st], with argument values *)
  Definition run_fun_args (fuel : nat) (ft : funtable) (f : string) (args : list val) (st : state) : result :=
    do_call (exec fuel ft) ft f args st.
  Definition run_fun (fuel : nat) (ft : funtable) (f : string) (st : state) : result :=
    run_fun_args fuel ft f [] st.
End Sem.

(* ---- completeness of a translation: no EUnsupported / SUnsupported node anywhere ---- *)
Fixpoint expr_ok (e : expr) : bool :=
  match e with
  | EVar _ | EInt _ | EBool _ | ENil | EIsNil _ | EDeref _ _ | EErr _ | EOpaque _ | EStr _ => true
  | EPrim _ args | ETuple args =>
      (fix all (l : list expr) : bool := match l with [] => true | a :: r => expr_ok a && all r end) args
  | ENew fs =>
      (fix all (l : list (string * expr)) : bool :=
         match l with [] => true | p :: r => match p with (_, a) => expr_ok a end && all r end) fs
  | ELen a | EMake _ a | EPerm a | ENot a => expr_ok a
  | EExtern _ args => (fix all (l : list expr) : bool := match l with [] => true | a :: r => expr_ok a && all r end) args
  | EIndex a b | ESliceFrom a b | EBin _ a b | EAnd a b | EOr a b | EAppend a b => expr_ok a && expr_ok b
  | EUnsupported _ => false
  end.

Fixpoint stmt_ok (s : stmt) : bool :=
  let blk := fix blk (l : list stmt) : bool :=
    match l with [] => true | s' :: r => stmt_ok s' && blk r end in
  match s with
  | SSet _ e => expr_ok e
  | SSetIdx _ i e => expr_ok i && expr_ok e
  | SInc _ _ => true
  | SCond c t e => expr_ok c && blk t && blk e
  | SWhile c b => expr_ok c && blk b
  | SRange _ e b => expr_ok e && blk b
  | SRet None => true
  | SRet (Some e) => expr_ok e
  | SAddTo _ _ e => expr_ok e
  | SCallM _ args | SRetCallM _ args | SCallOn _ _ args => forallb expr_ok args
  | SLock _ | SUnlock _ | SDeferUnlock _ => true
  | SUnsupported _ => false
  end.

Definition no_unsupported (ft : funtable) : bool :=
  forallb (fun p => forallb stmt_ok (gf_body (snd p))) ft.
