(* GoLite: executable semantics of the statement-level translation that go/gen emits as
   [Generated.golite_funcs] (syntax: Model/GenTypes.v).  Definitions only. *)
From FMP Require Import Model.GenTypes.
From Coq Require Import Bool Ascii.
Open Scope string_scope.

Inductive val := VInt (z : Z) | VBool (b : bool) | VStr (s : list N) | VList (l : list val) | VUnit.

(* why a run panicked *)
Inductive why := PIndex | PType | PUnknownVar | PNegative | PMutex | PNoFunc | PUnsupported.

Definition store := list (string * val).

Fixpoint upd (x : string) (v : val) (l : store) : store :=
  match l with
  | [] => [(x, v)]
  | (y, w) :: r => if String.eqb x y then (x, v) :: r else (y, w) :: upd x v r
  end.

(* heap: the receiver's fields ("r.toIterate"); locals: the current frame; drawn: rand.Perm calls so far;
   acq/rel: Lock/Unlock executed so far; held: mutexes now held; defers: pending deferred unlocks of the frame *)
Record state := mkState { heap : store; locals : store; drawn : nat; acq : nat; rel : nat;
                          held : list string; defers : list string }.

Fixpoint is_field (s : string) : bool :=
  match s with
  | EmptyString => false
  | String c r => Ascii.eqb c "." || is_field r
  end.

Definition get_var (x : string) (st : state) : option val :=
  if is_field x then lookup x (heap st) else lookup x (locals st).

Definition set_var (x : string) (v : val) (st : state) : state :=
  if is_field x
  then mkState (upd x v (heap st)) (locals st) (drawn st) (acq st) (rel st) (held st) (defers st)
  else mkState (heap st) (upd x v (locals st)) (drawn st) (acq st) (rel st) (held st) (defers st).

(* two's complement wrap-around at w bits *)
Definition wrap (w z : Z) : Z := ((z + 2 ^ (w - 1)) mod 2 ^ w - 2 ^ (w - 1))%Z.

Fixpoint nlist_eqb (a b : list N) : bool :=
  match a, b with
  | [], [] => true
  | x :: a', y :: b' => N.eqb x y && nlist_eqb a' b'
  | _, _ => false
  end.

Definition val_eq (a b : val) : option bool :=
  match a, b with
  | VInt x, VInt y => Some (Z.eqb x y)
  | VBool x, VBool y => Some (Bool.eqb x y)
  | VStr x, VStr y => Some (nlist_eqb x y)
  | _, _ => None
  end.

Definition int_op (f : Z -> Z -> val) (a b : val) : option val :=
  match a, b with VInt x, VInt y => Some (f x y) | _, _ => None end.

Definition binop_eval (o : binop) (a b : val) : option val :=
  match o with
  | OEq => option_map VBool (val_eq a b)
  | ONe => option_map (fun x => VBool (negb x)) (val_eq a b)
  | OLt => int_op (fun x y => VBool (x <? y)%Z) a b
  | OLe => int_op (fun x y => VBool (x <=? y)%Z) a b
  | OGt => int_op (fun x y => VBool (y <? x)%Z) a b
  | OGe => int_op (fun x y => VBool (y <=? x)%Z) a b
  | OAdd => int_op (fun x y => VInt (wrap 64 (x + y))) a b
  | OSub => int_op (fun x y => VInt (wrap 64 (x - y))) a b
  end.

Inductive eres := EV (v : val) (st : state) | EP (w : why).

Inductive result :=
| RNormal (st : state)
| RReturn (v : val) (st : state)
| RPanic (w : why)
| ROutOfFuel.

Definition funtable := list (string * gfun).

Fixpoint mem_s (x : string) (l : list string) : bool :=
  match l with [] => false | y :: r => String.eqb x y || mem_s x r end.
Fixpoint remove_s (x : string) (l : list string) : list string :=
  match l with [] => [] | y :: r => if String.eqb x y then r else y :: remove_s x r end.

(* Lock on a held mutex never returns (sync.Mutex is not reentrant); Unlock of a free one is a fatal error.
   Both are reported as PMutex. *)
Definition do_lock (m : string) (st : state) : option state :=
  if mem_s m (held st) then None
  else Some (mkState (heap st) (locals st) (drawn st) (S (acq st)) (rel st) (m :: held st) (defers st)).
Definition do_unlock (m : string) (st : state) : option state :=
  if mem_s m (held st)
  then Some (mkState (heap st) (locals st) (drawn st) (acq st) (S (rel st)) (remove_s m (held st)) (defers st))
  else None.
Definition push_defer (m : string) (st : state) : state :=
  mkState (heap st) (locals st) (drawn st) (acq st) (rel st) (held st) (m :: defers st).

Fixpoint run_defers (ds : list string) (st : state) : option state :=
  match ds with
  | [] => Some st
  | m :: r => match do_unlock m st with Some st' => run_defers r st' | None => None end
  end.

(* a call gets a fresh frame; on exit its deferred unlocks run (last in, first out) and the caller's frame is back *)
Definition enter (st : state) : state :=
  mkState (heap st) [] (drawn st) (acq st) (rel st) (held st) [].
Definition leave (caller st : state) : option state :=
  match run_defers (defers st) st with
  | Some s => Some (mkState (heap s) (locals caller) (drawn s) (acq s) (rel s) (held s) (defers caller))
  | None => None
  end.

Section Sem.
  (* math/rand.Perm: permI d n is the result of the d-th call, with argument n *)
  Variable permI : nat -> nat -> list nat.

  Definition bump (st : state) : state :=
    mkState (heap st) (locals st) (S (drawn st)) (acq st) (rel st) (held st) (defers st).

  Fixpoint eval (e : expr) (st : state) : eres :=
    match e with
    | EVar x => match get_var x st with Some v => EV v st | None => EP PUnknownVar end
    | EInt z => EV (VInt z) st
    | ELen a =>
        match eval a st with
        | EV (VList l) s1 => EV (VInt (Z.of_nat (length l))) s1
        | EV (VStr l) s1 => EV (VInt (Z.of_nat (length l))) s1
        | EV _ _ => EP PType
        | EP w => EP w
        end
    | EIndex a i =>
        match eval a st with
        | EV (VList l) s1 =>
            match eval i s1 with
            | EV (VInt z) s2 =>
                if (z <? 0)%Z then EP PIndex
                else match nth_error l (Z.to_nat z) with Some v => EV v s2 | None => EP PIndex end
            | EV _ _ => EP PType
            | EP w => EP w
            end
        | EV _ _ => EP PType
        | EP w => EP w
        end
    | ESliceFrom a i =>
        match eval a st with
        | EV (VList l) s1 =>
            match eval i s1 with
            | EV (VInt z) s2 =>
                if ((z <? 0) || (Z.of_nat (length l) <? z))%Z then EP PIndex
                else EV (VList (skipn (Z.to_nat z) l)) s2
            | EV _ _ => EP PType
            | EP w => EP w
            end
        | EV _ _ => EP PType
        | EP w => EP w
        end
    | EBin o a b =>
        match eval a st with
        | EV x s1 =>
            match eval b s1 with
            | EV y s2 => match binop_eval o x y with Some v => EV v s2 | None => EP PType end
            | EP w => EP w
            end
        | EP w => EP w
        end
    | EAnd a b =>
        match eval a st with
        | EV (VBool false) s1 => EV (VBool false) s1
        | EV (VBool true) s1 =>
            match eval b s1 with
            | EV (VBool x) s2 => EV (VBool x) s2
            | EV _ _ => EP PType
            | EP w => EP w
            end
        | EV _ _ => EP PType
        | EP w => EP w
        end
    | EOr a b =>
        match eval a st with
        | EV (VBool true) s1 => EV (VBool true) s1
        | EV (VBool false) s1 =>
            match eval b s1 with
            | EV (VBool x) s2 => EV (VBool x) s2
            | EV _ _ => EP PType
            | EP w => EP w
            end
        | EV _ _ => EP PType
        | EP w => EP w
        end
    | EAppend a x =>
        match eval a st with
        | EV (VList l) s1 =>
            match eval x s1 with
            | EV v s2 => EV (VList (l ++ [v])) s2
            | EP w => EP w
            end
        | EV _ _ => EP PType
        | EP w => EP w
        end
    | EMake _ n =>
        match eval n st with
        | EV (VInt z) s1 => if (z <? 0)%Z then EP PNegative else EV (VList []) s1
        | EV _ _ => EP PType
        | EP w => EP w
        end
    | EPerm n =>
        match eval n st with
        | EV (VInt z) s1 =>
            if (z <? 0)%Z then EP PNegative
            else EV (VList (map (fun i => VInt (Z.of_nat i)) (permI (drawn s1) (Z.to_nat z)))) (bump s1)
        | EV _ _ => EP PType
        | EP w => EP w
        end
    | EUnsupported _ => EP PUnsupported
    end.

  Definition opt_result (o : option state) : result :=
    match o with Some s => RNormal s | None => RPanic PMutex end.

  Section Stmt.
    (* [rec] runs a statement list with less fuel: used by for-cond loops and calls only *)
    Variable rec : list stmt -> state -> result.
    Variable ft : funtable.

    Definition do_call (f : string) (st : state) : result :=
      match lookup f ft with
      | None => RPanic PNoFunc
      | Some g =>
          match rec (gf_body g) (enter st) with
          | RNormal s => opt_result (leave st s)
          | RReturn v s => match leave st s with Some s' => RReturn v s' | None => RPanic PMutex end
          | r => r
          end
      end.

    Definition set_idx (x : string) (z : Z) (v : val) (st : state) : result :=
      match get_var x st with
      | Some (VList l) =>
          if ((z <? 0) || (Z.of_nat (length l) <=? z))%Z then RPanic PIndex
          else RNormal (set_var x (VList (firstn (Z.to_nat z) l ++ v :: skipn (S (Z.to_nat z)) l)) st)
      | Some _ => RPanic PType
      | None => RPanic PUnknownVar
      end.

    Fixpoint exec_stmt (s : stmt) (st : state) {struct s} : result :=
      let blk := fix blk (l : list stmt) (st : state) {struct l} : result :=
        match l with
        | [] => RNormal st
        | s' :: r => match exec_stmt s' st with RNormal st' => blk r st' | x => x end
        end in
      match s with
      | SSet x e =>
          match eval e st with EV v s1 => RNormal (set_var x v s1) | EP w => RPanic w end
      | SSetIdx x i e =>
          match eval i st with
          | EV (VInt z) s1 =>
              match eval e s1 with EV v s2 => set_idx x z v s2 | EP w => RPanic w end
          | EV _ _ => RPanic PType
          | EP w => RPanic w
          end
      | SInc x w =>
          match get_var x st with
          | Some (VInt z) => RNormal (set_var x (VInt (wrap w (z + 1))) st)
          | Some _ => RPanic PType
          | None => RPanic PUnknownVar
          end
      | SCond c t e =>
          match eval c st with
          | EV (VBool true) s1 => blk t s1
          | EV (VBool false) s1 => blk e s1
          | EV _ _ => RPanic PType
          | EP w => RPanic w
          end
      | SWhile c b =>
          match eval c st with
          | EV (VBool true) s1 => rec (b ++ [SWhile c b]) s1
          | EV (VBool false) s1 => RNormal s1
          | EV _ _ => RPanic PType
          | EP w => RPanic w
          end
      | SRange x e b =>
          match eval e st with
          | EV (VList vs) s1 =>
              (fix loop (vs : list val) (st : state) {struct vs} : result :=
                 match vs with
                 | [] => RNormal st
                 | v :: vs' => match blk b (set_var x v st) with RNormal st' => loop vs' st' | r => r end
                 end) vs s1
          | EV _ _ => RPanic PType
          | EP w => RPanic w
          end
      | SRet None => RReturn VUnit st
      | SRet (Some e) => match eval e st with EV v s1 => RReturn v s1 | EP w => RPanic w end
      | SCallM f => match do_call f st with RReturn _ s => RNormal s | r => r end
      | SLock m => opt_result (do_lock m st)
      | SUnlock m => opt_result (do_unlock m st)
      | SDeferUnlock m => RNormal (push_defer m st)
      | SUnsupported _ => RPanic PUnsupported
      end.

    Fixpoint exec_block (l : list stmt) (st : state) {struct l} : result :=
      match l with
      | [] => RNormal st
      | s' :: r => match exec_stmt s' st with RNormal st' => exec_block r st' | x => x end
      end.

    Definition exec_range (x : string) (b : list stmt) : list val -> state -> result :=
      fix loop (vs : list val) (st : state) {struct vs} : result :=
        match vs with
        | [] => RNormal st
        | v :: vs' => match exec_block b (set_var x v st) with RNormal st' => loop vs' st' | r => r end
        end.
  End Stmt.

  Fixpoint exec (fuel : nat) (ft : funtable) (l : list stmt) (st : state) : result :=
    match fuel with
    | O => ROutOfFuel
    | S f => exec_block (exec f ft) ft l st
    end.

  (* run one translated function as a call from [st] *)
  Definition run_fun (fuel : nat) (ft : funtable) (f : string) (st : state) : result :=
    do_call (exec fuel ft) ft f st.
End Sem.

(* ---- completeness of a translation: no EUnsupported / SUnsupported node anywhere ---- *)
Fixpoint expr_ok (e : expr) : bool :=
  match e with
  | EVar _ | EInt _ => true
  | ELen a | EMake _ a | EPerm a => expr_ok a
  | EIndex a b | ESliceFrom a b | EBin _ a b | EAnd a b | EOr a b | EAppend a b => expr_ok a && expr_ok b
  | EUnsupported _ => false
  end.

Fixpoint stmt_ok (s : stmt) : bool :=
  let blk := fix blk (l : list stmt) : bool :=
    match l with [] => true | s' :: r => stmt_ok s' && blk r end in
  match s with
  | SSet _ e => expr_ok e
  | SSetIdx _ i e => expr_ok i && expr_ok e
  | SInc _ _ => true
  | SCond c t e => expr_ok c && blk t && blk e
  | SWhile c b => expr_ok c && blk b
  | SRange _ e b => expr_ok e && blk b
  | SRet None => true
  | SRet (Some e) => expr_ok e
  | SCallM _ | SLock _ | SUnlock _ | SDeferUnlock _ => true
  | SUnsupported _ => false
  end.

Definition no_unsupported (ft : funtable) : bool :=
  forallb (fun p => forallb stmt_ok (gf_body (snd p))) ft.
