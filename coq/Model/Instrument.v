(* instrument.go: one NetworkInstrumenter as a state machine; the storage as the list of records put into it.
   Definitions and (short) proofs. *)
From FMP Require Import Base.Bytes.
Open Scope Z_scope.

Record inst := mkInst { i_size : Z; i_finished : bool }.
Definition inst0 : inst := mkInst 0 false.

Inductive iop := IIncrement (n : Z) | IFinish | IRecordAndFinish (n : Z).

(* result: new state, records put by this operation, did it report "record already finished"? *)
Definition istep (s : inst) (o : iop) : inst * list Z * bool :=
  match o with
  | IIncrement n => (mkInst (i_size s + n) (i_finished s), [], false)
  | IFinish => if i_finished s then (s, [], true) else (mkInst (i_size s) true, [i_size s], false)
  | IRecordAndFinish n =>
      let sz := i_size s + n in
      if i_finished s then (mkInst sz true, [], true) else (mkInst sz true, [sz], false)
  end.

Fixpoint irun (s : inst) (ops : list iop) : inst * list Z :=
  match ops with
  | [] => (s, [])
  | o :: r => let t := istep s o in
              let u := irun (fst (fst t)) r in (fst u, snd (fst t) ++ snd u)
  end.

Definition finishes (o : iop) : bool := match o with IIncrement _ => false | _ => true end.

Lemma irun_finished_no_put : forall ops s, i_finished s = true -> snd (irun s ops) = [].
Proof.
  induction ops as [|o r IH]; intros s Hf; [reflexivity|].
  cbn [irun]. destruct o; cbn [istep]; rewrite ?Hf; cbn [fst snd app]; apply IH; cbn; auto.
Qed.

(* however often a record is finished, exactly one Put happens iff it is finished at least once *)
Theorem one_record_per_instrumenter : forall ops,
    length (snd (irun inst0 ops)) = if existsb finishes ops then 1%nat else 0%nat.
Proof.
  assert (G : forall ops s, i_finished s = false ->
               length (snd (irun s ops)) = if existsb finishes ops then 1%nat else 0%nat).
  { induction ops as [|o r IH]; intros s Hf; [reflexivity|].
    cbn [irun existsb]. destruct o; cbn [istep finishes orb]; rewrite ?Hf; cbn [fst snd app].
    - apply IH. reflexivity.
    - rewrite irun_finished_no_put by reflexivity. reflexivity.
    - rewrite irun_finished_no_put by reflexivity. reflexivity. }
  intros ops. apply G. reflexivity.
Qed.

Theorem second_finish_refused : forall s, i_finished s = true ->
    (forall n, snd (fst (istep s (IRecordAndFinish n))) = [] /\ snd (istep s (IRecordAndFinish n)) = true) /\
    snd (fst (istep s IFinish)) = [] /\ snd (istep s IFinish) = true.
Proof. intros s Hf. cbn. rewrite Hf. cbn. auto. Qed.

(* the size stored is the sum of what was added before the first finish *)
Fixpoint sum_before_finish (ops : list iop) : Z :=
  match ops with
  | [] => 0
  | IIncrement n :: r => n + sum_before_finish r
  | IFinish :: _ => 0
  | IRecordAndFinish n :: _ => n
  end.

Theorem recorded_size_is_sum : forall ops sz,
    snd (irun inst0 ops) = [sz] -> sz = sum_before_finish ops.
Proof.
  assert (G : forall ops s sz, i_finished s = false -> snd (irun s ops) = [sz] -> sz = i_size s + sum_before_finish ops).
  { induction ops as [|o r IH]; intros s sz Hf H; [discriminate H|].
    cbn [irun] in H. destruct o; cbn [istep] in H; rewrite ?Hf in H; cbn [fst snd app] in H; cbn [sum_before_finish].
    - rewrite (IH (mkInst (i_size s + n) false) sz eq_refl H). cbn. lia.
    - rewrite irun_finished_no_put in H by reflexivity. inversion H. lia.
    - rewrite irun_finished_no_put in H by reflexivity. inversion H. lia. }
  intros ops sz H. rewrite (G ops inst0 sz eq_refl H). cbn. lia.
Qed.
