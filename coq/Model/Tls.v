(* connection.go (ConnectionTransportTLS.Dial and the TLS constructors): which configuration a dial uses, when the dial
   succeeds, and what a change to the caller's configuration can do afterwards.  crypto/tls and crypto/x509 themselves
   are abstracted to the three checks they perform (chain to a root, validity period, host name); the correspondence
   check runs real handshakes against certificates minted for the purpose.  Definitions only. *)
From FMP Require Import Base.Bytes.
Open Scope Z_scope.

Inductive issuer := CA1 | CA2 | SelfSigned.
Definition issuer_eqb (a b : issuer) : bool :=
  match a, b with CA1, CA1 | CA2, CA2 | SelfSigned, SelfSigned => true | _, _ => false end.

Record cert := mkCert { c_issuer : issuer; c_name : Z; c_expired : bool }.

(* a tls.Config as far as verification goes; roots = None: the system roots, which contain none of the issuers *)
Record tconf := mkTC { t_roots : option (list issuer); t_name : option Z; t_skip : bool }.

Inductive ctor :=
| CtorPEM (parses : bool) (roots : list issuer)   (* NewTLSConnection / WithDialable / WithConnectionLogFactory: root PEM *)
| CtorConfig (c : tconf)                         (* NewTLSConnectionWithTLSConfig *)
| CtorDefault.                                   (* neither *)

Inductive behaviour := Handshakes | Stalls | ClosesMid | Garbage.

Inductive dres := DROk | DRBadRoots | DRNoServerName | DRUnknownAuthority | DRExpired | DRWrongName | DRTimeout | DRBroken.

(* the configuration Dial ends up with, for the host part of the remote's address *)
Definition effective (k : ctor) (host : Z) : option tconf :=
  match k with
  | CtorPEM false _ => None
  | CtorPEM true r => Some (mkTC (Some r) (Some host) false)
  | CtorConfig c => Some c
  | CtorDefault => Some (mkTC None (Some host) false)
  end.

Definition chains (c : tconf) (s : cert) : bool :=
  match t_roots c with Some r => existsb (issuer_eqb (c_issuer s)) r | None => false end.
Definition name_ok (c : tconf) (s : cert) : bool := match t_name c with Some n => n =? c_name s | None => false end.

(* crypto/x509's order (calibrated on the real handshakes): validity period of the leaf, host name, then the chain *)
Definition verify (c : tconf) (s : cert) : dres :=
  if t_skip c then DROk
  else match t_name c with
       | None => DRNoServerName
       | Some _ =>
           if c_expired s then DRExpired
           else if negb (name_ok c s) then DRWrongName
           else if negb (chains c s) then DRUnknownAuthority
           else DROk
       end.

Definition dial (k : ctor) (host : Z) (s : cert) (b : behaviour) : dres :=
  match effective k host with
  | None => DRBadRoots
  | Some c =>
      match t_skip c, t_name c with
      | false, None => DRNoServerName          (* refused by tls.Client before any byte is exchanged *)
      | _, _ =>
          match b with
          | Stalls => DRTimeout
          | ClosesMid | Garbage => DRBroken
          | Handshakes => verify c s
          end
      end
  end.

Definition transport_created (r : dres) : bool := match r with DROk => true | _ => false end.

(* the constructor keeps a copy (copies = true) or the caller's own object; the caller may change its object later *)
Definition stored_after_mutation (copies : bool) (given mutated : tconf) : tconf := if copies then given else mutated.
