(* connection.go: the Connection as a labelled transition system.  Goroutines: one per reconnect sequence
   (doReconnect), one per command (DoCommand / ForceReconnect), and the environment (the transport dying, Shutdown,
   contexts ending, FastForwardConnectDelayTimer, the timer elapsing).  One label = one atomic step; everything the
   source does under c.mutex in one critical section is one step.  The dial / OnConnect / command outcomes are scripts
   consumed in order, exactly as the harness' scripted ConnectionTransport and ConnectionHandler do.
   Which structural facts of the source the steps rely on comes from ConnCfg.v ([ccfg], regenerated).
   Definitions only. *)
From FMP Require Import Base.Bytes Base.Lts.
Open Scope Z_scope.

Inductive cerr := ENone | EEof | ERetriable | EOther | EConnFatal | ECtx | ECanceled | EDialFail | EConnFail.

Definition cerr_eqb (a b : cerr) : bool :=
  match a, b with
  | ENone, ENone | EEof, EEof | ERetriable, ERetriable | EOther, EOther | EConnFatal, EConnFatal | ECtx, ECtx
  | ECanceled, ECanceled | EDialFail, EDialFail | EConnFail, EConnFail => true
  | _, _ => false
  end.

Inductive dial_out := DOk | DFail | DFatal.
Inductive conn_out := OOk | OFail | OFatal.
Inductive cmd_out := XOk | XEof | XEofDisc | XRetriable | XOther.   (* XEofDisc: the transport dies under the command *)

(* ---------- observable events (the harness logs exactly these) ---------- *)
Inductive cev :=
| EvDisc (status : Z)                 (* OnDisconnected(status): 2 = first connection, 3 = non-first *)
| EvTimerStart                        (* the connect-delay timer was started by the sequence *)
| EvTimerElapsed                      (* the timer's own delay ran out (inferred from the clock on the implementation side) *)
| EvDelayDone                         (* the sequence's Wait returned *)
| EvDialBegin
| EvDialEnd (o : dial_out) (x : Z)    (* x = id of the new transport when o = DOk *)
| EvRegister (x : Z)                  (* the configured protocols were registered on transport x *)
| EvOnConnect (o : conn_out)
| EvConnErr                           (* OnConnectError *)
| EvFinalize (x : Z)                  (* ConnectionTransport.Finalize, x = the transport that becomes current *)
| EvCmdStart (c : Z) (force : bool) (firenow : bool)
| EvFireNow (c : Z)                   (* DoCommand found the fire-now marker (a delay being configured) and calls FireNow *)
| EvWaiting (c : Z) (firenow spawned : bool)
                                      (* command c left waitForConnection's critical section and waits for a sequence;
                                         firenow = a DoCommand whose context carries the marker (a delay being configured);
                                         spawned = it started that sequence itself *)
| EvExec (c : Z) (k : Z) (o : cmd_out)   (* k-th execution of command c's function *)
| EvCmdErr (c : Z)                    (* OnDoCommandError *)
| EvCmdRet (c : Z) (e : cerr)
| EvCancel (c : Z)                    (* the caller's context ends *)
| EvDisconnect                        (* the current transport dies *)
| EvFastForward
| EvShutdown.

(* ---------- configuration: options and the structural facts of the source ---------- *)
Record ccfg := mkCcfg {
  cc_spawn_guarded : bool;       (* getReconnectChanLocked starts a sequence only when none is registered *)
  cc_announce_first : bool;      (* doReconnect calls OnDisconnected before anything else *)
  cc_register_before_onconnect : bool;
  cc_publish_with_finalize : bool;   (* client published and Finalize called in one critical section, after OnConnect *)
  cc_release_under_mutex : bool;     (* the channel is closed and unregistered in one critical section *)
  cc_retry_only_eof : bool;          (* checkForRetry = (err == io.EOF) *)
  cc_connected_needs_client : bool;  (* isConnectedLocked = transport connected && client != nil *)
  cc_firenow_sticky : bool           (* a fire-now request made before the timer is started is remembered *)
}.

Record copts := mkCopts {
  co_force_initial_backoff : bool;
  co_first_delay : bool;          (* FirstConnectDelayDuration != 0 *)
  co_window : bool                (* InitialReconnectBackoffWindow != nil *)
}.

(* ---------- state ---------- *)
Inductive spc :=
| SAnnounce                 (* spawned *)
| SDelayStart               (* about to start the connect-delay timer *)
| SDelayWait                (* in connectDelayTimer.Wait() *)
| SRetryStart               (* RetryNotifyWithContext's first context check *)
| SAttempt                  (* about to call connect() *)
| SDialing
| SDialed (x : Z)
| SRegistered (x : Z)
| SConnected (x : Z)        (* OnConnect returned nil *)
| SCheck (e : cerr)         (* connect() returned e (ENone = success) *)
| SNotify (e : cerr)
| SBackoff
| SFinishing.

Record seqg := mkSeq {
  sq_gen : Z;
  sq_status : Z;
  sq_pc : spc;
  sq_err : cerr;              (* *reconnectErrPtr *)
  sq_cancelled : bool         (* its context was cancelled by Shutdown *)
}.

Inductive cpc :=
| CNew                      (* top of DoCommand's loop: the fire-now marker is looked at *)
| CLock                     (* about to enter waitForConnection's critical section *)
| CWait (g : Z)             (* in waitForConnection's select, on sequence g's channel *)
| CReady                    (* waitForConnection returned nil *)
| CNotifying                (* retriable error: about to call OnDoCommandError and sleep *)
| CRet (e : cerr).

Record cmd := mkCmd {
  cm_id : Z;
  cm_force : bool;
  cm_firenow : bool;
  cm_outs : list cmd_out;     (* remaining scripted outcomes (empty = XOk) *)
  cm_k : Z;                   (* executions so far *)
  cm_ctx : bool;              (* its context has ended *)
  cm_started : bool;
  cm_pc : cpc
}.

Record cstate := mkCn {
  seqs : list seqg;                 (* running reconnect goroutines *)
  registered : option Z;            (* c.reconnectChan != nil: the generation it belongs to *)
  finished : list (Z * cerr);       (* closed channels: generation -> *reconnectErrPtr at close *)
  next_gen : Z;
  reconnected_before : bool;
  client : option Z;                (* c.client: the transport it talks to *)
  cur : option Z;                   (* the scripted ConnectionTransport's current / staged transports *)
  staged : option Z;
  live : list Z;                    (* transports that are connected *)
  next_xp : Z;
  dials : list dial_out;
  conns : list conn_out;
  cmds : list cmd;
  timer_running : bool;             (* the connect-delay timer holds an unfired signal *)
  firenow_pending : bool;           (* a fire-now request remembered for the sequence (cc_firenow_sticky only) *)
  chist : list cev
}.

Definition cinit (o : copts) (ds : list dial_out) (cs : list conn_out) (cm : list cmd) : cstate :=
  mkCn [] None [] 0 (co_force_initial_backoff o) None None None [] 1 ds cs cm false false [].

Fixpoint zmemb (x : Z) (l : list Z) : bool := match l with [] => false | y :: r => (x =? y) || zmemb x r end.
Definition zrem (x : Z) (l : list Z) : list Z := filter (fun y => negb (y =? x)) l.
Definition orem (o : option Z) (l : list Z) : list Z := match o with Some x => zrem x l | None => l end.

Fixpoint sfind (g : Z) (l : list seqg) : option seqg :=
  match l with [] => None | s :: r => if sq_gen s =? g then Some s else sfind g r end.
Fixpoint supdate (g : Z) (f : seqg -> seqg) (l : list seqg) : list seqg :=
  match l with [] => [] | s :: r => if sq_gen s =? g then f s :: r else s :: supdate g f r end.
Definition sremove (g : Z) (l : list seqg) : list seqg := filter (fun s => negb (sq_gen s =? g)) l.
Definition sq_set_pc (p : spc) (s : seqg) := mkSeq (sq_gen s) (sq_status s) p (sq_err s) (sq_cancelled s).
Definition sq_set_err (e : cerr) (s : seqg) := mkSeq (sq_gen s) (sq_status s) (sq_pc s) e (sq_cancelled s).
Definition sq_cancel (s : seqg) := mkSeq (sq_gen s) (sq_status s) (sq_pc s) (sq_err s) true.

Fixpoint cfindc (c : Z) (l : list cmd) : option cmd :=
  match l with [] => None | x :: r => if cm_id x =? c then Some x else cfindc c r end.
Fixpoint cupdate (c : Z) (f : cmd -> cmd) (l : list cmd) : list cmd :=
  match l with [] => [] | x :: r => if cm_id x =? c then f x :: r else x :: cupdate c f r end.
Definition cm_set_pc (p : cpc) (x : cmd) := mkCmd (cm_id x) (cm_force x) (cm_firenow x) (cm_outs x) (cm_k x) (cm_ctx x) true p.
Definition cm_set_ctx (x : cmd) := mkCmd (cm_id x) (cm_force x) (cm_firenow x) (cm_outs x) (cm_k x) true (cm_started x) (cm_pc x).
Definition cm_exec (p : cpc) (x : cmd) := mkCmd (cm_id x) (cm_force x) (cm_firenow x) (tl (cm_outs x)) (cm_k x + 1) (cm_ctx x) true p.

Fixpoint ffind (g : Z) (l : list (Z * cerr)) : option cerr :=
  match l with [] => None | (k, e) :: r => if k =? g then Some e else ffind g r end.

Definition transport_connected (st : cstate) : bool :=
  match cur st with Some x => zmemb x (live st) | None => false end.
Definition is_connected (cfg : ccfg) (st : cstate) : bool :=
  transport_connected st && (if cc_connected_needs_client cfg then match client st with Some _ => true | None => false end else true).

Definition upd (st : cstate) (ss : list seqg) (cm : list cmd) (evs : list cev) : cstate :=
  mkCn ss (registered st) (finished st) (next_gen st) (reconnected_before st) (client st) (cur st) (staged st) (live st)
       (next_xp st) (dials st) (conns st) cm (timer_running st) (firenow_pending st) (evs ++ chist st).

Definition set_timer (st : cstate) (running pending : bool) : cstate :=
  mkCn (seqs st) (registered st) (finished st) (next_gen st) (reconnected_before st) (client st) (cur st) (staged st) (live st)
       (next_xp st) (dials st) (conns st) (cmds st) running pending (chist st).

(* FireNow on the connect-delay timer *)
Definition fire_timer (st : cstate) : cstate := set_timer st false (firenow_pending st).

Inductive clabel :=
(* command goroutines *)
| LFire (c : Z)           (* top of DoCommand's loop: FireNow if the context carries the marker and a delay is configured *)
| LBegin (c : Z)          (* waitForConnection's critical section (may start a sequence) *)
| LWake (c : Z)           (* the sequence's channel is closed: read its error *)
| LCtxRet (c : Z)         (* the caller's context is done: return its error *)
| LExec (c : Z)           (* fetch the published client, run the command function *)
| LCmdNotify (c : Z)      (* OnDoCommandError + command backoff *)
(* reconnect goroutine of generation g *)
| LAnnounce (g : Z)
| LTimerStart (g : Z)
| LDelayDone (g : Z)
| LRetryStart (g : Z)
| LDialBegin (g : Z)
| LDialEnd (g : Z)
| LRegister (g : Z)
| LOnConnect (g : Z)
| LPublish (g : Z)
| LCheck (g : Z)
| LNotify (g : Z)
| LBackoffEnd (g : Z)
| LFinish (g : Z)
(* environment *)
| LCtxEnd (c : Z)
| LDisconnect
| LTimerElapse
| LFastForward
| LShutdown.

Definition wants_delay (o : copts) (status : Z) : bool :=
  (co_first_delay o && (status =? 2)) || (negb (co_first_delay o && (status =? 2)) && co_window o && (status =? 3)).

Definition seq_step (st : cstate) (g : Z) (need : spc -> bool) (k : seqg -> option cstate) : option cstate :=
  match sfind g (seqs st) with
  | Some s => if need (sq_pc s) then k s else None
  | None => None
  end.

Definition goto (st : cstate) (g : Z) (p : spc) (evs : list cev) : option cstate :=
  Some (upd st (supdate g (sq_set_pc p) (seqs st)) (cmds st) evs).

Definition cstep (cfg : ccfg) (o : copts) (st : cstate) (l : clabel) : option cstate :=
  match l with
  | LFire c =>
      match cfindc c (cmds st) with
      | Some x =>
          match cm_pc x with
          | CNew =>
              let start_ev := if cm_started x then [] else [EvCmdStart c (cm_force x) (cm_firenow x)] in
              let marker := cm_firenow x && negb (cm_force x) && (co_first_delay o || co_window o) in
              let st1 := if marker then fire_timer st else st in
              Some (upd st1 (seqs st1) (cupdate c (cm_set_pc CLock) (cmds st1)) ((if marker then [EvFireNow c] else []) ++ start_ev))
          | _ => None
          end
      | None => None
      end
  | LBegin c =>
      match cfindc c (cmds st) with
      | Some x =>
          match cm_pc x with
          | CLock =>
              if negb (cm_force x) && is_connected cfg st then
                Some (upd st (seqs st) (cupdate c (cm_set_pc CReady) (cmds st)) [])
              else
                (* with the sticky fire-now: the request is recorded in the same critical section, and the timer fired *)
                let marker := cm_firenow x && negb (cm_force x) && (co_first_delay o || co_window o) in
                let sticky := cc_firenow_sticky cfg && marker in
                let tr := if sticky then false else timer_running st in
                let pend := if sticky then true else firenow_pending st in
                match registered st, cc_spawn_guarded cfg with
                | Some g, true =>
                    Some (mkCn (seqs st) (registered st) (finished st) (next_gen st) (reconnected_before st) (client st) (cur st)
                               (staged st) (live st) (next_xp st) (dials st) (conns st) (cupdate c (cm_set_pc (CWait g)) (cmds st))
                               tr pend (EvWaiting c marker false :: chist st))
                | _, _ =>
                    let g := next_gen st in
                    let status := if reconnected_before st then 3 else 2 in
                    let s := mkSeq g status SAnnounce ENone false in
                    Some (mkCn (seqs st ++ [s]) (Some g) (finished st) (g + 1) true (client st) (cur st) (staged st) (live st)
                               (next_xp st) (dials st) (conns st) (cupdate c (cm_set_pc (CWait g)) (cmds st))
                               tr pend (EvWaiting c marker true :: chist st))
                end
          | _ => None
          end
      | None => None
      end
  | LWake c =>
      match cfindc c (cmds st) with
      | Some x =>
          match cm_pc x with
          | CWait g =>
              match ffind g (finished st) with
              | Some ENone =>
                  if cm_force x then Some (upd st (seqs st) (cupdate c (cm_set_pc (CRet ENone)) (cmds st)) [EvCmdRet c ENone])
                  else Some (upd st (seqs st) (cupdate c (cm_set_pc CReady) (cmds st)) [])
              | Some e => Some (upd st (seqs st) (cupdate c (cm_set_pc (CRet e)) (cmds st)) [EvCmdRet c e])
              | None => None
              end
          | _ => None
          end
      | None => None
      end
  | LCtxRet c =>
      match cfindc c (cmds st) with
      | Some x =>
          match cm_pc x with
          | CWait _ => if cm_ctx x then Some (upd st (seqs st) (cupdate c (cm_set_pc (CRet ECtx)) (cmds st)) [EvCmdRet c ECtx]) else None
          | _ => None
          end
      | None => None
      end
  | LExec c =>
      match cfindc c (cmds st), client st with
      | Some x, Some _ =>
          match cm_pc x with
          | CReady =>
              let out := match cm_outs x with [] => XOk | a :: _ => a end in
              let ev := EvExec c (cm_k x) out in
              match out with
              | XOk => Some (upd st (seqs st) (cupdate c (cm_exec (CRet ENone)) (cmds st)) [EvCmdRet c ENone; ev])
              | XOther => Some (upd st (seqs st) (cupdate c (cm_exec (CRet EOther)) (cmds st)) [EvCmdRet c EOther; ev])
              | XRetriable => Some (upd st (seqs st) (cupdate c (cm_exec CNotifying) (cmds st)) [ev])
              | XEof =>
                  if cc_retry_only_eof cfg then Some (upd st (seqs st) (cupdate c (cm_exec CNew) (cmds st)) [ev])
                  else Some (upd st (seqs st) (cupdate c (cm_exec (CRet EEof)) (cmds st)) [EvCmdRet c EEof; ev])
              | XEofDisc =>
                  let st1 := mkCn (seqs st) (registered st) (finished st) (next_gen st) (reconnected_before st) (client st) (cur st)
                                  (staged st) (orem (cur st) (live st)) (next_xp st) (dials st) (conns st) (cmds st)
                                  (timer_running st) (firenow_pending st) (chist st) in
                  if cc_retry_only_eof cfg then Some (upd st1 (seqs st1) (cupdate c (cm_exec CNew) (cmds st1)) [ev])
                  else Some (upd st1 (seqs st1) (cupdate c (cm_exec (CRet EEof)) (cmds st1)) [EvCmdRet c EEof; ev])
              end
          | _ => None
          end
      | _, _ => None
      end
  | LCmdNotify c =>
      match cfindc c (cmds st) with
      | Some x => match cm_pc x with
                  | CNotifying => Some (upd st (seqs st) (cupdate c (cm_set_pc CReady) (cmds st)) [EvCmdErr c])
                  | _ => None
                  end
      | None => None
      end
  | LAnnounce g =>
      seq_step st g (fun p => match p with SAnnounce => true | _ => false end)
        (fun s => goto st g (if wants_delay o (sq_status s) then SDelayStart else SRetryStart) [EvDisc (sq_status s)])
  | LTimerStart g =>
      seq_step st g (fun p => match p with SDelayStart => true | _ => false end)
        (fun s =>
           (* StartConstant / StartRandom: a fresh signal; a remembered fire-now request fires it at once *)
           let st1 := if firenow_pending st then set_timer st false false else set_timer st true false in
           goto st1 g SDelayWait [EvTimerStart])
  | LDelayDone g =>
      seq_step st g (fun p => match p with SDelayWait => true | _ => false end)
        (fun s => if timer_running st then None else goto st g SRetryStart [EvDelayDone])
  | LRetryStart g =>
      seq_step st g (fun p => match p with SRetryStart => true | _ => false end)
        (fun s => if sq_cancelled s
                  then Some (upd st (supdate g (fun s => sq_set_pc SFinishing (sq_set_err ECanceled s)) (seqs st)) (cmds st) [])
                  else goto st g SAttempt [])
  | LDialBegin g =>
      seq_step st g (fun p => match p with SAttempt => true | _ => false end) (fun s => goto st g SDialing [EvDialBegin])
  | LDialEnd g =>
      seq_step st g (fun p => match p with SDialing => true | _ => false end)
        (fun s =>
           let out := match dials st with [] => DOk | a :: _ => a end in
           let ds := tl (dials st) in
           match out with
           | DOk =>
               let x := next_xp st in
               (* a transport staged by an earlier attempt is closed; the new one is staged *)
               Some (mkCn (supdate g (sq_set_pc (SDialed x)) (seqs st)) (registered st) (finished st) (next_gen st) (reconnected_before st)
                          (client st) (cur st) (Some x) (x :: orem (staged st) (live st)) (x + 1) ds (conns st) (cmds st)
                          (timer_running st) (firenow_pending st) (EvDialEnd DOk x :: chist st))
           | DFail =>
               Some (mkCn (supdate g (sq_set_pc (SCheck EDialFail)) (seqs st)) (registered st) (finished st) (next_gen st) (reconnected_before st)
                          (client st) (cur st) (staged st) (live st) (next_xp st) ds (conns st) (cmds st)
                          (timer_running st) (firenow_pending st) (EvDialEnd DFail 0 :: chist st))
           | DFatal =>
               Some (mkCn (supdate g (sq_set_pc (SCheck EConnFatal)) (seqs st)) (registered st) (finished st) (next_gen st) (reconnected_before st)
                          (client st) (cur st) (staged st) (live st) (next_xp st) ds (conns st) (cmds st)
                          (timer_running st) (firenow_pending st) (EvDialEnd DFatal 0 :: chist st))
           end)
  | LRegister g =>
      seq_step st g (fun p => match p with SDialed _ => true | _ => false end)
        (fun s => match sq_pc s with
                  | SDialed x => if cc_register_before_onconnect cfg then goto st g (SRegistered x) [EvRegister x] else goto st g (SRegistered x) []
                  | _ => None
                  end)
  | LOnConnect g =>
      seq_step st g (fun p => match p with SRegistered _ => true | _ => false end)
        (fun s => match sq_pc s with
                  | SRegistered x =>
                      let out := match conns st with [] => OOk | a :: _ => a end in
                      let p := match out with OOk => SConnected x | OFail => SCheck EConnFail | OFatal => SCheck EConnFatal end in
                      Some (mkCn (supdate g (sq_set_pc p) (seqs st)) (registered st) (finished st) (next_gen st) (reconnected_before st)
                                 (client st) (cur st) (staged st) (live st) (next_xp st) (dials st) (tl (conns st)) (cmds st)
                                 (timer_running st) (firenow_pending st) (EvOnConnect out :: chist st))
                  | _ => None
                  end)
  | LPublish g =>
      seq_step st g (fun p => match p with SConnected _ => true | _ => false end)
        (fun s => match sq_pc s with
                  | SConnected x =>
                      (* c.client = client; c.transport.Finalize(): the old current transport is closed, the staged one becomes current *)
                      Some (mkCn (supdate g (sq_set_pc (SCheck ENone)) (seqs st)) (registered st) (finished st) (next_gen st)
                                 (reconnected_before st) (Some x) (staged st) None (orem (cur st) (live st)) (next_xp st)
                                 (dials st) (conns st) (cmds st) (timer_running st) (firenow_pending st)
                                 (EvFinalize (match staged st with Some y => y | None => 0 end) :: chist st))
                  | _ => None
                  end)
  | LCheck g =>
      seq_step st g (fun p => match p with SCheck _ => true | _ => false end)
        (fun s => match sq_pc s with
                  | SCheck e =>
                      if sq_cancelled s then
                        Some (upd st (supdate g (fun s => sq_set_pc SFinishing (sq_set_err ECanceled s)) (seqs st)) (cmds st) [])
                      else match e with
                           | EConnFatal => Some (upd st (supdate g (fun s => sq_set_pc SFinishing (sq_set_err EConnFatal s)) (seqs st)) (cmds st) [])
                           | ENone => goto st g SFinishing []
                           | _ => goto st g (SNotify e) []
                           end
                  | _ => None
                  end)
  | LNotify g =>
      seq_step st g (fun p => match p with SNotify _ => true | _ => false end) (fun s => goto st g SBackoff [EvConnErr])
  | LBackoffEnd g =>
      seq_step st g (fun p => match p with SBackoff => true | _ => false end)
        (fun s => if sq_cancelled s
                  then Some (upd st (supdate g (fun s => sq_set_pc SFinishing (sq_set_err ECanceled s)) (seqs st)) (cmds st) [])
                  else goto st g SAttempt [])
  | LFinish g =>
      seq_step st g (fun p => match p with SFinishing => true | _ => false end)
        (fun s =>
           Some (mkCn (sremove g (seqs st)) None ((g, sq_err s) :: finished st) (next_gen st) (reconnected_before st) (client st)
                      (cur st) (staged st) (live st) (next_xp st) (dials st) (conns st) (cmds st)
                      (timer_running st) false (chist st)))
  | LCtxEnd c =>
      match cfindc c (cmds st) with
      | Some x => if cm_ctx x then None else Some (upd st (seqs st) (cupdate c cm_set_ctx (cmds st)) [EvCancel c])
      | None => None
      end
  | LDisconnect =>
      if transport_connected st then
        Some (mkCn (seqs st) (registered st) (finished st) (next_gen st) (reconnected_before st) (client st) (cur st) (staged st)
                   (orem (cur st) (live st)) (next_xp st) (dials st) (conns st) (cmds st)
                   (timer_running st) (firenow_pending st) (EvDisconnect :: chist st))
      else None
  | LTimerElapse =>
      if timer_running st then let st1 := set_timer st false (firenow_pending st) in Some (upd st1 (seqs st1) (cmds st1) [EvTimerElapsed]) else None
  | LFastForward =>
      let st1 := fire_timer st in
      Some (upd st1 (seqs st1) (cmds st1) [EvFastForward])
  | LShutdown =>
      let ss := match registered st with Some g => supdate g sq_cancel (seqs st) | None => seqs st end in
      let lv := if transport_connected st then orem (staged st) (orem (cur st) (live st)) else live st in
      Some (mkCn ss (registered st) (finished st) (next_gen st) (reconnected_before st) (client st) (cur st) (staged st) lv
                 (next_xp st) (dials st) (conns st) (cmds st) (timer_running st) (firenow_pending st)
                 (EvShutdown :: chist st))
  end.

Definition ctrace (st : cstate) : list cev := rev (chist st).

Definition new_cmd (c : Z) (force firenow : bool) (outs : list cmd_out) : cmd := mkCmd c force firenow outs 0 false false CNew.

(* a Connection constructed with DontConnectNow = false starts its first sequence at once *)
Definition cinit_eager (o : copts) (ds : list dial_out) (cs : list conn_out) (cm : list cmd) : cstate :=
  let st := cinit o ds cs cm in
  let status := if reconnected_before st then 3 else 2 in
  mkCn [mkSeq 0 status SAnnounce ENone false] (Some 0) [] 1 true None None None [] 1 ds cs cm false false [].

Fixpoint cmd_ids_ok (l : list cmd) : bool :=
  match l with
  | [] => true
  | x :: r => negb (existsb (fun y => cm_id y =? cm_id x) r) && cmd_ids_ok r
  end.
Definition cmds_fresh (l : list cmd) : bool :=
  cmd_ids_ok l && forallb (fun x => match cm_pc x with CNew => negb (cm_started x) && negb (cm_ctx x) && (cm_k x =? 0) | _ => false end) l.
