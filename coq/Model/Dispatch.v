(* The reply path of one transport as a labelled transition system: dispatch.go (Call: seqno, AddCall, the deferred
   RemoveCall, the two waits), call.go (the pending-call table, the one-slot result channel), message.go
   (rpcResponseMessage.DecodeMessage: look the call up by the seqno in the frame, decode the error, decode the result
   into the caller's buffer) and receiver.go (receiveResponse).  Callers and the receive goroutine are separate
   goroutines; one label = one atomic step.  Definitions only. *)
From FMP Require Import Base.Bytes Base.Lts Model.Events Model.Skeleton.
Open Scope Z_scope.

Inductive dpc :=
| DNew                      (* not started *)
| DAdded                    (* seqno taken, call registered in the table, frame not yet on the wire *)
| DSent                     (* frame written; waiting for the reply / context / stop *)
| DGot (r : Z)              (* took the reply from its channel; between ClientReply and the deferred RemoveCall *)
| DRet (cls : rclass).      (* returned; the call is no longer in the table *)

Record dcall := mkDC {
  dc_nonce : Z;
  dc_seq : Z;
  dc_pc : dpc;
  dc_ctx : bool;
  dc_chan : option Z;        (* the capacity-1 result channel: the nonce carried by the reply in it *)
  dc_buf : Z;                (* nonce of the value currently in the caller's result buffer (-1 = untouched) *)
  dc_buf_at_ret : Z          (* ... at the moment the call returned *)
}.

(* where the receive goroutine is inside a response frame: target call, result nonce carried by the frame *)
Inductive qpc :=
| QIdle
| QLooked (c r : Z)         (* RetrieveCall found call c *)
| QErrDone (c r : Z)        (* error field decoded (MakeArg / UnwrapError ran) *)
| QResDone (c r : Z).       (* result decoded into the buffer; about to send on the call's channel *)

Record dstate := mkD {
  dcalls : list dcall;
  d_table : list Z;           (* the pending-call table: nonces of the registered calls *)
  dq : qpc;
  d_next_seq : Z;
  d_stop : bool;
  dhist : list aev
}.

Definition dinit (cs : list dcall) : dstate := mkD cs [] QIdle 0 false [].

Fixpoint dfind (c : Z) (l : list dcall) : option dcall :=
  match l with [] => None | x :: r => if dc_nonce x =? c then Some x else dfind c r end.
Fixpoint dupdate (c : Z) (f : dcall -> dcall) (l : list dcall) : list dcall :=
  match l with [] => [] | x :: r => if dc_nonce x =? c then f x :: r else x :: dupdate c f r end.

Fixpoint zmem (x : Z) (l : list Z) : bool := match l with [] => false | y :: r => (x =? y) || zmem x r end.
Definition zremove (x : Z) (l : list Z) : list Z := filter (fun y => negb (y =? x)) l.

(* RetrieveCall: the registered call with this seqno *)
Fixpoint lookup_seq (tbl : list Z) (q : Z) (l : list dcall) : option dcall :=
  match l with
  | [] => None
  | x :: r => if zmem (dc_nonce x) tbl && (dc_seq x =? q) then Some x else lookup_seq tbl q r
  end.

(* a call that has started and not returned *)
Definition is_outstanding (x : dcall) : bool :=
  match dc_pc x with DAdded | DSent | DGot _ => true | _ => false end.

Definition dc_set_pc (p : dpc) (x : dcall) := mkDC (dc_nonce x) (dc_seq x) p (dc_ctx x) (dc_chan x) (dc_buf x) (dc_buf_at_ret x).
Definition dc_set_seq (q : Z) (x : dcall) := mkDC (dc_nonce x) q (dc_pc x) (dc_ctx x) (dc_chan x) (dc_buf x) (dc_buf_at_ret x).
Definition dc_set_ctx (x : dcall) := mkDC (dc_nonce x) (dc_seq x) (dc_pc x) true (dc_chan x) (dc_buf x) (dc_buf_at_ret x).
Definition dc_set_chan (v : option Z) (x : dcall) := mkDC (dc_nonce x) (dc_seq x) (dc_pc x) (dc_ctx x) v (dc_buf x) (dc_buf_at_ret x).
Definition dc_set_buf (r : Z) (x : dcall) := mkDC (dc_nonce x) (dc_seq x) (dc_pc x) (dc_ctx x) (dc_chan x) r (dc_buf_at_ret x).
Definition dc_return (cls : rclass) (x : dcall) := mkDC (dc_nonce x) (dc_seq x) (DRet cls) (dc_ctx x) (dc_chan x) (dc_buf x) (dc_buf x).

Definition call_info (x : dcall) : frame_info := mkFI KCall (dc_seq x) (dc_nonce x) true.

Inductive dlabel :=
| DStart (c : Z)            (* NewCall (seqno under the seqno mutex) + AddCall *)
| DWrite (c : Z)            (* the call frame reaches the wire *)
| DInResp (q r : Z)         (* a response frame with seqno q and result nonce r arrives: decode seqno, RetrieveCall *)
| DDecodeErr                (* decode the error field (ErrorUnwrapper hooks run here) *)
| DDecodeRes                (* decode the result into the looked-up call's buffer *)
| DDeliver                  (* receiveResponse: send on the call's channel *)
| DTakeReply (c : Z)        (* wait 2: resultCh arm *)
| DFinish (c : Z)           (* ClientReply logged; return; deferred RemoveCall *)
| DCtxEnd (c : Z)           (* environment: the call's context ends *)
| DCancelRet (c : Z)        (* wait arm ctx: handleCancel, return ctx error, deferred RemoveCall *)
| DStopRet (c : Z)          (* wait arm stop: return io.EOF *)
| DStopAll.                 (* Close: dispatch stop channel closed *)

Definition dset (st : dstate) (cs : list dcall) (q : qpc) (evs : list aev) : dstate :=
  mkD cs (d_table st) q (d_next_seq st) (d_stop st) (evs ++ dhist st).

(* return: the deferred RemoveCall *)
Definition dret (sk : skeleton) (st : dstate) (c : Z) (cs : list dcall) (evs : list aev) : dstate :=
  mkD cs (if sk_removecall_deferred sk then zremove c (d_table st) else d_table st) (dq st)
      (d_next_seq st) (d_stop st) (evs ++ dhist st).

Definition dstep (sk : skeleton) (st : dstate) (l : dlabel) : option dstate :=
  match l with
  | DStart c =>
      match dfind c (dcalls st) with
      | Some x => match dc_pc x with
                  | DNew => Some (mkD (dupdate c (fun x => dc_set_pc DAdded (dc_set_seq (d_next_seq st) x)) (dcalls st))
                                      (c :: d_table st) (dq st) (d_next_seq st + 1) (d_stop st) (AStart c :: dhist st))
                  | _ => None
                  end
      | None => None
      end
  | DWrite c =>
      match dfind c (dcalls st) with
      | Some x => match dc_pc x with
                  | DAdded => if sk_addcall_before_write sk
                              then Some (dset st (dupdate c (dc_set_pc DSent) (dcalls st)) (dq st) [AWrite (call_info x)])
                              else None
                  | _ => None
                  end
      | None => None
      end
  | DInResp q r =>
      match dq st with
      | QIdle =>
          let ev := AFeed (mkFI KResp q r true) true in
          match lookup_seq (d_table st) q (dcalls st) with
          | Some x => Some (dset st (dcalls st) (QLooked (dc_nonce x) r) [ev])
          | None => Some (dset st (dcalls st) QIdle [ev])          (* CallNotFound: logged and dropped *)
          end
      | _ => None
      end
  | DDecodeErr =>
      match dq st with
      | QLooked c r => Some (dset st (dcalls st) (QErrDone c r) [])
      | _ => None
      end
  | DDecodeRes =>
      match dq st with
      | QErrDone c r =>
          match dfind c (dcalls st) with
          | Some x =>
              (* the buffer is written whatever the caller is doing; if it has returned, that is a late write *)
              let late := match dc_pc x with DRet _ => [ABuf c false] | _ => [] end in
              Some (dset st (dupdate c (dc_set_buf r) (dcalls st)) (QResDone c r) late)
          | None => None
          end
      | _ => None
      end
  | DDeliver =>
      match dq st with
      | QResDone c r =>
          match dfind c (dcalls st) with
          | Some x =>
              match dc_chan x with
              | None => Some (dset st (dupdate c (dc_set_chan (Some r)) (dcalls st)) QIdle [])
              | Some _ => if sk_response_send_nonblocking sk
                          then Some (dset st (dcalls st) QIdle [])      (* duplicate: dropped *)
                          else None                                      (* bare send: the receive loop blocks *)
              end
          | None => None
          end
      | _ => None
      end
  | DTakeReply c =>
      match dfind c (dcalls st) with
      | Some x =>
          match dc_pc x, dc_chan x with
          | DSent, Some r => Some (dset st (dupdate c (fun x => dc_set_pc (DGot r) (dc_set_chan None x)) (dcalls st)) (dq st) [])
          | _, _ => None
          end
      | None => None
      end
  | DFinish c =>
      match dfind c (dcalls st) with
      | Some x =>
          match dc_pc x with
          | DGot _ => Some (dret sk st c (dupdate c (dc_return ROk) (dcalls st)) [AResult c (dc_buf x); ARet c ROk])
          | _ => None
          end
      | None => None
      end
  | DCtxEnd c =>
      match dfind c (dcalls st) with
      | Some x => if dc_ctx x then None else Some (dset st (dupdate c dc_set_ctx (dcalls st)) (dq st) [ACtx c])
      | None => None
      end
  | DCancelRet c =>
      match dfind c (dcalls st) with
      | Some x =>
          match dc_pc x with
          | DAdded | DSent => if dc_ctx x then Some (dret sk st c (dupdate c (dc_return RCtx) (dcalls st)) [ARet c RCtx]) else None
          | _ => None
          end
      | None => None
      end
  | DStopRet c =>
      match dfind c (dcalls st) with
      | Some x =>
          match dc_pc x with
          | DAdded | DSent => if d_stop st then Some (dret sk st c (dupdate c (dc_return REof) (dcalls st)) [ARet c REof]) else None
          | _ => None
          end
      | None => None
      end
  | DStopAll => if d_stop st then None else Some (mkD (dcalls st) (d_table st) (dq st) (d_next_seq st) true (dhist st))
  end.

Definition dtrace (st : dstate) : list aev := rev (dhist st).

Definition fresh_call (c : Z) : dcall := mkDC c (-1) DNew false None (-1) (-1).

Fixpoint dnonces_ok (l : list dcall) : bool :=
  match l with
  | [] => true
  | x :: r => negb (existsb (fun y => dc_nonce y =? dc_nonce x) r) && dnonces_ok r
  end.

Definition dfresh_ok (l : list dcall) : bool :=
  dnonces_ok l && forallb (fun x => match dc_pc x with DNew => negb (dc_ctx x) && match dc_chan x with None => true | _ => false end
                                                      && (dc_buf x =? -1) | _ => false end) l.

