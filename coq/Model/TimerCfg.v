(* the facts Model/Timer.v and Model/TimerConc.v take from the regenerated censuses of reconnect_backoff.go *)
From FMP Require Import Model.GenTypes Model.Generated Model.Skeleton Model.ConnCfg.
Open Scope string_scope.

Definition assigns_of (fn : string) : list string := match lookup fn assign_census with Some l => l | None => [] end.
Definition blocking_of (fn : string) : list blockop := match lookup fn blocking_census with Some l => l | None => [] end.
Definition has_lock (fn m : string) : bool :=
  existsb (fun o => match o with BLock r => String.eqb r m | _ => false end) (blocking_of fn).

Record timerfacts := mkTmF {
  tmf_start_constant : bool;   (* f := newFireOnce(); b.swap(f).fire(); time.AfterFunc(waitDur, f.fire) *)
  tmf_start_random : bool;     (* the same shape *)
  tmf_random_delay : bool;     (* buf[0] &= 127; waitDur = Duration(Uint64(buf)) % maxWait, only when maxWait != 0 *)
  tmf_fire_now : bool;         (* b.swap(fireOnce{}).fire() *)
  tmf_wait_loop : bool;        (* f := b.get(); for f != oldF { f.wait(); f, oldF = b.get(), f } *)
  tmf_swap_get_locked : bool;  (* swap exchanges b.fo under b.mu and returns the old value; get reads it under b.mu *)
  tmf_fire_once : bool         (* fire closes the channel inside the once, zero value is a no-op; wait receives from it *)
}.

Definition start_shape (fn : string) : bool :=
  mem_str "f := newFireOnce()" (assigns_of fn) && mem_str "time.AfterFunc(waitDur, f.fire)" (assigns_of fn)
  && before fn "newFireOnce" "b.swap(f).fire" && before fn "b.swap(f).fire" "time.AfterFunc"
  && Nat.eqb (count_calls fn "time.AfterFunc") 1.

Definition timerfacts_now : timerfacts :=
  mkTmF
    (start_shape "CancellableTimer.StartConstant")
    (start_shape "CancellableTimer.StartRandom")
    (mem_str "buf[0] &= 127" (assigns_of "CancellableTimer.StartRandom")
     && mem_str "waitDur = time.Duration(binary.BigEndian.Uint64(buf[:])) % maxWait" (assigns_of "CancellableTimer.StartRandom")
     && mem_str "maxWait != 0" (conds_of "CancellableTimer.StartRandom")
     && match returns_of "CancellableTimer.StartRandom" with [r] => String.eqb r "waitDur" | _ => false end)
    (match calls_of "CancellableTimer.FireNow" with [CCall a; CCall b] => String.eqb a "b.swap(fireOnce{}).fire" && String.eqb b "b.swap" | _ => false end)
    (match assigns_of "CancellableTimer.Wait", conds_of "CancellableTimer.Wait", calls_of "CancellableTimer.Wait" with
     | [a1; a2], [c], [CCall g1; CCall w; CCall g2] =>
         String.eqb a1 "f := b.get()" && String.eqb a2 "f,oldF = b.get(),f" && String.eqb c "for:f != oldF"
         && String.eqb g1 "b.get" && String.eqb w "f.wait" && String.eqb g2 "b.get"
     | _, _, _ => false
     end)
    (has_lock "CancellableTimer.swap" "b.mu" && has_lock "CancellableTimer.get" "b.mu"
     && mem_str "b.fo,oldFo = newFo,b.fo" (assigns_of "CancellableTimer.swap")
     && match returns_of "CancellableTimer.swap" with [r] => String.eqb r "oldFo" | _ => false end
     && match returns_of "CancellableTimer.get" with [r] => String.eqb r "b.fo" | _ => false end)
    (existsb (fun o => match o with BClose c => String.eqb c "o.ch" | _ => false end) (blocking_of "fireOnce.fire$1")
     && mem_str "o.once == nil || o.ch == nil" (conds_of "fireOnce.fire")
     && mem_str "o.ch == nil" (conds_of "fireOnce.wait")
     && existsb (fun o => match o with BRecv c => String.eqb c "o.ch" | _ => false end) (blocking_of "fireOnce.wait")).

Definition expected_timerfacts : timerfacts := mkTmF true true true true true true true.
