(* Running Model/Connection.v on a script the way the harness runs the implementation: environment operations one at a
   time, each followed by the canonical schedule (first enabled label, goroutines' own steps only) until nothing can
   move.  Used by the correspondence check on sequential histories; per-thread projections of the trace are compared.
   Definitions only. *)
From FMP Require Import Base.Bytes Base.Lts Model.Connection.
Open Scope Z_scope.

Inductive sop :=
| SStart (c : Z)          (* the harness starts command c (DoCommand / ForceReconnect) *)
| SCancel (c : Z)
| SDisconnect
| SShutdown
| SFastForward
| SElapse                 (* let the connect-delay timer run out *)
| SHold                   (* the next dial hangs ... *)
| SRelease.               (* ... until released *)

Record rstate := mkRS { rs_st : cstate; rs_started : list Z; rs_hold : bool }.

Definition seq_labels (g : Z) : list clabel :=
  [LAnnounce g; LTimerStart g; LDelayDone g; LRetryStart g; LDialBegin g; LDialEnd g; LRegister g; LOnConnect g; LPublish g;
   LCheck g; LNotify g; LBackoffEnd g; LFinish g].
Definition cmd_labels (c : Z) : list clabel := [LFire c; LBegin c; LWake c; LCtxRet c; LExec c; LCmdNotify c].

Definition is_dial_end (l : clabel) : bool := match l with LDialEnd _ => true | _ => false end.

Definition enabled_labels (cfg : ccfg) (o : copts) (started : list Z) (hold : bool) (st : cstate) : list clabel :=
  filter (fun l => (negb (hold && is_dial_end l)) && match cstep cfg o st l with Some _ => true | None => false end)
         (flat_map cmd_labels started ++ flat_map (fun s => seq_labels (sq_gen s)) (seqs st)).

Definition settle (cfg : ccfg) (o : copts) (r : rstate) : rstate :=
  mkRS (fst (quiesce (cstep cfg o) (enabled_labels cfg o (rs_started r) (rs_hold r)) 2000 (rs_st r))) (rs_started r) (rs_hold r).

Definition env_step (cfg : ccfg) (o : copts) (st : cstate) (l : clabel) : cstate :=
  match cstep cfg o st l with Some s => s | None => st end.

(* a long quiet period: every connect delay that gets started runs out *)
Fixpoint elapse_all (cfg : ccfg) (o : copts) (fuel : nat) (r : rstate) : rstate :=
  match fuel with
  | O => r
  | S f => if timer_running (rs_st r)
           then elapse_all cfg o f (settle cfg o (mkRS (env_step cfg o (rs_st r) LTimerElapse) (rs_started r) (rs_hold r)))
           else r
  end.

Definition sop_step (cfg : ccfg) (o : copts) (r : rstate) (op : sop) : rstate :=
  settle cfg o
    match op with
    | SStart c => mkRS (rs_st r) (rs_started r ++ [c]) (rs_hold r)
    | SCancel c => mkRS (env_step cfg o (rs_st r) (LCtxEnd c)) (rs_started r) (rs_hold r)
    | SDisconnect => mkRS (env_step cfg o (rs_st r) LDisconnect) (rs_started r) (rs_hold r)
    | SShutdown => mkRS (env_step cfg o (rs_st r) LShutdown) (rs_started r) (rs_hold r)
    | SFastForward => mkRS (env_step cfg o (rs_st r) LFastForward) (rs_started r) (rs_hold r)
    | SElapse => elapse_all cfg o 8 r
    | SHold => mkRS (rs_st r) (rs_started r) true
    | SRelease => mkRS (rs_st r) (rs_started r) false
    end.

Definition run_script (cfg : ccfg) (o : copts) (eager : bool) (ds : list dial_out) (cs : list conn_out) (cm : list cmd)
           (ops : list sop) : list cev :=
  let st0 := if eager then cinit_eager o ds cs cm else cinit o ds cs cm in
  ctrace (rs_st (fold_left (sop_step cfg o) ops (settle cfg o (mkRS st0 [] false)))).

(* which goroutine an event belongs to: Some c = command c, None = the reconnect sequence / environment *)
Definition ev_thread (e : cev) : option Z :=
  match e with
  | EvCmdStart c _ _ | EvFireNow c | EvWaiting c _ _ | EvExec c _ _ | EvCmdErr c | EvCmdRet c _ | EvCancel c => Some c
  | _ => None
  end.
Definition is_env_event (e : cev) : bool :=
  match e with EvDisconnect | EvFastForward | EvShutdown | EvTimerElapsed | EvCancel _ => true | _ => false end.
Definition seq_projection (tr : list cev) : list cev :=
  filter (fun e => match ev_thread e with None => negb (is_env_event e) | Some _ => false end) tr.
Definition cmd_projection (c : Z) (tr : list cev) : list cev :=
  filter (fun e => match ev_thread e with Some d => (d =? c) && negb (is_env_event e) | None => false end) tr.
