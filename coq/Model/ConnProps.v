(* Decidable predicates on Connection observation traces (Model/Connection.v's [cev]), as monitors: a trace satisfies
   the predicate iff the monitor never gets stuck.  Proved to accept every trace of the Connection transition system
   (Proofs/ConnProofs.v) and extracted to judge the implementation's traces.  Definitions only. *)
From FMP Require Import Base.Bytes Base.Lts Model.Connection.
Open Scope Z_scope.

Definition caccepts {S} (step : S -> cev -> option S) (s0 : S) (tr : list cev) : bool :=
  match run step s0 tr with Some _ => true | None => false end.

(* ---------- C14 (a): at most one dial attempt in progress ---------- *)
Definition onedial_step (inprog : bool) (e : cev) : option bool :=
  match e with
  | EvDialBegin => if inprog then None else Some true
  | EvDialEnd _ _ => if inprog then Some false else None
  | _ => Some inprog
  end.
Definition c14_one_dial (tr : list cev) : bool := caccepts onedial_step false tr.

(* ---------- C14 (b): the shape of reconnect sequences ----------
   announced exactly once, with the right status; every dial follows the announcement or exactly one error
   notification; protocols registered before OnConnect; Finalize exactly once, on the dialed transport, after OnConnect
   succeeded; after Shutdown at most one more dial. *)
Inductive phase :=
| PIdle | PAnnounced | PDialing | PDialed (x : Z) (reg : bool) | PConnected (x : Z) | PFailed | PNotified.

Record seqmon := mkSM { sm_ph : phase; sm_announced_before : bool; sm_shut : bool; sm_dials_after_shut : Z }.

Definition seqmon0 (force_initial_backoff : bool) : seqmon := mkSM PIdle force_initial_backoff false 0.

Definition sm_go (m : seqmon) (p : phase) : option seqmon := Some (mkSM p (sm_announced_before m) (sm_shut m) (sm_dials_after_shut m)).

Definition seqmon_step (m : seqmon) (e : cev) : option seqmon :=
  if sm_shut m then
    match e with
    | EvDialBegin =>
        if sm_dials_after_shut m <? 0 then Some m
        else if sm_dials_after_shut m <? 1 then Some (mkSM (sm_ph m) (sm_announced_before m) true (sm_dials_after_shut m + 1)) else None
    | EvDisc _ => Some (mkSM (sm_ph m) (sm_announced_before m) true (-1))
        (* an announcement after Shutdown: either the cancelled sequence's own late one or a new sequence started by a racing command; nothing further is claimed *)
    | _ => Some m
    end
  else
    match e with
    | EvShutdown => Some (mkSM (sm_ph m) (sm_announced_before m) true
                               (* a dial already in progress is not "one more" *) 0)
    | EvDisc st =>
        match sm_ph m with
        | PIdle => if st =? (if sm_announced_before m then 3 else 2) then Some (mkSM PAnnounced true false 0) else None
        | _ => None
        end
    | EvDialBegin => match sm_ph m with PAnnounced | PNotified => sm_go m PDialing | _ => None end
    | EvDialEnd o x =>
        match sm_ph m with
        | PDialing => match o with DOk => sm_go m (PDialed x false) | DFail => sm_go m PFailed | DFatal => sm_go m PIdle end
        | _ => None
        end
    | EvRegister x => match sm_ph m with PDialed y _ => if x =? y then sm_go m (PDialed y true) else None | _ => None end
    | EvOnConnect o =>
        match sm_ph m with
        | PDialed x true => match o with OOk => sm_go m (PConnected x) | OFail => sm_go m PFailed | OFatal => sm_go m PIdle end
        | _ => None
        end
    | EvConnErr => match sm_ph m with PFailed => sm_go m PNotified | _ => None end
    | EvFinalize x => match sm_ph m with PConnected y => if x =? y then sm_go m PIdle else None | _ => None end
    | _ => Some m
    end.
Definition c14_sequences (force_initial_backoff : bool) (tr : list cev) : bool :=
  caccepts seqmon_step (seqmon0 force_initial_backoff) tr.

(* ---------- C14 (c) / C15: commands and waiters ----------
   A command function runs only once a client has been published; after an execution under which the transport died it
   runs again only after a later Finalize; a retriable failure is notified exactly once before the next execution; what
   DoCommand returns is the last execution's outcome unchanged, or - only while waiting - the context's error (context
   ended), the connect error (a fatal connect failure happened while it waited) or the shutdown error.  A forced
   reconnect returns nil only after a Finalize that happened after it started. *)
Record cmdmon := mkCM {
  k_id : Z;
  k_force : bool;
  k_execs : Z;
  k_last : option cmd_out;        (* outcome of the last execution, not yet returned / retried *)
  k_need_fin : option Z;          (* executions must wait for a Finalize count above this *)
  k_notify_due : bool;
  k_cancelled : bool;
  k_start_fin : Z;                (* Finalize count when it started *)
  k_start_fatal : Z;              (* fatal connect failures when it (last) had to wait *)
  k_returned : bool
}.

(* w_open_fin / w_open_fatal: the most recently announced sequence has already finalized / failed fatally, so a command
   starting now may still join it while it winds up *)
Record waitmon := mkWM { w_fin : Z; w_fatal : Z; w_shut : bool; w_open_fin : bool; w_open_fatal : bool; w_cmds : list cmdmon;
                         w_precancel : list Z   (* commands whose context ended before they started *) }.
Definition waitmon0 : waitmon := mkWM 0 0 false false false [] [].
Definition base_fin (m : waitmon) : Z := if w_open_fin m then w_fin m - 1 else w_fin m.
Definition base_fatal (m : waitmon) : Z := if w_open_fatal m then w_fatal m - 1 else w_fatal m.

Fixpoint kfind (c : Z) (l : list cmdmon) : option cmdmon :=
  match l with [] => None | x :: r => if k_id x =? c then Some x else kfind c r end.
Fixpoint kupdate (c : Z) (f : cmdmon -> cmdmon) (l : list cmdmon) : list cmdmon :=
  match l with [] => [] | x :: r => if k_id x =? c then f x :: r else x :: kupdate c f r end.

Definition wm_cmds (m : waitmon) (l : list cmdmon) : waitmon := mkWM (w_fin m) (w_fatal m) (w_shut m) (w_open_fin m) (w_open_fatal m) l (w_precancel m).

Definition ret_matches (m : waitmon) (k : cmdmon) (e : cerr) : bool :=
  match k_last k with
  | Some XOk => cerr_eqb e ENone
  | Some XOther => cerr_eqb e EOther
  | Some XRetriable => false                 (* must be retried, not returned *)
  | Some XEof | Some XEofDisc | None =>
      (* waiting for a connection (again) *)
      match e with
      | ECtx => k_cancelled k
      | EConnFatal => k_start_fatal k <? w_fatal m
      | ECanceled => w_shut m
      | ENone => k_force k && (k_start_fin k <? w_fin m)
      | _ => false
      end
  end.

Definition waitmon_step (m : waitmon) (e : cev) : option waitmon :=
  match e with
  | EvFinalize _ => Some (mkWM (w_fin m + 1) (w_fatal m) (w_shut m) true (w_open_fatal m) (w_cmds m) (w_precancel m))
  | EvDialEnd DFatal _ | EvOnConnect OFatal => Some (mkWM (w_fin m) (w_fatal m + 1) (w_shut m) (w_open_fin m) true (w_cmds m) (w_precancel m))
  | EvDisc _ => Some (mkWM (w_fin m) (w_fatal m) (w_shut m) false false (w_cmds m) (w_precancel m))
  | EvShutdown => Some (mkWM (w_fin m) (w_fatal m) true (w_open_fin m) (w_open_fatal m) (w_cmds m) (w_precancel m))
  | EvCmdStart c force _ =>
      match kfind c (w_cmds m) with
      | Some _ => None
      | None => Some (wm_cmds m (mkCM c force 0 None None false (zmemb c (w_precancel m)) (base_fin m) (base_fatal m) false :: w_cmds m))
      end
  | EvCancel c =>
      match kfind c (w_cmds m) with
      | Some _ => Some (wm_cmds m (kupdate c (fun k => mkCM (k_id k) (k_force k) (k_execs k) (k_last k) (k_need_fin k) (k_notify_due k) true
                                                             (k_start_fin k) (k_start_fatal k) (k_returned k)) (w_cmds m)))
      | None => Some (mkWM (w_fin m) (w_fatal m) (w_shut m) (w_open_fin m) (w_open_fatal m) (w_cmds m) (c :: w_precancel m))
      end
  | EvWaiting c _ false =>
      (* the command joined a sequence that was already running: if that sequence has already finalized (it is winding up),
         its success releases the command without another Finalize *)
      if w_open_fin m
      then Some (wm_cmds m (kupdate c (fun k => mkCM (k_id k) (k_force k) (k_execs k) (k_last k) None (k_notify_due k) (k_cancelled k)
                                                     (k_start_fin k) (k_start_fatal k) (k_returned k)) (w_cmds m)))
      else Some m
  | EvExec c n o =>
      match kfind c (w_cmds m) with
      | Some k =>
          if k_returned k || k_force k || k_notify_due k || negb (n =? k_execs k) || (w_fin m <? 1) then None
          else if match k_last k with Some XOk | Some XOther => true | _ => false end then None
          else if match k_need_fin k with Some f => negb (f <? w_fin m) | None => false end then None
          else Some (wm_cmds m (kupdate c (fun k => mkCM (k_id k) false (k_execs k + 1) (Some o)
                                                         (match o with XEofDisc => Some (w_fin m) | _ => None end)
                                                         (match o with XRetriable => true | _ => false end)
                                                         (k_cancelled k) (k_start_fin k) (base_fatal m) false) (w_cmds m)))
      | None => None
      end
  | EvCmdErr c =>
      match kfind c (w_cmds m) with
      | Some k => if k_notify_due k
                  then Some (wm_cmds m (kupdate c (fun k => mkCM (k_id k) (k_force k) (k_execs k) None (k_need_fin k) false (k_cancelled k)
                                                                 (k_start_fin k) (k_start_fatal k) (k_returned k)) (w_cmds m)))
                  else None
      | None => None
      end
  | EvCmdRet c err =>
      match kfind c (w_cmds m) with
      | Some k => if k_returned k || k_notify_due k || negb (ret_matches m k err) then None
                  else Some (wm_cmds m (kupdate c (fun k => mkCM (k_id k) (k_force k) (k_execs k) (k_last k) (k_need_fin k) false (k_cancelled k)
                                                                 (k_start_fin k) (k_start_fatal k) true) (w_cmds m)))
      | None => None
      end
  | _ => Some m
  end.
Definition c15_commands (tr : list cev) : bool := caccepts waitmon_step waitmon0 tr.

(* ---------- C16 (connection level): the connect delay ----------
   no dial while a delay is pending; the delay ends only when its timer ran out or was fired; once a command carrying
   the fire-now marker waits for the sequence (whether it arrived before, while or after the timer was started) or the
   running timer was fast-forwarded, the delay does not run to its end.  Inert after Shutdown. *)
Inductive tmph := TmIdle | TmStarted | TmReleased.
Record delaymon := mkDM {
  dm_t : tmph;
  dm_must_fire : bool;          (* a fire-now command is waiting for the sequence that is (or will be) delaying *)
  dm_seq_open : bool;           (* a sequence was announced and has neither finalized nor failed fatally *)
  dm_unannounced : bool;        (* a sequence was started and has not announced itself yet *)
  dm_off : bool;
  dm_may : list Z               (* commands whose fire-now marker was seen and that have neither executed nor returned since *)
}.
Definition delaymon0 (eager : bool) : delaymon := mkDM TmIdle false false eager false [].

Definition release (t : tmph) : tmph := match t with TmStarted => TmReleased | x => x end.

Definition delaymon_step (m : delaymon) (e : cev) : option delaymon :=
  if dm_off m then Some m else
  match e with
  | EvShutdown => Some (mkDM (dm_t m) (dm_must_fire m) (dm_seq_open m) (dm_unannounced m) true (dm_may m))
  | EvTimerStart => Some (mkDM TmStarted (dm_must_fire m) (dm_seq_open m) (dm_unannounced m) false (dm_may m))
  | EvTimerElapsed =>
      match dm_t m with
      | TmStarted => if dm_must_fire m then None else Some (mkDM TmReleased false (dm_seq_open m) (dm_unannounced m) false (dm_may m))
      | _ => None
      end
  | EvFastForward => Some (mkDM (release (dm_t m)) (dm_must_fire m) (dm_seq_open m) (dm_unannounced m) false (dm_may m))
  | EvFireNow c => Some (mkDM (release (dm_t m)) (dm_must_fire m) (dm_seq_open m) (dm_unannounced m) false (c :: dm_may m))
  | EvExec c _ _ | EvCmdRet c _ =>
      Some (mkDM (dm_t m) (dm_must_fire m) (dm_seq_open m) (dm_unannounced m) false (filter (fun d => negb (d =? c)) (dm_may m)))
  | EvWaiting _ firenow spawned =>
      let live := spawned || dm_seq_open m || dm_unannounced m in
      Some (mkDM (if firenow then release (dm_t m) else dm_t m)
                 (if firenow && live then true else dm_must_fire m)
                 (dm_seq_open m) (spawned || dm_unannounced m) false (dm_may m))
  | EvDisc _ => Some (mkDM (dm_t m) (dm_must_fire m) true false false (dm_may m))
  | EvDelayDone =>
      match dm_t m with
      | TmReleased => Some (mkDM TmIdle (dm_must_fire m) (dm_seq_open m) (dm_unannounced m) false (dm_may m))
      | TmStarted =>
          (* the permission to end the delay early comes from a fire-now marker seen (EvFireNow), the obligation from EvWaiting *)
          if dm_must_fire m || negb (match dm_may m with [] => true | _ => false end)
          then Some (mkDM TmIdle (dm_must_fire m) (dm_seq_open m) (dm_unannounced m) false (dm_may m)) else None
      | TmIdle => None
      end
  | EvDialBegin => match dm_t m with TmIdle => Some m | _ => None end
  | EvFinalize _ | EvDialEnd DFatal _ | EvOnConnect OFatal => Some (mkDM (dm_t m) false false (dm_unannounced m) false (dm_may m))
  | _ => Some m
  end.
Definition c16_delay (eager : bool) (tr : list cev) : bool := caccepts delaymon_step (delaymon0 eager) tr.
