(* the facts Model/Tls.v takes from the regenerated censuses of connection.go / copy_tls_config_go18.go *)
From FMP Require Import Model.GenTypes Model.Generated Model.Skeleton Model.ConnCfg.
Open Scope string_scope.

Record tlsfacts := mkTF {
  tf_pem_config_roots_and_name : bool;   (* the tls.Config built from root certificates sets RootCAs and ServerName *)
  tf_default_config_name : bool;         (* the fallback tls.Config sets ServerName *)
  tf_never_skips : bool;                 (* InsecureSkipVerify is mentioned nowhere in the package *)
  tf_handshake_raced : bool;             (* the handshake runs in a goroutine, Dial selects on its result and a timer *)
  tf_timeout_default : bool;             (* a zero handshake timeout is replaced (by one minute) *)
  tf_ctor_copies : bool;                 (* NewTLSConnectionWithTLSConfig stores copyTLSConfig(cfg); copyTLSConfig clones *)
  tf_result_chan_buffered : bool         (* the handshake goroutine's send cannot block for ever: checked by its capacity-1 make *)
}.

Definition lits_of (fn : string) : list (list string) :=
  map snd (filter (fun p => String.eqb (fst p) fn) tls_config_literals).

Definition tlsfacts_now : tlsfacts :=
  mkTF
    (match lits_of "ConnectionTransportTLS.Dial" with l :: _ => mem_str "RootCAs" l && mem_str "ServerName" l | [] => false end)
    (match lits_of "ConnectionTransportTLS.Dial" with _ :: l :: _ => mem_str "ServerName" l | _ => false end)
    (Nat.eqb insecure_skip_verify_mentions 0)
    (in_arms (Arm Recv "errCh") (nth_select "ConnectionTransportTLS.Dial" 0)
     && in_arms (Arm Recv "time.After(handshakeTimeout)") (nth_select "ConnectionTransportTLS.Dial" 0)
     && negb (in_arms ArmDefault (nth_select "ConnectionTransportTLS.Dial" 0)))
    (mem_str "handshakeTimeout == 0" (conds_of "ConnectionTransportTLS.Dial"))
    (has_call "NewTLSConnectionWithTLSConfig" "copyTLSConfig" && has_call "copyTLSConfig" "c.Clone")
    (before "ConnectionTransportTLS.Dial" "tls.Client" "make" && before "ConnectionTransportTLS.Dial" "make" "time.After").

Definition expected_tlsfacts : tlsfacts := mkTF true true true true true true true.
