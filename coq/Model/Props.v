(* Decidable property predicates on observation traces, written as monitors (a state, a partial step function;
   a trace satisfies the predicate iff the monitor never gets stuck).  The same functions are (a) proved to accept
   every trace of the transition-system models and (b) extracted and evaluated on the implementation's traces. *)
From FMP Require Import Base.Bytes Base.Lts Model.Events.
Open Scope Z_scope.

Fixpoint memz (x : Z) (l : list Z) : bool :=
  match l with [] => false | y :: r => (x =? y) || memz x r end.

Fixpoint assocz {A} (x : Z) (l : list (Z * A)) : option A :=
  match l with [] => None | (k, v) :: r => if x =? k then Some v else assocz x r end.

Definition accepts {S} (step : S -> aev -> option S) (s0 : S) (tr : list aev) : bool :=
  match run step s0 tr with Some _ => true | None => false end.

Definition announces (fi : frame_info) : bool :=
  match fi_kind fi with KCall | KCallC | KNotify => true | _ => false end.

Definition is_callk (k : fkind) : bool := match k with KCall | KCallC => true | _ => false end.

(* ---------- C13 (a): send notifier exact ----------
   Over the sub-sequence of notifier and Write events: a notifier run is immediately followed by the Write of the
   frame it announces (same seqno), and every call / notification frame written was announced.
   State: the seqno announced and not yet written. *)
Definition notifier_step (pending : option Z) (e : aev) : option (option Z) :=
  match e with
  | ANotifier q => match pending with None => Some (Some q) | Some _ => None end
  | AWrite fi | AWriteFail fi =>
      if announces fi then
        match pending with
        | Some q => if q =? fi_seq fi then Some None else None
        | None => None
        end
      else match pending with None => Some None | Some _ => None end
  | _ => Some pending
  end.

(* ---------- C13 (b): sequence numbers of calls on the wire are pairwise distinct.  State: seqnos seen. ---------- *)
Definition seqno_step (seen : list Z) (e : aev) : option (list Z) :=
  match e with
  | AWrite fi | AWriteFail fi =>
      if is_callk (fi_kind fi) then (if memz (fi_seq fi) seen then None else Some (fi_seq fi :: seen))
      else Some seen
  | _ => Some seen
  end.

(* ---------- C13 (c): a cancellation never precedes its call.  State: seqnos whose cancel frame was written. ---------- *)
Definition cancel_step (cancelled : list Z) (e : aev) : option (list Z) :=
  match e with
  | AWrite fi | AWriteFail fi =>
      match fi_kind fi with
      | KCancel => Some (fi_seq fi :: cancelled)
      | KCall | KCallC => if memz (fi_seq fi) cancelled then None else Some cancelled
      | _ => Some cancelled
      end
  | _ => Some cancelled
  end.

(* ---------- C13 (d): sends keep their order ----------
   If operation a returned before operation b started, b's frame is not written before a's.
   State: operations returned so far; for each started operation the operations that had returned when it started;
   operations whose frame has been written. *)
Record ostate := mkO { o_returned : list Z; o_befores : list (Z * list Z); o_written : list Z }.

Definition order_step (o : ostate) (e : aev) : option ostate :=
  match e with
  | AStart b => Some (mkO (o_returned o) ((b, o_returned o) :: o_befores o) (o_written o))
  | ARet a _ => Some (mkO (a :: o_returned o) (o_befores o) (o_written o))
  | AWrite fi | AWriteFail fi =>
      if announces fi then
        let a := fi_nonce fi in
        if forallb (fun b => match assocz b (o_befores o) with Some bs => negb (memz a bs) | None => true end) (o_written o)
        then Some (mkO (o_returned o) (o_befores o) (a :: o_written o))
        else None
      else Some o
  | _ => Some o
  end.

Definition c13_pred (tr : list aev) : bool :=
  accepts notifier_step None tr && accepts seqno_step [] tr && accepts cancel_step [] tr
  && accepts order_step (mkO [] [] []) tr.

(* ---------- C03: whole, size-limited frames; oversize refused and writes nothing ---------- *)
Definition frames_whole (tr : list aev) : bool :=
  forallb (fun e => match e with AWrite fi => fi_ok fi | _ => true end) tr.

Definition too_big_ops (tr : list aev) : list Z :=
  flat_map (fun e => match e with ARet c RTooBig => [c] | _ => [] end) tr.

Definition refused_write_nothing (tr : list aev) : bool :=
  let tb := too_big_ops tr in
  forallb (fun e => match e with
                    | AWrite fi | AWriteFail fi => negb (memz (fi_nonce fi) tb)
                    | _ => true
                    end) tr.

Definition c03_pred (tr : list aev) : bool := frames_whole tr && refused_write_nothing tr.

(* ---------- C09: a handler's context is cancelled only for its own cancellation or on close ----------
   State: running handlers with the request they serve; seqnos the peer has cancelled; whether the transport is
   closing; handlers seen cancelled. *)
Record hstate := mkH {
  h_running : list (Z * frame_info);   (* handler id -> request *)
  h_peer_cancelled : list Z;           (* seqnos of cancel frames fed by the peer *)
  h_closing : bool;
  h_cancelled : list Z                 (* handlers whose context was observed cancelled *)
}.

Definition closing_event (e : aev) : bool :=
  match e with ACloseBegin | AConnClose | ADone | AReadErr => true | _ => false end.

Definition handler_step (s : hstate) (e : aev) : option hstate :=
  match e with
  | AHStart h fi => Some (mkH ((h, fi) :: h_running s) (h_peer_cancelled s) (h_closing s) (h_cancelled s))
  | AHRet h => Some (mkH (filter (fun p => negb (fst p =? h)) (h_running s)) (h_peer_cancelled s) (h_closing s) (h_cancelled s))
  | AFeed fi _ =>
      match fi_kind fi with
      | KCancel => Some (mkH (h_running s) (fi_seq fi :: h_peer_cancelled s) (h_closing s) (h_cancelled s))
      | _ => Some s
      end
  | AHCtx h =>
      match assocz h (h_running s) with
      | None => Some s                              (* it has returned: cancelling its context then is harmless *)
      | Some fi =>
          if h_closing s then Some (mkH (h_running s) (h_peer_cancelled s) true (h :: h_cancelled s))
          else if is_callk (fi_kind fi) && memz (fi_seq fi) (h_peer_cancelled s)
               then Some (mkH (h_running s) (h_peer_cancelled s) (h_closing s) (h :: h_cancelled s))
               else None                            (* cancelled for somebody else's completion or cancellation *)
      end
  | _ => if closing_event e then Some (mkH (h_running s) (h_peer_cancelled s) true (h_cancelled s)) else Some s
  end.

Definition h0 : hstate := mkH [] [] false [].

Definition c09_only_own (tr : list aev) : bool := accepts handler_step h0 tr.

(* second half, evaluated on a trace that ends at quiescence after the transport has stopped: every handler still
   running has had its context cancelled *)
Definition c09_close_cancels_all (tr : list aev) : bool :=
  match run handler_step h0 tr with
  | Some s => if h_closing s then forallb (fun p => memz (fst p) (h_cancelled s)) (h_running s) else true
  | None => true
  end.

(* ---------- C11: close releases every goroutine and table entry ----------
   Samples are taken at quiescence.  While the transport is open the pending table holds exactly the calls that have
   started and not returned; once it has stopped and all handlers have returned no goroutine of the library remains. *)
Record lstate := mkL { l_out_calls : list Z; l_handlers : list Z; l_closing : bool; l_calls : list Z }.

Definition leak_step (s : lstate) (e : aev) : option lstate :=
  match e with
  | AStart c => Some (mkL (c :: l_out_calls s) (l_handlers s) (l_closing s) (l_calls s))
  | ARet c _ => Some (mkL (filter (fun d => negb (d =? c)) (l_out_calls s)) (l_handlers s) (l_closing s) (l_calls s))
  | AHStart h _ => Some (mkL (l_out_calls s) (h :: l_handlers s) (l_closing s) (l_calls s))
  | AHRet h => Some (mkL (l_out_calls s) (filter (fun d => negb (d =? h)) (l_handlers s)) (l_closing s) (l_calls s))
  | ASample pending goroutines done connected errnil =>
      if done then
        (* stopped: with every handler returned and every API call returned nothing of the library may be left *)
        match l_handlers s, l_out_calls s with
        | [], [] => if goroutines =? 0 then Some s else None
        | _, _ => Some s
        end
      else
        (* open: the table holds only outstanding calls (notifications never enter it) *)
        if pending <=? Z.of_nat (length (filter (fun c => memz c (l_calls s)) (l_out_calls s))) then Some s else None
  | _ => if closing_event e then Some (mkL (l_out_calls s) (l_handlers s) true (l_calls s)) else Some s
  end.

(* [calls]: the nonces of the operations that are calls (the others are notifications) *)
Definition c11_pred (calls : list Z) (tr : list aev) : bool := accepts leak_step (mkL [] [] false calls) tr.

(* ---------- C07 (lifecycle part): the three observers agree, stopping is irreversible, the error is fixed ----------
   State: the error class seen once the transport was observed stopped (None while it is still open). *)
Definition lifecycle_step (seen : option Z) (e : aev) : option (option Z) :=
  match e with
  | AObserve done connected err =>
      if done then
        if connected || (err =? 0) then None
        else match seen with
             | None => Some (Some err)
             | Some e0 => if e0 =? err then Some seen else None
             end
      else
        match seen with
        | Some _ => None                       (* it was stopped before: stopping is irreversible *)
        | None => if connected && (err =? 0) then Some None else None
        end
  | AWatchViolation => None
  | _ => Some seen
  end.

Definition c07_lifecycle (tr : list aev) : bool := accepts lifecycle_step None tr.

(* ---------- C01 (client half): no caller ever observes another call's reply ----------
   State: seqno of each of our calls (from its frame on the wire), responses the peer has sent (seqno, result nonce). *)
Record xstate := mkX { x_seq_of : list (Z * Z); x_fed : list (Z * Z) }.

Definition crosstalk_step (s : xstate) (e : aev) : option xstate :=
  match e with
  | AWrite fi | AWriteFail fi =>
      if is_callk (fi_kind fi) then Some (mkX ((fi_nonce fi, fi_seq fi) :: x_seq_of s) (x_fed s)) else Some s
  | AFeed fi _ =>
      match fi_kind fi with
      | KResp => Some (mkX (x_seq_of s) ((fi_seq fi, fi_nonce fi) :: x_fed s))
      | _ => Some s
      end
  | AResult c r =>
      match assocz c (x_seq_of s) with
      | Some q => if existsb (fun p => (fst p =? q) && (snd p =? r)) (x_fed s) then Some s else None
      | None => None                 (* a result without its call ever having been written *)
      end
  | _ => Some s
  end.

Definition c01_no_crosstalk (tr : list aev) : bool := accepts crosstalk_step (mkX [] []) tr.

(* ---------- C01 (serving half): each delivered request is invoked exactly once; each handler that returns on a live
   transport, not cancelled, is answered exactly once (evaluated at quiescence) ---------- *)
Fixpoint count_ev (p : aev -> bool) (tr : list aev) : nat :=
  match tr with [] => O | e :: r => (if p e then 1 else 0) + count_ev p r end.

Definition invoked_for (n : Z) (e : aev) : bool :=
  match e with AHStart _ fi => fi_nonce fi =? n | _ => false end.

Definition replied_to (q n : Z) (e : aev) : bool :=
  match e with
  | AWrite fi | AWriteFail fi => match fi_kind fi with KResp => (fi_seq fi =? q) && (fi_nonce fi =? n) | _ => false end
  | _ => false
  end.

Definition any_reply_to (q : Z) (e : aev) : bool :=
  match e with
  | AWrite fi | AWriteFail fi => match fi_kind fi with KResp => fi_seq fi =? q | _ => false end
  | _ => false
  end.

(* requests fed for registered methods, in order *)
Definition fed_requests (tr : list aev) : list frame_info :=
  flat_map (fun e => match e with
                     | AFeed fi true => match fi_kind fi with KCall | KCallC | KNotify => [fi] | _ => [] end
                     | _ => []
                     end) tr.

Definition c01_invoked_once (tr : list aev) : bool :=
  forallb (fun fi => Nat.eqb (count_ev (invoked_for (fi_nonce fi)) tr) 1) (fed_requests tr).

Definition c01_never_twice (tr : list aev) : bool :=
  forallb (fun fi => Nat.leb (count_ev (invoked_for (fi_nonce fi)) tr) 1 &&
                     (if is_callk (fi_kind fi) then Nat.leb (count_ev (any_reply_to (fi_seq fi)) tr) 1 else true))
          (fed_requests tr).

(* ---------- C12: the result buffer is never written after the call returned ---------- *)
Definition c12_pred (tr : list aev) : bool :=
  forallb (fun e => match e with ABuf _ false => false | _ => true end) tr.

(* ---------- C08: cancellation ends the call with the context's error and a cancel frame follows the call frame ----
   Evaluated on a trace that ends at quiescence with the transport still up.  For every call whose context ended:
   it returned; with the context's error unless its reply had been fed before it returned; and if it returned the
   context's error and its call frame was written, a cancel frame with the same seqno was written after it. *)
Fixpoint index_where (p : aev -> bool) (tr : list aev) (i : nat) : option nat :=
  match tr with [] => None | e :: r => if p e then Some i else index_where p r (S i) end.

Definition is_ret_of (c : Z) (e : aev) : bool := match e with ARet d _ => d =? c | _ => false end.
Definition ret_class (c : Z) (tr : list aev) : option rclass :=
  match filter (is_ret_of c) tr with ARet _ r :: _ => Some r | _ => None end.
Definition call_write_of (c : Z) (e : aev) : bool :=
  match e with AWrite fi => is_callk (fi_kind fi) && (fi_nonce fi =? c) | _ => false end.
Definition cancel_write_of (q : Z) (e : aev) : bool :=
  match e with AWrite fi => match fi_kind fi with KCancel => fi_seq fi =? q | _ => false end | _ => false end.
Definition seq_of_call (c : Z) (tr : list aev) : option Z :=
  match filter (call_write_of c) tr with AWrite fi :: _ => Some (fi_seq fi) | _ => None end.
Definition resp_fed_for (q : Z) (e : aev) : bool :=
  match e with AFeed fi _ => match fi_kind fi with KResp => fi_seq fi =? q | _ => false end | _ => false end.

Definition cancelled_ops (tr : list aev) : list Z :=
  flat_map (fun e => match e with ACtx c => [c] | _ => [] end) tr.

Definition c08_one (tr : list aev) (c : Z) : bool :=
  match ret_class c tr with
  | None => false                                          (* never returned *)
  | Some r =>
      let reply_before_ret :=
          match seq_of_call c tr, index_where (is_ret_of c) tr 0 with
          | Some q, Some ir => match index_where (resp_fed_for q) tr 0 with Some ifd => Nat.ltb ifd ir | None => false end
          | _, _ => false
          end in
      let class_ok := match r with
                      | RCtx => true
                      | ROk | RAppErr => reply_before_ret
                      | RTooBig => true                   (* refused before anything was sent *)
                      | _ => false
                      end in
      let cancel_ok := match r, seq_of_call c tr with
                       | RCtx, Some q =>
                           match index_where (call_write_of c) tr 0, index_where (cancel_write_of q) tr 0 with
                           | Some iw, Some ic => Nat.ltb iw ic
                           | _, _ => false
                           end
                       | _, _ => true
                       end in
      class_ok && cancel_ok
  end.

Definition c08_pred (tr : list aev) : bool := forallb (c08_one tr) (cancelled_ops tr).

(* serving side: a cancellation for a call whose handler is running reaches it (evaluated at quiescence) *)
Definition c08_reaches_handler (tr : list aev) : bool :=
  match run handler_step h0 tr with
  | Some s => forallb (fun p => if is_callk (fi_kind (snd p)) && memz (fi_seq (snd p)) (h_peer_cancelled s)
                                then memz (fst p) (h_cancelled s) else true) (h_running s)
  | None => true
  end.

(* ---------- C20: each RPC is accounted exactly once, under its tag, with its wire size ----------
   [sizes] : for every operation (nonce) the sizes the record may carry: len(own frame), and len(own frame) + payload
   length of the matching peer frame.  Evaluated at quiescence. *)
Definition records_of (k : fkind) (n : Z) (tr : list aev) : list Z :=
  flat_map (fun e => match e with ARecord k' n' sz => if fkind_eqb k k' && (n =? n') then [sz] else [] | _ => [] end) tr.

Definition c20_one (tr : list aev) (want : fkind * Z * list Z) : bool :=
  match want with
  | (k, n, sizes) =>
      match records_of k n tr with
      | [sz] => memz sz sizes
      | _ => false
      end
  end.

Definition c20_pred (wants : list (fkind * Z * list Z)) (tr : list aev) : bool := forallb (c20_one tr) wants.
