(* Decidable property predicates on observation traces, written as monitors (a state, a partial step function;
   a trace satisfies the predicate iff the monitor never gets stuck).  The same functions are (a) proved to accept
   every trace of the transition-system models and (b) extracted and evaluated on the implementation's traces. *)
From FMP Require Import Base.Bytes Base.Lts Model.Events.
Open Scope Z_scope.

Fixpoint memz (x : Z) (l : list Z) : bool :=
  match l with [] => false | y :: r => (x =? y) || memz x r end.

Fixpoint assocz {A} (x : Z) (l : list (Z * A)) : option A :=
  match l with [] => None | (k, v) :: r => if x =? k then Some v else assocz x r end.

Definition accepts {S} (step : S -> aev -> option S) (s0 : S) (tr : list aev) : bool :=
  match run step s0 tr with Some _ => true | None => false end.

Definition announces (fi : frame_info) : bool :=
  match fi_kind fi with KCall | KCallC | KNotify => true | _ => false end.

Definition is_callk (k : fkind) : bool := match k with KCall | KCallC => true | _ => false end.

(* ---------- C13 (a): send notifier exact ----------
   Over the sub-sequence of notifier and Write events: a notifier run is immediately followed by the Write of the
   frame it announces (same seqno), and every call / notification frame written was announced.
   State: the seqno announced and not yet written. *)
Definition notifier_step (pending : option Z) (e : aev) : option (option Z) :=
  match e with
  | ANotifier q => match pending with None => Some (Some q) | Some _ => None end
  | AWrite fi | AWriteFail fi =>
      if announces fi then
        match pending with
        | Some q => if q =? fi_seq fi then Some None else None
        | None => None
        end
      else match pending with None => Some None | Some _ => None end
  | _ => Some pending
  end.

(* ---------- C13 (b): sequence numbers of calls on the wire are pairwise distinct.  State: seqnos seen. ---------- *)
Definition seqno_step (seen : list Z) (e : aev) : option (list Z) :=
  match e with
  | AWrite fi | AWriteFail fi =>
      if is_callk (fi_kind fi) then (if memz (fi_seq fi) seen then None else Some (fi_seq fi :: seen))
      else Some seen
  | _ => Some seen
  end.

(* ---------- C13 (c): a cancellation never precedes its call.  State: seqnos whose cancel frame was written. ---------- *)
Definition cancel_step (cancelled : list Z) (e : aev) : option (list Z) :=
  match e with
  | AWrite fi | AWriteFail fi =>
      match fi_kind fi with
      | KCancel => Some (fi_seq fi :: cancelled)
      | KCall | KCallC => if memz (fi_seq fi) cancelled then None else Some cancelled
      | _ => Some cancelled
      end
  | _ => Some cancelled
  end.

(* ---------- C13 (d): sends keep their order ----------
   If operation a returned before operation b started, b's frame is not written before a's.
   State: operations returned so far; for each started operation the operations that had returned when it started;
   operations whose frame has been written. *)
Record ostate := mkO { o_returned : list Z; o_befores : list (Z * list Z); o_written : list Z }.

Definition order_step (o : ostate) (e : aev) : option ostate :=
  match e with
  | AStart b => Some (mkO (o_returned o) ((b, o_returned o) :: o_befores o) (o_written o))
  | ARet a _ => Some (mkO (a :: o_returned o) (o_befores o) (o_written o))
  | AWrite fi | AWriteFail fi =>
      if announces fi then
        let a := fi_nonce fi in
        if forallb (fun b => match assocz b (o_befores o) with Some bs => negb (memz a bs) | None => true end) (o_written o)
        then Some (mkO (o_returned o) (o_befores o) (a :: o_written o))
        else None
      else Some o
  | _ => Some o
  end.

Definition c13_pred (tr : list aev) : bool :=
  accepts notifier_step None tr && accepts seqno_step [] tr && accepts cancel_step [] tr
  && accepts order_step (mkO [] [] []) tr.

(* ---------- C03: whole, size-limited frames; oversize refused and writes nothing ---------- *)
Definition frames_whole (tr : list aev) : bool :=
  forallb (fun e => match e with AWrite fi => fi_ok fi | _ => true end) tr.

Definition too_big_ops (tr : list aev) : list Z :=
  flat_map (fun e => match e with ARet c RTooBig => [c] | _ => [] end) tr.

Definition refused_write_nothing (tr : list aev) : bool :=
  let tb := too_big_ops tr in
  forallb (fun e => match e with
                    | AWrite fi | AWriteFail fi => negb (memz (fi_nonce fi) tb)
                    | _ => true
                    end) tr.

Definition c03_pred (tr : list aev) : bool := frames_whole tr && refused_write_nothing tr.
