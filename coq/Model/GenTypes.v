(* Types of the facts that go/gen regenerates from /repo's source into Generated.v. *)
From Coq Require Export String List ZArith NArith.
Export ListNotations.

(* direction of a channel operation *)
Inductive chdir := Recv | Send.

(* one arm of a select: direction and the channel expression as written in the source *)
Inductive arm :=
| Arm (d : chdir) (ch : string)
| ArmDefault.

(* a potentially blocking operation, in source order inside one function body *)
Inductive blockop :=
| BSend (ch : string)
| BRecv (ch : string)
| BSelect (arms : list arm)
| BOnceDo (recv : string)
| BLock (recv : string)
| BClose (ch : string)          (* close(ch): not blocking, but the census of who closes what *)
| BGo (callee : string).        (* go statement: callee text or "func" *)

(* a call in the order census; deferred calls are flagged *)
Inductive callsite :=
| CCall (callee : string)
| CDefer (callee : string).

(* a function body as far as its paths and calls go: calls in evaluation order, defers, returns, branches (if / select /
   switch arms), loops; everything else is dropped *)
Inductive stm :=
| SCallF (callee : string)
| SDeferF (callee : string)
| SDeferBlock (body : list stm)
| SGo (callee : string)
| SReturn
| SIf (cond : string) (thn els : list stm)
| SSelect (arms : list (string * list stm))
| SLoop (body : list stm).

(* element types of an outgoing frame literal *)
Inductive elty :=
| TMethodType | TSeqNumber | TCompressionType | TString | TIface | TTags | TOther (s : string).

Record framesig := mkSig { sig_func : string; sig_elems : list elty }.

Definition string_eqb := String.eqb.

Definition chdir_eqb (a b : chdir) : bool :=
  match a, b with Recv, Recv | Send, Send => true | _, _ => false end.

Definition arm_eqb (a b : arm) : bool :=
  match a, b with
  | Arm d c, Arm d' c' => chdir_eqb d d' && String.eqb c c'
  | ArmDefault, ArmDefault => true
  | _, _ => false
  end.

Fixpoint in_arms (a : arm) (l : list arm) : bool :=
  match l with [] => false | x :: r => arm_eqb a x || in_arms a r end.

Definition elty_eqb (a b : elty) : bool :=
  match a, b with
  | TMethodType, TMethodType | TSeqNumber, TSeqNumber | TCompressionType, TCompressionType
  | TString, TString | TIface, TIface | TTags, TTags => true
  | TOther s, TOther t => String.eqb s t
  | _, _ => false
  end.

(* look a function's census up by name *)
Fixpoint lookup {A} (k : string) (l : list (string * A)) : option A :=
  match l with
  | [] => None
  | (k', v) :: r => if String.eqb k k' then Some v else lookup k r
  end.

(* ---- GoLite: statement-level translation of small function bodies (go/gen, goliteFuncs) ----
   The abstract syntax only; its semantics is Model/GoLite.v.  Anything the translator does not understand
   becomes an explicit EUnsupported / SUnsupported node carrying the source text. *)
Inductive binop := OEq | ONe | OLt | OLe | OGt | OGe | OAdd | OSub.

Inductive expr :=
| EVar (x : string)                 (* local variable "group" or receiver field "r.toIterate" *)
| EInt (z : Z)
| ELen (e : expr)
| EIndex (e i : expr)               (* e[i] *)
| ESliceFrom (e i : expr)           (* e[i:] *)
| EBin (o : binop) (a b : expr)
| EAnd (a b : expr)                 (* short-circuit *)
| EOr (a b : expr)
| EAppend (e x : expr)              (* append(e, x) *)
| EMake (ty : string) (n : expr)    (* make(T, 0, n) *)
| EPerm (e : expr)                  (* math/rand.Perm(e): oracle *)
| EBool (b : bool)                  (* true / false *)
| ENil                              (* nil *)
| ENot (e : expr)                   (* !e *)
| EIsNil (x : string)               (* x == nil, x the receiver "r" or a pointer field path "r.f" (heap place) *)
| EDeref (x : string) (fs : list string)  (* *x, x a heap place pointing to a struct with fields fs: its value now *)
| EErr (s : string)                 (* errors.New("s") *)
| EOpaque (s : string)              (* call of an opaque pure callee (source text s): a fixed unknown value *)
| EExtern (f : string) (args : list expr) (* external call: recorded as an effect, result = oracle value *)
| EStr (s : list N)                 (* string constant *)
| EPrim (p : string) (args : list expr)   (* interpreted primitive, e.g. "strings.Split" (GoLite.prim_eval) *)
| ETuple (l : list expr)            (* the operands of a multi-value return *)
| ENew (fs : list (string * expr))  (* &T{...}: a fresh object, every field of T with its initial value *)
| EUnsupported (s : string).

Inductive stmt :=
| SSet (x : string) (e : expr)                 (* x = e, x := e *)
| SSetIdx (x : string) (i e : expr)            (* x[i] = e *)
| SInc (x : string) (w : Z)                    (* x++ on a signed integer of w bits *)
| SCond (c : expr) (t e : list stmt)
| SWhile (c : expr) (b : list stmt)            (* for c { b } *)
| SRange (x : string) (e : expr) (b : list stmt)  (* for _, x := range e { b } *)
| SRet (e : option expr)
| SAddTo (x : string) (w : Z) (e : expr)        (* x += e on a signed integer of w bits *)
| SCallM (f : string) (args : list expr)       (* r.f(args) : another translated method, same receiver *)
| SRetCallM (f : string) (args : list expr)    (* return r.f(args) / return f(args) *)
| SCallOn (x f : string) (args : list expr)    (* x.f(args): x a local holding a fresh object, f a translated method *)
| SLock (m : string)
| SUnlock (m : string)
| SDeferUnlock (m : string)
| SUnsupported (s : string).

Record gfun := mkGfun { gf_recv : string; gf_params : list string; gf_body : list stmt }.
