(* reconnect_backoff.go: fireOnce cells and CancellableTimer, with a logical clock.
   [tstate] is what one goroutine at a time sees (every operation takes the mutex for its swap/get); time.AfterFunc is
   an armed (cell, due time) pair that fires its cell when the clock reaches it.  Also the arithmetic of StartRandom.
   Definitions only (proofs in Proofs/TimerProofs.v). *)
From FMP Require Import Base.Bytes.
Open Scope Z_scope.

Record cell := mkCell { c_id : Z; c_fired : bool }.

Record tmstate := mkTm {
  cells : list cell;
  current : option Z;             (* b.fo : the current cell (None = zero value, no timer) *)
  armed : list (Z * Z);           (* time.AfterFunc: (cell id, due time) *)
  now : Z;
  next_cell : Z
}.

Definition tm0 : tmstate := mkTm [] None [] 0 0.

Fixpoint cfind (i : Z) (l : list cell) : option cell :=
  match l with [] => None | c :: r => if c_id c =? i then Some c else cfind i r end.
Definition cfire (i : Z) (l : list cell) : list cell :=
  map (fun c => if c_id c =? i then mkCell (c_id c) true else c) l.
Definition fire_opt (o : option Z) (l : list cell) : list cell := match o with Some i => cfire i l | None => l end.
Definition is_fired (st : tmstate) (i : Z) : bool := match cfind i (cells st) with Some c => c_fired c | None => true end.

(* let the clock reach t: every armed timer that is due fires its cell *)
Definition advance (t : Z) (st : tmstate) : tmstate :=
  let t' := Z.max t (now st) in
  let due := filter (fun p => snd p <=? t') (armed st) in
  mkTm (fold_left (fun l p => cfire (fst p) l) due (cells st)) (current st)
       (filter (fun p => negb (snd p <=? t')) (armed st)) t' (next_cell st).

Inductive tmop :=
| TmStart (d : Z)          (* StartConstant(d) / StartRandom returning d *)
| TmFireNow
| TmWait
| TmSleep (d : Z).         (* the caller lets time pass *)

(* sequential semantics: new state and, for Wait, the time at which it returns *)
Definition start (d : Z) (st : tmstate) : tmstate :=
  let f := next_cell st in
  mkTm (fire_opt (current st) (mkCell f false :: cells st)) (Some f) ((f, now st + Z.max d 0) :: armed st) (now st) (f + 1).

Definition fire_now (st : tmstate) : tmstate :=
  mkTm (fire_opt (current st) (cells st)) None (armed st) (now st) (next_cell st).

(* Wait with nobody else around: it blocks on the current cell until that fires, i.e. until its armed due time *)
Definition wait (st : tmstate) : tmstate :=
  match current st with
  | None => st
  | Some i =>
      if is_fired st i then st
      else match filter (fun p => fst p =? i) (armed st) with
           | (_, due) :: _ => advance due st
           | [] => st      (* unfired and not armed: would block for ever; excluded by tm_inv *)
           end
  end.

Definition tmstep (st : tmstate) (o : tmop) : tmstate :=
  match o with
  | TmStart d => start d st
  | TmFireNow => fire_now st
  | TmWait => wait st
  | TmSleep d => advance (now st + Z.max d 0) st
  end.

Fixpoint tmrun (st : tmstate) (ops : list tmop) : tmstate :=
  match ops with [] => st | o :: r => tmrun (tmstep st o) r end.

(* times at which the Waits of a script return *)
Fixpoint wait_times (st : tmstate) (ops : list tmop) : list Z :=
  match ops with
  | [] => []
  | TmWait :: r => let st' := wait st in now st' :: wait_times st' r
  | o :: r => wait_times (tmstep st o) r
  end.

(* every unfired current cell is armed (so a Wait on it is eventually released) *)
Definition tm_inv (st : tmstate) : Prop :=
  match current st with
  | None => True
  | Some i => is_fired st i = true \/ exists due, In (i, due) (armed st) /\ now st <= due
  end.

(* ---------- StartRandom: a 63-bit random number modulo the window ---------- *)
Definition random_delay (rnd : Z) (window : Z) : Z :=
  if window =? 0 then 0 else (rnd mod 9223372036854775808) mod window.
