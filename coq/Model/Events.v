(* Abstract observation events shared by the transport LTS models, the property predicates (Props.v) and the
   OCaml glue that abstracts the Go harness' event log.  Definitions only. *)
From FMP Require Import Base.Bytes.
Open Scope Z_scope.

Inductive fkind := KCall | KCallC | KResp | KNotify | KCancel | KBad.

Definition fkind_eqb (a b : fkind) : bool :=
  match a, b with
  | KCall, KCall | KCallC, KCallC | KResp, KResp | KNotify, KNotify | KCancel, KCancel | KBad, KBad => true
  | _, _ => false
  end.

(* what one Write handed to the connection looks like to a receiver configured with the same maximum *)
Record frame_info := mkFI {
  fi_kind : fkind;
  fi_seq : Z;          (* -1 for notifications *)
  fi_nonce : Z;        (* the harness' per-operation nonce found in the argument/result, -1 if none *)
  fi_ok : bool         (* exactly one complete frame, valid prefix, 0 < length <= max *)
}.

Inductive rclass := ROk | RAppErr | REof | RCtx | RTooBig | RWriteErr | ROther.

Definition rclass_eqb (a b : rclass) : bool :=
  match a, b with
  | ROk, ROk | RAppErr, RAppErr | REof, REof | RCtx, RCtx | RTooBig, RTooBig | RWriteErr, RWriteErr | ROther, ROther => true
  | _, _ => false
  end.

Inductive aev :=
| AStart (c : Z)                    (* API operation with nonce c begins (Call / CallCompressed / Notify) *)
| ANotifier (seq : Z)               (* the SendNotifier callback ran, with this seqno (-1 for notifications) *)
| AWrite (fi : frame_info)          (* one successful Write call on the connection *)
| AWriteFail (fi : frame_info)      (* one Write call that returned an error (possibly after a partial write) *)
| ARet (c : Z) (r : rclass)         (* API operation c returned *)
| ACtx (c : Z)                      (* the context of operation c ended (cancel or deadline) *)
| AFeed (fi : frame_info) (known : bool)   (* the peer's frame reached the transport; known = method registered / call pending *)
| AHStart (h : Z) (fi : frame_info) (* handler invocation h starts for the request described by fi *)
| AHCtx (h : Z)                     (* the context of handler h was observed cancelled *)
| AHRet (h : Z)                     (* handler h returned *)
| ACloseBegin
| ACloseEnd
| AConnClose
| ADone                             (* the transport's done channel was observed closed *)
| AReadErr                          (* the connection's read side ended (EOF / error injected by the peer) *)
| ASample (pending goroutines : Z) (done connected errnil : bool)
| AObserve (done connected : bool) (err : Z)
                                    (* the three lifecycle accessors read together: Done() closed?, IsConnected()?, and the
                                       class of Err() (0 = nil) *)
| AWatchViolation
| AResult (c r : Z)                 (* call c returned successfully and its result buffer holds the value with nonce r *)
| ABuf (c : Z) (same : bool)        (* re-read after the receive path has drained: does the result buffer of the returned
                                       call c still hold what it held when the call returned? *)
| ARecord (k : fkind) (nonce size : Z).
                                    (* an instrumentation record was stored: message kind from its tag, the operation it
                                       belongs to (matched through its method), its Size field *)                  (* a concurrent sampler saw Done() closed with Err() == nil or IsConnected() == true *)
                                    (* a snapshot at quiescence: size of the pending-call table, goroutines of the library
                                       still alive, Done() closed?, IsConnected()?, Err() == nil? *)

Definition is_write (e : aev) : bool := match e with AWrite _ => true | _ => false end.
