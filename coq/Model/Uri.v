(* rpc/fmp_uri.go : ParseFMPURI over a grammar zone of net/url.  Definitions only. *)
From FMP Require Import Base.Bytes Model.Remote Model.Generated.
Open Scope N_scope.

Definition is_lower (b : N) := (97 <=? b) && (b <=? 122).
Definition is_upper (b : N) := (65 <=? b) && (b <=? 90).
Definition is_alpha (b : N) := is_lower b || is_upper b.
Definition is_digit (b : N) := (48 <=? b) && (b <=? 57).
Definition colon : N := 58.
Definition slash : N := 47.

(* scheme = ALPHA *( ALPHA / DIGIT / "+" / "-" / "." ) *)
Definition is_scheme_char (b : N) := is_alpha b || is_digit b || (b =? 43) || (b =? 45) || (b =? 46).
(* zone of the authority: reg-name letters, digits, '.', '-', and ':' *)
Definition is_host_char (b : N) := is_alpha b || is_digit b || (b =? 45) || (b =? 46).
Definition is_auth_char (b : N) := is_host_char b || (b =? colon).
Definition is_path_char (b : N) := is_host_char b || (b =? slash) || (b =? 95).

(* longest prefix satisfying p *)
Fixpoint span (p : N -> bool) (s : bytes) : bytes * bytes :=
  match s with
  | b :: r => if p b then let (a, c) := span p r in (b :: a, c) else ([], s)
  | [] => ([], [])
  end.

Inductive uri_result :=
| UOk (scheme hostport host : bytes)
| URej
| UUnspec.   (* outside the modelled zone of net/url: only the property predicate applies *)

(* split at the last colon: (before, after) ; None if no colon *)
Fixpoint split_last_colon (s : bytes) : option (bytes * bytes) :=
  match s with
  | [] => None
  | b :: r =>
      match split_last_colon r with
      | Some (h, p) => Some (b :: h, p)
      | None => if b =? colon then Some ([], r) else None
      end
  end.

Definition count_colons (s : bytes) : nat := length (filter (fun b => b =? colon) s).

Definition scheme_ok (sch : bytes) : bool :=
  bytes_eqb sch scheme_standard || bytes_eqb sch scheme_tls.

Definition parse_uri (s : bytes) : uri_result :=
  match s with
  | [] => UUnspec
  | c0 :: _ =>
      if negb (is_alpha c0) then UUnspec else
      let (sch, after) := span is_scheme_char s in
      match after with
      | 58 :: 47 :: 47 :: rest =>
          let (auth, path) := span is_auth_char rest in
          let path_ok := match path with
                         | [] => true
                         | p0 :: pr => (p0 =? slash) && forallb is_path_char pr
                         end in
          if negb path_ok then UUnspec else
          let sch' := map lower_b sch in
          (* net/url parseHost: what follows the last colon must be digits *)
          match split_last_colon auth with
          | None =>
              (* net.SplitHostPort: missing port in address (whatever the scheme) *)
              URej
          | Some (h, p) =>
              if negb (forallb is_digit p) then URej      (* url.Parse: invalid port *)
              else if negb (scheme_ok sch') then URej
              else if Nat.ltb 1 (count_colons auth) then URej  (* too many colons *)
              else match h with
                   | [] => URej                            (* missing host *)
                   | _ => UOk sch' auth h
                   end
          end
      | _ => UUnspec
      end
  end.

Definition use_tls (sch : bytes) : bool := bytes_eqb sch scheme_tls.

(* FMPURI.String() *)
Definition uri_string (sch hostport : bytes) : bytes := sch ++ [58; 47; 47] ++ hostport.

(* property predicate on an implementation observation, valid for ANY input string:
   accepted => whitelisted scheme, a port separator, non-empty host, TLS iff +tls,
   and String() parses back to the same triple. *)
Record uri_obs := mkUriObs {
  uo_ok : bool; uo_scheme : bytes; uo_hostport : bytes; uo_host : bytes; uo_tls : bool;
  uo_str : bytes;                       (* String() of the parsed value *)
  uo_ok2 : bool; uo_scheme2 : bytes; uo_hostport2 : bytes; uo_host2 : bytes  (* ParseFMPURI(String()) *)
}.

(* what the property asks of String(): it parses back to an equal value.  How it is spelled is not part of the property
   (inside the modelled zone the glue still compares it with [uri_string]; outside it net/url escapes what it unescaped, e.g.
   the zone of an IPv6 literal) *)
Definition uri_pred (o : uri_obs) : bool :=
  if uo_ok o then
    scheme_ok (uo_scheme o)
    && Nat.leb 1 (count_colons (uo_hostport o))
    && nonempty (uo_host o)
    && Bool.eqb (uo_tls o) (use_tls (uo_scheme o))
    && uo_ok2 o
    && bytes_eqb (uo_scheme2 o) (uo_scheme o)
    && bytes_eqb (uo_hostport2 o) (uo_hostport o)
    && bytes_eqb (uo_host2 o) (uo_host o)
  else true.
