(* The send side of one transport as a labelled transition system:
   codec.go (encodeFrame, encodeAndWriteInternal, EncodeAndWriteAsync, writerLoop) and the sending part of
   dispatch.go (Call / Notify up to and including their waits, handleCancel).
   One label = one atomic step of one goroutine; the history of observable events is part of the state.
   The select arms come from the regenerated blocking census through Skeleton.v.  Definitions only. *)
From FMP Require Import Base.Bytes Base.Lts Model.Events Model.Skeleton.
Open Scope Z_scope.

Inductive skind := SCall | SNotify | SReply | SCancelFrame.

Inductive spc :=
| PNew                      (* not started *)
| PEnc                      (* started: about to encode and check the size *)
| PSelect                   (* encodeAndWriteInternal's select: done / ctx / hand-off *)
| PAsyncSelect              (* EncodeAndWriteAsync's spawned goroutine: done / hand-off *)
| PWait1                    (* waiting for the writer's verdict (errCh / ctx / stop) *)
| PWait2                    (* Call only: waiting for the reply (resultCh / ctx / stop) *)
| PCancel                   (* Call only: in handleCancel, about to queue the cancel frame *)
| PRet (r : rclass).        (* returned *)

Inductive werr := WOk | WTooBig | WEof | WCtx | WFail.

Record sender := mkSender {
  s_nonce : Z;
  s_kind : skind;
  s_seq : Z;                 (* -1 for notifications; the call's seqno for calls, replies and cancel frames *)
  s_size_ok : bool;          (* encoded content fits the maximum frame length *)
  s_notifier : bool;         (* a SendNotifier is attached (calls and notifications of a client that has one) *)
  s_pc : spc;
  s_ctx : bool;              (* its context has ended *)
  s_errch : option werr;     (* the capacity-1 channel the writer answers on *)
  s_reply : bool;            (* resultCh holds the reply *)
  s_handed : bool            (* its bundle was accepted by the writer *)
}.

Inductive wphase := WGot | WNotified.

Record wstate := mkW {
  senders : list sender;
  writer : option (Z * wphase);   (* nonce of the bundle the writer holds *)
  writer_alive : bool;
  done_closed : bool;             (* encoder doneCh *)
  stop_closed : bool;             (* dispatch stopCh *)
  conn_ok : bool;                 (* Write succeeds *)
  next_seq : Z;
  hist : list aev                 (* most recent first *)
}.

Definition init (ss : list sender) : wstate := mkW ss None true false false true 0 [].

Fixpoint find (c : Z) (l : list sender) : option sender :=
  match l with
  | [] => None
  | s :: r => if s_nonce s =? c then Some s else find c r
  end.

Fixpoint update (c : Z) (f : sender -> sender) (l : list sender) : list sender :=
  match l with
  | [] => []
  | s :: r => if s_nonce s =? c then f s :: r else s :: update c f r
  end.

Definition set_pc (p : spc) (s : sender) : sender :=
  mkSender (s_nonce s) (s_kind s) (s_seq s) (s_size_ok s) (s_notifier s) p (s_ctx s) (s_errch s) (s_reply s) (s_handed s).
Definition set_err (e : option werr) (s : sender) : sender :=
  mkSender (s_nonce s) (s_kind s) (s_seq s) (s_size_ok s) (s_notifier s) (s_pc s) (s_ctx s) e (s_reply s) (s_handed s).
Definition set_ctx (s : sender) : sender :=
  mkSender (s_nonce s) (s_kind s) (s_seq s) (s_size_ok s) (s_notifier s) (s_pc s) true (s_errch s) (s_reply s) (s_handed s).
Definition set_reply (s : sender) : sender :=
  mkSender (s_nonce s) (s_kind s) (s_seq s) (s_size_ok s) (s_notifier s) (s_pc s) (s_ctx s) (s_errch s) true (s_handed s).
Definition set_seq (q : Z) (s : sender) : sender :=
  mkSender (s_nonce s) (s_kind s) q (s_size_ok s) (s_notifier s) (s_pc s) (s_ctx s) (s_errch s) (s_reply s) (s_handed s).
Definition set_handed (s : sender) : sender :=
  mkSender (s_nonce s) (s_kind s) (s_seq s) (s_size_ok s) (s_notifier s) (s_pc s) (s_ctx s) (s_errch s) (s_reply s) true.

Definition upd (st : wstate) (ss : list sender) (w : option (Z * wphase)) (h : list aev) : wstate :=
  mkW ss w (writer_alive st) (done_closed st) (stop_closed st) (conn_ok st) (next_seq st) h.

Definition kind_of (k : skind) : fkind :=
  match k with SCall => KCall | SNotify => KNotify | SReply => KResp | SCancelFrame => KCancel end.

Definition info (s : sender) : frame_info := mkFI (kind_of (s_kind s)) (s_seq s) (s_nonce s) true.

(* the nonce under which the cancel frame of call c is filed (a fresh sender appended by handleCancel) *)
Definition cancel_nonce (c : Z) : Z := - c - 1000000.

Definition rclass_of (e : werr) : rclass :=
  match e with WOk => ROk | WTooBig => RTooBig | WEof => REof | WCtx => RCtx | WFail => RWriteErr end.

Inductive label :=
| LStart (c : Z)            (* API entry; a call takes its seqno here (under the seqno mutex) *)
| LEncode (c : Z)           (* encodeFrame + size check *)
| LHandoff (c : Z)          (* the unbuffered rendezvous with the writer *)
| LAbandonDone (c : Z)      (* select arm: encoder done *)
| LAbandonCtx (c : Z)       (* select arm: sender's context *)
| LRecvVerdict (c : Z)      (* wait 1: errCh arm *)
| LWaitCtx (c : Z)          (* wait 1 or 2: context arm *)
| LWaitStop (c : Z)         (* wait 1 or 2: stop arm *)
| LRecvReply (c : Z)        (* wait 2: resultCh arm *)
| LQueueCancel (c : Z)      (* handleCancel: EncodeAndWriteAsync, then Call returns the context's error *)
| LWriterNotify             (* writer: call the send notifier (if any) *)
| LWriterWrite              (* writer: one Write, then answer on the bundle's channel *)
| LWriterExit               (* writer: done arm *)
| LCtxDone (c : Z)          (* environment: the sender's context ends *)
| LDeliver (c : Z)          (* environment: the reply of call c is put on its resultCh *)
| LCloseEncoder             (* Close: close(doneCh) *)
| LStop                     (* Close: close(dispatch stopCh) *)
| LConnFail.                (* environment: from now on Write fails *)

Definition step (sk : skeleton) (st : wstate) (l : label) : option wstate :=
  match l with
  | LStart c =>
      match find c (senders st) with
      | Some s =>
          match s_pc s, s_kind s with
          | PNew, SCall =>
              let ss := update c (fun s => set_pc PEnc (set_seq (next_seq st) s)) (senders st) in
              Some (mkW ss (writer st) (writer_alive st) (done_closed st) (stop_closed st) (conn_ok st)
                        (next_seq st + 1) (AStart c :: hist st))
          | PNew, SNotify | PNew, SReply =>
              Some (upd st (update c (set_pc PEnc) (senders st)) (writer st) (AStart c :: hist st))
          | _, _ => None
          end
      | None => None
      end
  | LEncode c =>
      match find c (senders st) with
      | Some s =>
          match s_pc s with
          | PEnc =>
              if s_size_ok s then Some (upd st (update c (set_pc PSelect) (senders st)) (writer st) (hist st))
              else Some (upd st (update c (fun s => set_pc PWait1 (set_err (Some WTooBig) s)) (senders st)) (writer st) (hist st))
          | _ => None
          end
      | None => None
      end
  | LHandoff c =>
      match find c (senders st), writer st with
      | Some s, None =>
          if writer_alive st then
            match s_pc s with
            | PSelect =>
                Some (upd st (update c (fun s => set_pc PWait1 (set_handed s)) (senders st)) (Some (c, WGot)) (hist st))
            | PAsyncSelect =>
                Some (upd st (update c (fun s => set_pc (PRet ROk) (set_handed s)) (senders st)) (Some (c, WGot)) (hist st))
            | _ => None
            end
          else None
      | _, _ => None
      end
  | LAbandonDone c =>
      match find c (senders st) with
      | Some s =>
          if done_closed st then
            match s_pc s with
            | PSelect => if sk_handoff_has_done sk
                         then Some (upd st (update c (fun s => set_pc PWait1 (set_err (Some WEof) s)) (senders st)) (writer st) (hist st))
                         else None
            | PAsyncSelect => if sk_async_has_done sk
                              then Some (upd st (update c (set_pc (PRet REof)) (senders st)) (writer st) (hist st))
                              else None
            | _ => None
            end
          else None
      | None => None
      end
  | LAbandonCtx c =>
      match find c (senders st) with
      | Some s =>
          match s_pc s with
          | PSelect => if s_ctx s && sk_handoff_has_ctx sk
                       then Some (upd st (update c (fun s => set_pc PWait1 (set_err (Some WCtx) s)) (senders st)) (writer st) (hist st))
                       else None
          | _ => None
          end
      | None => None
      end
  | LRecvVerdict c =>
      match find c (senders st) with
      | Some s =>
          match s_pc s, s_errch s with
          | PWait1, Some WOk =>
              match s_kind s with
              | SCall => Some (upd st (update c (fun s => set_pc PWait2 (set_err None s)) (senders st)) (writer st) (hist st))
              | _ => Some (upd st (update c (fun s => set_pc (PRet ROk) (set_err None s)) (senders st)) (writer st) (ARet c ROk :: hist st))
              end
          | PWait1, Some e =>
              Some (upd st (update c (fun s => set_pc (PRet (rclass_of e)) (set_err None s)) (senders st)) (writer st)
                        (ARet c (rclass_of e) :: hist st))
          | _, _ => None
          end
      | None => None
      end
  | LWaitCtx c =>
      match find c (senders st) with
      | Some s =>
          if s_ctx s then
            match s_pc s, s_kind s with
            | PWait1, SCall => if sk_call_wait1_has_ctx sk then Some (upd st (update c (set_pc PCancel) (senders st)) (writer st) (hist st)) else None
            | PWait2, SCall => if sk_call_wait2_has_ctx sk then Some (upd st (update c (set_pc PCancel) (senders st)) (writer st) (hist st)) else None
            | PWait1, SNotify => if sk_notify_wait_has_ctx sk
                                 then Some (upd st (update c (set_pc (PRet RCtx)) (senders st)) (writer st) (ARet c RCtx :: hist st)) else None
            | PWait1, SReply => if sk_reply_wait_has_ctx sk
                                then Some (upd st (update c (set_pc (PRet RCtx)) (senders st)) (writer st) (ARet c RCtx :: hist st)) else None
            | _, _ => None
            end
          else None
      | None => None
      end
  | LWaitStop c =>
      match find c (senders st) with
      | Some s =>
          if stop_closed st then
            match s_pc s, s_kind s with
            | PWait1, SCall => if sk_call_wait1_has_stop sk
                               then Some (upd st (update c (set_pc (PRet REof)) (senders st)) (writer st) (ARet c REof :: hist st)) else None
            | PWait2, SCall => if sk_call_wait2_has_stop sk
                               then Some (upd st (update c (set_pc (PRet REof)) (senders st)) (writer st) (ARet c REof :: hist st)) else None
            | PWait1, SNotify => if sk_notify_wait_has_stop sk
                                 then Some (upd st (update c (set_pc (PRet REof)) (senders st)) (writer st) (ARet c REof :: hist st)) else None
            | _, _ => None
            end
          else None
      | None => None
      end
  | LRecvReply c =>
      match find c (senders st) with
      | Some s =>
          match s_pc s with
          | PWait2 => if s_reply s
                      then Some (upd st (update c (set_pc (PRet ROk)) (senders st)) (writer st) (ARet c ROk :: hist st))
                      else None
          | _ => None
          end
      | None => None
      end
  | LQueueCancel c =>
      match find c (senders st) with
      | Some s =>
          match s_pc s with
          | PCancel =>
              (* EncodeAndWriteAsync: a select over done / hand-off with a default that spawns a goroutine with the
                 same two arms: in both cases the cancel frame is a new sender sitting at that select *)
              let cs := mkSender (cancel_nonce c) SCancelFrame (s_seq s) true false PAsyncSelect false None false false in
              let ss := update c (set_pc (PRet RCtx)) (senders st) in
              Some (upd st (ss ++ [cs]) (writer st) (ARet c RCtx :: hist st))
          | _ => None
          end
      | None => None
      end
  | LWriterNotify =>
      match writer st with
      | Some (c, WGot) =>
          match find c (senders st) with
          | Some s =>
              Some (upd st (senders st) (Some (c, WNotified))
                        (if s_notifier s then ANotifier (s_seq s) :: hist st else hist st))
          | None => None
          end
      | _ => None
      end
  | LWriterWrite =>
      match writer st with
      | Some (c, WNotified) =>
          match find c (senders st) with
          | Some s =>
              if conn_ok st
              then Some (upd st (update c (set_err (Some WOk)) (senders st)) None (AWrite (info s) :: hist st))
              else Some (upd st (update c (set_err (Some WFail)) (senders st)) None (AWriteFail (info s) :: hist st))
          | None => None
          end
      | _ => None
      end
  | LWriterExit =>
      match writer st with
      | None => if done_closed st && writer_alive st
                then Some (mkW (senders st) None false (done_closed st) (stop_closed st) (conn_ok st) (next_seq st) (hist st))
                else None
      | _ => None
      end
  | LCtxDone c =>
      match find c (senders st) with
      | Some s => if s_ctx s then None
                  else Some (upd st (update c set_ctx (senders st)) (writer st) (ACtx c :: hist st))
      | None => None
      end
  | LDeliver c =>
      match find c (senders st) with
      | Some s => match s_kind s with
                  | SCall => if s_reply s then None else Some (upd st (update c set_reply (senders st)) (writer st) (hist st))
                  | _ => None
                  end
      | None => None
      end
  | LCloseEncoder =>
      if done_closed st then None
      else Some (mkW (senders st) (writer st) (writer_alive st) true (stop_closed st) (conn_ok st) (next_seq st) (hist st))
  | LStop =>
      if stop_closed st then None
      else Some (mkW (senders st) (writer st) (writer_alive st) (done_closed st) true (conn_ok st) (next_seq st) (hist st))
  | LConnFail =>
      Some (mkW (senders st) (writer st) (writer_alive st) (done_closed st) (stop_closed st) false (next_seq st) (hist st))
  end.

(* the observable trace, oldest first *)
Definition trace (st : wstate) : list aev := rev (hist st).

(* a fresh population of senders: distinct nonnegative nonces, nothing started *)
Definition fresh_sender (c : Z) (k : skind) (size_ok notifier : bool) : sender :=
  mkSender c k (-1) size_ok notifier PNew false None false false.

Fixpoint nonces_ok (l : list sender) : bool :=
  match l with
  | [] => true
  | s :: r => (0 <=? s_nonce s) && negb (existsb (fun t => s_nonce t =? s_nonce s) r) && nonces_ok r
  end.

Definition fresh_ok (l : list sender) : bool :=
  nonces_ok l &&
  forallb (fun s => match s_pc s, s_kind s with
                    | PNew, SCall | PNew, SNotify | PNew, SReply => negb (s_ctx s) && negb (s_handed s) && negb (s_reply s)
                                                                     && match s_errch s with None => true | _ => false end
                    | _, _ => false
                    end) l.
