(* the two facts Model/Tags.v takes from the regenerated order census *)
From FMP Require Import Model.GenTypes Model.Generated Model.Skeleton Model.Tags.
Open Scope string_scope.

Definition tcfg_now : tcfg :=
  mkTcfg (existsb (is_call "make") (calls_of "TagsFromContext"))
         (existsb (is_call "TagsFromContext") (calls_of "AddRPCTagsToContext") &&
          existsb (is_call "make") (calls_of "TagsFromContext")).

Definition expected_tcfg : tcfg := mkTcfg true true.
