(* The msgpack data model as keybase/go-codec (WriteExt, RawToString) writes and reads it.
   Definitions only.  Integers are unbounded Z restricted by [wf_val] to the int64/uint64 union. *)
From FMP Require Import Base.Bytes.
Open Scope N_scope.

Inductive mval :=
| VNil
| VBool (b : bool)
| VInt (z : Z)                (* -2^63 <= z < 2^64 *)
| VStr (s : bytes)
| VBin (s : bytes)
| VF64 (bits : N)             (* IEEE-754 double as its 64 bits; never interpreted *)
| VArr (l : list mval)
| VMap (l : list (mval * mval)).

Definition two32 : N := 4294967296.
Definition two64z : Z := 18446744073709551616%Z.
Definition two63z : Z := 9223372036854775808%Z.

(* ---------- canonical encoder (what go-codec emits) ---------- *)
Definition enc_uint (n : N) : bytes :=
  if n <=? 127 then [n]
  else if n <=? 255 then [0xcc; n]
  else if n <=? 65535 then 0xcd :: be_bytes 2 n
  else if n <? two32 then 0xce :: be_bytes 4 n
  else 0xcf :: be_bytes 8 n.

(* two's complement of a negative z on w bytes *)
Definition twos (w : nat) (z : Z) : N := Z.to_N (z + Z.of_N (256 ^ N.of_nat w)).

Definition enc_int (z : Z) : bytes :=
  if (0 <=? z)%Z then enc_uint (Z.to_N z)
  else if (-32 <=? z)%Z then [twos 1 z]
  else if (-128 <=? z)%Z then [0xd0; twos 1 z]
  else if (-32768 <=? z)%Z then 0xd1 :: be_bytes 2 (twos 2 z)
  else if (-2147483648 <=? z)%Z then 0xd2 :: be_bytes 4 (twos 4 z)
  else 0xd3 :: be_bytes 8 (twos 8 z).

Definition enc_str_hdr (n : N) : bytes :=
  if n <? 32 then [0xa0 + n]
  else if n <? 256 then [0xd9; n]
  else if n <? 65536 then 0xda :: be_bytes 2 n
  else 0xdb :: be_bytes 4 n.

Definition enc_bin_hdr (n : N) : bytes :=
  if n <? 256 then [0xc4; n]
  else if n <? 65536 then 0xc5 :: be_bytes 2 n
  else 0xc6 :: be_bytes 4 n.

Definition enc_arr_hdr (n : N) : bytes :=
  if n <? 16 then [0x90 + n]
  else if n <? 65536 then 0xdc :: be_bytes 2 n
  else 0xdd :: be_bytes 4 n.

Definition enc_map_hdr (n : N) : bytes :=
  if n <? 16 then [0x80 + n]
  else if n <? 65536 then 0xde :: be_bytes 2 n
  else 0xdf :: be_bytes 4 n.

Fixpoint enc (v : mval) : bytes :=
  match v with
  | VNil => [0xc0]
  | VBool false => [0xc2]
  | VBool true => [0xc3]
  | VInt z => enc_int z
  | VStr s => enc_str_hdr (len s) ++ s
  | VBin s => enc_bin_hdr (len s) ++ s
  | VF64 b => 0xcb :: be_bytes 8 b
  | VArr l => enc_arr_hdr (len l) ++ flat_map enc l
  | VMap l => enc_map_hdr (len l) ++ flat_map (fun kv => enc (fst kv) ++ enc (snd kv)) l
  end.

(* ---------- every legal encoding, realised by a list of choices ---------- *)
(* A choice list is consumed left to right, one entry per header written.  Entry k selects the
   (k mod #options)-th among the formats wide enough for the value. *)
Definition pick {A} (k : nat) (opts : list A) (d : A) : A := nth (k mod (Nat.max 1 (length opts))) opts d.

Definition int_opts (z : Z) : list bytes :=
  let u := Z.to_N z in
  (if ((0 <=? z) && (z <=? 127))%Z then [[u]] else [])
  ++ (if ((-32 <=? z) && (z <? 0))%Z then [[twos 1 z]] else [])
  ++ (if ((0 <=? z) && (z <=? 255))%Z then [[0xcc; u]] else [])
  ++ (if ((0 <=? z) && (z <=? 65535))%Z then [0xcd :: be_bytes 2 u] else [])
  ++ (if ((0 <=? z) && (z <? 4294967296))%Z then [0xce :: be_bytes 4 u] else [])
  ++ (if ((0 <=? z) && (z <? two64z))%Z then [0xcf :: be_bytes 8 u] else [])
  ++ (if ((-128 <=? z) && (z <=? 127))%Z then [[0xd0; if (z <? 0)%Z then twos 1 z else u]] else [])
  ++ (if ((-32768 <=? z) && (z <=? 32767))%Z then [0xd1 :: be_bytes 2 (if (z <? 0)%Z then twos 2 z else u)] else [])
  ++ (if ((-2147483648 <=? z) && (z <=? 2147483647))%Z then [0xd2 :: be_bytes 4 (if (z <? 0)%Z then twos 4 z else u)] else [])
  ++ (if ((- two63z <=? z) && (z <? two63z))%Z then [0xd3 :: be_bytes 8 (if (z <? 0)%Z then twos 8 z else u)] else []).

Definition str_hdr_opts (n : N) : list bytes :=
  (if n <? 32 then [[0xa0 + n]] else [])
  ++ (if n <? 256 then [[0xd9; n]] else [])
  ++ (if n <? 65536 then [0xda :: be_bytes 2 n] else [])
  ++ (if n <? two32 then [0xdb :: be_bytes 4 n] else []).

Definition bin_hdr_opts (n : N) : list bytes :=
  (if n <? 256 then [[0xc4; n]] else [])
  ++ (if n <? 65536 then [0xc5 :: be_bytes 2 n] else [])
  ++ (if n <? two32 then [0xc6 :: be_bytes 4 n] else []).

Definition arr_hdr_opts (n : N) : list bytes :=
  (if n <? 16 then [[0x90 + n]] else [])
  ++ (if n <? 65536 then [0xdc :: be_bytes 2 n] else [])
  ++ (if n <? two32 then [0xdd :: be_bytes 4 n] else []).

Definition map_hdr_opts (n : N) : list bytes :=
  (if n <? 16 then [[0x80 + n]] else [])
  ++ (if n <? 65536 then [0xde :: be_bytes 2 n] else [])
  ++ (if n <? two32 then [0xdf :: be_bytes 4 n] else []).

Definition take_choice (ch : list nat) : nat * list nat :=
  match ch with [] => (O, []) | k :: r => (k, r) end.

Fixpoint enc_alt (ch : list nat) (v : mval) : bytes * list nat :=
  match v with
  | VNil => ([0xc0], ch)
  | VBool false => ([0xc2], ch)
  | VBool true => ([0xc3], ch)
  | VF64 b => (0xcb :: be_bytes 8 b, ch)
  | VInt z => let (k, ch') := take_choice ch in (pick k (int_opts z) (enc_int z), ch')
  | VStr s => let (k, ch') := take_choice ch in (pick k (str_hdr_opts (len s)) (enc_str_hdr (len s)) ++ s, ch')
  | VBin s => let (k, ch') := take_choice ch in (pick k (bin_hdr_opts (len s)) (enc_bin_hdr (len s)) ++ s, ch')
  | VArr l =>
      let (k, ch') := take_choice ch in
      let hdr := pick k (arr_hdr_opts (len l)) (enc_arr_hdr (len l)) in
      let fix go (l : list mval) (ch : list nat) : bytes * list nat :=
          match l with
          | [] => ([], ch)
          | x :: r => let (bx, ch1) := enc_alt ch x in
                      let (br, ch2) := go r ch1 in (bx ++ br, ch2)
          end in
      let (body, ch'') := go l ch' in (hdr ++ body, ch'')
  | VMap l =>
      let (k, ch') := take_choice ch in
      let hdr := pick k (map_hdr_opts (len l)) (enc_map_hdr (len l)) in
      let fix go (l : list (mval * mval)) (ch : list nat) : bytes * list nat :=
          match l with
          | [] => ([], ch)
          | (a, b) :: r => let (ba, ch1) := enc_alt ch a in
                           let (bb, ch2) := enc_alt ch1 b in
                           let (br, ch3) := go r ch2 in (ba ++ bb ++ br, ch3)
          end in
      let (body, ch'') := go l ch' in (hdr ++ body, ch'')
  end.

(* ---------- well-formedness: what the Go value space can hold ---------- *)
Fixpoint wf_val (v : mval) : bool :=
  match v with
  | VNil | VBool _ => true
  | VInt z => ((- two63z <=? z) && (z <? two64z))%Z
  | VStr s | VBin s => bytes_ok s && (len s <? two32)
  | VF64 b => b <? 2 ^ 64
  | VArr l => (len l <? two32) && forallb wf_val l
  | VMap l => (len l <? two32) && forallb (fun kv => wf_val (fst kv) && wf_val (snd kv)) l
  end.

(* ---------- decoder into interface{} (DecodeNaked) ---------- *)
Inductive dres (A : Type) :=
| DOk (v : A) (rest : bytes)
| DShort                      (* input ended inside the value *)
| DBad (b : N)                (* a byte no rule accepts here (0xc1, or a type the target cannot take) *)
| DUnspec                     (* legal msgpack outside the modelled zone: ext, float32 *)
| DFuel.
Arguments DOk {A} v rest.
Arguments DShort {A}.
Arguments DBad {A} b.
Arguments DUnspec {A}.
Arguments DFuel {A}.

(* take n bytes (n as N, never converted to a large nat: walks the list) *)
Fixpoint take_n (bs : bytes) (n : N) (fuel : nat) : option (bytes * bytes) :=
  if n =? 0 then Some ([], bs) else
  match fuel, bs with
  | S f, b :: r => match take_n r (n - 1) f with
                   | Some (a, c) => Some (b :: a, c)
                   | None => None
                   end
  | _, _ => None
  end.

Definition take (bs : bytes) (n : N) : option (bytes * bytes) := take_n bs n (length bs).

Definition read_be (w : N) (bs : bytes) : option (N * bytes) :=
  match take bs w with Some (a, r) => Some (be_value a, r) | None => None end.

(* signed reading of a w-byte big-endian field *)
Definition signed (w : nat) (u : N) : Z :=
  if u <? 256 ^ N.of_nat w / 2 then Z.of_N u else (Z.of_N u - Z.of_N (256 ^ N.of_nat w))%Z.

Definition wrap_arr (d : dres (list mval)) : dres mval :=
  match d with
  | DOk l r => DOk (VArr l) r
  | DShort => DShort | DBad b => DBad b | DUnspec => DUnspec | DFuel => DFuel
  end.
Definition wrap_map (d : dres (list (mval * mval))) : dres mval :=
  match d with
  | DOk l r => DOk (VMap l) r
  | DShort => DShort | DBad b => DBad b | DUnspec => DUnspec | DFuel => DFuel
  end.

Fixpoint dec (fuel : nat) (bs : bytes) {struct fuel} : dres mval :=
  match fuel with
  | O => DFuel
  | S f =>
      match bs with
      | [] => DShort
      | b :: r =>
          if b <=? 0x7f then DOk (VInt (Z.of_N b)) r
          else if b <=? 0x8f then wrap_map (dec_pairs f (b - 0x80) r)
          else if b <=? 0x9f then wrap_arr (dec_seq f (b - 0x90) r)
          else if b <=? 0xbf then
            match take r (b - 0xa0) with Some (s, r') => DOk (VStr s) r' | None => DShort end
          else if b =? 0xc0 then DOk VNil r
          else if b =? 0xc1 then DBad b
          else if b =? 0xc2 then DOk (VBool false) r
          else if b =? 0xc3 then DOk (VBool true) r
          else if (b =? 0xc4) || (b =? 0xc5) || (b =? 0xc6) then
            match read_be (if b =? 0xc4 then 1 else if b =? 0xc5 then 2 else 4) r with
            | Some (n, r1) => match take r1 n with Some (s, r2) => DOk (VBin s) r2 | None => DShort end
            | None => DShort
            end
          else if (b =? 0xc7) || (b =? 0xc8) || (b =? 0xc9) || (b =? 0xca) then DUnspec
          else if b =? 0xcb then
            match read_be 8 r with Some (n, r1) => DOk (VF64 n) r1 | None => DShort end
          else if (b =? 0xcc) || (b =? 0xcd) || (b =? 0xce) || (b =? 0xcf) then
            match read_be (if b =? 0xcc then 1 else if b =? 0xcd then 2 else if b =? 0xce then 4 else 8) r with
            | Some (n, r1) => DOk (VInt (Z.of_N n)) r1
            | None => DShort
            end
          else if (b =? 0xd0) || (b =? 0xd1) || (b =? 0xd2) || (b =? 0xd3) then
            let w := if b =? 0xd0 then 1%nat else if b =? 0xd1 then 2%nat else if b =? 0xd2 then 4%nat else 8%nat in
            match read_be (N.of_nat w) r with
            | Some (n, r1) => DOk (VInt (signed w n)) r1
            | None => DShort
            end
          else if b <=? 0xd8 then DUnspec            (* fixext *)
          else if (b =? 0xd9) || (b =? 0xda) || (b =? 0xdb) then
            match read_be (if b =? 0xd9 then 1 else if b =? 0xda then 2 else 4) r with
            | Some (n, r1) => match take r1 n with Some (s, r2) => DOk (VStr s) r2 | None => DShort end
            | None => DShort
            end
          else if (b =? 0xdc) || (b =? 0xdd) then
            match read_be (if b =? 0xdc then 2 else 4) r with
            | Some (n, r1) => wrap_arr (dec_seq f n r1)
            | None => DShort
            end
          else if (b =? 0xde) || (b =? 0xdf) then
            match read_be (if b =? 0xde then 2 else 4) r with
            | Some (n, r1) => wrap_map (dec_pairs f n r1)
            | None => DShort
            end
          else DOk (VInt (Z.of_N b - 256)) r      (* negative fixnum 0xe0..0xff *)
      end
  end
with dec_seq (fuel : nat) (n : N) (bs : bytes) {struct fuel} : dres (list mval) :=
  if n =? 0 then DOk [] bs else
  match fuel with
  | O => DFuel
  | S f =>
      match dec f bs with
      | DOk v r =>
          match dec_seq f (n - 1) r with
          | DOk l r' => DOk (v :: l) r'
          | DShort => DShort | DBad b => DBad b | DUnspec => DUnspec | DFuel => DFuel
          end
      | DShort => DShort | DBad b => DBad b | DUnspec => DUnspec | DFuel => DFuel
      end
  end
with dec_pairs (fuel : nat) (n : N) (bs : bytes) {struct fuel} : dres (list (mval * mval)) :=
  if n =? 0 then DOk [] bs else
  match fuel with
  | O => DFuel
  | S f =>
      match dec f bs with
      | DOk k r =>
          match dec f r with
          | DOk v r1 =>
              match dec_pairs f (n - 1) r1 with
              | DOk l r' => DOk ((k, v) :: l) r'
              | DShort => DShort | DBad b => DBad b | DUnspec => DUnspec | DFuel => DFuel
              end
          | DShort => DShort | DBad b => DBad b | DUnspec => DUnspec | DFuel => DFuel
          end
      | DShort => DShort | DBad b => DBad b | DUnspec => DUnspec | DFuel => DFuel
      end
  end.

(* enough fuel for any input: a container level costs two units of fuel (dec, then dec_seq/dec_pairs) per
   header byte, an element one more; 2 * length + 1 dominates (found while proving: length + 2 is too little) *)
Definition decode (bs : bytes) : dres mval := dec (S (2 * length bs)) bs.

(* ---------- typed field decoders (what the frame fields are decoded with) ---------- *)
(* DecodeInt64: any integer format; a uint64 above 2^63-1 wraps (no overflow check in go-codec);
   top-level nil sets the zero value. *)
Definition wrap64 (z : Z) : Z := if (z <? two63z)%Z then z else (z - two64z)%Z.

Definition dec_int64 (bs : bytes) : dres Z :=
  match bs with
  | [] => DShort
  | b :: _ =>
      if b =? 0xc0 then DOk 0%Z (tl bs) else
      if (b <=? 0x7f) || (0xe0 <=? b) || ((0xcc <=? b) && (b <=? 0xd3)) then
        match dec 1 bs with
        | DOk (VInt z) r => DOk (wrap64 z) r
        | DShort => DShort
        | _ => DBad b
        end
      else DBad b
  end.

(* int32 target (the length prefix): range check after DecodeInt64 *)
Inductive i32res := I32 (z : Z) (rest : bytes) | I32Overflow | I32Short | I32Bad (b : N).
Definition dec_int32 (bs : bytes) : i32res :=
  match dec_int64 bs with
  | DOk z r => if ((-2147483648 <=? z) && (z <=? 2147483647))%Z then I32 z r else I32Overflow
  | DShort => I32Short
  | DBad b => I32Bad b
  | _ => I32Bad 0
  end.

(* DecodeString: str or bin families (RawToString); nil gives "" *)
Definition dec_string (bs : bytes) : dres bytes :=
  match bs with
  | [] => DShort
  | b :: _ =>
      if b =? 0xc0 then DOk [] (tl bs) else
      if ((0xa0 <=? b) && (b <=? 0xbf)) || ((0xc4 <=? b) && (b <=? 0xc6)) || ((0xd9 <=? b) && (b <=? 0xdb)) then
        match dec 1 bs with
        | DOk (VStr s) r => DOk s r
        | DOk (VBin s) r => DOk s r
        | DShort => DShort
        | _ => DBad b
        end
      else if ((0x90 <=? b) && (b <=? 0x9f)) || (b =? 0xdc) || (b =? 0xdd) then DUnspec  (* array of uint8 *)
      else DBad b
  end.
