(* the structural facts Model/Connection.v takes from the regenerated censuses of connection.go *)
From FMP Require Import Model.GenTypes Model.Generated Model.Skeleton Model.Connection.
Open Scope string_scope.

Definition conds_of (fn : string) : list string := match lookup fn cond_census with Some l => l | None => [] end.
Definition returns_of (fn : string) : list string := match lookup fn return_census with Some l => l | None => [] end.
Definition gos_of (fn : string) : list (string * list string) := match lookup fn go_guards with Some l => l | None => [] end.
Definition mem_str (s : string) (l : list string) : bool := existsb (String.eqb s) l.
Definition has_call (fn callee : string) : bool := existsb (is_call callee) (calls_of fn).
Definition count_calls (fn callee : string) : nat := length (filter (is_call callee) (calls_of fn)).
Definition conds_of_all (fn : string) : list string := conds_of fn.

Definition ccfg_now : ccfg :=
  mkCcfg
    (* the only go statement that starts doReconnect sits under "c.reconnectChan == nil" *)
    (match gos_of "Connection.getReconnectChanLocked" with
     | [(callee, guards)] => String.eqb callee "c.doReconnect" && mem_str "c.reconnectChan == nil" guards
     | _ => false
     end)
    (match calls_of "Connection.doReconnect" with CCall f :: _ => String.eqb f "c.handler.OnDisconnected" | _ => false end)
    (before "Connection.connect" "c.transport.Dial" "server.Register" && before "Connection.connect" "server.Register" "c.handler.OnConnect")
    (before "Connection.connect" "c.handler.OnConnect" "c.mutex.Lock" && before "Connection.connect" "c.mutex.Lock" "c.transport.Finalize"
     && existsb (is_defer "c.mutex.Unlock") (calls_of "Connection.connect"))
    (before "Connection.doReconnect" "backoff.RetryNotifyWithContext" "c.mutex.Lock" && before "Connection.doReconnect" "c.mutex.Lock" "close"
     && existsb (is_defer "c.mutex.Unlock") (calls_of "Connection.doReconnect"))
    (match returns_of "Connection.checkForRetry" with [r] => String.eqb r "err == io.EOF" | _ => false end)
    (match returns_of "Connection.isConnectedLocked" with [r] => String.eqb r "c.transport.IsConnected() && c.client != nil" | _ => false end)
    (* the fire-now request is also honoured by the sequence itself and by the waiter after its critical section *)
    (Nat.eqb (count_calls "Connection.doReconnect" "c.fireConnectDelayTimerIfRequested") 2
     && Nat.eqb (count_calls "Connection.doReconnect" "c.connectDelayTimer.Wait") 2
     && before "Connection.doReconnect" "c.connectDelayTimer.StartConstant" "c.fireConnectDelayTimerIfRequested"
     && before "Connection.doReconnect" "c.fireConnectDelayTimerIfRequested" "c.connectDelayTimer.Wait"
     && has_call "Connection.fireConnectDelayTimerIfRequested" "c.connectDelayTimer.FireNow"
     && mem_str "requested" (conds_of_all "Connection.fireConnectDelayTimerIfRequested")
     && has_call "Connection.waitForConnection" "c.connectDelayTimer.FireNow"
     && before "Connection.DoCommand" "c.connectDelayTimer.FireNow" "c.waitForConnection").

Definition expected_ccfg : ccfg := mkCcfg true true true true true true true true.
(* the mechanism before the repair recorded in known_findings.json: a fire-now request made before the timer exists is lost *)
Definition old_ccfg : ccfg := mkCcfg true true true true true true true false.
