(* Facts about codec.go, dispatch.go, request.go, packetizer.go, message.go and receiver.go that the hand-written models
   (Writer, Frame/Reader, Receiver, Instrument) assume without their transition systems mentioning them: which hand-off
   each kind of sender uses, that every frame handed to the writer passed the length check, what size the encoder
   reports, that reading a frame never retries, that each message's tags are decoded into a map of its own, and that the
   task loop cancels what its table holds when it stops.  Computed from the regenerated censuses; definitions only. *)
From FMP Require Import Model.GenTypes Model.Generated Model.Skeleton Model.ConnCfg Model.TimerCfg.
Open Scope string_scope.

Definition count_of (fn callee : string) : nat := count_calls fn callee.
Definition first_call_is (fn callee : string) : bool :=
  match calls_of fn with CCall f :: _ => String.eqb f callee | _ => false end.
Definition returns_are (fn : string) (l : list string) : bool :=
  let r := returns_of fn in Nat.eqb (length r) (length l) && forallb (fun p => String.eqb (fst p) (snd p)) (combine r l).
Definition no_loop_conds (fn : string) : bool :=
  forallb (fun c => negb (String.prefix "for:" c)) (conds_of fn).

Record codecfacts := mkCdF {
  cdf_blocking_senders : bool;    (* Call, Notify and both Reply functions hand over through EncodeAndWrite, once, never the async entry *)
  cdf_cancel_async : bool;        (* handleCancel hands over through EncodeAndWriteAsync, once, never the blocking entry *)
  cdf_length_checked : bool;      (* both entries obtain their bytes from encodeFrame (first thing they do), which compares the content
                                     with the maximum before producing anything; EncodeAndWrite only forwards *)
  cdf_size_reported : bool;       (* both entries report 0 for a refused frame and the frame's byte count otherwise *)
  cdf_nextframe_once : bool;      (* NextFrame and the error-remembering reader contain no loop: one read attempt per frame *)
  cdf_tags_fresh_map : bool;      (* loadContext decodes into a map made for this message and stores it under a fresh context *)
  cdf_taskloop_cancels : bool     (* the task loop calls cancel functions in its stop arm before close(closedCh): 3 cancel sites, 2 deletes *)
}.

Definition blocking_sender (fn w : string) : bool :=
  Nat.eqb (count_of fn (w ++ ".EncodeAndWrite")) 1 && Nat.eqb (count_of fn (w ++ ".EncodeAndWriteAsync")) 0.

Definition codecfacts_now : codecfacts :=
  mkCdF
    (blocking_sender "dispatch.Call" "d.writer" && blocking_sender "dispatch.Notify" "d.writer"
     && blocking_sender "callRequest.Reply" "enc" && blocking_sender "callCompressedRequest.Reply" "enc")
    (Nat.eqb (count_of "dispatch.handleCancel" "d.writer.EncodeAndWriteAsync") 1
     && Nat.eqb (count_of "dispatch.handleCancel" "d.writer.EncodeAndWrite") 0)
    (first_call_is "framedMsgpackEncoder.EncodeAndWriteAsync" "e.encodeFrame"
     && first_call_is "framedMsgpackEncoder.encodeAndWriteInternal" "e.encodeFrame"
     && Nat.eqb (count_of "framedMsgpackEncoder.EncodeAndWriteAsync" "e.encodeFrame") 1
     && Nat.eqb (count_of "framedMsgpackEncoder.encodeAndWriteInternal" "e.encodeFrame") 1
     && Nat.eqb (count_of "framedMsgpackEncoder.EncodeAndWriteAsync" "encodeToBytes") 0
     && Nat.eqb (count_of "framedMsgpackEncoder.encodeAndWriteInternal" "encodeToBytes") 0
     && match calls_of "framedMsgpackEncoder.EncodeAndWrite" with [CCall f] => String.eqb f "e.encodeAndWriteInternal" | _ => false end
     && match conds_of "framedMsgpackEncoder.encodeFrame" with
        | [c1; c2; c3] => String.eqb c1 "err != nil" && String.eqb c2 "len(content) > int(e.maxFrameLength)" && String.eqb c3 "err != nil"
        | _ => false
        end
     && match returns_of "framedMsgpackEncoder.encodeFrame" with
        | [_; _; _; r] => String.eqb r "append(length, content...), nil"
        | _ => false
        end
     && mem_str "length,err := encodeToBytes(enc, len(content))" (assigns_of "framedMsgpackEncoder.encodeFrame"))
    (returns_are "framedMsgpackEncoder.EncodeAndWriteAsync" ["0, ch"; "int64(len(bytes)), ch"]
     && returns_are "framedMsgpackEncoder.encodeAndWriteInternal" ["0, ch"; "int64(len(bytes)), ch"]
     && returns_are "framedMsgpackEncoder.EncodeAndWrite" ["e.encodeAndWriteInternal(ctx, frame, sendNotifier)"])
    (no_loop_conds "packetizer.NextFrame" && Nat.eqb (count_of "packetizer.NextFrame" "p.lengthDecoder.Decode") 1
     && Nat.eqb (count_of "packetizer.NextFrame" "p.lengthDecoder.Reset") 0
     && returns_are "lastErrReader.Read" ["n, err"] && no_loop_conds "lastErrReader.Read"
     && mem_str "n,err := r.reader.Read(buf)" (assigns_of "lastErrReader.Read"))
    (match assigns_of "basicRPCData.loadContext" with
     | [a1; a2; a3] => String.eqb a1 "tags := make(CtxRPCTags)" && String.eqb a2 "err := d.Decode(&tags)"
                       && String.eqb a3 "r.ctx = AddRPCTagsToContext(context.Background(), tags)"
     | _ => false
     end)
    (match calls_of "receiveHandler.taskLoop" with
     | [CCall m; CCall c1; CCall cl; CCall c2; CCall d1; CCall c3; CCall d2] =>
         String.eqb m "make" && String.eqb c1 "cancelFunc" && String.eqb cl "close" && String.eqb c2 "cancelFunc"
         && String.eqb d1 "delete" && String.eqb c3 "cancelFunc" && String.eqb d2 "delete"
     | _ => false
     end).

Definition expected_codecfacts : codecfacts := mkCdF true true true true true true true.
