(* The serving side of one transport as a labelled transition system: receiver.go (receive goroutine's
   dispatch of requests and cancellations, the task loop that owns the table of running tasks, one goroutine per
   served request) with the stop channel of Close.  One label = one atomic step of one goroutine.
   Which sends are guarded by the stop channel and how notifications are keyed comes from Skeleton.v.
   Definitions only. *)
From FMP Require Import Base.Bytes Base.Lts Model.Events Model.Skeleton.
Open Scope Z_scope.

Inductive hpc :=
| HNew        (* request decoded, context created, not yet registered with the task loop *)
| HRun        (* registered; the handler is running *)
| HEnding     (* the handler returned; its goroutine is reporting the end to the task loop *)
| HGone.      (* goroutine finished (or the request was never served) *)

Record handler := mkHandler {
  hd_id : Z;
  hd_key : Z;             (* the key its task is filed under *)
  hd_notify : bool;
  hd_seq : Z;             (* the request's seqno (-1 for notifications) *)
  hd_pc : hpc;
  hd_ctx : bool           (* its context has been cancelled *)
}.

Inductive rpc :=
| RIdle                   (* reading the next frame *)
| RBegin (h : Z)          (* blocked handing the new task to the task loop *)
| RCancel (seq : Z)       (* blocked handing a cancellation to the task loop *)
| RExited.

Record rstate := mkR {
  handlers : list handler;
  tasks : list (Z * Z);       (* task table of the task loop: key -> handler id *)
  tl_alive : bool;            (* the task loop goroutine is running *)
  stopped : bool;             (* receiver stop channel closed *)
  recv : rpc;
  next_hid : Z;
  last_nkey : Z;              (* per-receiver counter for notification keys *)
  rhist : list aev            (* most recent first *)
}.

Definition rinit : rstate := mkR [] [] true false RIdle 0 0 [].

Fixpoint hfind (h : Z) (l : list handler) : option handler :=
  match l with [] => None | x :: r => if hd_id x =? h then Some x else hfind h r end.

Fixpoint hupdate (h : Z) (f : handler -> handler) (l : list handler) : list handler :=
  match l with [] => [] | x :: r => if hd_id x =? h then f x :: r else x :: hupdate h f r end.

Definition h_set_pc (p : hpc) (x : handler) : handler := mkHandler (hd_id x) (hd_key x) (hd_notify x) (hd_seq x) p (hd_ctx x).
Definition h_set_ctx (x : handler) : handler := mkHandler (hd_id x) (hd_key x) (hd_notify x) (hd_seq x) (hd_pc x) true.

Fixpoint tfind (k : Z) (t : list (Z * Z)) : option Z :=
  match t with [] => None | (k', h) :: r => if k =? k' then Some h else tfind k r end.
Definition tremove (k : Z) (t : list (Z * Z)) : list (Z * Z) := filter (fun p => negb (fst p =? k)) t.
Definition tset (k h : Z) (t : list (Z * Z)) : list (Z * Z) := (k, h) :: tremove k t.

Definition req_info (x : handler) : frame_info :=
  mkFI (if hd_notify x then KNotify else KCall) (hd_seq x) (hd_id x) true.

(* cancelling a context is observed only while the handler is running *)
Definition ctx_event (l : list handler) (h : Z) : list aev :=
  match hfind h l with
  | Some x => match hd_pc x with HRun => if hd_ctx x then [] else [AHCtx h] | _ => [] end
  | None => []
  end.

Definition live_call_with_seq (q : Z) (l : list handler) : bool :=
  existsb (fun x => negb (hd_notify x) && (hd_seq x =? q) && match hd_pc x with HGone => false | _ => true end) l.

Inductive rlabel :=
| RInCall (seq : Z)        (* a call frame for a registered method was decoded *)
| RInNotify                (* a notification frame for a registered method was decoded *)
| RInCancel (seq : Z)      (* a cancellation frame was decoded *)
| RBeginRv                 (* rendezvous on taskBeginCh; the handler goroutine starts *)
| RBeginStop               (* stop arm of that send: cancel the request, do not serve it *)
| RCancelRv                (* rendezvous on taskCancelCh *)
| RCancelStop
| RHandlerRet (h : Z)      (* environment: the handler function returns *)
| REndRv (h : Z)           (* rendezvous on taskEndCh *)
| REndStop (h : Z)
| RStop                    (* Close: close(stopCh) *)
| RTaskLoopExit            (* task loop: stop arm: cancel every task, exit *)
| RRecvExit.               (* receive goroutine leaves (its reads fail once the transport is stopped) *)

Definition with_hist (st : rstate) (hs : list handler) (ts : list (Z * Z)) (rv : rpc) (evs : list aev) : rstate :=
  mkR hs ts (tl_alive st) (stopped st) rv (next_hid st) (last_nkey st) (evs ++ rhist st).

Definition rstep (sk : skeleton) (st : rstate) (l : rlabel) : option rstate :=
  match l with
  | RInCall q =>
      match recv st with
      | RIdle =>
          (* environment hypotheses: seqnos are non-negative, and the peer does not reuse the seqno of a call that is
             still being served *)
          if (q <? 0) || live_call_with_seq q (handlers st) then None else
          let h := next_hid st in
          let x := mkHandler h q false q HNew false in
          Some (mkR (handlers st ++ [x]) (tasks st) (tl_alive st) (stopped st) (RBegin h) (h + 1) (last_nkey st)
                    (AFeed (req_info x) true :: rhist st))
      | _ => None
      end
  | RInNotify =>
      match recv st with
      | RIdle =>
          let h := next_hid st in
          let nk := if sk_notify_key_unique sk then last_nkey st - 1 else -1 in
          let x := mkHandler h nk true (-1) HNew false in
          Some (mkR (handlers st ++ [x]) (tasks st) (tl_alive st) (stopped st) (RBegin h) (h + 1) nk
                    (AFeed (req_info x) true :: rhist st))
      | _ => None
      end
  | RInCancel q =>
      match recv st with
      | RIdle =>
          (* the source drops a cancellation frame with a negative seqno (notification handlers are filed under
             negative keys); without that guard it reaches the task loop *)
          if (q <? 0) && sk_cancel_negative_ignored sk
          then Some (with_hist st (handlers st) (tasks st) RIdle [AFeed (mkFI KCancel q (-1) true) true])   (* ignored *)
          else Some (with_hist st (handlers st) (tasks st) (RCancel q) [AFeed (mkFI KCancel q (-1) true) true])
      | _ => None
      end
  | RBeginRv =>
      match recv st with
      | RBegin h =>
          if tl_alive st then
            match hfind h (handlers st) with
            | Some x => Some (with_hist st (hupdate h (h_set_pc HRun) (handlers st)) (tset (hd_key x) h (tasks st)) RIdle
                                        [AHStart h (req_info x)])
            | None => None
            end
          else None
      | _ => None
      end
  | RBeginStop =>
      match recv st with
      | RBegin h =>
          if stopped st && sk_taskbegin_has_stop sk
          then Some (with_hist st (hupdate h (fun x => h_set_pc HGone (h_set_ctx x)) (handlers st)) (tasks st) RIdle [])
          else None
      | _ => None
      end
  | RCancelRv =>
      match recv st with
      | RCancel q =>
          if tl_alive st then
            match tfind q (tasks st) with
            | Some h => Some (with_hist st (hupdate h h_set_ctx (handlers st)) (tremove q (tasks st)) RIdle (ctx_event (handlers st) h))
            | None => Some (with_hist st (handlers st) (tasks st) RIdle [])
            end
          else None
      | _ => None
      end
  | RCancelStop =>
      match recv st with
      | RCancel _ => if stopped st && sk_taskcancel_has_stop sk then Some (with_hist st (handlers st) (tasks st) RIdle []) else None
      | _ => None
      end
  | RHandlerRet h =>
      match hfind h (handlers st) with
      | Some x => match hd_pc x with
                  | HRun => Some (with_hist st (hupdate h (h_set_pc HEnding) (handlers st)) (tasks st) (recv st) [AHRet h])
                  | _ => None
                  end
      | None => None
      end
  | REndRv h =>
      match hfind h (handlers st) with
      | Some x =>
          match hd_pc x with
          | HEnding =>
              if tl_alive st then
                match tfind (hd_key x) (tasks st) with
                | Some h' =>
                    Some (with_hist st (hupdate h (h_set_pc HGone) (hupdate h' h_set_ctx (handlers st)))
                                    (tremove (hd_key x) (tasks st)) (recv st) (ctx_event (handlers st) h'))
                | None => Some (with_hist st (hupdate h (h_set_pc HGone) (handlers st)) (tasks st) (recv st) [])
                end
              else None
          | _ => None
          end
      | None => None
      end
  | REndStop h =>
      match hfind h (handlers st) with
      | Some x =>
          match hd_pc x with
          | HEnding => if stopped st && sk_taskend_has_stop sk
                       then Some (with_hist st (hupdate h (h_set_pc HGone) (handlers st)) (tasks st) (recv st) [])
                       else None
          | _ => None
          end
      | None => None
      end
  | RStop =>
      if stopped st then None
      else Some (mkR (handlers st) (tasks st) (tl_alive st) true (recv st) (next_hid st) (last_nkey st) (ACloseBegin :: rhist st))
  | RTaskLoopExit =>
      if stopped st && tl_alive st && sk_taskloop_has_stop sk then
        let victims := map snd (tasks st) in
        let evs := flat_map (ctx_event (handlers st)) victims in
        let hs := fold_left (fun acc h => hupdate h h_set_ctx acc) victims (handlers st) in
        Some (mkR hs [] false true (recv st) (next_hid st) (last_nkey st) (rev evs ++ rhist st))
      else None
  | RRecvExit =>
      match recv st with
      | RIdle => if stopped st then Some (with_hist st (handlers st) (tasks st) RExited []) else None
      | _ => None
      end
  end.

Definition rtrace (st : rstate) : list aev := rev (rhist st).

(* goroutines of the library that are still alive in a state *)
Definition handler_goroutine_alive (x : handler) : bool :=
  match hd_pc x with HRun | HEnding => true | _ => false end.

(* the labels by which one blocked goroutine of the library can move *)
Definition recv_can_move (sk : skeleton) (st : rstate) : bool :=
  match recv st with
  | RExited => true
  | RIdle => true      (* reading: returns as soon as the connection is closed *)
  | RBegin _ => match rstep sk st RBeginRv, rstep sk st RBeginStop with None, None => false | _, _ => true end
  | RCancel _ => match rstep sk st RCancelRv, rstep sk st RCancelStop with None, None => false | _, _ => true end
  end.

Definition ending_can_move (sk : skeleton) (st : rstate) (h : Z) : bool :=
  match rstep sk st (REndRv h), rstep sk st (REndStop h) with None, None => false | _, _ => true end.
