(* connection.go: the bookkeeping of the two built-in ConnectionTransports (plain: connTransport, TLS:
   ConnectionTransportTLS): which transports and network connections are open after any sequence of Dial (successful
   or failed), Finalize and Close.  A transport's Close closes its network connection (transport.go closeWithErr).
   Definitions only. *)
From FMP Require Import Base.Bytes.
Open Scope Z_scope.

Record xp := mkXp { x_id : Z; x_open : bool; x_conn_open : bool }.

Record ctstate := mkCt {
  xps : list xp;                (* every transport ever dialed *)
  ct_cur : option Z;            (* .transport *)
  ct_staged : option Z;         (* .stagedTransport *)
  ct_conn : option Z;           (* .conn: the connection of transport id *)
  ct_next : Z
}.

Definition ct0 : ctstate := mkCt [] None None None 1.

Inductive ctop := CtDialOk | CtDialFail | CtFinalize | CtClose.

Definition close_xp (o : option Z) (l : list xp) : list xp :=
  match o with
  | Some i => map (fun x => if x_id x =? i then mkXp (x_id x) false false else x) l
  | None => l
  end.
Definition close_conn (o : option Z) (l : list xp) : list xp :=
  match o with
  | Some i => map (fun x => if x_id x =? i then mkXp (x_id x) (x_open x) false else x) l
  | None => l
  end.

(* [tls]: which of the two implementations *)
Definition ctstep (tls : bool) (s : ctstate) (o : ctop) : ctstate :=
  match o with
  | CtDialOk =>
      let n := ct_next s in
      mkCt (mkXp n true true :: close_xp (ct_staged s) (close_conn (ct_conn s) (xps s))) (ct_cur s) (Some n) (Some n) (n + 1)
  | CtDialFail =>
      if tls then s
      else mkCt (close_conn (ct_conn s) (xps s)) (ct_cur s) (ct_staged s) None (ct_next s)   (* plain: closes first, then t.conn = nil *)
  | CtFinalize => mkCt (close_xp (ct_cur s) (xps s)) (ct_staged s) None (ct_conn s) (ct_next s)
  | CtClose =>
      let l := close_xp (ct_staged s) (close_xp (ct_cur s) (close_conn (ct_conn s) (xps s))) in
      if tls then mkCt l (ct_cur s) (ct_staged s) (ct_conn s) (ct_next s)
      else mkCt l None None (ct_conn s) (ct_next s)
  end.

Fixpoint ctrun (tls : bool) (s : ctstate) (ops : list ctop) : ctstate :=
  match ops with [] => s | o :: r => ctrun tls (ctstep tls s o) r end.

Definition is_some_id (o : option Z) (i : Z) : bool := match o with Some j => i =? j | None => false end.

(* what the harness observes: per transport, is it connected and is its network connection open *)
Definition ct_view (s : ctstate) : list (Z * bool * bool) := map (fun x => (x_id x, x_open x, x_conn_open x)) (rev (xps s)).

(* every transport that is neither current nor staged is closed, connection included *)
Definition ct_inv (s : ctstate) : Prop :=
  forall x, In x (xps s) -> is_some_id (ct_cur s) (x_id x) = false -> is_some_id (ct_staged s) (x_id x) = false ->
            x_open x = false /\ x_conn_open x = false.
