(* rpc/remote.go : prioritized round-robin remote.  Definitions only. *)
From FMP Require Import Base.Bytes.
Open Scope N_scope.

Definition addr := bytes.
Definition groups := list (list addr).

(* --- normalisation (ASCII zone: strings.TrimSpace / strings.ToLower on bytes < 128) --- *)
Definition is_space (b : N) : bool :=
  (b =? 9) || (b =? 10) || (b =? 11) || (b =? 12) || (b =? 13) || (b =? 32).

Fixpoint ltrim (s : bytes) : bytes :=
  match s with
  | b :: r => if is_space b then ltrim r else s
  | [] => []
  end.

Definition trim (s : bytes) : bytes := rev (ltrim (rev (ltrim s))).

Definition lower_b (b : N) : N := if (65 <=? b) && (b <=? 90) then b + 32 else b.

Definition clean_addr (s : bytes) : addr := map lower_b (trim s).

Definition nonempty {A} (l : list A) : bool := match l with [] => false | _ => true end.

Definition clean_group (g : list bytes) : list addr := filter nonempty (map clean_addr g).
Definition clean (gs : list (list bytes)) : groups := filter nonempty (map clean_group gs).

(* NewPrioritizedRoundRobinRemote: None = "addressGroups has no address" *)
Definition new_groups (gs : list (list bytes)) : option groups :=
  match clean gs with [] => None | c => Some c end.

(* --- String() / Parse --- *)
Fixpoint join (sep : N) (l : list bytes) : bytes :=
  match l with
  | [] => []
  | [x] => x
  | x :: r => x ++ sep :: join sep r
  end.

(* strings.Split with a one-byte separator: always at least one piece *)
Fixpoint split_acc (sep : N) (s : bytes) (cur : bytes) : list bytes :=
  match s with
  | [] => [rev cur]
  | b :: r => if b =? sep then rev cur :: split_acc sep r [] else split_acc sep r (b :: cur)
  end.
Definition split (sep : N) (s : bytes) : list bytes := split_acc sep s [].

Definition comma : N := 44.
Definition semi : N := 59.

Definition to_string (gs : groups) : bytes := join semi (map (join comma) gs).
Definition parse_groups (s : bytes) : list (list bytes) := map (split comma) (split semi s).
Definition parse_remote (s : bytes) : option groups := new_groups (parse_groups s).

(* --- the mutable object, with rand.Perm as an oracle --- *)
Record remote := mkRemote { addrs : groups; iter : groups; draws : nat }.

Section Oracle.
  (* perm n g : the n-th permutation drawn, applied to group g *)
  Variable perm : nat -> list addr -> list addr.

  Fixpoint refill (n : nat) (gs : groups) : groups * nat :=
    match gs with
    | [] => ([], n)
    | g :: r => let (r', n') := refill (S n) r in (perm n g :: r', n')
    end.

  Definition reset (r : remote) : remote :=
    let (it, n) := refill (draws r) (addrs r) in mkRemote (addrs r) it n.

  Fixpoint prune (gs : groups) : groups :=
    match gs with
    | [] :: r => prune r
    | _ => gs
    end.

  Definition ensure (r : remote) : remote :=
    match iter r with [] => reset r | _ => r end.

  (* None models the index-out-of-range panic; unreachable from [fresh] (wf_reachable) *)
  Definition get (r : remote) : option addr * remote :=
    let r1 := ensure r in
    match iter r1 with
    | (a :: g) :: rest => (Some a, mkRemote (addrs r1) (prune (g :: rest)) (draws r1))
    | _ => (None, r1)
    end.

  Definition peek (r : remote) : option addr * remote :=
    let r1 := ensure r in
    match iter r1 with
    | (a :: _) :: _ => (Some a, r1)
    | _ => (None, r1)
    end.

  Definition fresh (c : groups) : remote := reset (mkRemote c [] 0).

  Inductive rop := OGet | OPeek | OReset.

  Definition rstep (r : remote) (o : rop) : option addr * remote :=
    match o with
    | OGet => get r
    | OPeek => peek r
    | OReset => (None, reset r)
    end.

  Fixpoint rrun (r : remote) (ops : list rop) : list (option addr) * remote :=
    match ops with
    | [] => ([], r)
    | o :: ops' => let (x, r1) := rstep r o in
                   let (xs, r2) := rrun r1 ops' in (x :: xs, r2)
    end.

  Fixpoint gets (n : nat) (r : remote) : list (option addr) * remote :=
    match n with
    | O => ([], r)
    | S n' => let (x, r1) := get r in let (xs, r2) := gets n' r1 in (x :: xs, r2)
    end.
End Oracle.

(* --- acceptor: which observed outputs can some sequence of permutations explain? --- *)
Fixpoint remove1 (x : addr) (l : list addr) : option (list addr) :=
  match l with
  | [] => None
  | y :: r => if bytes_eqb x y then Some r
              else match remove1 x r with Some r' => Some (y :: r') | None => None end
  end.

Record astate := mkA { a_addrs : groups; a_cur : list addr; a_rest : groups; a_pin : option addr }.

Definition a_fresh (c : groups) : astate :=
  match c with
  | [] => mkA c [] [] None
  | g :: r => mkA c g r None
  end.

Definition a_ensure (a : astate) : astate :=
  match a_cur a with
  | [] => a_fresh (a_addrs a)
  | _ => a
  end.

Definition pin_ok (p : option addr) (x : addr) : bool :=
  match p with None => true | Some y => bytes_eqb x y end.

(* observed event: operation with the address it returned *)
Inductive revent := EGet (x : addr) | EPeek (x : addr) | EReset.

Definition a_step (a : astate) (e : revent) : option astate :=
  match e with
  | EReset => Some (a_fresh (a_addrs a))
  | EPeek x =>
      let a1 := a_ensure a in
      if pin_ok (a_pin a1) x then
        match remove1 x (a_cur a1) with
        | Some _ => Some (mkA (a_addrs a1) (a_cur a1) (a_rest a1) (Some x))
        | None => None
        end
      else None
  | EGet x =>
      let a1 := a_ensure a in
      if pin_ok (a_pin a1) x then
        match remove1 x (a_cur a1) with
        | Some [] => match a_rest a1 with
                     | [] => Some (mkA (a_addrs a1) [] [] None)
                     | g :: r => Some (mkA (a_addrs a1) g r None)
                     end
        | Some c => Some (mkA (a_addrs a1) c (a_rest a1) None)
        | None => None
        end
      else None
  end.

Fixpoint a_run (a : astate) (es : list revent) : option astate :=
  match es with
  | [] => Some a
  | e :: r => match a_step a e with Some a' => a_run a' r | None => None end
  end.

(* index of the first rejected event, for the replay *)
Fixpoint a_first_bad (a : astate) (es : list revent) (i : nat) : option nat :=
  match es with
  | [] => None
  | e :: r => match a_step a e with Some a' => a_first_bad a' r (S i) | None => Some i end
  end.

Definition event_of (o : rop) (x : option addr) : option revent :=
  match o, x with
  | OGet, Some a => Some (EGet a)
  | OPeek, Some a => Some (EPeek a)
  | OReset, _ => Some EReset
  | _, None => None
  end.
