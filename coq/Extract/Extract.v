(* Extraction of the executable models to OCaml.  ExtrOcamlBasic only: N, Z, positive, nat stay inductive. *)
From Coq Require Import Extraction ExtrOcamlBasic.
From FMP Require Import Base.Bytes Model.Generated Model.Instrument Model.Tags Model.Events Model.Props Model.Msgpack Model.Frame Model.Remote Model.Uri Model.Timer Model.Connection Model.ConnProps Model.ConnRun Model.ConnCfg Model.CTransport Model.Tls.

Extraction Language OCaml.
Extraction "model.ml"
  bytes_eqb
  Props.accepts Props.notifier_step Props.seqno_step Props.cancel_step Props.order_step Props.c13_pred
  Tags.tstep Tags.th0 Tags.tags_of Tags.tm_merge Tags.tm_norm Tags.traveling_tags Instrument.irun Instrument.istep Instrument.inst0 Events.fkind_eqb Props.c01_no_crosstalk Props.c01_invoked_once Props.c01_never_twice Props.count_ev Props.replied_to Props.c12_pred Props.c08_pred Props.c08_reaches_handler Props.c20_one Props.records_of Props.c07_lifecycle Props.c09_only_own Props.c09_close_cancels_all Props.c11_pred Props.frames_whole Props.refused_write_nothing Props.c03_pred
  Msgpack.enc Msgpack.enc_alt Msgpack.decode Msgpack.wf_val Msgpack.dec_int32 Msgpack.dec_int64
  Frame.frame_val Frame.spec_bytes Frame.encode_value Frame.encode_frame Frame.next_frame Frame.run_frames
  Frame.continues Frame.outcome_of_msg Frame.split_method Frame.has_compressor
  Remote.clean Remote.new_groups Remote.to_string Remote.parse_remote
  Remote.a_fresh Remote.a_run Remote.a_first_bad
  Uri.parse_uri Uri.uri_pred Uri.uri_string Uri.use_tls
  Timer.tm0 Timer.tmrun Timer.wait_times Timer.random_delay
  Connection.new_cmd Connection.cstep ConnProps.c14_one_dial ConnProps.c14_sequences ConnProps.c15_commands ConnProps.c16_delay
  ConnRun.run_script ConnRun.seq_projection ConnRun.cmd_projection ConnCfg.expected_ccfg
  CTransport.ct0 CTransport.ctstep CTransport.ct_view
  Tls.dial Tls.transport_created.
