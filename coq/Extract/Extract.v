(* Extraction of the executable models to OCaml.  ExtrOcamlBasic only: N, Z, positive, nat stay inductive. *)
From Coq Require Import Extraction ExtrOcamlBasic.
From FMP Require Import Base.Bytes Model.Generated Model.Remote Model.Uri.

Extraction Language OCaml.
Extraction "model.ml"
  bytes_eqb
  Remote.clean Remote.new_groups Remote.to_string Remote.parse_remote
  Remote.a_fresh Remote.a_run Remote.a_first_bad
  Uri.parse_uri Uri.uri_pred Uri.uri_string Uri.use_tls.
