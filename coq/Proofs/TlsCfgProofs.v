From FMP Require Import Model.GenTypes Model.Generated Model.TlsCfg.
Theorem tlsfacts_generated_ok : tlsfacts_now = expected_tlsfacts.
Proof. vm_compute. reflexivity. Qed.
