From FMP Require Import Model.GenTypes Model.Generated Model.Connection Model.ConnCfg Model.TimerCfg.
Theorem ccfg_generated_ok : ccfg_now = expected_ccfg.
Proof. vm_compute. reflexivity. Qed.
Theorem timerfacts_generated_ok : timerfacts_now = expected_timerfacts.
Proof. vm_compute. reflexivity. Qed.
