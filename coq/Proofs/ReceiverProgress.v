(* Invocation counts and progress of the serving-side transition system (Model/Receiver.v). *)
From Coq Require Import ZifyBool Lia.
From FMP Require Import Base.Bytes Base.Lts Model.Events Model.Skeleton Model.Props Model.Receiver Proofs.ReceiverProofs.
Open Scope Z_scope.

(* ---------------------------------------------------------------------------------------------------------- *)
(* events that neither start a handler nor feed a request                                                      *)
(* ---------------------------------------------------------------------------------------------------------- *)

Definition quiet_ev (e : aev) : bool :=
  match e with
  | AHStart _ _ => false
  | AFeed fi _ => match fi_kind fi with KCancel => true | _ => false end
  | _ => true
  end.

Definition quiet (evs : list aev) : bool := forallb quiet_ev evs.

Lemma quiet_app : forall a b, quiet (a ++ b) = quiet a && quiet b.
Proof. intros; apply forallb_app. Qed.

Lemma quiet_rev : forall a, quiet (rev a) = quiet a.
Proof.
  induction a as [|e a IH]; simpl; [reflexivity|].
  rewrite quiet_app, IH. simpl. rewrite andb_true_r. apply andb_comm.
Qed.

Lemma quiet_ctx_event : forall hs h, quiet (ctx_event hs h) = true.
Proof. intros hs h. destruct (ctx_event_cases hs h) as [E|[E _]]; rewrite E; reflexivity. Qed.

Lemma quiet_flat : forall hs vs, quiet (flat_map (ctx_event hs) vs) = true.
Proof.
  induction vs as [|v vs IH]; simpl; [reflexivity|].
  rewrite quiet_app, quiet_ctx_event, IH. reflexivity.
Qed.

Definition nstart (n : Z) (l : list aev) : nat := count_ev (invoked_for n) l.

Lemma count_ev_app : forall p a b, count_ev p (a ++ b) = (count_ev p a + count_ev p b)%nat.
Proof. induction a as [|e a IH]; intros b; simpl; [reflexivity|]. rewrite IH. lia. Qed.

Lemma count_ev_rev : forall p a, count_ev p (rev a) = count_ev p a.
Proof.
  induction a as [|e a IH]; simpl; [reflexivity|]. rewrite count_ev_app, IH. simpl. lia.
Qed.

Lemma nstart_quiet : forall n evs, quiet evs = true -> nstart n evs = O.
Proof.
  unfold nstart. induction evs as [|e evs IH]; simpl; intros H; [reflexivity|].
  apply andb_true_iff in H. destruct H as [H1 H2]. rewrite (IH H2).
  destruct e; simpl in *; try reflexivity; discriminate.
Qed.

Lemma fed_requests_app : forall a b, fed_requests (a ++ b) = fed_requests a ++ fed_requests b.
Proof. intros; apply flat_map_app. Qed.

Lemma fed_requests_quiet : forall evs, quiet evs = true -> fed_requests evs = [].
Proof.
  induction evs as [|e evs IH]; intros H; [reflexivity|].
  simpl in H. apply andb_true_iff in H. destruct H as [H1 H2].
  change (fed_requests (e :: evs)) with (fed_requests ([e] ++ evs)).
  rewrite fed_requests_app, (IH H2), app_nil_r.
  destruct e; simpl in *; try reflexivity.
  destruct known; [|reflexivity]. destruct (fi_kind fi); try reflexivity; discriminate.
Qed.

Lemma In_fed_requests_rev : forall fi l, In fi (fed_requests (rev l)) <-> In fi (fed_requests l).
Proof.
  intros fi l. unfold fed_requests. rewrite !in_flat_map.
  split; intros (e & He & Hf); exists e; (split; [|exact Hf]); [apply in_rev; exact He | apply in_rev in He; exact He].
Qed.

(* every handler start has the feed of its request further back in the history *)
Fixpoint fb (l : list aev) : Prop :=
  match l with
  | [] => True
  | e :: r => match e with AHStart _ fi => In (AFeed fi true) r | _ => True end /\ fb r
  end.

Lemma fb_quiet : forall evs l, quiet evs = true -> fb l -> fb (evs ++ l).
Proof.
  induction evs as [|e evs IH]; simpl; intros l H Hl; [exact Hl|].
  apply andb_true_iff in H. destruct H as [H1 H2]. split; [|apply IH; assumption].
  destruct e; simpl in *; try exact I; discriminate.
Qed.

Lemma fb_split : forall l a h fi b, fb l -> l = a ++ AHStart h fi :: b -> In (AFeed fi true) b.
Proof.
  intros l a. revert l. induction a as [|e a IH]; simpl; intros l h fi b Hl E; subst l; simpl in Hl.
  - tauto.
  - eapply IH; [exact (proj2 Hl) | reflexivity].
Qed.

Lemma req_info_fed : forall x l, fed_requests (AFeed (req_info x) true :: l) = req_info x :: fed_requests l.
Proof. intros x l. unfold req_info. simpl. destruct (hd_notify x); reflexivity. Qed.

(* ---------------------------------------------------------------------------------------------------------- *)
(* the three shapes of a step                                                                                  *)
(* ---------------------------------------------------------------------------------------------------------- *)

Inductive shape (st st' : rstate) : Prop :=
| ShFeed : forall x,
    recv st = RIdle -> recv st' = RBegin (next_hid st) -> hd_id x = next_hid st ->
    handlers st' = handlers st ++ [x] -> next_hid st' = next_hid st + 1 ->
    rhist st' = AFeed (req_info x) true :: rhist st -> stopped st' = stopped st -> shape st st'
| ShStart : forall h x,
    recv st = RBegin h -> hfind h (handlers st) = Some x -> recv st' = RIdle ->
    next_hid st' = next_hid st -> rhist st' = AHStart h (req_info x) :: rhist st ->
    hs_ext (handlers st) (handlers st') -> stopped st' = stopped st -> shape st st'
| ShQuiet : forall evs,
    quiet evs = true -> rhist st' = evs ++ rhist st -> next_hid st' = next_hid st ->
    hs_ext (handlers st) (handlers st') ->
    (forall h, recv st' = RBegin h -> recv st = RBegin h) ->
    (stopped st' = false -> stopped st = false /\ forall h, recv st = RBegin h -> recv st' = RBegin h) ->
    shape st st'.

Lemma hs_ext_hupdate2 : forall f g h h' hs,
    (forall x, hd_id (f x) = hd_id x) -> (forall x, req_info (f x) = req_info x) ->
    (forall x, hd_id (g x) = hd_id x) -> (forall x, req_info (g x) = req_info x) ->
    hs_ext hs (hupdate h f (hupdate h' g hs)).
Proof.
  intros. eapply hs_ext_trans; apply hs_ext_hupdate; assumption.
Qed.

Ltac ext_tac :=
  try change (fold_left (fun acc h => hupdate h h_set_ctx acc)) with cancel_all;
  first [ apply hs_ext_refl
        | apply hs_ext_hupdate; intros; reflexivity
        | apply hs_ext_hupdate2; intros; reflexivity
        | apply hs_ext_cancel_all ].

Ltac quiet_tac :=
  first [ reflexivity
        | apply quiet_ctx_event
        | rewrite quiet_rev; apply quiet_flat ].

Lemma step_shape : forall sk st l st', rstep sk st l = Some st' -> shape st st'.
Proof.
  intros sk st l st' H.
  step_cases H.
  all: first
    [ (* feed of a request *)
      match goal with
      | |- shape _ (mkR (_ ++ [?x]) _ _ _ _ _ _ _) => apply (ShFeed _ _ x); simpl; solve [reflexivity | eassumption]
      end
    | (* hand-off *)
      match goal with
      | |- shape _ (mkR _ _ _ _ _ _ _ (AHStart ?h (req_info ?x) :: _)) =>
          apply (ShStart _ _ h x); simpl; try eassumption; try reflexivity; ext_tac
      end
    | (* everything else *)
      match goal with
      | |- shape ?s (mkR _ _ _ _ _ _ _ (?evs ++ rhist ?s)) => apply (ShQuiet _ _ evs)
      | |- shape ?s (mkR _ _ _ _ _ _ _ (?e :: rhist ?s)) => apply (ShQuiet _ _ [e])
      | |- shape ?s (mkR _ _ _ _ _ _ _ (rhist ?s)) => apply (ShQuiet _ _ [])
      end; simpl;
      [ quiet_tac | reflexivity | reflexivity | ext_tac
      | intros; congruence
      | let Hs := fresh "Hs" in
        intros Hs;
        first [ discriminate Hs
              | rewrite Hs in *; simpl in *; congruence
              | split; [reflexivity || congruence | intros; congruence] ] ]
    ].
Qed.

(* ---------------------------------------------------------------------------------------------------------- *)
(* the invariant                                                                                               *)
(* ---------------------------------------------------------------------------------------------------------- *)

Record PInv (st : rstate) : Prop := {
  p_nonneg : 0 <= next_hid st;
  p_begin : forall h, recv st = RBegin h ->
                      0 <= h < next_hid st /\ nstart h (rhist st) = O /\
                      exists x, hfind h (handlers st) = Some x /\ In (AFeed (req_info x) true) (rhist st);
  p_fresh : forall n, next_hid st <= n -> nstart n (rhist st) = O;
  p_le1 : forall n, (nstart n (rhist st) <= 1)%nat;
  p_fb : fb (rhist st);
  p_fed : forall fi, In fi (fed_requests (rhist st)) -> 0 <= fi_nonce fi < next_hid st;
  p_once : stopped st = false -> forall n, 0 <= n < next_hid st -> recv st = RBegin n \/ nstart n (rhist st) = 1%nat
}.

Lemma hfind_lt : forall st h x, ids_ok st -> hfind h (handlers st) = Some x -> h < next_hid st.
Proof.
  intros st h x [_ Hb] Hf. apply Hb. rewrite <- (hfind_id _ _ _ Hf). apply in_map. eapply hfind_In; eauto.
Qed.

Lemma nstart_cons_start : forall n h x l,
    hd_id x = h -> nstart n (AHStart h (req_info x) :: l) = ((if (h =? n)%Z then 1 else 0) + nstart n l)%nat.
Proof. intros n h x l E. unfold nstart. simpl. rewrite E. reflexivity. Qed.

Lemma PInv_step : forall sk st l st', ids_ok st -> PInv st -> rstep sk st l = Some st' -> PInv st'.
Proof.
  intros sk st l st' Hids Hi H. pose proof (p_nonneg _ Hi) as Hnn.
  destruct (step_shape _ _ _ _ H) as
      [x Hr Hr' Hx Hh Hn Hh' Hs | h x Hr Hf Hr' Hn Hh' Hext Hs | evs Hq Hh' Hn Hext Hrb Hso].
  - (* a request is fed *)
    assert (Hfr : hfind (next_hid st) (handlers st) = None).
    { destruct (hfind (next_hid st) (handlers st)) as [y|] eqn:E; [|reflexivity].
      pose proof (hfind_lt _ _ _ Hids E). lia. }
    assert (Hc : forall n, nstart n (rhist st') = nstart n (rhist st)) by (intros n; rewrite Hh'; reflexivity).
    constructor.
    + lia.
    + intros h Hb. rewrite Hr' in Hb. inversion Hb; subst h. rewrite Hc.
      split; [lia|]. split; [apply (p_fresh _ Hi); lia|].
      exists x. rewrite Hh, hfind_app1, Hfr, Hx, Z.eqb_refl, Hh'. split; [reflexivity | left; reflexivity].
    + intros n Hle. rewrite Hc. apply (p_fresh _ Hi). lia.
    + intros n. rewrite Hc. apply (p_le1 _ Hi).
    + rewrite Hh'. simpl. split; [exact I | apply (p_fb _ Hi)].
    + intros fi Hin. rewrite Hh', req_info_fed in Hin. destruct Hin as [E|Hin].
      * subst fi. unfold req_info. simpl. lia.
      * pose proof (p_fed _ Hi _ Hin). lia.
    + intros Hst n Hn'. rewrite Hs in Hst. rewrite Hc, Hr'.
      destruct (Z.eq_dec n (next_hid st)) as [->|Hne]; [left; reflexivity|].
      destruct (p_once _ Hi Hst n ltac:(lia)) as [A|A]; [congruence | right; exact A].
  - (* hand-off *)
    destruct (p_begin _ Hi _ Hr) as (Hb1 & Hb2 & y & Hy & Hfeed).
    assert (y = x) by congruence; subst y.
    pose proof (hfind_id _ _ _ Hf) as Hidx.
    assert (Hc : forall n, nstart n (rhist st') = ((if (h =? n)%Z then 1 else 0) + nstart n (rhist st))%nat)
      by (intros n; rewrite Hh'; apply nstart_cons_start; exact Hidx).
    constructor.
    + lia.
    + intros h' Hb. congruence.
    + intros n Hle. rewrite Hc, (p_fresh _ Hi n ltac:(lia)). destruct (h =? n) eqn:E; [lia | reflexivity].
    + intros n. rewrite Hc. destruct (h =? n) eqn:E.
      * replace n with h by lia. rewrite Hb2. lia.
      * apply (p_le1 _ Hi).
    + rewrite Hh'. simpl. split; [exact Hfeed | apply (p_fb _ Hi)].
    + intros fi Hin. rewrite Hh' in Hin. simpl in Hin. rewrite Hn. apply (p_fed _ Hi _ Hin).
    + intros Hst n Hn'. rewrite Hs in Hst. rewrite Hn in Hn'. right. rewrite Hc.
      destruct (h =? n) eqn:E.
      * replace n with h by lia. rewrite Hb2. reflexivity.
      * destruct (p_once _ Hi Hst n Hn') as [A|A]; [|exact A]. rewrite Hr in A. inversion A. lia.
  - (* quiet steps *)
    assert (Hc : forall n, nstart n (rhist st') = nstart n (rhist st)).
    { intros n. rewrite Hh'. unfold nstart. rewrite count_ev_app. fold (nstart n evs). rewrite (nstart_quiet _ _ Hq).
      reflexivity. }
    constructor.
    + lia.
    + intros h Hb. destruct (p_begin _ Hi _ (Hrb _ Hb)) as (Hb1 & Hb2 & y & Hy & Hfeed).
      rewrite Hc, Hn. split; [exact Hb1|]. split; [exact Hb2|].
      destruct (Hext _ _ Hy) as (y' & Hy' & Ey'). exists y'. split; [exact Hy'|].
      rewrite Ey', Hh'. apply in_or_app. right. exact Hfeed.
    + intros n Hle. rewrite Hc. apply (p_fresh _ Hi). lia.
    + intros n. rewrite Hc. apply (p_le1 _ Hi).
    + rewrite Hh'. apply fb_quiet; [exact Hq | apply (p_fb _ Hi)].
    + intros fi Hin. rewrite Hh', fed_requests_app, (fed_requests_quiet _ Hq) in Hin. simpl in Hin.
      rewrite Hn. apply (p_fed _ Hi _ Hin).
    + intros Hst n Hn'. destruct (Hso Hst) as [Hst0 Hkeep]. rewrite Hn in Hn'. rewrite Hc.
      destruct (p_once _ Hi Hst0 n Hn') as [A|A]; [left; apply Hkeep; exact A | right; exact A].
Qed.

Lemma PInv_init : PInv rinit.
Proof.
  constructor; simpl; try lia; try discriminate; try reflexivity; auto; try (intros; lia); try (intros _ []).
Qed.

Lemma PInv_run : forall sk ls st, run (rstep sk) rinit ls = Some st -> PInv st.
Proof.
  intros sk ls st H.
  refine (proj2 (invariant_run _ _ (rstep sk) (fun s => ids_ok s /\ PInv s) _ ls _ st _ H)).
  - intros s l s' [Hids Hi] Hs. split; [eapply ids_ok_step; eauto | eapply PInv_step; eauto].
  - split; [|exact PInv_init]. split; simpl; [constructor | intros i []].
Qed.

(* ---------------------------------------------------------------------------------------------------------- *)
(* the theorems                                                                                                *)
(* ---------------------------------------------------------------------------------------------------------- *)

(* 1. never twice *)
Theorem recv_never_invoked_twice : forall sk ls st n,
  run (rstep sk) rinit ls = Some st -> (count_ev (invoked_for n) (rtrace st) <= 1)%nat.
Proof.
  intros sk ls st n H. unfold rtrace. rewrite count_ev_rev. apply (p_le1 _ (PInv_run _ _ _ H)).
Qed.

(* 2. no invocation without its request *)
Theorem recv_invocation_has_request : forall sk ls st h fi,
  run (rstep sk) rinit ls = Some st -> In (AHStart h fi) (rtrace st) ->
  exists pre post, rtrace st = pre ++ AHStart h fi :: post /\ In (AFeed fi true) pre.
Proof.
  intros sk ls st h fi H Hin. unfold rtrace in *. apply in_rev in Hin.
  destruct (in_split _ _ Hin) as (a & b & E).
  pose proof (fb_split _ _ _ _ _ (p_fb _ (PInv_run _ _ _ H)) E) as Hf.
  exists (rev b), (rev a). split.
  - rewrite E, rev_app_distr. simpl. rewrite <- app_assoc. reflexivity.
  - apply in_rev in Hf. exact Hf.
Qed.

(* 3. exactly once at quiescence *)
Theorem recv_invoked_exactly_once : forall sk ls st,
  run (rstep sk) rinit ls = Some st -> stopped st = false -> recv st = RIdle ->
  c01_invoked_once (rtrace st) = true.
Proof.
  intros sk ls st H Hs Hr. pose proof (PInv_run _ _ _ H) as Hi.
  unfold c01_invoked_once. apply forallb_forall. intros fi Hin.
  unfold rtrace in *. apply (proj1 (In_fed_requests_rev _ _)) in Hin. rewrite count_ev_rev.
  pose proof (p_fed _ Hi _ Hin) as Hb.
  destruct (p_once _ Hi Hs _ Hb) as [A|A]; [congruence|].
  unfold nstart in A. rewrite A. reflexivity.
Qed.

(* 4. progress *)
Theorem recv_handoff_serves_unless_stopped : forall sk ls st h,
  run (rstep sk) rinit ls = Some st -> recv st = RBegin h -> stopped st = false ->
  exists st', rstep sk st RBeginRv = Some st' /\
              In (AHStart h (match hfind h (handlers st) with Some x => req_info x | None => mkFI KBad 0 0 false end))
                 (rtrace st').
Proof.
  intros sk ls st h H Hr Hs.
  destruct (p_begin _ (PInv_run _ _ _ H) _ Hr) as (_ & _ & x & Hx & _).
  assert (Ha : tl_alive st = true).
  { destruct (tl_alive st) eqn:E; [reflexivity|].
    pose proof (recv_taskloop_exits_only_after_stop _ _ _ H E). congruence. }
  unfold rstep. rewrite Hr, Ha, Hx. eexists. split; [reflexivity|].
  unfold rtrace, with_hist. simpl. apply in_or_app. right. left. reflexivity.
Qed.

Theorem recv_handoff_enabled : forall ls st h,
  run (rstep expected_skeleton) rinit ls = Some st -> recv st = RBegin h ->
  (exists st', rstep expected_skeleton st RBeginRv = Some st') \/
  (exists st', rstep expected_skeleton st RBeginStop = Some st').
Proof.
  intros ls st h H Hr. destruct (stopped st) eqn:Hs.
  - right. unfold rstep. rewrite Hr, Hs. simpl. eexists. reflexivity.
  - left. destruct (recv_handoff_serves_unless_stopped _ _ _ _ H Hr Hs) as (st' & Hst & _). eauto.
Qed.

Print Assumptions recv_never_invoked_twice.
Print Assumptions recv_invocation_has_request.
Print Assumptions recv_invoked_exactly_once.
Print Assumptions recv_handoff_enabled.
Print Assumptions recv_handoff_serves_unless_stopped.
