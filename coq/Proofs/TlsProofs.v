From Coq Require Import ZifyBool Lia.
From FMP Require Import Base.Bytes Model.Tls.
Open Scope Z_scope.

Lemma verify_ok : forall c s, verify c s = DROk ->
  t_skip c = true \/ (chains c s = true /\ c_expired s = false /\ name_ok c s = true).
Proof.
  intros c s H. unfold verify in H. destruct (t_skip c); [left; reflexivity|].
  destruct (t_name c) as [n|] eqn:N; [|discriminate].
  destruct (c_expired s) eqn:E; [discriminate|].
  destruct (name_ok c s) eqn:Nm; simpl in H; [|discriminate].
  destruct (chains c s) eqn:C; simpl in H; [|discriminate].
  right. auto.
Qed.

(* a dial completes only with a peer that handshakes and whose certificate satisfies the effective configuration *)
Theorem dial_ok_iff : forall k host s b,
    dial k host s b = DROk <->
    exists c, effective k host = Some c /\ b = Handshakes /\ verify c s = DROk /\ (t_skip c = true \/ t_name c <> None).
Proof.
  intros k host s b. unfold dial. split.
  - destruct (effective k host) as [c|]; [|discriminate].
    intros H. exists c. split; [reflexivity|].
    destruct (t_skip c) eqn:S; [|destruct (t_name c) eqn:N; [|discriminate]];
      (destruct b; try discriminate; split; [reflexivity|]; split; [exact H|]).
    + left; reflexivity.
    + right; discriminate.
  - intros [c [E [-> [V P]]]]. rewrite E.
    destruct (t_skip c) eqn:S; [exact V|]. destruct (t_name c) eqn:N; [exact V|]. destruct P; [discriminate|contradiction].
Qed.

(* built from root certificates: the server's certificate chains to those roots, is within its validity period and is
   valid for the dialed host; verification is never skipped *)
Theorem pem_authenticates : forall p roots host s b,
    dial (CtorPEM p roots) host s b = DROk ->
    p = true /\ b = Handshakes /\ existsb (issuer_eqb (c_issuer s)) roots = true /\ c_expired s = false /\ c_name s = host.
Proof.
  intros p roots host s b H. apply dial_ok_iff in H. destruct H as [c [E [-> [V _]]]].
  destruct p; simpl in E; [|discriminate]. inversion E; subst c; clear E.
  apply verify_ok in V. destruct V as [V|[C [X N]]]; [discriminate|].
  unfold chains in C; simpl in C. unfold name_ok in N; simpl in N.
  repeat split; try assumption. lia.
Qed.

Theorem default_authenticates : forall host s b,
    dial CtorDefault host s b = DROk -> False.
Proof.
  intros host s b H. apply dial_ok_iff in H. destruct H as [c [E [-> [V _]]]].
  inversion E; subst c. apply verify_ok in V. destruct V as [V|[C _]]; [discriminate|]. discriminate.
Qed.

(* with a supplied configuration: exactly what that configuration demands *)
Theorem config_satisfied : forall c host s b,
    dial (CtorConfig c) host s b = DROk ->
    b = Handshakes /\ (t_skip c = true \/ (chains c s = true /\ c_expired s = false /\ name_ok c s = true)).
Proof.
  intros c host s b H. apply dial_ok_iff in H. destruct H as [c' [E [-> [V _]]]].
  inversion E; subst c'. split; [reflexivity|]. apply verify_ok. exact V.
Qed.

(* the wrong issuer, the wrong name or an expired certificate fail the dial, and no transport is created *)
Theorem bad_certificates_rejected : forall k host s c,
    effective k host = Some c -> t_skip c = false ->
    (chains c s = false \/ c_expired s = true \/ name_ok c s = false) ->
    dial k host s Handshakes <> DROk /\ transport_created (dial k host s Handshakes) = false.
Proof.
  intros k host s c E S Bad.
  assert (N : dial k host s Handshakes <> DROk).
  { intros H. apply dial_ok_iff in H. destruct H as [c' [E' [_ [V _]]]]. rewrite E in E'. inversion E'; subst c'.
    apply verify_ok in V. destruct V as [V|[C [X Nm]]]; [congruence|].
    destruct Bad as [B|[B|B]]; congruence. }
  split; [exact N|]. destruct (dial k host s Handshakes); try reflexivity. contradiction.
Qed.

(* a peer that never completes the handshake makes the dial fail (after the handshake timeout), never succeed or hang *)
Theorem stalled_handshake_fails : forall k host s,
    dial k host s Stalls = DRTimeout \/ dial k host s Stalls = DRBadRoots \/ dial k host s Stalls = DRNoServerName.
Proof.
  intros k host s. unfold dial. destruct (effective k host) as [c|]; [|auto].
  destruct (t_skip c); [auto|]. destruct (t_name c); auto.
Qed.

Theorem no_transport_unless_ok : forall k host s b, transport_created (dial k host s b) = true -> dial k host s b = DROk.
Proof. intros k host s b H. destruct (dial k host s b); try discriminate. reflexivity. Qed.

(* copying at construction makes later changes by the caller irrelevant; keeping the caller's object would not *)
Theorem copy_isolates : forall given mutated host s b,
    dial (CtorConfig (stored_after_mutation true given mutated)) host s b = dial (CtorConfig given) host s b.
Proof. reflexivity. Qed.
Theorem alias_refuted : exists given mutated host s b,
    dial (CtorConfig (stored_after_mutation false given mutated)) host s b <> dial (CtorConfig given) host s b.
Proof.
  exists (mkTC (Some [CA1]) (Some 1) false), (mkTC None None true), 1, (mkCert CA2 1 false), Handshakes.
  vm_compute. discriminate.
Qed.

Print Assumptions dial_ok_iff.
Print Assumptions pem_authenticates.
Print Assumptions default_authenticates.
Print Assumptions config_satisfied.
Print Assumptions bad_certificates_rejected.
Print Assumptions stalled_handshake_fails.
Print Assumptions no_transport_unless_ok.
Print Assumptions copy_isolates.
Print Assumptions alias_refuted.
