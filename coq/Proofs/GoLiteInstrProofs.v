(* The translated bodies of NetworkInstrumenter.IncrementSize / EndCall / RecordAndFinish / Finish
   (Generated.golite_funcs), run by the GoLite interpreter, refine the hand model Model/Instrument.v. *)
From Coq Require Import Lia.
From FMP Require Import Base.Bytes Model.GenTypes Model.Generated Model.GoLite Model.Instrument.
From FMP Require Import Proofs.GoLiteProofs.
Open Scope string_scope.
Open Scope nat_scope.

Definition name_increment := "NetworkInstrumenter.IncrementSize".
Definition name_endcall := "NetworkInstrumenter.EndCall".
Definition name_raf := "NetworkInstrumenter.RecordAndFinish".
Definition name_finish := "NetworkInstrumenter.Finish".
Definition instr_names : list string := [name_increment; name_endcall; name_raf; name_finish].

(* ---- the four bodies are present and contain no EUnsupported / SUnsupported node ---- *)
Theorem golite_instr_no_unsupported :
  forallb (fun nm => match lookup nm golite_funcs with
                     | Some g => forallb stmt_ok (gf_body g)
                     | None => false
                     end) instr_names = true.
Proof. vm_compute. reflexivity. Qed.

Definition with_effects (ef : list event) (st : state) : state :=
  mkState (heap st) (locals st) (drawn st) (acq st) (rel st) (held st) (defers st) ef.

(* what EndCall leaves in r.Dur *)
Definition dur_after : val := VOpaque "time.Since(r.Ctime)".

(* the value a finish returns: the error text when refused, otherwise whatever the first recorded external call
   (the Put) returned *)
Definition finish_result (refused : bool) : val :=
  if refused then VErr "record already finished" else VExt 0.

Section InstrRefines.
  Variable permI : nat -> nat -> list nat.
  (* the parts of the object the hand model does not speak about: arbitrary *)
  Variable tag : list N.
  Variables ctime storage : val.

  (* the GoLite state that represents a hand-model state: receiver and embedded record pointer non-nil, mutex free,
     counters at zero, empty frame, no effect so far; [dur] is the current r.Dur *)
  Definition irepr (dur : val) (s : inst) : state :=
    mkState [("r", VPtr);
             ("r.InstrumentationRecord", VPtr);
             ("r.InstrumentationRecord.Ctime", ctime);
             ("r.InstrumentationRecord.Dur", dur);
             ("r.InstrumentationRecord.Size", VInt (i_size s));
             ("r.storage", storage);
             ("r.tag", VStr tag);
             ("r.finished", VBool (i_finished s))] [] 0 0 0 [] [] [].

  (* r.storage.Put(ctx, r.tag, *r.InstrumentationRecord) with the record's size being sz *)
  Definition put_event (ctx dur : val) (sz : Z) : event :=
    ("r.storage.Put", [ctx; VStr tag; VRec [("Ctime", ctime); ("Dur", dur); ("Size", VInt sz)]]).

  Local Notation run := (run_fun_args permI).
  Local Notation ft := golite_funcs.

  Ltac symex := lazy -[wrap Z.add]; reflexivity.

  (* ---------------- IncrementSize ---------------- *)
  (* what the source does on every int64 size and argument: the stored size wraps at 64 bits *)
  Theorem golite_increment_wraps : forall fuel dur s n, 1 <= fuel ->
      run fuel ft name_increment [VInt n] (irepr dur s) =
      RNormal (with_mutex 1 1 (irepr dur (mkInst (wrap 64 (i_size s + n)) (i_finished s)))).
  Proof.
    intros fuel dur [sz fin] n Hf. destruct fuel as [|f]; [lia|]. symex.
  Qed.

  (* no int64 overflow (all three hypotheses are about int64 range; only then does the unbounded-Z hand model apply):
     the run ends normally in the state representing the hand model's next state; effects = [] (no effect recorded),
     acq = rel = 1, held = [] (mutex acquired and released exactly once) *)
  Theorem golite_increment_refines : forall fuel dur s n, 1 <= fuel ->
      in_range64 (i_size s) -> in_range64 n -> in_range64 (i_size s + n)%Z ->
      run fuel ft name_increment [VInt n] (irepr dur s) =
      RNormal (with_mutex 1 1 (irepr dur (fst (fst (istep s (IIncrement n)))))).
  Proof.
    intros fuel dur s n Hf _ _ Hsum. rewrite golite_increment_wraps by exact Hf.
    rewrite (wrap64_id _ Hsum). reflexivity.
  Qed.

  (* the same, with the three observations spelled out *)
  Corollary golite_increment_observations : forall fuel dur s n, 1 <= fuel ->
      in_range64 (i_size s) -> in_range64 n -> in_range64 (i_size s + n)%Z ->
      exists st, run fuel ft name_increment [VInt n] (irepr dur s) = RNormal st /\
                 heap st = heap (irepr dur (fst (fst (istep s (IIncrement n))))) /\
                 effects st = [] /\ acq st = 1 /\ rel st = 1 /\ held st = [] /\ defers st = [].
  Proof.
    intros fuel dur s n Hf H1 H2 H3. eexists. split; [apply golite_increment_refines; assumption|].
    cbn. repeat split; reflexivity.
  Qed.

  (* ---------------- EndCall ---------------- *)
  Theorem golite_endcall_spec : forall fuel dur s, 1 <= fuel ->
      run fuel ft name_endcall [] (irepr dur s) = RNormal (with_mutex 1 1 (irepr dur_after s)).
  Proof.
    intros fuel dur [sz fin] Hf. destruct fuel as [|f]; [lia|]. symex.
  Qed.

  (* ---------------- Finish ---------------- *)
  (* state, list of put sizes and refused flag are exactly those of istep s IFinish; the value returned is the
     oracle's result for that Put (VExt 0: result of the first recorded effect), or the error when refused *)
  Theorem golite_finish_refines : forall fuel dur s ctx, 1 <= fuel ->
      run fuel ft name_finish [ctx] (irepr dur s) =
      RReturn (finish_result (snd (istep s IFinish)))
              (with_effects (map (put_event ctx dur) (snd (fst (istep s IFinish))))
                 (with_mutex 1 1 (irepr dur (fst (fst (istep s IFinish)))))).
  Proof.
    intros fuel dur [sz fin] ctx Hf. destruct fuel as [|f]; [lia|]. destruct fin; symex.
  Qed.

  (* the two cases spelled out *)
  Theorem golite_finish_cases : forall fuel dur s ctx, 1 <= fuel ->
      (i_finished s = false ->
       run fuel ft name_finish [ctx] (irepr dur s) =
       RReturn (VExt 0) (with_effects [put_event ctx dur (i_size s)]
                           (with_mutex 1 1 (irepr dur (mkInst (i_size s) true))))) /\
      (i_finished s = true ->
       run fuel ft name_finish [ctx] (irepr dur s) =
       RReturn (VErr "record already finished") (with_mutex 1 1 (irepr dur s))).
  Proof.
    intros fuel dur [sz fin] ctx Hf. destruct fuel as [|f]; [lia|].
    split; intro H; cbn [i_finished] in H; subst fin; symex.
  Qed.

  (* ---------------- RecordAndFinish ---------------- *)
  Lemma raf_wraps : forall fuel dur s ctx n, 2 <= fuel ->
      let s' := mkInst (wrap 64 (i_size s + n)) (i_finished s) in
      run fuel ft name_raf [ctx; VInt n] (irepr dur s) =
      RReturn (finish_result (snd (istep s' IFinish)))
              (with_effects (map (put_event ctx dur_after) (snd (fst (istep s' IFinish))))
                 (with_mutex 3 3 (irepr dur_after (fst (fst (istep s' IFinish)))))).
  Proof.
    intros fuel dur [sz fin] ctx n Hf. destruct fuel as [|[|f]]; [lia|lia|]. destruct fin; symex.
  Qed.

  (* on a finished record the size is still incremented and no Put happens; three lock/unlock pairs
     (IncrementSize, EndCall, Finish), none nested *)
  Theorem golite_record_and_finish_refines : forall fuel dur s ctx n, 2 <= fuel ->
      in_range64 (i_size s) -> in_range64 n -> in_range64 (i_size s + n)%Z ->
      run fuel ft name_raf [ctx; VInt n] (irepr dur s) =
      RReturn (finish_result (snd (istep s (IRecordAndFinish n))))
              (with_effects (map (put_event ctx dur_after) (snd (fst (istep s (IRecordAndFinish n)))))
                 (with_mutex 3 3 (irepr dur_after (fst (fst (istep s (IRecordAndFinish n))))))).
  Proof.
    intros fuel dur s ctx n Hf _ _ Hsum. rewrite raf_wraps by exact Hf. cbv zeta.
    rewrite (wrap64_id _ Hsum). destruct s as [sz fin]. destruct fin; reflexivity.
  Qed.

  (* ---------------- nil receiver: nothing happens ---------------- *)
  Theorem golite_instr_nil_receiver : forall fuel H ctx n, 1 <= fuel ->
      let st := mkState (("r", VNil) :: H) [] 0 0 0 [] [] [] in
      run fuel ft name_increment [VInt n] st = RReturn VUnit st /\
      run fuel ft name_endcall [] st = RReturn VUnit st /\
      run fuel ft name_finish [ctx] st = RReturn VNil st /\
      run fuel ft name_raf [ctx; VInt n] st = RReturn VNil st.
  Proof.
    intros fuel H ctx n Hf. destruct fuel as [|f]; [lia|]. repeat split; symex.
  Qed.
End InstrRefines.

(* the size wraps at 2^63: from 2^63-1, adding 1 stores -2^63, where the hand model says 2^63 *)
Theorem golite_increment_wraps_at_2_63 : forall permI tag ctime storage fuel dur fin, 1 <= fuel ->
    run_fun_args permI fuel golite_funcs name_increment [VInt 1]
                 (irepr tag ctime storage dur (mkInst (2 ^ 63 - 1) fin)) =
    RNormal (with_mutex 1 1 (irepr tag ctime storage dur (mkInst (- 2 ^ 63) fin))) /\
    i_size (fst (fst (istep (mkInst (2 ^ 63 - 1) fin) (IIncrement 1)))) = (2 ^ 63)%Z.
Proof.
  intros permI tag ctime storage fuel dur fin Hf. split; [|reflexivity].
  rewrite golite_increment_wraps by exact Hf. reflexivity.
Qed.

(* ---- non-vacuity: the interpreter really runs the translated bodies ---- *)
Definition ex_irepr := irepr [116; 97; 103]%N (VOpaque "ctime") VPtr VUnit inst0.
Definition ex_ctx : val := VOpaque "ctx".

(* increment 5, record-and-finish 7: one Put with size 12, returning the Put's result; a second Finish is refused
   and records nothing *)
Example ex_golite_instr_chain :
  match run_fun_args ex_permI 5 golite_funcs name_increment [VInt 5] ex_irepr with
  | RNormal st1 =>
      match run_fun_args ex_permI 5 golite_funcs name_raf [ex_ctx; VInt 7] st1 with
      | RReturn v2 st2 =>
          v2 = VExt 0 /\
          effects st2 = [put_event [116; 97; 103]%N (VOpaque "ctime") ex_ctx dur_after 12] /\
          lookup "r.finished" (heap st2) = Some (VBool true) /\
          acq st2 = 4 /\ rel st2 = 4 /\ held st2 = [] /\
          match run_fun_args ex_permI 5 golite_funcs name_finish [ex_ctx] st2 with
          | RReturn v3 st3 => v3 = VErr "record already finished" /\ effects st3 = effects st2 /\ heap st3 = heap st2
          | _ => False
          end
      | _ => False
      end
  | _ => False
  end.
Proof. vm_compute. repeat split; reflexivity. Qed.

Example ex_golite_instr_matches_model :
  snd (irun inst0 [IIncrement 5; IRecordAndFinish 7; IFinish]) = [12%Z].
Proof. reflexivity. Qed.

Example ex_golite_increment_wraps :
  run_fun_args ex_permI 1 golite_funcs name_increment [VInt 1]
               (irepr [] VUnit VPtr VUnit (mkInst (2 ^ 63 - 1) false)) =
  RNormal (with_mutex 1 1 (irepr [] VUnit VPtr VUnit (mkInst (- 2 ^ 63) false))).
Proof. vm_compute. reflexivity. Qed.

Example ex_golite_raf_out_of_fuel :
  run_fun_args ex_permI 1 golite_funcs name_raf [ex_ctx; VInt 7] ex_irepr = ROutOfFuel.
Proof. vm_compute. reflexivity. Qed.

Example ex_golite_arity :
  run_fun_args ex_permI 3 golite_funcs name_finish [] ex_irepr = RPanic PArity.
Proof. vm_compute. reflexivity. Qed.

Print Assumptions golite_instr_no_unsupported.
Print Assumptions golite_increment_wraps.
Print Assumptions golite_increment_refines.
Print Assumptions golite_endcall_spec.
Print Assumptions golite_finish_refines.
Print Assumptions golite_finish_cases.
Print Assumptions golite_record_and_finish_refines.
Print Assumptions golite_instr_nil_receiver.
Print Assumptions golite_increment_wraps_at_2_63.
