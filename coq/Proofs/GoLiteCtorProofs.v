(* Construction and printing of the rotation object (rpc/remote.go): prioritizedRoundRobinRemote.String,
   NewPrioritizedRoundRobinRemote, ParsePrioritizedRoundRobinRemote, translated into Generated.golite_funcs and run by
   the GoLite interpreter, compute Remote.to_string / new_groups / parse_remote.  strings.ToLower / TrimSpace / Split /
   Join are interpreted primitives (GoLite.prim_eval = Remote.lower_b / trim / split / join; that mapping is trusted). *)
From Coq Require Import Lia Permutation.
From FMP Require Import Base.Bytes Model.GenTypes Model.Generated Model.GoLite Model.Remote Proofs.GoLiteProofs.
Open Scope string_scope.
Open Scope nat_scope.

Definition name_string := "prioritizedRoundRobinRemote.String".
Definition name_new := "NewPrioritizedRoundRobinRemote".
Definition name_parse := "ParsePrioritizedRoundRobinRemote".
Definition ctor_names : list string := [name_string; name_new; name_parse].

Theorem golite_ctor_no_unsupported :
  forallb (fun nm => match lookup nm golite_funcs with
                     | Some g => forallb stmt_ok (gf_body g)
                     | None => false
                     end) ctor_names = true.
Proof. vm_compute. reflexivity. Qed.

(* ---- the primitives on encoded values ---- *)
Lemma strs_map : forall ss, strs (map VStr ss) = Some ss.
Proof. induction ss as [|s ss IH]; cbn [map strs]; [reflexivity|]. rewrite IH. reflexivity. Qed.

Lemma prim_join : forall ss sep,
    prim_eval "strings.Join" [VList (map VStr ss); VStr [sep]] = Some (VStr (join sep ss)).
Proof. intros. cbv [prim_eval String.eqb Ascii.eqb Bool.eqb]. rewrite strs_map. reflexivity. Qed.

Lemma prim_split : forall s sep,
    prim_eval "strings.Split" [VStr s; VStr [sep]] = Some (VList (map VStr (split sep s))).
Proof. reflexivity. Qed.

Lemma prim_lower : forall s, prim_eval "strings.ToLower" [VStr s] = Some (VStr (map lower_b s)).
Proof. reflexivity. Qed.

Lemma prim_trim : forall s, prim_eval "strings.TrimSpace" [VStr s] = Some (VStr (trim s)).
Proof. reflexivity. Qed.

Definition err_no_address : val := VErr "addressGroups has no address".

Definition string_body : list stmt := Eval vm_compute in body_of name_string.
Definition string_loop : list stmt :=
  Eval vm_compute in match string_body with [_; SRange _ _ b; _] => b | _ => [] end.

Definition new_body : list stmt := Eval vm_compute in body_of name_new.
Definition new_outer_b : list stmt :=
  Eval vm_compute in match new_body with _ :: SRange _ _ b :: _ => b | _ => [] end.
Definition new_inner_b : list stmt :=
  Eval vm_compute in match new_outer_b with [_; SRange _ _ b; _] => b | _ => [] end.
Definition parse_body : list stmt := Eval vm_compute in body_of name_parse.
Definition parse_loop : list stmt :=
  Eval vm_compute in match parse_body with [_; _; SRange _ _ b; _] => b | _ => [] end.

Section Ctor.
  Variable permI : nat -> nat -> list nat.
  Local Notation ft := golite_funcs.

  Ltac ev := try unfold bump; cbn [eval get_var set_var is_field Ascii.eqb Bool.eqb orb heap locals drawn acq rel held
                  defers effects lookup upd String.eqb binop_eval val_eq int_op option_map bump rev app].

  Lemma of_nat_neg' : forall n : nat, (Z.of_nat n <? 0)%Z = false.
  Proof. intro n. apply Z.ltb_ge. lia. Qed.

  (* ================= String ================= *)
  Lemma string_range : forall (gs : list (list (list N))) rec H L (acc : list (list N)) d a u h df ef,
      lookup "addressGroups" L = Some (VList (map VStr acc)) ->
      exists L',
        exec_range permI rec ft "group" string_loop (map enc_group gs) (mkState H L d a u h df ef) =
        RNormal (mkState H L' d a u h df ef) /\
        lookup "addressGroups" L' = Some (VList (map VStr (acc ++ map (join comma) gs))).
  Proof.
    induction gs as [|g gs IH]; intros rec H L acc d a u h df ef Ha.
    - exists L. cbn [map]. rewrite xr_nil, app_nil_r. auto.
    - cbn [map]. rewrite xr_cons. unfold string_loop. ev.
      set (L1 := upd "group" (enc_group g) L).
      assert (Hg1 : lookup "group" L1 = Some (enc_group g)) by (unfold L1; apply lookup_upd_eq).
      assert (Ha1 : lookup "addressGroups" L1 = Some (VList (map VStr acc)))
        by (unfold L1; rewrite lookup_upd_ne; [auto|discriminate]).
      rewrite xb_cons, xs_set. ev. rewrite Ha1. ev. rewrite Hg1. unfold enc_group at 1. ev.
      change 44%N with comma. rewrite prim_join. ev. rewrite xb_nil.
      set (L2 := upd "addressGroups" (VList (map VStr acc ++ [VStr (join comma g)])) L1).
      destruct (IH rec H L2 (acc ++ [join comma g])%list d a u h df ef) as [L' [He Ha']].
      + unfold L2. rewrite lookup_upd_eq, map_app. reflexivity.
      + exists L'. split; [exact He|]. rewrite Ha', <- app_assoc. reflexivity.
  Qed.

  (* String takes no lock and changes nothing *)
  Theorem golite_string_refines : forall fuel r, 1 <= fuel ->
      run_fun permI fuel ft name_string (repr r) = RReturn (VStr (to_string (addrs r))) (repr r).
  Proof.
    intros fuel r Hf. destruct fuel as [|f]; [lia|].
    unfold run_fun, run_fun_args, do_call.
    change (lookup name_string ft) with (Some (mkGfun "r" [] string_body)).
    cbn [gf_body gf_params bind]. rewrite exec_S. unfold string_body, repr, enter. ev.
    rewrite xb_cons, xs_set. unfold enc_groups at 1. ev. rewrite of_nat_neg'. ev.
    rewrite xb_cons, xs_range. fold string_loop. ev.
    destruct (string_range (addrs r) (exec permI f ft)
                [("r.addresses", VList (map enc_group (addrs r))); ("r.toIterate", enc_groups (iter r))]
                [("addressGroups", VList [])] [] (draws r) 0 0 [] [] [] eq_refl) as [L' [He Ha]].
    rewrite He. rewrite xb_cons, xs_ret. ev. rewrite Ha. ev.
    change 59%N with semi. cbn [app]. rewrite prim_join. unfold leave. ev. cbn [run_defers]. ev.
    reflexivity.
  Qed.

  (* ================= NewPrioritizedRoundRobinRemote ================= *)
  Hypothesis permI_ok : forall n k, Permutation (permI n k) (seq 0 k).
  Local Notation perm := (GoLiteProofs.perm permI).

  Lemma clean_group_cons : forall x g,
      clean_group (x :: g) = if nonempty (clean_addr x) then clean_addr x :: clean_group g else clean_group g.
  Proof. reflexivity. Qed.
  Lemma clean_cons : forall g gs,
      clean (g :: gs) = if nonempty (clean_group g) then clean_group g :: clean gs else clean gs.
  Proof. reflexivity. Qed.
  Lemma len_cons_gt0 : forall {A} (x : A) l, (0 <? Z.of_nat (length (x :: l)))%Z = true.
  Proof. intros. apply Z.ltb_lt. cbn [length]. lia. Qed.

  Lemma new_inner : forall (g : list bytes) rec H L (acc : list addr) d a u h df ef,
      lookup "cleanedGroup" L = Some (VList (map VStr acc)) ->
      exists L',
        exec_range permI rec ft "addr" new_inner_b (map VStr g) (mkState H L d a u h df ef) =
        RNormal (mkState H L' d a u h df ef) /\
        lookup "cleanedGroup" L' = Some (VList (map VStr (acc ++ clean_group g))) /\
        lookup "cleaned" L' = lookup "cleaned" L.
  Proof.
    induction g as [|x g IH]; intros rec H L acc d a u h df ef Hc.
    - exists L. cbn [map]. rewrite xr_nil. cbn [clean_group map filter]. rewrite app_nil_r. auto.
    - cbn [map]. rewrite xr_cons. unfold new_inner_b. ev.
      set (L1 := upd "addr" (VStr x) L).
      assert (Hx1 : lookup "addr" L1 = Some (VStr x)) by (unfold L1; apply lookup_upd_eq).
      rewrite xb_cons, xs_set. ev. rewrite Hx1. ev. rewrite prim_trim. ev. rewrite prim_lower. ev.
      fold (clean_addr x).
      set (L2 := upd "addr'2" (VStr (clean_addr x)) L1).
      assert (Hy2 : lookup "addr'2" L2 = Some (VStr (clean_addr x))) by (unfold L2; apply lookup_upd_eq).
      assert (Hc2 : lookup "cleanedGroup" L2 = Some (VList (map VStr acc))).
      { unfold L2, L1. rewrite !lookup_upd_ne by discriminate. exact Hc. }
      assert (Hk2 : lookup "cleaned" L2 = lookup "cleaned" L).
      { unfold L2, L1. rewrite !lookup_upd_ne by discriminate. reflexivity. }
      rewrite xb_cons, xs_cond. ev. rewrite Hy2. ev. rewrite clean_group_cons.
      destruct (clean_addr x) as [|c cs] eqn:Ec.
      + cbn [length Z.of_nat Z.ltb Z.compare nonempty]. rewrite !xb_nil.
        destruct (IH rec H L2 acc d a u h df ef Hc2) as [L' [He [Hc' Hk']]].
        exists L'. split; [exact He|]. split; [exact Hc'|]. rewrite Hk'. exact Hk2.
      + rewrite len_cons_gt0. cbn [nonempty].
        rewrite xb_cons, xs_set. ev. rewrite Hc2. ev. rewrite Hy2. ev. rewrite !xb_nil.
        set (L3 := upd "cleanedGroup" (VList (map VStr acc ++ [VStr (c :: cs)])) L2).
        destruct (IH rec H L3 (acc ++ [c :: cs])%list d a u h df ef) as [L' [He [Hc' Hk']]].
        * unfold L3. rewrite lookup_upd_eq, map_app. reflexivity.
        * exists L'. split; [exact He|]. split.
          -- rewrite Hc', <- app_assoc. reflexivity.
          -- rewrite Hk'. unfold L3. rewrite lookup_upd_ne by discriminate. exact Hk2.
  Qed.

  Lemma enc_groups_app : forall a b, enc_groups (a ++ b) = VList (map enc_group a ++ map enc_group b).
  Proof. intros. unfold enc_groups. rewrite map_app. reflexivity. Qed.

  Lemma new_outer : forall (gs : list (list bytes)) rec H L (acc : groups) d a u h df ef,
      lookup "cleaned" L = Some (enc_groups acc) ->
      exists L',
        exec_range permI rec ft "group" new_outer_b (map enc_group gs) (mkState H L d a u h df ef) =
        RNormal (mkState H L' d a u h df ef) /\
        lookup "cleaned" L' = Some (enc_groups (acc ++ clean gs)).
  Proof.
    induction gs as [|g gs IH]; intros rec H L acc d a u h df ef Hk.
    - exists L. cbn [map]. rewrite xr_nil. cbn [clean map filter]. rewrite app_nil_r. auto.
    - cbn [map]. rewrite xr_cons. unfold new_outer_b. ev.
      set (L1 := upd "group" (enc_group g) L).
      assert (Hg1 : lookup "group" L1 = Some (enc_group g)) by (unfold L1; apply lookup_upd_eq).
      rewrite xb_cons, xs_set. ev. rewrite Hg1. unfold enc_group at 1. ev. rewrite of_nat_neg'. ev.
      set (L2 := upd "cleanedGroup" (VList []) L1).
      assert (Hg2 : lookup "group" L2 = Some (enc_group g))
        by (unfold L2; rewrite lookup_upd_ne; [auto|discriminate]).
      assert (Hc2 : lookup "cleanedGroup" L2 = Some (VList (map VStr []))) by (unfold L2; apply lookup_upd_eq).
      assert (Hk2 : lookup "cleaned" L2 = Some (enc_groups acc)).
      { unfold L2, L1. rewrite !lookup_upd_ne by discriminate. exact Hk. }
      rewrite xb_cons, xs_range. fold new_inner_b. ev. rewrite Hg2. unfold enc_group at 1.
      destruct (new_inner g rec H L2 [] d a u h df ef Hc2) as [L3 [He [Hc3 Hk3]]].
      rewrite He. cbn [app] in Hc3. rewrite Hk2 in Hk3.
      rewrite xb_cons, xs_cond. ev. rewrite Hc3. ev. rewrite clean_cons.
      destruct (clean_group g) as [|c cs] eqn:Ec.
      + cbn [map length Z.of_nat Z.ltb Z.compare nonempty]. rewrite !xb_nil.
        destruct (IH rec H L3 acc d a u h df ef Hk3) as [L' [He' Hk']].
        exists L'. unfold new_outer_b, new_inner_b in He' |- *. split; [exact He'|exact Hk'].
      + rewrite map_length, len_cons_gt0. cbn [nonempty].
        rewrite xb_cons, xs_set. ev. rewrite Hk3. unfold enc_groups at 1. ev. rewrite Hc3. ev. rewrite !xb_nil.
        set (L4 := upd "cleaned" (VList (map enc_group acc ++ [VList (map VStr (c :: cs))])) L3).
        destruct (IH rec H L4 (acc ++ [c :: cs])%list d a u h df ef) as [L' [He' Hk']].
        * unfold L4. rewrite lookup_upd_eq, enc_groups_app. reflexivity.
        * exists L'. unfold new_outer_b, new_inner_b in He' |- *. split; [exact He'|].
          rewrite Hk', <- app_assoc. reflexivity.
  Qed.

  Lemma xs_callon : forall rec x f args st,
      exec_stmt permI rec ft (SCallOn x f args) st =
      match eval_list permI args st with
      | inl (vs, s1) =>
          match get_var x s1, lookup f ft with
          | Some (VRec fs), Some g =>
              match do_call rec ft f vs (with_heap (install (gf_recv g) fs (heap s1)) s1) with
              | RNormal s | RReturn _ s =>
                  match read_fields (gf_recv g) (map fst fs) (heap s) with
                  | Some fs' => RNormal (set_var x (VRec fs') s)
                  | None => RPanic PUnknownVar
                  end
              | r => r
              end
          | Some _, Some _ => RPanic PType
          | None, _ => RPanic PUnknownVar
          | _, None => RPanic PNoFunc
          end
      | inr w => RPanic w
      end.
  Proof. reflexivity. Qed.

  Lemma xs_retcall : forall rec f args st,
      exec_stmt permI rec ft (SRetCallM f args) st =
      match eval_list permI args st with
      | inl (vs, s1) => match do_call rec ft f vs s1 with RNormal s => RReturn VUnit s | r => r end
      | inr w => RPanic w
      end.
  Proof. reflexivity. Qed.

  (* what the constructor returns: (object, nil) or (nil, error); the object's two slices *)
  Definition new_object (r : remote) : val :=
    VRec [("addresses", enc_groups (addrs r)); ("toIterate", enc_groups (iter r))].
  Definition new_result (o : option groups) (d : nat) : val * state :=
    match o with
    | None => (VTuple [VNil; err_no_address], mkState [] [] d 0 0 [] [] [])
    | Some c => let r := reset perm (mkRemote c [] d) in (VTuple [new_object r; VNil], repr r)
    end.

  (* general form: called from any frame L (restored afterwards), with at least 2 units of fuel inside *)
  Lemma new_call : forall f (gs : list (list bytes)) L d, 2 <= f ->
      do_call (exec permI f ft) ft name_new [enc_groups gs] (mkState [] L d 0 0 [] [] []) =
      RReturn (fst (new_result (new_groups gs) d))
              (mkState (heap (snd (new_result (new_groups gs) d))) L (drawn (snd (new_result (new_groups gs) d)))
                       0 0 [] [] []).
  Proof.
    intros f gs L d Hf. destruct f as [|f]; [lia|].
    unfold do_call.
    change (lookup name_new ft) with (Some (mkGfun "" ["addressGroups"] new_body)).
    cbn [gf_body gf_params bind]. rewrite exec_S. unfold new_body, enter. ev.
    rewrite xb_cons, xs_set. unfold enc_groups at 1. ev. rewrite of_nat_neg'. ev.
    rewrite xb_cons, xs_range. fold new_outer_b. ev.
    destruct (new_outer gs (exec permI f ft) [] [("addressGroups", VList (map enc_group gs)); ("cleaned", VList [])]
                        [] d 0 0 [] [] [] eq_refl) as [L' [He Hk]].
    rewrite He. cbn [app] in Hk.
    rewrite xb_cons, xs_cond. ev. rewrite Hk. unfold new_groups.
    destruct (clean gs) as [|c cs] eqn:Ec.
    - unfold enc_groups at 1. cbn [map]. ev. cbn [length Z.of_nat Z.eqb].
      rewrite xb_cons, xs_ret. ev. unfold leave. ev. cbn [run_defers]. ev. reflexivity.
    - unfold enc_groups at 1. cbn [map]. ev. rewrite len_cons_eq0. rewrite xb_nil.
      rewrite xb_cons, xs_set. ev. rewrite Hk. ev. change (0 <? 0)%Z with false. ev.
      set (L2 := upd "r" (VRec [("addresses", enc_groups (c :: cs)); ("toIterate", VList [])]) L').
      assert (Hr2 : lookup "r" L2 = Some (VRec [("addresses", enc_groups (c :: cs)); ("toIterate", VList [])]))
        by (unfold L2; apply lookup_upd_eq).
      rewrite xb_cons, xs_callon. cbn [eval_list]. ev. rewrite Hr2.
      change (lookup "prioritizedRoundRobinRemote.resetLocked" ft) with (Some (mkGfun "r" [] resetLocked_body)).
      cbn [gf_recv install append heap upd]. unfold with_heap. ev.
      rewrite (resetLocked_call permI permI_ok f (c :: cs) (VList []) L2 d 0 0 [] [] []) by lia.
      destruct (refill perm d (c :: cs)) as [it n] eqn:Er. cbn [fst snd].
      cbn [map fst read_fields append heap lookup String.eqb Ascii.eqb Bool.eqb]. ev.
      rewrite xb_cons, xs_ret. ev. rewrite lookup_upd_eq. ev. unfold leave. ev. cbn [run_defers]. ev.
      unfold new_result, reset. cbn [addrs draws]. rewrite Er. reflexivity.
  Qed.

  Theorem golite_new_refines : forall fuel (gs : list (list bytes)) d, 3 <= fuel ->
      run_fun_args permI fuel ft name_new [enc_groups gs] (mkState [] [] d 0 0 [] [] []) =
      RReturn (fst (new_result (new_groups gs) d)) (snd (new_result (new_groups gs) d)).
  Proof.
    intros fuel gs d Hf. unfold run_fun_args. rewrite new_call by lia.
    unfold new_result. destruct (new_groups gs); cbn [fst snd]; [|reflexivity].
    unfold reset. cbn [addrs draws]. destruct (refill perm d g). reflexivity.
  Qed.

  (* ================= ParsePrioritizedRoundRobinRemote ================= *)
  Lemma parse_range : forall (ps : list bytes) rec H L (acc : list (list bytes)) d a u h df ef,
      lookup "addressGroups" L = Some (enc_groups acc) ->
      exists L',
        exec_range permI rec ft "group" parse_loop (map VStr ps) (mkState H L d a u h df ef) =
        RNormal (mkState H L' d a u h df ef) /\
        lookup "addressGroups" L' = Some (enc_groups (acc ++ map (split comma) ps)).
  Proof.
    induction ps as [|p ps IH]; intros rec H L acc d a u h df ef Ha.
    - exists L. cbn [map]. rewrite xr_nil, app_nil_r. auto.
    - cbn [map]. rewrite xr_cons. unfold parse_loop. ev.
      set (L1 := upd "group" (VStr p) L).
      assert (Hg1 : lookup "group" L1 = Some (VStr p)) by (unfold L1; apply lookup_upd_eq).
      assert (Ha1 : lookup "addressGroups" L1 = Some (enc_groups acc))
        by (unfold L1; rewrite lookup_upd_ne; [auto|discriminate]).
      rewrite xb_cons, xs_set. ev. rewrite Ha1. unfold enc_groups at 1. ev. rewrite Hg1. ev.
      change 44%N with comma. rewrite prim_split. ev. rewrite xb_nil.
      set (L2 := upd "addressGroups" (VList (map enc_group acc ++ [VList (map VStr (split comma p))])) L1).
      destruct (IH rec H L2 (acc ++ [split comma p])%list d a u h df ef) as [L' [He Ha']].
      + unfold L2. rewrite lookup_upd_eq, enc_groups_app. reflexivity.
      + exists L'. split; [exact He|]. rewrite Ha', <- app_assoc. reflexivity.
  Qed.

  Theorem golite_parse_refines : forall fuel (s : bytes) d, 3 <= fuel ->
      run_fun_args permI fuel ft name_parse [VStr s] (mkState [] [] d 0 0 [] [] []) =
      RReturn (fst (new_result (parse_remote s) d)) (snd (new_result (parse_remote s) d)).
  Proof.
    intros fuel s d Hf. destruct fuel as [|f]; [lia|].
    unfold run_fun_args, do_call.
    change (lookup name_parse ft) with (Some (mkGfun "" ["str"] parse_body)).
    cbn [gf_body gf_params bind]. rewrite exec_S. unfold parse_body, enter. ev.
    rewrite xb_cons, xs_set. ev. change 59%N with semi. rewrite prim_split. ev.
    rewrite xb_cons, xs_set. ev. rewrite of_nat_neg'. ev.
    rewrite xb_cons, xs_range. fold parse_loop. ev.
    destruct (parse_range (split semi s) (exec permI f ft) []
                [("str", VStr s); ("groups", VList (map VStr (split semi s))); ("addressGroups", VList [])]
                [] d 0 0 [] [] [] eq_refl) as [L' [He Ha]].
    rewrite He. cbn [app] in Ha.
    rewrite xb_cons, xs_retcall. cbn [eval_list]. ev. rewrite Ha. fold (parse_groups s).
    rewrite new_call by lia. unfold parse_remote.
    unfold leave. ev. cbn [run_defers]. ev.
    unfold new_result. destruct (new_groups (parse_groups s)); cbn [fst snd heap drawn]; [|reflexivity].
    unfold reset. cbn [addrs draws]. destruct (refill perm d g). reflexivity.
  Qed.
End Ctor.

Print Assumptions golite_ctor_no_unsupported.
Print Assumptions golite_string_refines.
Print Assumptions golite_new_refines.
Print Assumptions golite_parse_refines.

(* ---- non-vacuity: the interpreter really runs the translated bodies ---- *)
(* " A,b ; ;c" : trimmed, lower-cased, empty pieces and groups dropped; two permutations drawn (reversing oracle) *)
Example ex_golite_parse :
  run_fun_args ex_permI 5 golite_funcs name_parse [VStr [32; 65; 44; 98; 32; 59; 32; 59; 99]%N]
               (mkState [] [] 0 0 0 [] [] []) =
  RReturn (VTuple [VRec [("addresses", enc_groups [[[97]; [98]]; [[99]]]%N);
                         ("toIterate", enc_groups [[[98]; [97]]; [[99]]]%N)]; VNil])
          (repr (mkRemote [[[97]; [98]]; [[99]]]%N [[[98]; [97]]; [[99]]]%N 2)).
Proof. vm_compute. reflexivity. Qed.

Example ex_golite_parse_empty :
  run_fun_args ex_permI 5 golite_funcs name_parse [VStr [32; 44; 59]%N] (mkState [] [] 0 0 0 [] [] []) =
  RReturn (VTuple [VNil; VErr "addressGroups has no address"]) (mkState [] [] 0 0 0 [] [] []).
Proof. vm_compute. reflexivity. Qed.

Example ex_golite_string :
  run_fun ex_permI 1 golite_funcs name_string (repr (mkRemote [[[97]; [98]]; [[99]]]%N [] 0)) =
  RReturn (VStr [97; 44; 98; 59; 99]%N) (repr (mkRemote [[[97]; [98]]; [[99]]]%N [] 0)).
Proof. vm_compute. reflexivity. Qed.

(* a separator that is not one byte is outside the interpreted zone *)
Example ex_golite_prim_zone : prim_eval "strings.Split" [VStr [97]%N; VStr [44; 44]%N] = None.
Proof. reflexivity. Qed.
