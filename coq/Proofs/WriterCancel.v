(* Bounded completion of cancelled / stopped senders in the send-side transition system (Model/Writer.v):
   a sender whose context has ended, or whose transport has stopped, returns with its OWN steps only, in a bounded
   number of steps. *)
From Coq Require Import ZifyBool Lia.
From FMP Require Import Base.Bytes Base.Lts Model.Events Model.Skeleton Model.Props Model.Writer Proofs.WriterProofs Proofs.WriterProgress.
Open Scope Z_scope.

Definition self_label (c : Z) (l : label) : bool :=
  match l with
  | LEncode d | LHandoff d | LAbandonDone d | LAbandonCtx d | LRecvVerdict d | LWaitCtx d | LWaitStop d | LRecvReply d | LQueueCancel d => d =? c
  | _ => false
  end.

(* ------------------------------------------------------------------------------------------------------------ *)
(* paths made of the sender's own steps                                                                         *)
(* ------------------------------------------------------------------------------------------------------------ *)

(* sender c can return within n of its own steps, with a result satisfying P *)
Definition SFin (n : nat) (st : wstate) (c : Z) (P : rclass -> Prop) : Prop :=
  exists ls' st' s' r, (length ls' <= n)%nat /\ forallb (self_label c) ls' = true /\
     run xstep st ls' = Some st' /\ find c (senders st') = Some s' /\ s_pc s' = PRet r /\ P r.

(* one own step of sender c: only c's record changes, the two close flags stay *)
Definition moves (st : wstate) (l : label) (c : Z) (s' : sender) (st1 : wstate) : Prop :=
  xstep st l = Some st1 /\ find c (senders st1) = Some s' /\
  done_closed st1 = done_closed st /\ stop_closed st1 = stop_closed st.

Lemma sfin_zero : forall st c s r (P : rclass -> Prop),
    find c (senders st) = Some s -> s_pc s = PRet r -> P r -> SFin 0 st c P.
Proof. intros st c s r P F Hp Hr. exists [], st, s, r. repeat split; auto. Qed.

Lemma sfin_step : forall l st st1 c n (P : rclass -> Prop),
    xstep st l = Some st1 -> self_label c l = true -> SFin n st1 c P -> SFin (S n) st c P.
Proof.
  intros l st st1 c n P S O (ls' & st' & s' & r & L & O' & R' & F' & P' & Pr).
  exists (l :: ls'), st', s', r. split; [simpl; lia|]. split; [cbn [forallb]; rewrite O, O'; reflexivity|].
  split; [cbn [run]; rewrite S; exact R'|]. auto.
Qed.

Lemma sfin_weaken : forall n m st c (P Q : rclass -> Prop),
    (n <= m)%nat -> (forall r, P r -> Q r) -> SFin n st c P -> SFin m st c Q.
Proof.
  intros n m st c P Q Le Im (ls' & st' & s' & r & L & O' & R' & F' & P' & Pr).
  exists ls', st', s', r. repeat split; auto. lia.
Qed.

Lemma sfin_last : forall l st st1 c s' r (P : rclass -> Prop),
    moves st l c s' st1 -> self_label c l = true -> s_pc s' = PRet r -> P r -> SFin 1 st c P.
Proof.
  intros l st st1 c s' r P (S & F1 & _) O Hp Hr.
  apply (sfin_step l st st1); [assumption | assumption|]. eapply sfin_zero; eassumption.
Qed.

Lemma sfin_last_n : forall n l st st1 c s' r (P : rclass -> Prop),
    moves st l c s' st1 -> self_label c l = true -> s_pc s' = PRet r -> P r -> (1 <= n)%nat -> SFin n st c P.
Proof.
  intros n l st st1 c s' r P M O Hp Hr Hn.
  eapply sfin_weaken; [exact Hn | | eapply sfin_last; eassumption]. auto.
Qed.

Ltac fin_moves F :=
  cbn; eexists; split; [reflexivity|]; cbn; find_upd; rewrite Z.eqb_refl, F; repeat split; first [reflexivity | assumption | symmetry; assumption].

(* ------------------------------------------------------------------------------------------------------------ *)
(* the own steps, one lemma per label                                                                           *)
(* ------------------------------------------------------------------------------------------------------------ *)

Lemma mv_encode_ok : forall st c s, find c (senders st) = Some s -> s_pc s = PEnc -> s_size_ok s = true ->
    exists st1, moves st (LEncode c) c (set_pc PSelect s) st1.
Proof. intros st c s F P So. unfold moves, step. rewrite F, P, So. fin_moves F. Qed.

Lemma mv_encode_big : forall st c s, find c (senders st) = Some s -> s_pc s = PEnc -> s_size_ok s = false ->
    exists st1, moves st (LEncode c) c (set_pc PWait1 (set_err (Some WTooBig) s)) st1.
Proof. intros st c s F P So. unfold moves, step. rewrite F, P, So. fin_moves F. Qed.

Lemma mv_abandon_ctx : forall st c s, find c (senders st) = Some s -> s_pc s = PSelect -> s_ctx s = true ->
    exists st1, moves st (LAbandonCtx c) c (set_pc PWait1 (set_err (Some WCtx) s)) st1.
Proof. intros st c s F P C. unfold moves, step. rewrite F, P, C. fin_moves F. Qed.

Lemma mv_abandon_done_sel : forall st c s, find c (senders st) = Some s -> s_pc s = PSelect ->
    done_closed st = true ->
    exists st1, moves st (LAbandonDone c) c (set_pc PWait1 (set_err (Some WEof) s)) st1.
Proof. intros st c s F P D. unfold moves, step. rewrite F, D, P. fin_moves F. Qed.

Lemma mv_abandon_done_async : forall st c s, find c (senders st) = Some s -> s_pc s = PAsyncSelect ->
    done_closed st = true ->
    exists st1, moves st (LAbandonDone c) c (set_pc (PRet REof) s) st1.
Proof. intros st c s F P D. unfold moves, step. rewrite F, D, P. fin_moves F. Qed.

Lemma mv_verdict : forall st c s e, find c (senders st) = Some s -> s_pc s = PWait1 -> s_errch s = Some e ->
    e <> WOk ->
    exists st1, moves st (LRecvVerdict c) c (set_pc (PRet (rclass_of e)) (set_err None s)) st1.
Proof.
  intros st c s e F P E Ne. unfold moves, step. rewrite F, P, E. destruct e; try congruence; fin_moves F.
Qed.

Lemma mv_waitctx_call : forall st c s, find c (senders st) = Some s -> s_ctx s = true -> s_kind s = SCall ->
    (s_pc s = PWait1 \/ s_pc s = PWait2) ->
    exists st1, moves st (LWaitCtx c) c (set_pc PCancel s) st1.
Proof. intros st c s F C K [P|P]; unfold moves, step; rewrite F, C, P, K; fin_moves F. Qed.

Lemma mv_waitctx_other : forall st c s, find c (senders st) = Some s -> s_ctx s = true -> s_pc s = PWait1 ->
    (s_kind s = SNotify \/ s_kind s = SReply) ->
    exists st1, moves st (LWaitCtx c) c (set_pc (PRet RCtx) s) st1.
Proof. intros st c s F C P [K|K]; unfold moves, step; rewrite F, C, P, K; fin_moves F. Qed.

Lemma mv_waitstop : forall st c s, find c (senders st) = Some s -> stop_closed st = true ->
    ((s_pc s = PWait1 /\ (s_kind s = SCall \/ s_kind s = SNotify)) \/ (s_pc s = PWait2 /\ s_kind s = SCall)) ->
    exists st1, moves st (LWaitStop c) c (set_pc (PRet REof) s) st1.
Proof.
  intros st c s F St [(P & [K|K]) | (P & K)]; unfold moves, step; rewrite F, St, P, K; fin_moves F.
Qed.

Lemma mv_queue : forall st c s, find c (senders st) = Some s -> s_pc s = PCancel ->
    exists st1, moves st (LQueueCancel c) c (set_pc (PRet RCtx) s) st1.
Proof. intros st c s F P. unfold moves, step. rewrite F, P. fin_moves F. Qed.

(* ------------------------------------------------------------------------------------------------------------ *)
(* 1. a sender whose context has ended                                                                          *)
(* ------------------------------------------------------------------------------------------------------------ *)

Lemma sfin_cancel : forall st c s, find c (senders st) = Some s -> s_pc s = PCancel ->
    SFin 1 st c (fun r => r = RCtx).
Proof.
  intros st c s F P. destruct (mv_queue _ _ _ F P) as (st1 & M).
  eapply sfin_last; [exact M | apply Z.eqb_refl | reflexivity | reflexivity].
Qed.

(* at one of the two waits: the context arm *)
Lemma sfin_wait_ctx : forall st c s, find c (senders st) = Some s -> s_ctx s = true ->
    ((s_pc s = PWait1 /\ s_kind s <> SCancelFrame) \/ (s_pc s = PWait2 /\ s_kind s = SCall)) ->
    SFin 2 st c (fun r => r = RCtx).
Proof.
  intros st c s F C Hw.
  assert (Hc : s_kind s = SCall -> SFin 2 st c (fun r => r = RCtx)).
  { intros K. assert (Pw : s_pc s = PWait1 \/ s_pc s = PWait2) by tauto.
    destruct (mv_waitctx_call _ _ _ F C K Pw) as (st1 & S & F1 & _).
    apply (sfin_step (LWaitCtx c) st st1); [assumption | apply Z.eqb_refl|].
    eapply sfin_cancel; [exact F1 | reflexivity]. }
  destruct Hw as [(P & K) | (P & K)]; [|auto].
  destruct (s_kind s) eqn:Ks; [auto | | | congruence].
  - destruct (mv_waitctx_other _ _ _ F C P) as (st1 & M); [left; assumption|].
    eapply (sfin_last_n _ _ _ _ _ _ _ _ M); [apply Z.eqb_refl | reflexivity | cbn beta; auto | lia].
  - destruct (mv_waitctx_other _ _ _ F C P) as (st1 & M); [right; assumption|].
    eapply (sfin_last_n _ _ _ _ _ _ _ _ M); [apply Z.eqb_refl | reflexivity | cbn beta; auto | lia].
Qed.

(* at the hand-off select: the context arm, then the verdict it leaves on the channel *)
Lemma sfin_select_ctx : forall st c s, find c (senders st) = Some s -> s_ctx s = true -> s_pc s = PSelect ->
    SFin 2 st c (fun r => r = RCtx).
Proof.
  intros st c s F C P. destruct (mv_abandon_ctx _ _ _ F P C) as (st1 & S & F1 & _).
  apply (sfin_step (LAbandonCtx c) st st1); [assumption | apply Z.eqb_refl|].
  destruct (mv_verdict st1 c _ WCtx F1) as (st2 & M); [reflexivity | reflexivity | discriminate|].
  eapply sfin_last; [exact M | apply Z.eqb_refl | reflexivity | reflexivity].
Qed.

Lemma sfin_enc_ctx : forall st c s, find c (senders st) = Some s -> s_ctx s = true -> s_pc s = PEnc ->
    s_kind s <> SCancelFrame -> SFin 3 st c (fun r => r = RCtx).
Proof.
  intros st c s F C P K. destruct (s_size_ok s) eqn:So.
  - destruct (mv_encode_ok _ _ _ F P So) as (st1 & S & F1 & _).
    apply (sfin_step (LEncode c) st st1); [assumption | apply Z.eqb_refl|].
    eapply sfin_select_ctx; [exact F1 | exact C | reflexivity].
  - destruct (mv_encode_big _ _ _ F P So) as (st1 & S & F1 & _).
    apply (sfin_step (LEncode c) st st1); [assumption | apply Z.eqb_refl|].
    eapply sfin_wait_ctx; [exact F1 | exact C | left; split; [reflexivity | exact K]].
Qed.

(* the core: three own steps are enough, and the context's error is always among the possible results *)
Theorem writer_cancelled_sender_returns_ctx_3 : forall ss ls st c s,
  fresh_ok ss = true -> run xstep (init ss) ls = Some st ->
  find c (senders st) = Some s -> s_kind s <> SCancelFrame ->
  s_pc s <> PNew -> (forall r, s_pc s <> PRet r) -> s_ctx s = true ->
  SFin 3 st c (fun r => r = RCtx).
Proof.
  intros ss ls st c s Hfr Hr F K Pn Pr C. destruct (reach_PInv _ _ _ _ Hfr Hr) as [Hwf Ha _ _ _].
  pose proof (wf_lok _ Hwf _ _ F) as Hk.
  destruct (s_pc s) eqn:P.
  - congruence.
  - eapply sfin_enc_ctx; eassumption.
  - eapply sfin_weaken; [ | | eapply sfin_select_ctx; eassumption]; [lia | auto].
  - exfalso. apply K. exact (Ha _ _ F P).
  - eapply sfin_weaken; [ | | eapply sfin_wait_ctx; [exact F | exact C | left; split; assumption]]; [lia | auto].
  - eapply sfin_weaken; [ | | eapply sfin_wait_ctx; [exact F | exact C | right; split; [assumption|]]]; [lia | auto |].
    apply lok_wait2_kind; assumption.
  - eapply sfin_weaken; [ | | eapply sfin_cancel; eassumption]; [lia | auto].
  - exfalso. eapply Pr. reflexivity.
Qed.

(* The statement of TASK2.md (any kind of sender) is false: the environment may end the context of a queued
   cancel frame as well, and a cancel frame sitting at EncodeAndWriteAsync's select has no context arm; while the
   writer is busy and the encoder is open none of its own steps is enabled. *)
Definition cexc_ss : list sender := [fresh_sender 0 SCall true false].
Definition cexc_ls : list label :=
  [LStart 0; LEncode 0; LHandoff 0; LCtxDone 0; LWaitCtx 0; LQueueCancel 0; LCtxDone (cancel_nonce 0)].

Lemma no_self_step_no_return : forall st c s,
    find c (senders st) = Some s -> (forall r, s_pc s <> PRet r) ->
    (forall l, self_label c l = true -> xstep st l = None) ->
    forall ls' st' s' r, forallb (self_label c) ls' = true -> run xstep st ls' = Some st' ->
      find c (senders st') = Some s' -> s_pc s' <> PRet r.
Proof.
  intros st c s F Pr Hn ls' st' s' r O R F' P'. destruct ls' as [|l ls'].
  - cbn [run] in R. injection R as <-. rewrite F in F'. injection F' as <-. exact (Pr r P').
  - cbn [forallb] in O. apply andb_prop in O. destruct O as [Ol _].
    cbn [run] in R. rewrite (Hn l Ol) in R. discriminate R.
Qed.

Lemma cexc_stuck :
  exists st s, fresh_ok cexc_ss = true /\ run xstep (init cexc_ss) cexc_ls = Some st /\
    find (cancel_nonce 0) (senders st) = Some s /\ s_kind s = SCancelFrame /\ s_pc s = PAsyncSelect /\
    s_ctx s = true /\
    forall ls' st' s' r, forallb (self_label (cancel_nonce 0)) ls' = true -> run xstep st ls' = Some st' ->
      find (cancel_nonce 0) (senders st') = Some s' -> s_pc s' <> PRet r.
Proof.
  destruct (run xstep (init cexc_ss) cexc_ls) as [st|] eqn:R; [|vm_compute in R; discriminate R].
  destruct (find (cancel_nonce 0) (senders st)) as [s|] eqn:F;
    [|vm_compute in R; injection R as <-; vm_compute in F; discriminate F].
  exists st, s. split; [reflexivity|]. split; [reflexivity|]. split; [exact F|].
  assert (Hs : s = mkSender (cancel_nonce 0) SCancelFrame 0 true false PAsyncSelect true None false false)
    by (vm_compute in R; injection R as <-; vm_compute in F; injection F as <-; reflexivity).
  split; [rewrite Hs; reflexivity|]. split; [rewrite Hs; reflexivity|]. split; [rewrite Hs; reflexivity|].
  apply (no_self_step_no_return st (cancel_nonce 0) s F).
  - intros r. rewrite Hs. discriminate.
  - intros l Ho. vm_compute in R. injection R as <-.
    destruct l; simpl in Ho; try discriminate Ho; apply Z.eqb_eq in Ho; subst; vm_compute; reflexivity.
Qed.

Lemma writer_cancelled_sender_returns_as_stated_false :
  ~ (forall ss ls st c s,
       fresh_ok ss = true -> run (step expected_skeleton) (init ss) ls = Some st ->
       find c (senders st) = Some s -> s_pc s <> PNew -> (forall r, s_pc s <> PRet r) -> s_ctx s = true ->
       exists ls' st' s' r, (length ls' <= 4)%nat /\ forallb (self_label c) ls' = true /\
         run (step expected_skeleton) st ls' = Some st' /\ find c (senders st') = Some s' /\ s_pc s' = PRet r).
Proof.
  intros Hc. destruct cexc_stuck as (st & s & Hfr & R & F & K & P & C & Hn).
  destruct (Hc cexc_ss cexc_ls st (cancel_nonce 0) s Hfr R F) as (ls' & st' & s' & r & _ & O & R' & F' & P');
    [rewrite P; discriminate | intros r; rewrite P; discriminate | exact C|].
  exact (Hn ls' st' s' r O R' F' P').
Qed.

(* 1. closest true variant of the stated theorem: the hypothesis [s_kind s <> SCancelFrame] is added *)
Theorem writer_cancelled_sender_returns : forall ss ls st c s,
  fresh_ok ss = true -> run (step expected_skeleton) (init ss) ls = Some st ->
  find c (senders st) = Some s -> s_kind s <> SCancelFrame ->
  s_pc s <> PNew -> (forall r, s_pc s <> PRet r) -> s_ctx s = true ->
  exists ls' st' s' r, (length ls' <= 4)%nat /\ forallb (self_label c) ls' = true /\
     run (step expected_skeleton) st ls' = Some st' /\ find c (senders st') = Some s' /\ s_pc s' = PRet r.
Proof.
  intros ss ls st c s Hfr Hr F K Pn Pr C.
  destruct (writer_cancelled_sender_returns_ctx_3 _ _ _ _ _ Hfr Hr F K Pn Pr C)
    as (ls' & st' & s' & r & L & O & R & F' & P' & _).
  exists ls', st', s', r. split; [lia|]. repeat split; assumption.
Qed.

(* the reply-sender version of 3: a reply has no stop arm, its context is what frees it (an instance of 1) *)
Theorem writer_cancelled_reply_returns : forall ss ls st c s,
  fresh_ok ss = true -> run (step expected_skeleton) (init ss) ls = Some st ->
  find c (senders st) = Some s -> s_pc s <> PNew -> (forall r, s_pc s <> PRet r) ->
  s_kind s = SReply -> s_ctx s = true ->
  exists ls' st' s' r, (length ls' <= 3)%nat /\ forallb (self_label c) ls' = true /\
     run (step expected_skeleton) st ls' = Some st' /\ find c (senders st') = Some s' /\ s_pc s' = PRet r.
Proof.
  intros ss ls st c s Hfr Hr F Pn Pr K C.
  destruct (writer_cancelled_sender_returns_ctx_3 _ _ _ _ _ Hfr Hr F) as (ls' & st' & s' & r & L & O & R & F' & P' & _);
    [congruence | assumption | assumption | assumption|].
  exists ls', st', s', r. repeat split; assumption.
Qed.

(* ------------------------------------------------------------------------------------------------------------ *)
(* 2. the cancellation frame is queued                                                                          *)
(* ------------------------------------------------------------------------------------------------------------ *)

Lemma reach_NInv : forall sk ss ls st, fresh_ok ss = true -> run (step sk) (init ss) ls = Some st ->
    WF st /\ NInv st.
Proof.
  intros sk ss ls st Hfr Hr.
  eapply (invariant_run _ _ (step sk) (fun st => WF st /\ NInv st)); [ | | eassumption].
  - intros s0 l s1 (Hwf & Hn) Hst. split; [eapply step_WF; eassumption | eapply step_NInv; eassumption].
  - split; [apply init_WF; assumption | apply init_NInv; assumption].
Qed.

Theorem writer_cancelled_call_queues_cancel : forall ss ls st c s st' s',
  fresh_ok ss = true -> run (step expected_skeleton) (init ss) ls = Some st ->
  find c (senders st) = Some s -> s_kind s = SCall -> s_pc s = PCancel ->
  step expected_skeleton st (LQueueCancel c) = Some st' -> find c (senders st') = Some s' ->
  s_pc s' = PRet RCtx /\ exists k, find (cancel_nonce c) (senders st') = Some k /\ s_kind k = SCancelFrame /\ s_seq k = s_seq s.
Proof.
  intros ss ls st c s st' s' Hfr Hr F K P S F'. destruct (reach_NInv _ _ _ _ Hfr Hr) as (Hwf & Hn).
  unfold step in S. rewrite F, P in S. injection S as <-. cbn [senders upd] in *.
  assert (Hc : 0 <= c) by (apply (Hn _ _ F); congruence).
  find_upd. rewrite Z.eqb_refl, F in F'. cbn in F'. injection F' as <-. split; [reflexivity|].
  destruct (Z.eqb_spec (cancel_nonce c) c) as [e|ne]; [unfold cancel_nonce in e; lia|].
  destruct (find (cancel_nonce c) (senders st)) as [x|] eqn:Fx.
  - exfalso. destruct (Hn _ _ Fx) as [N1 N2].
    destruct (s_kind x) eqn:Kx;
      try (assert (0 <= cancel_nonce c) by (apply N1; discriminate); unfold cancel_nonce in *; lia).
    destruct (N2 eq_refl) as (c1 & sc & r & E1 & Fc & _ & Pc).
    assert (c1 = c) by (unfold cancel_nonce in E1; lia). subst c1. congruence.
  - cbn. rewrite Z.eqb_refl. eexists. split; [reflexivity|]. split; reflexivity.
Qed.

(* ------------------------------------------------------------------------------------------------------------ *)
(* 3. after the transport has stopped                                                                           *)
(* ------------------------------------------------------------------------------------------------------------ *)

Lemma sfin_select_done : forall st c s, find c (senders st) = Some s -> s_pc s = PSelect -> done_closed st = true ->
    SFin 2 st c (fun r => r = REof).
Proof.
  intros st c s F P D. destruct (mv_abandon_done_sel _ _ _ F P D) as (st1 & S & F1 & _).
  apply (sfin_step (LAbandonDone c) st st1); [assumption | apply Z.eqb_refl|].
  destruct (mv_verdict st1 c _ WEof F1) as (st2 & M); [reflexivity | reflexivity | discriminate|].
  eapply sfin_last; [exact M | apply Z.eqb_refl | reflexivity | reflexivity].
Qed.

Lemma sfin_enc_done : forall st c s, find c (senders st) = Some s -> s_pc s = PEnc -> done_closed st = true ->
    SFin 3 st c (fun r => r = REof \/ r = RTooBig).
Proof.
  intros st c s F P D. destruct (s_size_ok s) eqn:So.
  - destruct (mv_encode_ok _ _ _ F P So) as (st1 & S & F1 & D1 & _).
    apply (sfin_step (LEncode c) st st1); [assumption | apply Z.eqb_refl|].
    eapply sfin_weaken; [ | | eapply sfin_select_done; [exact F1 | reflexivity | congruence]]; [lia | auto].
  - destruct (mv_encode_big _ _ _ F P So) as (st1 & S & F1 & _).
    apply (sfin_step (LEncode c) st st1); [assumption | apply Z.eqb_refl|].
    destruct (mv_verdict st1 c _ WTooBig F1) as (st2 & M); [reflexivity | reflexivity | discriminate|].
    eapply (sfin_last_n _ _ _ _ _ _ _ _ M); [apply Z.eqb_refl | reflexivity | cbn beta; auto | lia].
Qed.

(* the core: which results are possible *)
Theorem writer_stopped_sender_returns_3 : forall ss ls st c s,
  fresh_ok ss = true -> run xstep (init ss) ls = Some st ->
  find c (senders st) = Some s -> s_pc s <> PNew -> (forall r, s_pc s <> PRet r) ->
  done_closed st = true -> stop_closed st = true -> s_kind s <> SReply ->
  SFin 3 st c (fun r => r = REof \/ (r = RTooBig /\ s_pc s = PEnc /\ s_size_ok s = false)
                        \/ (r = RCtx /\ s_pc s = PCancel)).
Proof.
  intros ss ls st c s Hfr Hr F Pn Pr D St K. destruct (reach_PInv _ _ _ _ Hfr Hr) as [Hwf Ha _ _ _].
  pose proof (wf_lok _ Hwf _ _ F) as Hk.
  destruct (s_pc s) eqn:P.
  - congruence.
  - destruct (s_size_ok s) eqn:So.
    + destruct (mv_encode_ok _ _ _ F P So) as (st1 & S & F1 & D1 & _).
      apply (sfin_step (LEncode c) st st1); [assumption | apply Z.eqb_refl|].
      eapply sfin_weaken; [ | | eapply sfin_select_done; [exact F1 | reflexivity | congruence]]; [lia | auto].
    + destruct (mv_encode_big _ _ _ F P So) as (st1 & S & F1 & _).
      apply (sfin_step (LEncode c) st st1); [assumption | apply Z.eqb_refl|].
      destruct (mv_verdict st1 c _ WTooBig F1) as (st2 & M); [reflexivity | reflexivity | discriminate|].
      eapply (sfin_last_n _ _ _ _ _ _ _ _ M); [apply Z.eqb_refl | reflexivity | cbn beta; auto | lia].
  - eapply sfin_weaken; [ | | eapply sfin_select_done; eassumption]; [lia | auto].
  - destruct (mv_abandon_done_async _ _ _ F P D) as (st1 & M).
    eapply (sfin_last_n _ _ _ _ _ _ _ _ M); [apply Z.eqb_refl | reflexivity | cbn beta; auto | lia].
  - pose proof (lok_wait1_kind _ Hk P) as Kc.
    destruct (mv_waitstop _ _ _ F St) as (st1 & M).
    { left. split; [assumption|]. destruct (s_kind s); try congruence; auto. }
    eapply (sfin_last_n _ _ _ _ _ _ _ _ M); [apply Z.eqb_refl | reflexivity | cbn beta; auto | lia].
  - pose proof (lok_wait2_kind _ Hk P) as Kc.
    destruct (mv_waitstop _ _ _ F St) as (st1 & M); [right; split; assumption|].
    eapply (sfin_last_n _ _ _ _ _ _ _ _ M); [apply Z.eqb_refl | reflexivity | cbn beta; auto | lia].
  - eapply sfin_weaken; [ | | eapply sfin_cancel; eassumption]; [lia|]. cbn beta. intros r ->. auto.
  - exfalso. eapply Pr. reflexivity.
Qed.

(* 3. as stated *)
Theorem writer_stopped_sender_returns : forall ss ls st c s,
  fresh_ok ss = true -> run (step expected_skeleton) (init ss) ls = Some st ->
  find c (senders st) = Some s -> s_pc s <> PNew -> (forall r, s_pc s <> PRet r) ->
  done_closed st = true -> stop_closed st = true -> s_kind s <> SReply ->
  exists ls' st' s' r, (length ls' <= 3)%nat /\ forallb (self_label c) ls' = true /\
     run (step expected_skeleton) st ls' = Some st' /\ find c (senders st') = Some s' /\ s_pc s' = PRet r.
Proof.
  intros ss ls st c s Hfr Hr F Pn Pr D St K.
  destruct (writer_stopped_sender_returns_3 _ _ _ _ _ Hfr Hr F Pn Pr D St K)
    as (ls' & st' & s' & r & L & O & R & F' & P' & _).
  exists ls', st', s', r. repeat split; assumption.
Qed.

(* why 3 excludes replies: a handed reply sender without an ended context never returns by its own steps, however
   long the path, once the transport has stopped (it needs the writer) *)
Lemma writer_stopped_reply_stuck :
  exists ss ls st s, fresh_ok ss = true /\ run xstep (init ss) ls = Some st /\
    find 0 (senders st) = Some s /\ s_kind s = SReply /\ s_pc s = PWait1 /\
    done_closed st = true /\ stop_closed st = true /\
    forall ls' st' s' r, forallb (self_label 0) ls' = true -> run xstep st ls' = Some st' ->
      find 0 (senders st') = Some s' -> s_pc s' <> PRet r.
Proof.
  exists [fresh_sender 0 SReply true false], [LStart 0; LEncode 0; LHandoff 0; LCloseEncoder; LStop].
  eexists. eexists.
  split; [reflexivity|]. split; [vm_compute; reflexivity|]. split; [vm_compute; reflexivity|].
  split; [reflexivity|]. split; [reflexivity|]. split; [reflexivity|]. split; [reflexivity|].
  eapply no_self_step_no_return; [vm_compute; reflexivity | intros r; discriminate|].
  intros l Ho. destruct l; simpl in Ho; try discriminate Ho; apply Z.eqb_eq in Ho; subst; vm_compute; reflexivity.
Qed.

(* ------------------------------------------------------------------------------------------------------------ *)
(* the bound 3 is tight for 1 and for 3: a bounded search over the sender's own labels                          *)
(* ------------------------------------------------------------------------------------------------------------ *)

Definition self_labels (c : Z) : list label :=
  [LEncode c; LHandoff c; LAbandonDone c; LAbandonCtx c; LRecvVerdict c; LWaitCtx c; LWaitStop c; LRecvReply c;
   LQueueCancel c].

Lemma self_label_In : forall c l, self_label c l = true -> In l (self_labels c).
Proof.
  intros c l H. destruct l; simpl in H; try discriminate H; try (apply Z.eqb_eq in H; subst); simpl; tauto.
Qed.

Fixpoint can_sfin (n : nat) (st : wstate) (c : Z) : bool :=
  returned st c ||
  match n with
  | O => false
  | S m => existsb (fun l => match xstep st l with Some st1 => can_sfin m st1 c | None => false end) (self_labels c)
  end.

Lemma can_sfin_complete : forall c ls n st st' s' r,
    (length ls <= n)%nat -> forallb (self_label c) ls = true -> run xstep st ls = Some st' ->
    find c (senders st') = Some s' -> s_pc s' = PRet r -> can_sfin n st c = true.
Proof.
  intros c. induction ls as [|l ls IH]; intros n st st' s' r L O R F P.
  - cbn [run] in R. injection R as <-. destruct n; cbn [can_sfin]; unfold returned; rewrite F, P; reflexivity.
  - destruct n as [|m]; [simpl in L; lia|]. cbn [can_sfin]. apply orb_true_iff. right.
    cbn [forallb] in O. apply andb_prop in O. destruct O as [Ol Ols].
    cbn [run] in R. destruct (xstep st l) as [st1|] eqn:S; [|discriminate R].
    apply existsb_exists. exists l. split; [apply self_label_In; assumption|]. rewrite S.
    eapply IH; try eassumption. simpl in L. lia.
Qed.

Definition tight3_ss : list sender := [fresh_sender 0 SCall true false].
(* a started call whose context has ended, on a stopped transport: two own steps are not enough *)
Definition tight3_ls : list label := [LStart 0; LCtxDone 0; LCloseEncoder; LStop].

Theorem three_self_steps_needed :
  exists st s, fresh_ok tight3_ss = true /\ run xstep (init tight3_ss) tight3_ls = Some st /\
    find 0 (senders st) = Some s /\ s_kind s = SCall /\ s_pc s = PEnc /\ s_ctx s = true /\
    done_closed st = true /\ stop_closed st = true /\
    forall ls' st' s' r, (length ls' <= 2)%nat -> forallb (self_label 0) ls' = true ->
      run xstep st ls' = Some st' -> find 0 (senders st') = Some s' -> s_pc s' <> PRet r.
Proof.
  destruct (run xstep (init tight3_ss) tight3_ls) as [st|] eqn:R; [|vm_compute in R; discriminate R].
  assert (E : can_sfin 2 st 0 = false) by (vm_compute in R; injection R as <-; vm_compute; reflexivity).
  destruct (find 0 (senders st)) as [s|] eqn:F; [|vm_compute in R; injection R as <-; vm_compute in F; discriminate F].
  exists st, s. split; [reflexivity|]. split; [reflexivity|]. split; [exact F|].
  assert (Hs : s = mkSender 0 SCall 0 true false PEnc true None false false)
    by (vm_compute in R; injection R as <-; vm_compute in F; injection F as <-; reflexivity).
  split; [rewrite Hs; reflexivity|]. split; [rewrite Hs; reflexivity|]. split; [rewrite Hs; reflexivity|].
  split; [vm_compute in R; injection R as <-; reflexivity|].
  split; [vm_compute in R; injection R as <-; reflexivity|].
  intros ls' st' s' r L O R' F' P'.
  rewrite (can_sfin_complete 0 ls' 2 st st' s' r L O R' F' P') in E. discriminate E.
Qed.

Print Assumptions writer_cancelled_sender_returns.
Print Assumptions writer_cancelled_sender_returns_ctx_3.
Print Assumptions writer_cancelled_sender_returns_as_stated_false.
Print Assumptions writer_cancelled_reply_returns.
Print Assumptions writer_cancelled_call_queues_cancel.
Print Assumptions writer_stopped_sender_returns.
Print Assumptions writer_stopped_sender_returns_3.
Print Assumptions writer_stopped_reply_stuck.
Print Assumptions three_self_steps_needed.
