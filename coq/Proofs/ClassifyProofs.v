(* which outcomes let the receive loop go on *)
From FMP Require Import Base.Bytes Model.Generated Model.Msgpack Model.Frame.

Lemma continues_iff_not_fatal : forall o,
    continues o = true <-> (forall c, o <> OErr c) /\ o <> OUnspec.
Proof.
  intros o. destruct o; cbn; split; intro H;
    try reflexivity; try discriminate;
    try (split; [intros c Hc; discriminate | intro Hc; discriminate]).
  - destruct H as [H _]. exfalso. apply (H e). reflexivity.
  - destruct H as [_ H]. exfalso. apply H. reflexivity.
Qed.
