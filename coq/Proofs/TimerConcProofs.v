From Coq Require Import ZifyBool Lia.
From FMP Require Import Base.Bytes Base.Lts Model.TimerConc.
Open Scope Z_scope.

Definition reach (threads : list Z) (s : tcstate) := exists ls, run tcstep (tcinit threads) ls = Some s.

(* ---------- basic lemmas ---------- *)

Lemma zin_In : forall x l, zin x l = true <-> In x l.
Proof.
  induction l as [|y r IH]; simpl.
  - split; [discriminate | tauto].
  - rewrite orb_true_iff, IH, Z.eqb_eq. split; intros [H|H]; auto.
Qed.

Lemma zin_fire : forall i o l, zin i l = true -> zin i (fire o l) = true.
Proof.
  intros i [j|] l H; simpl; auto.
  destruct (zin j l); auto. simpl. rewrite H. apply orb_true_r.
Qed.

Lemma zin_fire_inv : forall i o l, zin i (fire o l) = true -> zin i l = true \/ o = Some i.
Proof.
  intros i [j|] l H; simpl in *; auto.
  destruct (zin j l); auto. simpl in H. apply orb_true_iff in H. destruct H as [H|H]; auto.
  right. f_equal. lia.
Qed.

Lemma zin_fire_self : forall i l, zin i (fire (Some i) l) = true.
Proof.
  intros i l. simpl. destruct (zin i l) eqn:E; auto. simpl. rewrite Z.eqb_refl. reflexivity.
Qed.

Lemma thfind_thset : forall u t v l,
  thfind u (thset t v l) =
  if t =? u then match thfind t l with Some _ => Some v | None => None end else thfind u l.
Proof.
  induction l as [|[k w] r IH]; simpl.
  - destruct (t =? u); reflexivity.
  - destruct (k =? t) eqn:E; simpl.
    + destruct (t =? u) eqn:E2.
      * replace (k =? u) with true by lia. reflexivity.
      * replace (k =? u) with false by lia. reflexivity.
    + destruct (k =? u) eqn:E3.
      * replace (t =? u) with false by lia. reflexivity.
      * exact IH.
Qed.

Lemma thfind_thset_same : forall t v l p, thfind t l = Some p -> thfind t (thset t v l) = Some v.
Proof. intros. rewrite thfind_thset, Z.eqb_refl, H. reflexivity. Qed.

Lemma filter_nonempty : forall {A} (f : A -> bool) l x r, filter f l = x :: r -> In x l /\ f x = true.
Proof.
  intros A f l x r H. apply filter_In. rewrite H. left; reflexivity.
Qed.

Lemma fo_eqb_eq : forall a b, fo_eqb a b = true -> a = b.
Proof. intros [x|] [y|]; simpl; try discriminate; auto. intros. f_equal. lia. Qed.

(* ---------- 3. timers fire, time passes ---------- *)

Theorem tc_timer_fires : forall s i due, In (i, due) (tc_armed s) -> due <= tc_now s -> exists s', tcstep s (TTimerFire i) = Some s'.
Proof.
  intros s i due Hin Hdue. unfold tcstep.
  destruct (filter (fun p => (fst p =? i) && (snd p <=? tc_now s)) (tc_armed s)) eqn:E.
  - exfalso. assert (In (i, due) []) as [].
    rewrite <- E. apply filter_In. split; auto. simpl. lia.
  - eauto.
Qed.

Theorem tc_time_passes : forall s dt, 0 <= dt -> exists s', tcstep s (TTick dt) = Some s'.
Proof.
  intros s dt H. unfold tcstep. replace (dt <? 0) with false by lia. eauto.
Qed.

(* ---------- 6. monotonicity ---------- *)

Lemma tc_step_monotone : forall s l s', tcstep s l = Some s' ->
  tc_now s <= tc_now s' /\ (forall i, zin i (tc_fired s) = true -> zin i (tc_fired s') = true).
Proof.
  intros s l s' Hs. unfold tcstep in Hs.
  repeat match type of Hs with
  | context [match ?x with _ => _ end] => destruct x eqn:?; try discriminate
  end; inversion Hs; subst; clear Hs; simpl; split; auto using zin_fire; try lia.
  - intros i0 H. destruct (zin i (tc_fired s)); auto. simpl. rewrite H. apply orb_true_r.
Qed.

Theorem tc_monotone : forall s ls s', run tcstep s ls = Some s' ->
  tc_now s <= tc_now s' /\ (forall i, zin i (tc_fired s) = true -> zin i (tc_fired s') = true).
Proof.
  intros s ls s' H.
  apply (relation_run _ _ tcstep (fun a b => tc_now a <= tc_now b /\ (forall i, zin i (tc_fired a) = true -> zin i (tc_fired b) = true))) with (ls := ls); auto.
  - intros; split; auto; lia.
  - intros a b c [H1 H2] [H3 H4]. split; [lia | auto].
  - apply tc_step_monotone.
Qed.

(* ---------- non-vacuity ---------- *)

Example tc_example : exists ls s, run tcstep (tcinit [1; 2]) ls = Some s /\ thfind 2 (tc_threads s) = Some TDone /\ tc_now s = 5 /\ (length ls >= 10)%nat.
Proof.
  exists [TBegin 1 (TStartSwap 5); TStep 1; TStep 1; TBegin 2 TWaitGet0; TStep 2; TStep 2; TStep 1; TTick 5; TTimerFire 0; TStep 2; TStep 2; TStep 2].
  eexists. split; [vm_compute; reflexivity|]. split; [reflexivity|]. split; [reflexivity|]. simpl. lia.
Qed.

(* ---------- 1. only waits block ---------- *)

Theorem tc_only_waits_block : forall threads s t p,
  tids_ok threads = true -> reach threads s -> thfind t (tc_threads s) = Some p ->
  match p with TIdle | TDone => True | TWaitBlocked i => True | _ => exists s', tcstep s (TStep t) = Some s' end.
Proof.
  intros threads s t p _ _ H. destruct p; auto; unfold tcstep; rewrite H; eauto.
  destruct (fo_eqb f oldf); eauto. destruct f; eauto.
Qed.

(* ---------- step inversion tactic ---------- *)

Arguments fire : simpl never.

Ltac step_inv Hs :=
  unfold tcstep in Hs;
  repeat match type of Hs with
  | context [match ?x with _ => _ end] => destruct x eqn:?; try discriminate
  end; inversion Hs; subst; clear Hs; unfold with_thread in *;
  cbn [tc_fired tc_cur tc_armed tc_now tc_next tc_threads tc_started] in *;
  repeat match goal with |- context [if zin ?i ?l then ?l else ?i :: ?l] => change (if zin i l then l else i :: l) with (fire (Some i) l) end.

(* ---------- 4. Wait returns only on a fired, current signal ---------- *)

Definition pcB (s : tcstate) (p : tpc) : Prop :=
  match p with
  | TWaitTest _ (Some j) => zin j (tc_fired s) = true
  | TWaitGet (Some j) => zin j (tc_fired s) = true
  | _ => True
  end.

Definition InvB (s : tcstate) : Prop := forall u p, thfind u (tc_threads s) = Some p -> pcB s p.

Lemma InvB_init : forall threads, InvB (tcinit threads).
Proof.
  intros threads u p H. simpl in H.
  assert (p = TIdle); [|subst; exact I].
  induction threads as [|x r IH]; simpl in H; [discriminate|].
  destruct (x =? u); [inversion H; auto | auto].
Qed.

Lemma InvB_step : forall s l s', InvB s -> tcstep s l = Some s' -> InvB s'.
Proof.
  intros s l s' HI Hs. unfold InvB in *. step_inv Hs; intros uu pp Hf;
  try rewrite thfind_thset in Hf;
  try (match type of Hf with context [?t =? uu] => destruct (t =? uu) eqn:Etu end;
       [ match goal with H : thfind _ (tc_threads s) = Some _ |- _ => pose proof (HI _ _ H) as Hold; rewrite H in Hf end;
         inversion Hf; subst; clear Hf; simpl in *; auto
       | ]);
  try (apply HI in Hf; destruct pp as [| | | | | | |? [?|]| |[?|]|]; simpl in *; auto using zin_fire; fail).
  all: try (destruct oldf; auto; fail).
Qed.

Lemma InvB_reach : forall threads s, reach threads s -> InvB s.
Proof.
  intros threads s [ls Hr].
  eapply (invariant_run _ _ tcstep InvB InvB_step); [apply InvB_init | exact Hr].
Qed.

Theorem tc_wait_done_means_current_fired : forall threads s t f oldf s',
  tids_ok threads = true -> reach threads s ->
  thfind t (tc_threads s) = Some (TWaitTest f oldf) -> tcstep s (TStep t) = Some s' -> thfind t (tc_threads s') = Some TDone ->
  f = oldf /\ match f with Some j => zin j (tc_fired s) = true /\ tc_cur s = tc_cur s' | None => True end.
Proof.
  intros threads s t f oldf s' _ Hr Ht Hs Hd.
  pose proof (InvB_reach _ _ Hr _ _ Ht) as HB.
  unfold tcstep in Hs. rewrite Ht in Hs.
  destruct (fo_eqb f oldf) eqn:E.
  - apply fo_eqb_eq in E. subst. split; auto.
    destruct oldf; auto. inversion Hs; subst. simpl. split; auto.
  - destruct f; inversion Hs; subst; simpl in Hd;
      rewrite (thfind_thset_same _ _ _ _ Ht) in Hd; discriminate.
Qed.

(* the stronger reading of the note: the f a waiter tests is exactly what get() returned (= tc_cur) at its last
   critical section, and the oldf it carries is the signal it just finished waiting on *)
Lemma tc_wait_get_reads_current : forall s t oldf s',
  thfind t (tc_threads s) = Some (TWaitGet oldf) -> tcstep s (TStep t) = Some s' ->
  thfind t (tc_threads s') = Some (TWaitTest (tc_cur s) oldf) /\ tc_cur s' = tc_cur s.
Proof.
  intros s t oldf s' Ht Hs. unfold tcstep in Hs. rewrite Ht in Hs. inversion Hs; subst. simpl.
  split; auto. eapply thfind_thset_same; eauto.
Qed.

Lemma tc_wait_get0_reads_current : forall s t s',
  thfind t (tc_threads s) = Some TWaitGet0 -> tcstep s (TStep t) = Some s' ->
  thfind t (tc_threads s') = Some (TWaitTest (tc_cur s) None) /\ tc_cur s' = tc_cur s.
Proof.
  intros s t s' Ht Hs. unfold tcstep in Hs. rewrite Ht in Hs. inversion Hs; subst. simpl.
  split; auto. eapply thfind_thset_same; eauto.
Qed.

(* ---------- 2. a blocked Wait can be released ---------- *)

Definition covered (s : tcstate) (i : Z) : Prop :=
  zin i (tc_fired s) = true \/ (exists due, In (i, due) (tc_armed s)) \/
  (exists u d old, thfind u (tc_threads s) = Some (TStartFire d i old)) \/
  (exists u d, thfind u (tc_threads s) = Some (TStartArm d i)).

Ltac same_thread t u Hc :=
  assert (t = u) by lia; subst t;
  match goal with H : thfind u _ = Some _ |- _ =>
    lazymatch H with Hc => fail | _ => rewrite Hc in H; inversion H; subst; clear H end end.

Lemma covered_step : forall s l s' i, tcstep s l = Some s' -> covered s i -> covered s' i.
Proof.
  intros s l s' i Hs Hc. unfold covered in *. step_inv Hs;
  destruct Hc as [Hc|[[due Hc]|[[u [d0 [old0 Hc]]]|[u [d0 Hc]]]]];
  try (left; auto using zin_fire; fail);
  try (right; left; exists due; simpl; auto; fail);
  try (match goal with |- context [thset ?t _ _] => destruct (t =? u) eqn:Etu;
         [ same_thread t u Hc
         | right; right; first [ left; exists u, d0, old0; rewrite thfind_thset, Etu; exact Hc
                               | right; exists u, d0; rewrite thfind_thset, Etu; exact Hc ] ] end);
  try (right; right; left; exists u, d0, old0; exact Hc);
  try (right; right; right; exists u, d0; exact Hc).
  - right; right; right. exists u, d. eapply thfind_thset_same; eauto.
  - right; left. exists (tc_now s + d). left; reflexivity.
  - destruct (i =? i0) eqn:E.
    + assert (i = i0) by lia. subst. left. apply zin_fire_self.
    + right; left. exists due. apply filter_In. split; auto. simpl. rewrite E. reflexivity.
Qed.

Definition pcA (s : tcstate) (p : tpc) : Prop :=
  match p with
  | TWaitTest (Some i) _ => covered s i
  | TWaitBlocked i => covered s i
  | _ => True
  end.

Definition InvA (s : tcstate) : Prop :=
  (forall i, tc_cur s = Some i -> covered s i) /\
  (forall u p, thfind u (tc_threads s) = Some p -> pcA s p).

Lemma thfind_init : forall threads u p, thfind u (map (fun t => (t, TIdle)) threads) = Some p -> p = TIdle.
Proof.
  induction threads as [|x r IH]; simpl; intros u p H; [discriminate|].
  destruct (x =? u); [inversion H; auto | eauto].
Qed.

Lemma InvA_init : forall threads, InvA (tcinit threads).
Proof.
  intros threads. split; simpl.
  - discriminate.
  - intros u p H. apply thfind_init in H. subst. exact I.
Qed.

Lemma pcA_step : forall s l s' p, tcstep s l = Some s' -> pcA s p -> pcA s' p.
Proof.
  intros s l s' p Hs H. destruct p as [| | | | | | |[?|] ?| | |]; simpl in *; auto; eapply covered_step; eauto.
Qed.

Lemma InvA_step : forall s l s', InvA s -> tcstep s l = Some s' -> InvA s'.
Proof.
  intros s l s' [HC HT] Hs.
  assert (HC' : forall i, tc_cur s = Some i -> covered s' i) by (intros; eapply covered_step; eauto).
  assert (HT' : forall u p, thfind u (tc_threads s) = Some p -> pcA s' p) by (intros; eapply pcA_step; eauto).
  clear HC HT.
  step_inv Hs; (split; [intros ii Hi; cbn [tc_cur] in Hi; auto; try discriminate | intros uu pp Hf; cbn [tc_threads] in Hf; auto;
  try (rewrite thfind_thset in Hf;
       match type of Hf with context [?t =? uu] => destruct (t =? uu) eqn:Etu end;
       [ match goal with H : thfind _ (tc_threads s) = Some _ |- _ => pose proof (HT' _ _ H) as Hold; rewrite H in Hf end;
         inversion Hf; subst; clear Hf; simpl in *; auto
       | eauto ])]).
  - inversion Hi; subst. right; right; left. exists t, d, (tc_cur s). simpl. eapply thfind_thset_same; eauto.
  - destruct (tc_cur s) eqn:Ec; auto.
  - destruct (tc_cur s) eqn:Ec; auto.
  - eauto.
  - eauto.
Qed.

Lemma InvA_reach : forall threads s, reach threads s -> InvA s.
Proof.
  intros threads s [ls Hr].
  eapply (invariant_run _ _ tcstep InvA InvA_step); [apply InvA_init | exact Hr].
Qed.

Theorem tc_blocked_can_be_released : forall threads s t i,
  tids_ok threads = true -> reach threads s -> thfind t (tc_threads s) = Some (TWaitBlocked i) ->
  zin i (tc_fired s) = true \/ (exists due, In (i, due) (tc_armed s)) \/
  (exists u d old, thfind u (tc_threads s) = Some (TStartFire d i old)) \/ (exists u d, thfind u (tc_threads s) = Some (TStartArm d i)).
Proof.
  intros threads s t i _ Hr Ht. destruct (InvA_reach _ _ Hr) as [_ HT]. exact (HT _ _ Ht).
Qed.


(* ---------- 5. a current signal that is fired was fired by its own timer, at or after its due time ---------- *)

Definition fo_lt (o : fo) (n : Z) : Prop := match o with Some j => j < n | None => True end.

Definition pcC (s : tcstate) (p : tpc) : Prop :=
  match p with
  | TStartFire d f old =>
      f < tc_next s /\ fo_lt old (tc_next s) /\ (forall j, old = Some j -> tc_cur s <> Some j) /\
      exists t0, In (f, t0, d) (tc_started s) /\ t0 <= tc_now s
  | TStartArm d f =>
      f < tc_next s /\ exists t0, In (f, t0, d) (tc_started s) /\ t0 <= tc_now s
  | TFireFire old => fo_lt old (tc_next s) /\ (forall j, old = Some j -> tc_cur s <> Some j)
  | _ => True
  end.

Record InvC (s : tcstate) : Prop := mkInvC {
  c_cur : fo_lt (tc_cur s) (tc_next s);
  c_fired : forall j, zin j (tc_fired s) = true -> j < tc_next s;
  c_armed : forall j due, In (j, due) (tc_armed s) ->
            j < tc_next s /\ exists t0 d, In (j, t0, d) (tc_started s) /\ t0 + d <= due;
  c_started : forall j t0 d, In (j, t0, d) (tc_started s) -> j < tc_next s;
  c_uniq : forall j t0 d t0' d', In (j, t0, d) (tc_started s) -> In (j, t0', d') (tc_started s) -> t0 = t0' /\ d = d';
  c_due : forall i t0 d, tc_cur s = Some i -> zin i (tc_fired s) = true -> In (i, t0, d) (tc_started s) -> t0 + d <= tc_now s;
  c_threads : forall u p, thfind u (tc_threads s) = Some p -> pcC s p
}.

Lemma InvC_init : forall threads, InvC (tcinit threads).
Proof.
  intros threads. constructor; simpl; try discriminate; try tauto.
  intros u p H. apply thfind_init in H. subst. exact I.
Qed.

Lemma thfind_thset_cases : forall u t v l p, thfind u (thset t v l) = Some p -> p = v \/ thfind u l = Some p.
Proof.
  intros u t v l p H. rewrite thfind_thset in H. destruct (t =? u); auto.
  destruct (thfind t l); inversion H; auto.
Qed.

Lemma fo_lt_mono : forall o n m, n <= m -> fo_lt o n -> fo_lt o m.
Proof. intros [j|] n m; simpl; auto; lia. Qed.

Lemma pcC_mono : forall s s' p,
  tc_next s <= tc_next s' ->
  (tc_cur s' = tc_cur s \/ tc_cur s' = None \/ exists k, tc_cur s' = Some k /\ tc_next s <= k) ->
  (forall x, In x (tc_started s) -> In x (tc_started s')) ->
  tc_now s <= tc_now s' ->
  pcC s p -> pcC s' p.
Proof.
  intros s s' p Hn Hc Hs Ht H.
  assert (Hne : forall old, fo_lt old (tc_next s) -> (forall j, old = Some j -> tc_cur s <> Some j) ->
                            forall j, old = Some j -> tc_cur s' <> Some j).
  { intros old Hlt Hne j Ej X. destruct Hc as [E|[E|[k [E1 E2]]]].
    - rewrite E in X. eapply Hne; eauto.
    - rewrite E in X. discriminate.
    - rewrite E1 in X. inversion X; subst. simpl in Hlt. lia. }
  destruct p; simpl in *; auto.
  - destruct H as [H1 [H2 [H3 [t0 [H4 H5]]]]]. split; [lia|]. split; [eapply fo_lt_mono; eauto|].
    split; [eapply Hne; eauto|]. exists t0. split; auto. lia.
  - destruct H as [H1 [t0 [H4 H5]]]. split; [lia|]. exists t0. split; auto. lia.
  - destruct H as [H1 H2]. split; [eapply fo_lt_mono; eauto | eapply Hne; eauto].
Qed.

Lemma InvC_with_thread : forall s t p', InvC s -> pcC s p' -> InvC (with_thread s t p').
Proof.
  intros s t p' [Hcur Hfi Har Hst Hun Hdue Hth] Hp. constructor; simpl; auto.
  intros u p Hf. apply thfind_thset_cases in Hf. destruct Hf as [->|Hf].
  - exact Hp.
  - exact (Hth _ _ Hf).
Qed.

Ltac step_inv' Hs :=
  unfold tcstep in Hs;
  repeat match type of Hs with
  | context [match ?x with _ => _ end] => destruct x eqn:?; try discriminate
  end; inversion Hs; subst; clear Hs.

Ltac projs := cbn [tc_fired tc_cur tc_armed tc_now tc_next tc_threads tc_started].

Lemma InvC_step : forall s l s', InvC s -> tcstep s l = Some s' -> InvC s'.
Proof.
  intros s l s' HI Hs. step_inv' Hs;
  try (apply InvC_with_thread; [assumption | exact I]).
  - (* StartSwap *)
    destruct HI as [Hcur Hfi Har Hst Hun Hdue Hth]. constructor; projs.
    + simpl; lia.
    + intros j H. apply Hfi in H. lia.
    + intros j due H. destruct (Har _ _ H) as [H1 [t0 [d0 [H2 H3]]]]. split; [lia|].
      exists t0, d0. split; [right; auto | auto].
    + intros j t0 d0 [H|H]; [inversion H; lia | apply Hst in H; lia].
    + intros j t0 d0 t0' d0' [H|H] [H'|H'].
      * inversion H; inversion H'; subst; auto.
      * inversion H; subst. apply Hst in H'. lia.
      * inversion H'; subst. apply Hst in H. lia.
      * eapply Hun; eauto.
    + intros i t0 d0 Hc Hf. inversion Hc; subst. apply Hfi in Hf. lia.
    + intros u p Hf. apply thfind_thset_cases in Hf. destruct Hf as [->|Hf].
      * simpl. split; [lia|]. split; [eapply fo_lt_mono; [|exact Hcur]; lia|]. split.
        -- intros j Ej X. inversion X; subst. rewrite Ej in Hcur. simpl in Hcur. lia.
        -- exists (tc_now s). split; [left; auto | lia].
      * eapply pcC_mono; [| | | | exact (Hth _ _ Hf)]; simpl; auto; try lia.
        right; right. exists (tc_next s). split; auto; lia.
  - (* StartFire *)
    pose proof (c_threads _ HI _ _ Heqo) as Hme. simpl in Hme. destruct Hme as [M1 [M2 [M3 [t0 [M4 M5]]]]].
    destruct HI as [Hcur Hfi Har Hst Hun Hdue Hth]. constructor; projs; auto.
    + intros j H. apply zin_fire_inv in H. destruct H as [H|H]; auto. subst; simpl in M2; auto.
    + intros i t1 d1 Hc Hf Hin. apply zin_fire_inv in Hf. destruct Hf as [Hf|Hf]; eauto.
      exfalso. eapply M3; eauto.
    + intros u p Hf. apply thfind_thset_cases in Hf. destruct Hf as [->|Hf].
      * simpl. split; auto. exists t0; auto.
      * eapply pcC_mono; [| | | | exact (Hth _ _ Hf)]; simpl; auto; lia.
  - (* StartArm *)
    pose proof (c_threads _ HI _ _ Heqo) as Hme. simpl in Hme. destruct Hme as [M1 [t0 [M4 M5]]].
    destruct HI as [Hcur Hfi Har Hst Hun Hdue Hth]. constructor; projs; auto.
    + intros j due [H|H]; auto. inversion H; subst. split; auto. exists t0, d. split; auto. lia.
    + intros u p Hf. apply thfind_thset_cases in Hf. destruct Hf as [->|Hf].
      * exact I.
      * eapply pcC_mono; [| | | | exact (Hth _ _ Hf)]; simpl; auto; lia.
  - (* FireSwap *)
    destruct HI as [Hcur Hfi Har Hst Hun Hdue Hth]. constructor; projs; auto.
    + exact I.
    + intros; discriminate.
    + intros u p Hf. apply thfind_thset_cases in Hf. destruct Hf as [->|Hf].
      * simpl. split; auto. intros; discriminate.
      * eapply pcC_mono; [| | | | exact (Hth _ _ Hf)]; simpl; auto; lia.
  - (* FireFire *)
    pose proof (c_threads _ HI _ _ Heqo) as Hme. simpl in Hme. destruct Hme as [M2 M3].
    destruct HI as [Hcur Hfi Har Hst Hun Hdue Hth]. constructor; projs; auto.
    + intros j H. apply zin_fire_inv in H. destruct H as [H|H]; auto. subst; simpl in M2; auto.
    + intros i t1 d1 Hc Hf Hin. apply zin_fire_inv in Hf. destruct Hf as [Hf|Hf]; eauto.
      exfalso. eapply M3; eauto.
    + intros u p Hf. apply thfind_thset_cases in Hf. destruct Hf as [->|Hf].
      * exact I.
      * eapply pcC_mono; [| | | | exact (Hth _ _ Hf)]; simpl; auto; lia.
  - (* Tick *)
    destruct HI as [Hcur Hfi Har Hst Hun Hdue Hth]. constructor; projs; auto.
    + intros i t1 d1 Hc Hf Hin. pose proof (Hdue _ _ _ Hc Hf Hin). lia.
    + intros u p Hf. eapply pcC_mono; [| | | | exact (Hth _ _ Hf)]; simpl; auto; lia.
  - (* TimerFire *)
    apply filter_nonempty in Heql0. destruct p as [a b]. destruct Heql0 as [P1 P2]. simpl in P2.
    assert (a = i) by lia. assert (b <= tc_now s) by lia. subst a.
    destruct HI as [Hcur Hfi Har Hst Hun Hdue Hth]. constructor; projs; auto.
    + intros j H. apply zin_fire_inv in H. destruct H as [H|H]; auto. inversion H; subst.
      apply (Har _ _ P1).
    + intros j due H. apply filter_In in H. destruct H; auto.
    + intros i0 t1 d1 Hc Hf Hin. apply zin_fire_inv in Hf. destruct Hf as [Hf|Hf]; eauto.
      inversion Hf; subst. destruct (Har _ _ P1) as [_ [t0 [d0 [H2 H3]]]].
      destruct (Hun _ _ _ _ _ Hin H2); subst. lia.
Qed.

Lemma InvC_reach : forall threads s, reach threads s -> InvC s.
Proof.
  intros threads s [ls Hr].
  eapply (invariant_run _ _ tcstep InvC InvC_step); [apply InvC_init | exact Hr].
Qed.

Theorem tc_current_fired_means_due : forall threads s i t0 d,
  tids_ok threads = true -> reach threads s ->
  tc_cur s = Some i -> zin i (tc_fired s) = true -> In (i, t0, d) (tc_started s) -> t0 + d <= tc_now s.
Proof.
  intros threads s i t0 d _ Hr. apply (c_due _ (InvC_reach _ _ Hr)).
Qed.

(* ---------- corollaries: progress for a blocked waiter; non-vacuity of theorem 5 ---------- *)

(* the waiter itself can step (signal fired), or a runtime timer is armed for its signal (tc_timer_fires +
   tc_time_passes then fire it), or the starter that created the signal is mid-operation and can step *)
Corollary tc_blocked_progress : forall threads s t i,
  tids_ok threads = true -> reach threads s -> thfind t (tc_threads s) = Some (TWaitBlocked i) ->
  (exists s', tcstep s (TStep t) = Some s') \/
  (exists due, In (i, due) (tc_armed s)) \/
  (exists u s', tcstep s (TStep u) = Some s' /\
                ((exists d old, thfind u (tc_threads s) = Some (TStartFire d i old)) \/
                 (exists d, thfind u (tc_threads s) = Some (TStartArm d i)))).
Proof.
  intros threads s t i Hok Hr Ht.
  destruct (tc_blocked_can_be_released _ _ _ _ Hok Hr Ht) as [H|[H|[[u [d [old H]]]|[u [d H]]]]].
  - left. unfold tcstep. rewrite Ht, H. eauto.
  - right; left; exact H.
  - right; right. exists u. unfold tcstep. rewrite H. eexists. split; [reflexivity|]. left; eauto.
  - right; right. exists u. unfold tcstep. rewrite H. eexists. split; [reflexivity|]. right; eauto.
Qed.

Example tc_due_example : exists ls s, run tcstep (tcinit [1; 2]) ls = Some s /\
  tc_cur s = Some 0 /\ zin 0 (tc_fired s) = true /\ In (0, 0, 5) (tc_started s) /\ tc_now s = 5.
Proof.
  exists [TBegin 1 (TStartSwap 5); TStep 1; TStep 1; TStep 1; TTick 5; TTimerFire 0].
  eexists. split; [vm_compute; reflexivity|]. vm_compute. auto.
Qed.

(* a replaced signal is fired early (before its due time) by the later starter -- but is then no longer current *)
Example tc_replaced_fired_early : exists ls s, run tcstep (tcinit [1; 2]) ls = Some s /\
  zin 0 (tc_fired s) = true /\ In (0, 0, 5) (tc_started s) /\ tc_now s = 0 /\ tc_cur s = Some 1.
Proof.
  exists [TBegin 1 (TStartSwap 5); TStep 1; TBegin 2 (TStartSwap 7); TStep 2; TStep 2].
  eexists. split; [vm_compute; reflexivity|]. vm_compute. auto.
Qed.

Print Assumptions tc_only_waits_block.
Print Assumptions tc_blocked_can_be_released.
Print Assumptions tc_blocked_progress.
Print Assumptions tc_timer_fires.
Print Assumptions tc_time_passes.
Print Assumptions tc_wait_done_means_current_fired.
Print Assumptions tc_wait_get_reads_current.
Print Assumptions tc_wait_get0_reads_current.
Print Assumptions tc_current_fired_means_due.
Print Assumptions tc_monotone.
Print Assumptions tc_example.
Print Assumptions tc_due_example.
Print Assumptions tc_replaced_fired_early.
