(* After stop everything can exit: bounded quiescence of the serving-side transition system (Model/Receiver.v). *)
From Coq Require Import ZifyBool Lia.
From FMP Require Import Base.Bytes Base.Lts Model.Events Model.Skeleton Model.Props Model.Receiver Proofs.ReceiverProofs.
Open Scope Z_scope.

(* library goroutines still alive: handler goroutines that are reporting their end (HEnding), the task loop, the receive goroutine *)
Definition endings (st : rstate) : list Z :=
  map hd_id (filter (fun x => match hd_pc x with HEnding => true | _ => false end) (handlers st)).
Definition quiet (st : rstate) : Prop :=
  endings st = [] /\ tl_alive st = false /\ recv st = RExited /\
  forall x, In x (handlers st) -> hd_pc x = HRun \/ hd_pc x = HGone.

(* internal labels: steps of the library's own goroutines (no peer input, no handler function returning, no Close) *)
Definition internal (l : rlabel) : bool :=
  match l with
  | RBeginRv | RBeginStop | RCancelRv | RCancelStop | REndRv _ | REndStop _ | RTaskLoopExit | RRecvExit => true
  | _ => false
  end.

(* ---------------------------------------------------------------------------------------------------------- *)
(* the number of handler goroutines reporting their end                                                        *)
(* ---------------------------------------------------------------------------------------------------------- *)

Definition nend (hs : list handler) : nat :=
  length (filter (fun x => match hd_pc x with HEnding => true | _ => false end) hs).

Lemma endings_nend : forall st, length (endings st) = nend (handlers st).
Proof. intros st. unfold endings, nend. apply map_length. Qed.

Lemma nend_hupdate_same : forall f h hs,
    (forall x, hd_pc (f x) = hd_pc x) -> nend (hupdate h f hs) = nend hs.
Proof.
  intros f h hs Hf. unfold nend. induction hs as [|y r IH]; simpl; [reflexivity|].
  destruct (hd_id y =? h); simpl.
  - rewrite Hf. destruct (hd_pc y); reflexivity.
  - destruct (hd_pc y); simpl; rewrite IH; reflexivity.
Qed.

Lemma nend_hupdate_le : forall f h hs,
    (forall x, hd_pc (f x) <> HEnding) -> (nend (hupdate h f hs) <= nend hs)%nat.
Proof.
  intros f h hs Hf. unfold nend. induction hs as [|y r IH]; simpl; [lia|].
  destruct (hd_id y =? h); simpl.
  - specialize (Hf y). destruct (hd_pc (f y)); try congruence; destruct (hd_pc y); simpl; lia.
  - destruct (hd_pc y); simpl; lia.
Qed.

Lemma nend_hupdate_end : forall f h hs x,
    (forall x, hd_pc (f x) = HGone) -> hfind h hs = Some x -> hd_pc x = HEnding ->
    S (nend (hupdate h f hs)) = nend hs.
Proof.
  intros f h hs x Hf. unfold nend. induction hs as [|y r IH]; simpl; intros Hx Hp; [discriminate|].
  destruct (hd_id y =? h); simpl.
  - inversion Hx; subst. rewrite Hf, Hp. reflexivity.
  - destruct (hd_pc y); simpl; rewrite <- (IH Hx Hp); reflexivity.
Qed.

Lemma nend_cancel_all : forall vs hs, nend (cancel_all vs hs) = nend hs.
Proof.
  unfold cancel_all. induction vs as [|v vs IH]; intros hs; simpl; [reflexivity|].
  rewrite IH. apply nend_hupdate_same. reflexivity.
Qed.

Lemma nend_pos : forall hs n, nend hs = S n -> exists x, In x hs /\ hd_pc x = HEnding.
Proof.
  unfold nend. induction hs as [|y r IH]; simpl; intros n H; [discriminate|].
  destruct (hd_pc y) eqn:E; simpl in H; try (destruct (IH _ H) as (x & Hi & Hp); eauto; fail).
  exists y. auto.
Qed.

Lemma nend_zero : forall hs x, nend hs = O -> In x hs -> hd_pc x <> HEnding.
Proof.
  unfold nend. induction hs as [|y r IH]; simpl; intros x H Hi; [contradiction|].
  destruct Hi as [->|Hi].
  - intro Hp. rewrite Hp in H. discriminate.
  - destruct (hd_pc y); simpl in H; try discriminate; apply IH; assumption.
Qed.

(* ---------------------------------------------------------------------------------------------------------- *)
(* a handler that has not been registered yet is the one the receive goroutine is handing over                 *)
(* ---------------------------------------------------------------------------------------------------------- *)

Definition newinv (st : rstate) : Prop :=
  forall h x, hfind h (handlers st) = Some x -> hd_pc x = HNew -> recv st = RBegin h.

Lemma newinv_step : forall sk st l st', newinv st -> rstep sk st l = Some st' -> newinv st'.
Proof.
  intros sk st l st' Hi H h x Hf Hp.
  step_cases H; simpl in *; norm_hfind; subst; simpl in *; try discriminate Hp; try reflexivity;
    try (eapply Hi; eassumption);
    try match goal with
        | Ho : hfind ?k (handlers st) = Some ?y |- _ =>
            let Q := fresh "Q" in
            assert (Q : recv st = RBegin k) by (apply (Hi _ _ Ho); assumption); congruence
        end.
Qed.

Lemma newinv_run : forall sk ls st, run (rstep sk) rinit ls = Some st -> newinv st.
Proof.
  intros sk ls st H. eapply (invariant_run _ _ (rstep sk) newinv); [| |exact H].
  - intros; eapply newinv_step; eauto.
  - intros h x Hf. discriminate Hf.
Qed.

Lemma stopped_step : forall sk st l st', rstep sk st l = Some st' -> stopped st = true -> stopped st' = true.
Proof.
  intros sk st l st' H Hs. step_cases H; simpl; auto.
Qed.

(* ---------------------------------------------------------------------------------------------------------- *)
(* the measure: goroutines of the library that still have a step to make                                       *)
(* ---------------------------------------------------------------------------------------------------------- *)

Definition good (st : rstate) : Prop := ids_ok st /\ stopped st = true /\ newinv st.

Lemma good_step : forall sk st l st', good st -> rstep sk st l = Some st' -> good st'.
Proof.
  intros sk st l st' (A & B & C) H. split; [|split].
  - eapply ids_ok_step; eauto.
  - eapply stopped_step; eauto.
  - eapply newinv_step; eauto.
Qed.

Lemma good_run : forall ls st, run (rstep expected_skeleton) rinit ls = Some st -> stopped st = true -> good st.
Proof.
  intros ls st H Hs. split; [|split]; [eapply ids_ok_run; eauto | exact Hs | eapply newinv_run; eauto].
Qed.

Definition rmeas (r : rpc) : nat :=
  match r with RExited => 0 | RIdle => 1 | _ => 2 end.

Definition meas (st : rstate) : nat :=
  (nend (handlers st) + (if tl_alive st then 1 else 0) + rmeas (recv st))%nat.

Lemma meas_bound : forall st, (meas st <= length (endings st) + 3)%nat.
Proof.
  intros st. rewrite endings_nend. unfold meas. destruct (tl_alive st), (recv st); simpl; lia.
Qed.

Lemma progress_step : forall st n, good st -> meas st = S n ->
    exists l st', internal l = true /\ rstep expected_skeleton st l = Some st' /\ good st' /\ (meas st' <= n)%nat.
Proof.
  intros st n Hg Hm. pose proof Hg as (Hids & Hs & Hn).
  destruct (recv st) eqn:Er.
  - (* reading: the read fails, the receive goroutine leaves *)
    assert (Hstep : rstep expected_skeleton st RRecvExit = Some (with_hist st (handlers st) (tasks st) RExited []))
      by (unfold rstep; rewrite Er, Hs; reflexivity).
    exists RRecvExit. eexists. split; [reflexivity|]. split; [exact Hstep|]. split; [eapply good_step; eauto|].
    unfold meas in *. rewrite Er in Hm. simpl in *. lia.
  - (* blocked on taskBeginCh: stop arm *)
    assert (Hstep : rstep expected_skeleton st RBeginStop =
                    Some (with_hist st (hupdate h (fun x => h_set_pc HGone (h_set_ctx x)) (handlers st)) (tasks st) RIdle []))
      by (unfold rstep; rewrite Er, Hs; reflexivity).
    exists RBeginStop. eexists. split; [reflexivity|]. split; [exact Hstep|]. split; [eapply good_step; eauto|].
    unfold meas in *. rewrite Er in Hm. simpl in *.
    pose proof (nend_hupdate_le (fun x => h_set_pc HGone (h_set_ctx x)) h (handlers st)
                  ltac:(intros; simpl; discriminate)). lia.
  - (* blocked on taskCancelCh: stop arm *)
    assert (Hstep : rstep expected_skeleton st RCancelStop = Some (with_hist st (handlers st) (tasks st) RIdle []))
      by (unfold rstep; rewrite Er, Hs; reflexivity).
    exists RCancelStop. eexists. split; [reflexivity|]. split; [exact Hstep|]. split; [eapply good_step; eauto|].
    unfold meas in *. rewrite Er in Hm. simpl in *. lia.
  - destruct (tl_alive st) eqn:Ea.
    + (* the task loop takes its stop arm *)
      assert (Hstep : rstep expected_skeleton st RTaskLoopExit =
                      Some (mkR (cancel_all (map snd (tasks st)) (handlers st)) [] false true (recv st) (next_hid st)
                                (last_nkey st)
                                (rev (flat_map (ctx_event (handlers st)) (map snd (tasks st))) ++ rhist st)))
        by (unfold rstep; rewrite Ea, Hs; reflexivity).
      exists RTaskLoopExit. eexists. split; [reflexivity|]. split; [exact Hstep|]. split; [eapply good_step; eauto|].
      unfold meas in *. rewrite Er, Ea in Hm. simpl in *. rewrite nend_cancel_all, Er. simpl. lia.
    + (* only handler goroutines reporting their end are left: each leaves by the stop arm *)
      assert (Hne : nend (handlers st) = S n) by (unfold meas in Hm; rewrite Er, Ea in Hm; simpl in Hm; lia).
      destruct (nend_pos _ _ Hne) as (x & Hx & Hp).
      assert (Hf : hfind (hd_id x) (handlers st) = Some x) by (apply nodup_hfind; [apply Hids | exact Hx]).
      assert (Hstep : rstep expected_skeleton st (REndStop (hd_id x)) =
                      Some (with_hist st (hupdate (hd_id x) (h_set_pc HGone) (handlers st)) (tasks st) (recv st) []))
        by (unfold rstep; rewrite Hf, Hp, Hs; reflexivity).
      exists (REndStop (hd_id x)). eexists. split; [reflexivity|]. split; [exact Hstep|].
      split; [eapply good_step; eauto|].
      unfold meas. simpl. rewrite Ea, Er. simpl.
      pose proof (nend_hupdate_end (h_set_pc HGone) _ _ _ ltac:(reflexivity) Hf Hp). lia.
Qed.

Lemma quiesce_steps : forall n st, good st -> (meas st <= n)%nat ->
    exists ls st', (length ls <= n)%nat /\ forallb internal ls = true /\
                   run (rstep expected_skeleton) st ls = Some st' /\ good st' /\ meas st' = O.
Proof.
  induction n as [|n IH]; intros st Hg Hm.
  - exists [], st. split; [simpl; lia|]. split; [reflexivity|]. split; [reflexivity|]. split; [exact Hg | lia].
  - destruct (meas st) as [|k] eqn:Ek.
    + exists [], st. split; [simpl; lia|]. split; [reflexivity|]. split; [reflexivity|]. split; [exact Hg | exact Ek].
    + destruct (progress_step st k Hg Ek) as (l & st1 & Hl & Hstep & Hg1 & Hm1).
      destruct (IH st1 Hg1 ltac:(lia)) as (ls & st2 & Hlen & Hint & Hrun & Hg2 & Hm2).
      exists (l :: ls), st2. simpl. rewrite Hl, Hstep. split; [lia|]. split; [exact Hint|]. split; [exact Hrun|]. split; assumption.
Qed.

Lemma meas_zero_quiet : forall st, good st -> meas st = O -> quiet st.
Proof.
  intros st (Hids & Hs & Hn) Hm. unfold meas in Hm.
  assert (Hne : nend (handlers st) = O) by lia.
  assert (Ha : tl_alive st = false) by (destruct (tl_alive st); [lia | reflexivity]).
  assert (Hr : recv st = RExited) by (destruct (recv st); simpl in Hm; try lia; reflexivity).
  split; [|split; [exact Ha | split; [exact Hr|]]].
  - pose proof (endings_nend st) as E. rewrite Hne in E. destruct (endings st); [reflexivity | discriminate].
  - intros x Hx. destruct (hd_pc x) eqn:Ep; auto; exfalso.
    + assert (Hf : hfind (hd_id x) (handlers st) = Some x) by (apply nodup_hfind; [apply Hids | exact Hx]).
      pose proof (Hn _ _ Hf Ep). congruence.
    + exact (nend_zero _ _ Hne Hx Ep).
Qed.

(* ---------------------------------------------------------------------------------------------------------- *)
(* the theorems                                                                                                *)
(* ---------------------------------------------------------------------------------------------------------- *)

(* from ANY reachable state in which the transport has been stopped, the library's goroutines can all finish on their own:
   within (number of handlers reporting their end) + 3 internal steps the task loop has exited, the receive goroutine has
   exited and no handler goroutine is left except those whose handler FUNCTION is still running (HRun: that is the
   application's code; its context has been cancelled, see recv_close_cancels_all) *)
Theorem recv_can_quiesce_after_stop : forall ls st,
  run (rstep expected_skeleton) rinit ls = Some st -> stopped st = true ->
  exists ls' st', (length ls' <= length (endings st) + 3)%nat /\ forallb internal ls' = true /\
                  run (rstep expected_skeleton) st ls' = Some st' /\ quiet st'.
Proof.
  intros ls st H Hs. pose proof (good_run _ _ H Hs) as Hg.
  destruct (quiesce_steps _ st Hg (meas_bound st)) as (ls' & st' & Hlen & Hint & Hrun & Hg' & Hm').
  exists ls', st'. split; [exact Hlen|]. split; [exact Hint|]. split; [exact Hrun|]. apply meas_zero_quiet; assumption.
Qed.

(* the handler functions still running in the quiet state have all had their contexts cancelled *)
Theorem recv_can_quiesce_after_stop_cancelled : forall ls st,
  run (rstep expected_skeleton) rinit ls = Some st -> stopped st = true ->
  exists ls' st', (length ls' <= length (endings st) + 3)%nat /\ forallb internal ls' = true /\
                  run (rstep expected_skeleton) st ls' = Some st' /\ quiet st' /\
                  forall x, In x (handlers st') -> hd_pc x = HRun -> hd_ctx x = true.
Proof.
  intros ls st H Hs. destruct (recv_can_quiesce_after_stop ls st H Hs) as (ls' & st' & Hlen & Hint & Hrun & Hq).
  exists ls', st'. split; [exact Hlen|]. split; [exact Hint|]. split; [exact Hrun|]. split; [exact Hq|].
  assert (Hr : run (rstep expected_skeleton) rinit (ls ++ ls') = Some st') by (rewrite run_app, H; exact Hrun).
  intros x Hx Hp. eapply (recv_close_cancels_all expected_skeleton); try eassumption; [reflexivity | apply Hq].
Qed.

(* once quiet, nothing of the library moves any more *)
Theorem recv_quiet_is_final : forall sk st l, quiet st -> internal l = true -> rstep sk st l = None.
Proof.
  intros sk st l (He & Ha & Hr & Hh) Hl.
  destruct l; try discriminate Hl; unfold rstep; rewrite ?Hr, ?Ha, ?andb_false_r; simpl; try reflexivity.
  all: destruct (hfind h (handlers st)) as [x|] eqn:Ef; [|reflexivity];
    destruct (Hh x (hfind_In _ _ _ Ef)) as [E|E]; rewrite E; reflexivity.
Qed.

(* a handler function that returns later (RHandlerRet h) can still exit: REndStop h is enabled right after it *)
Theorem recv_late_handler_can_exit : forall ls st h st1,
  run (rstep expected_skeleton) rinit ls = Some st -> stopped st = true ->
  rstep expected_skeleton st (RHandlerRet h) = Some st1 ->
  exists st2, (rstep expected_skeleton st1 (REndStop h) = Some st2 \/ rstep expected_skeleton st1 (REndRv h) = Some st2) /\
              (forall x, hfind h (handlers st2) = Some x -> hd_pc x = HGone).
Proof.
  intros ls st h st1 _ Hs H.
  unfold rstep in H. destruct (hfind h (handlers st)) as [y|] eqn:Ef; [|discriminate].
  destruct (hd_pc y) eqn:Ep; try discriminate. inversion H; subst; clear H.
  eexists. split.
  - left. unfold rstep, with_hist. simpl. rewrite hfind_hupdate by reflexivity. rewrite Z.eqb_refl, Ef. simpl.
    rewrite Hs. reflexivity.
  - simpl. intros x Hx. rewrite !hfind_hupdate in Hx by reflexivity. rewrite Z.eqb_refl, Ef in Hx. simpl in Hx.
    inversion Hx; subst. reflexivity.
Qed.

Print Assumptions recv_can_quiesce_after_stop.
Print Assumptions recv_can_quiesce_after_stop_cancelled.
Print Assumptions recv_quiet_is_final.
Print Assumptions recv_late_handler_can_exit.
