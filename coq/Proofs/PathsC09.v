(* Facts about every path through function bodies regenerated from the source (Model/Paths.v) that C09 relies on, by
   computation over the finitely many paths.  One file per property, so that a source change breaks only the theorems of the
   property it concerns. *)
From FMP Require Import Model.Paths.
Theorem paths_taskloop : taskloop_paths = true. Proof. vm_compute. reflexivity. Qed.
Print Assumptions paths_taskloop.
