(* Facts about every path through function bodies regenerated from the source (Model/Paths.v) that C20 relies on, by
   computation over the finitely many paths.  One file per property, so that a source change breaks only the theorems of the
   property it concerns. *)
From FMP Require Import Model.Paths.
Theorem paths_call_accounted : call_paths_accounted = true. Proof. vm_compute. reflexivity. Qed.
Theorem paths_notify_accounted : notify_paths_accounted = true. Proof. vm_compute. reflexivity. Qed.
Theorem paths_cancel_accounted : cancel_paths_accounted = true. Proof. vm_compute. reflexivity. Qed.
Theorem paths_reply_accounted : reply_paths_accounted = true. Proof. vm_compute. reflexivity. Qed.
Theorem paths_never_accounted_twice : never_accounted_twice = true. Proof. vm_compute. reflexivity. Qed.
Theorem paths_serve_replies : serve_paths_reply = true. Proof. vm_compute. reflexivity. Qed.
Theorem paths_are_nonvacuous : paths_nonvacuous = true. Proof. vm_compute. reflexivity. Qed.
Theorem paths_finish_once : finish_paths_once = true. Proof. vm_compute. reflexivity. Qed.
Theorem paths_response_size : response_size_paths = true. Proof. vm_compute. reflexivity. Qed.
Print Assumptions paths_call_accounted.
