(* Bounded progress of a reconnect sequence: a running sequence can always finish on its own (plus the timer running out),
   hence every waiter can be released; with nothing scripted to fail, it finishes with success. *)
From Coq Require Import ZifyBool Lia.
From FMP Require Import Base.Bytes Base.Lts Model.Connection Model.ConnProps Proofs.ConnProofs.
Open Scope Z_scope.

(* the scripted outcomes still to be consumed bound the number of failed attempts *)
Definition budget (st : cstate) : nat := length (dials st) + length (conns st).

(* ====================================================================== *)
(* 1. a running sequence can always finish                                *)
(* ====================================================================== *)
Section Finish.
  Variables (cfg : ccfg) (o : copts) (g : Z).

  Definition Done (st : cstate) (n : nat) : Prop :=
    exists ls st', (length ls <= n)%nat /\ forallb (is_seq_label g) ls = true /\
                   run (cstep cfg o) st ls = Some st' /\ sfind g (seqs st') = None /\ ffind g (finished st') <> None.

  Lemma Done_step : forall st l st1 n n', cstep cfg o st l = Some st1 -> is_seq_label g l = true ->
    Done st1 n -> (S n <= n')%nat -> Done st n'.
  Proof.
    intros st l st1 n n' Hs Hl (ls & st' & H1 & H2 & H3 & H4 & H5) Hn. exists (l :: ls), st'.
    split; [simpl; lia|]. split; [simpl; rewrite Hl, H2; reflexivity|]. split; [simpl; rewrite Hs; exact H3|]. auto.
  Qed.

  Lemma Done_weaken : forall st n n', Done st n -> (n <= n')%nat -> Done st n'.
  Proof. intros st n n' (ls & st' & H1 & H2) Hn. exists ls, st'. split; [lia | exact H2]. Qed.

  (* the sequence's program counter *)
  Definition Pc (st : cstate) (p : spc) : Prop := exists s, sfind g (seqs st) = Some s /\ sq_pc s = p.

  Ltac pc_next Hf := eexists; split; [apply sfind_supdate; [reflexivity | exact Hf] | reflexivity].
  Ltac unfold_step Hf Hp := unfold cstep, seq_step, goto; rewrite Hf, Hp; cbn [andb].
  Ltac lbl := simpl; apply Z.eqb_refl.
  Ltac bud := unfold budget in *; cbn [dials conns upd set_timer fire_timer tl length] in *; lia.

  Lemma d_finishing : forall st, Pc st SFinishing -> Done st 1.
  Proof.
    intros st (s & Hf & Hp). exists [LFinish g]. eexists. split; [simpl; lia|]. split; [simpl; rewrite Z.eqb_refl; reflexivity|].
    split; [simpl; unfold seq_step; rewrite Hf, Hp; reflexivity|]. cbn [seqs finished ffind]. rewrite Z.eqb_refl.
    split; [apply sfind_sremove | discriminate].
  Qed.

  (* a cancelled sequence, a success and a fatal error all finish at once *)
  Lemma d_check_quick : forall st s e, sfind g (seqs st) = Some s -> sq_pc s = SCheck e ->
    sq_cancelled s = true \/ e = ENone \/ e = EConnFatal -> Done st 2.
  Proof.
    intros st s e Hf Hp Hq. destruct (sq_cancelled s) eqn:Hc.
    - eapply (Done_step st (LCheck g)); [unfold_step Hf Hp; rewrite Hc; reflexivity | lbl | apply d_finishing; pc_next Hf | lia].
    - destruct Hq as [Hq|[->| ->]]; [discriminate| |].
      + eapply (Done_step st (LCheck g)); [unfold_step Hf Hp; rewrite Hc; reflexivity | lbl | apply d_finishing; pc_next Hf | lia].
      + eapply (Done_step st (LCheck g)); [unfold_step Hf Hp; rewrite Hc; reflexivity | lbl | apply d_finishing; pc_next Hf | lia].
  Qed.

  Lemma d_connected : forall st x, Pc st (SConnected x) -> Done st 3.
  Proof.
    intros st x (s & Hf & Hp).
    eapply (Done_step st (LPublish g)); [unfold_step Hf Hp; reflexivity | lbl | | ].
    eapply d_check_quick; [apply sfind_supdate; [reflexivity | exact Hf] | reflexivity | auto]. lia.
  Qed.

  (* [Low m]: below budget m, a sequence about to attempt finishes within 7 * m steps *)
  Definition Low (m : nat) : Prop := forall st, (budget st < m)%nat -> Pc st SAttempt -> Done st (7 * m).

  Lemma d_backoff : forall m st, Low m -> (budget st < m)%nat -> Pc st SBackoff -> Done st (7 * m + 1).
  Proof.
    intros m st HL Hb (s & Hf & Hp). destruct (sq_cancelled s) eqn:Hc.
    - eapply (Done_step st (LBackoffEnd g)); [unfold_step Hf Hp; rewrite Hc; reflexivity | lbl | apply d_finishing; pc_next Hf | lia].
    - eapply (Done_step st (LBackoffEnd g)); [unfold_step Hf Hp; rewrite Hc; reflexivity | lbl | | ].
      apply HL; [bud | pc_next Hf]. lia.
  Qed.

  Lemma d_notify : forall m st e, Low m -> (budget st < m)%nat -> Pc st (SNotify e) -> Done st (7 * m + 2).
  Proof.
    intros m st e HL Hb (s & Hf & Hp).
    eapply (Done_step st (LNotify g)); [unfold_step Hf Hp; reflexivity | lbl | | ].
    apply (d_backoff m); [exact HL | bud | pc_next Hf]. lia.
  Qed.

  Lemma d_check : forall m st e, Low m -> (budget st < m)%nat -> Pc st (SCheck e) -> Done st (7 * m + 3).
  Proof.
    intros m st e HL Hb (s & Hf & Hp). destruct (sq_cancelled s) eqn:Hc.
    { eapply Done_weaken; [eapply d_check_quick; eauto | lia]. }
    destruct e.
    1, 5: (eapply Done_weaken; [eapply d_check_quick; eauto | lia]).
    all: eapply (Done_step st (LCheck g)); [unfold_step Hf Hp; rewrite Hc; reflexivity | lbl
                                            | eapply (d_notify m); [exact HL | bud | pc_next Hf] | lia].
  Qed.

  Lemma d_registered : forall m st x, Low m -> (budget st <= m)%nat -> Pc st (SRegistered x) -> Done st (7 * m + 4).
  Proof.
    intros m st x HL Hb (s & Hf & Hp). destruct (conns st) as [|a r] eqn:Hcs; [|destruct a].
    - eapply (Done_step st (LOnConnect g)); [unfold_step Hf Hp; rewrite Hcs; reflexivity | lbl | eapply d_connected; pc_next Hf | lia].
    - eapply (Done_step st (LOnConnect g)); [unfold_step Hf Hp; rewrite Hcs; reflexivity | lbl | eapply d_connected; pc_next Hf | lia].
    - eapply (Done_step st (LOnConnect g)); [unfold_step Hf Hp; rewrite Hcs; reflexivity | lbl | | ].
      eapply (d_check m); [exact HL | | pc_next Hf]. unfold budget in *. rewrite Hcs in Hb. cbn [dials conns tl length] in *. lia. lia.
    - eapply (Done_step st (LOnConnect g)); [unfold_step Hf Hp; rewrite Hcs; reflexivity | lbl | | ].
      eapply d_check_quick; [apply sfind_supdate; [reflexivity | exact Hf] | reflexivity | auto]. lia.
  Qed.

  Lemma d_dialed : forall m st x, Low m -> (budget st <= m)%nat -> Pc st (SDialed x) -> Done st (7 * m + 5).
  Proof.
    intros m st x HL Hb (s & Hf & Hp). destruct (cc_register_before_onconnect cfg) eqn:Hreg.
    - eapply (Done_step st (LRegister g)); [unfold_step Hf Hp; rewrite Hreg; reflexivity | lbl | | ].
      eapply (d_registered m); [exact HL | bud | pc_next Hf]. lia.
    - eapply (Done_step st (LRegister g)); [unfold_step Hf Hp; rewrite Hreg; reflexivity | lbl | | ].
      eapply (d_registered m); [exact HL | bud | pc_next Hf]. lia.
  Qed.

  Lemma d_dialing : forall m st, Low m -> (budget st <= m)%nat -> Pc st SDialing -> Done st (7 * m + 6).
  Proof.
    intros m st HL Hb (s & Hf & Hp). destruct (dials st) as [|a r] eqn:Hd; [|destruct a].
    - eapply (Done_step st (LDialEnd g)); [unfold_step Hf Hp; rewrite Hd; reflexivity | lbl | | ].
      eapply (d_dialed m); [exact HL | | pc_next Hf]. unfold budget in *. rewrite Hd in Hb. cbn [dials conns tl length] in *. lia. lia.
    - eapply (Done_step st (LDialEnd g)); [unfold_step Hf Hp; rewrite Hd; reflexivity | lbl | | ].
      eapply (d_dialed m); [exact HL | | pc_next Hf]. unfold budget in *. rewrite Hd in Hb. cbn [dials conns tl length] in *. lia. lia.
    - eapply (Done_step st (LDialEnd g)); [unfold_step Hf Hp; rewrite Hd; reflexivity | lbl | | ].
      eapply (d_check m); [exact HL | | pc_next Hf]. unfold budget in *. rewrite Hd in Hb. cbn [dials conns tl length] in *. lia. lia.
    - eapply (Done_step st (LDialEnd g)); [unfold_step Hf Hp; rewrite Hd; reflexivity | lbl | | ].
      eapply d_check_quick; [apply sfind_supdate; [reflexivity | exact Hf] | reflexivity | auto]. lia.
  Qed.

  Lemma d_attempt : forall m st, Low m -> (budget st <= m)%nat -> Pc st SAttempt -> Done st (7 * m + 7).
  Proof.
    intros m st HL Hb (s & Hf & Hp).
    eapply (Done_step st (LDialBegin g)); [unfold_step Hf Hp; reflexivity | lbl | | ].
    eapply (d_dialing m); [exact HL | bud | pc_next Hf]. lia.
  Qed.

  Lemma Low_all : forall m, Low m.
  Proof.
    induction m as [|m IH]; intros st Hb Hat; [lia|].
    eapply Done_weaken; [apply (d_attempt m); [exact IH | lia | exact Hat] | lia].
  Qed.

  Lemma d_attempt' : forall st, Pc st SAttempt -> Done st (7 * budget st + 7).
  Proof. intros st Hat. apply d_attempt; [apply Low_all | lia | exact Hat]. Qed.

  Lemma d_retrystart : forall st, Pc st SRetryStart -> Done st (7 * budget st + 8).
  Proof.
    intros st (s & Hf & Hp). destruct (sq_cancelled s) eqn:Hc.
    - eapply (Done_step st (LRetryStart g)); [unfold_step Hf Hp; rewrite Hc; reflexivity | lbl | apply d_finishing; pc_next Hf | lia].
    - eapply (Done_step st (LRetryStart g)); [unfold_step Hf Hp; rewrite Hc; reflexivity | lbl | apply d_attempt'; pc_next Hf | ].
      bud.
  Qed.

  Lemma d_delaywait_idle : forall st, Pc st SDelayWait -> timer_running st = false -> Done st (7 * budget st + 9).
  Proof.
    intros st (s & Hf & Hp) Ht.
    eapply (Done_step st (LDelayDone g)); [unfold_step Hf Hp; rewrite Ht; reflexivity | lbl | apply d_retrystart; pc_next Hf | ].
    bud.
  Qed.

  Lemma d_delaywait : forall st, Pc st SDelayWait -> Done st (7 * budget st + 10).
  Proof.
    intros st Hat. destruct (timer_running st) eqn:Ht.
    - eapply (Done_step st LTimerElapse); [unfold cstep; rewrite Ht; reflexivity | reflexivity | apply d_delaywait_idle; [exact Hat | reflexivity] | ].
      bud.
    - eapply Done_weaken; [apply d_delaywait_idle; assumption | lia].
  Qed.

  Lemma d_delaystart : forall st, Pc st SDelayStart -> Done st (7 * budget st + 11).
  Proof.
    intros st (s & Hf & Hp).
    eapply (Done_step st (LTimerStart g)); [unfold_step Hf Hp; reflexivity | lbl | apply d_delaywait | ].
    - destruct (firenow_pending st); pc_next Hf.
    - destruct (firenow_pending st); bud.
  Qed.

  Lemma d_announce : forall st, Pc st SAnnounce -> Done st (7 * budget st + 12).
  Proof.
    intros st (s & Hf & Hp). destruct (wants_delay o (sq_status s)) eqn:Hw.
    - eapply (Done_step st (LAnnounce g)); [unfold_step Hf Hp; rewrite Hw; reflexivity | lbl | apply d_delaystart; pc_next Hf | ].
      bud.
    - eapply (Done_step st (LAnnounce g)); [unfold_step Hf Hp; rewrite Hw; reflexivity | lbl | apply d_retrystart; pc_next Hf | ].
      bud.
  Qed.

  Lemma d_any : forall st s, sfind g (seqs st) = Some s -> Done st (7 * budget st + 12).
  Proof.
    intros st s Hf. assert (Hat : Pc st (sq_pc s)) by (exists s; auto). pose proof (Low_all (S (budget st))) as HL.
    destruct (sq_pc s) eqn:Hp.
    - apply d_announce; exact Hat.
    - eapply Done_weaken; [apply d_delaystart; exact Hat | lia].
    - eapply Done_weaken; [apply d_delaywait; exact Hat | lia].
    - eapply Done_weaken; [apply d_retrystart; exact Hat | lia].
    - eapply Done_weaken; [apply d_attempt'; exact Hat | lia].
    - eapply Done_weaken; [apply (d_dialing (budget st)); [apply Low_all | lia | exact Hat] | lia].
    - eapply Done_weaken; [eapply (d_dialed (budget st)); [apply Low_all | lia | exact Hat] | lia].
    - eapply Done_weaken; [eapply (d_registered (budget st)); [apply Low_all | lia | exact Hat] | lia].
    - eapply Done_weaken; [eapply d_connected; exact Hat | lia].
    - eapply Done_weaken; [eapply (d_check (S (budget st))); [exact HL | lia | exact Hat] | lia].
    - eapply Done_weaken; [eapply (d_notify (S (budget st))); [exact HL | lia | exact Hat] | lia].
    - eapply Done_weaken; [eapply (d_backoff (S (budget st))); [exact HL | lia | exact Hat] | lia].
    - eapply Done_weaken; [apply d_finishing; exact Hat | lia].
  Qed.
End Finish.

(* none of the hypotheses on cfg, cm or reachability is needed; the bound actually proved is 7 * budget + 12 *)
Theorem conn_sequence_can_finish_tight : forall cfg o st g s,
  sfind g (seqs st) = Some s ->
  exists ls st', (length ls <= 7 * budget st + 12)%nat /\ forallb (is_seq_label g) ls = true /\
                 run (cstep cfg o) st ls = Some st' /\ sfind g (seqs st') = None /\ ffind g (finished st') <> None.
Proof. intros cfg o st g s Hf. exact (d_any cfg o g st s Hf). Qed.

Theorem conn_sequence_can_finish : forall cfg o eager ds cs cm st g s,
  cc_spawn_guarded cfg = true -> cmds_fresh cm = true -> reachable cfg o eager ds cs cm st ->
  sfind g (seqs st) = Some s ->
  exists ls st', (length ls <= 14 * (budget st + 1) + 4)%nat /\ forallb (is_seq_label g) ls = true /\
                 run (cstep cfg o) st ls = Some st' /\ sfind g (seqs st') = None /\ ffind g (finished st') <> None.
Proof.
  intros cfg o eager ds cs cm st g s _ _ _ Hf.
  destruct (d_any cfg o g st s Hf) as (ls & st' & H1 & H2). exists ls, st'. split; [lia | exact H2].
Qed.

(* ====================================================================== *)
(* 2. every waiter can be released                                        *)
(* ====================================================================== *)
(* a command waits only on a generation that is finished or running *)
Definition WaitOK (st : cstate) : Prop :=
  forall x g, In x (cmds st) -> cm_pc x = CWait g -> ffind g (finished st) <> None \/ In g (map sq_gen (seqs st)).

Lemma In_map_sfind : forall g l, In g (map sq_gen l) -> exists s, sfind g l = Some s.
Proof.
  induction l as [|a l IH]; simpl; intros H; [contradiction|].
  destruct (sq_gen a =? g) eqn:E; [eexists; reflexivity|]. destruct H as [H|H]; [lia | auto].
Qed.

Lemma In_map_sremove_intro : forall g h l, In h (map sq_gen l) -> h <> g -> In h (map sq_gen (sremove g l)).
Proof.
  intros g h l; induction l as [|a l IH]; simpl; intros H Hn; [contradiction|].
  destruct (sq_gen a =? g) eqn:E; simpl.
  - destruct H as [H|H]; [lia | auto].
  - destruct H as [H|H]; [left; exact H | right; auto].
Qed.

Lemma In_cupdate : forall c f l x, In x (cupdate c f l) -> In x l \/ exists y, In y l /\ x = f y.
Proof.
  induction l as [|a l IH]; simpl; intros x H; [contradiction|].
  destruct (cm_id a =? c); simpl in H.
  - destruct H as [H|H]; [right; exists a; auto | auto].
  - destruct H as [H|H]; [auto|]. destruct (IH _ H) as [H1|(y & H1 & H2)]; [auto | right; exists y; auto].
Qed.

Lemma cupd_wait : forall c f l, (forall y g, cm_pc (f y) = CWait g -> cm_pc y = CWait g) ->
  forall x g, In x (cupdate c f l) -> cm_pc x = CWait g -> exists y, In y l /\ cm_pc y = CWait g.
Proof.
  intros c f l Hf x g Hin Hp. destruct (In_cupdate _ _ _ _ Hin) as [H|(y & H1 & ->)]; [exists x; auto | exists y; auto].
Qed.

Lemma WaitOK_frame : forall st st',
  (forall x g, In x (cmds st') -> cm_pc x = CWait g -> exists y, In y (cmds st) /\ cm_pc y = CWait g) ->
  finished st' = finished st -> map sq_gen (seqs st') = map sq_gen (seqs st) -> WaitOK st -> WaitOK st'.
Proof.
  unfold WaitOK; intros st st' Hc -> -> HW x g Hin Hp. destruct (Hc x g Hin Hp) as (y & H1 & H2). eauto.
Qed.

Lemma WaitOK_init : forall o eager ds cs cm, cmds_fresh cm = true -> WaitOK (start_state o eager ds cs cm).
Proof.
  intros o eager ds cs cm Hc x g Hin Hp. exfalso.
  assert (Hin' : In x cm) by (destruct eager; exact Hin).
  unfold cmds_fresh in Hc. apply andb_true_iff in Hc. destruct Hc as [_ Hc]. rewrite forallb_forall in Hc.
  apply Hc in Hin'. rewrite Hp in Hin'. discriminate.
Qed.

Lemma WaitOK_step : forall cfg o st l st', cc_spawn_guarded cfg = true -> Single st -> WaitOK st ->
  cstep cfg o st l = Some st' -> WaitOK st'.
Proof.
  intros cfg o st l st' Hg HS HW H. step_leaves_g Hg H.
  all: try (apply (WaitOK_frame st); [ | | | exact HW]; cbn; split_ifs; cbn; rewrite ?map_gen_supdate by reflexivity;
            first [ reflexivity
                  | solve [eauto]
                  | apply cupd_wait; intros y g' Hq; cbn in Hq; first [discriminate Hq | exact Hq] ]).
  - (* LBegin, joining the registered sequence *)
    intros x g Hin Hp. cbn in Hin |- *. destruct (In_cupdate _ _ _ _ Hin) as [H|(y & H1 & ->)]; [exact (HW x g H Hp)|].
    cbn in Hp. injection Hp as <-. right. destruct (Single_some _ _ HS E2) as (s & Hs & Hgen). rewrite Hs. left. exact Hgen.
  - (* LBegin, new sequence *)
    intros x g Hin Hp. cbn in Hin |- *. rewrite map_app, in_app_iff. destruct (In_cupdate _ _ _ _ Hin) as [H|(y & H1 & ->)].
    + destruct (HW x g H Hp); auto.
    + cbn in Hp. injection Hp as <-. right. right. left. reflexivity.
  - (* LFinish *)
    intros x g' Hin Hp. cbn in Hin |- *. destruct (g =? g') eqn:Eg; [left; discriminate|].
    destruct (HW x g' Hin Hp) as [H|H]; [left; exact H | right; apply In_map_sremove_intro; [exact H | lia]].
  - (* LShutdown *)
    apply (WaitOK_frame st); [ | | | exact HW]; cbn; [eauto | reflexivity |].
    destruct (registered st); rewrite ?map_gen_supdate by reflexivity; reflexivity.
Qed.

Lemma WaitOK_reachable : forall cfg o eager ds cs cm st, cc_spawn_guarded cfg = true -> cmds_fresh cm = true ->
  reachable cfg o eager ds cs cm st -> WaitOK st.
Proof.
  intros cfg o eager ds cs cm st Hg Hc [ls H].
  assert (HI : Single st /\ WaitOK st).
  { eapply invariant_run with (Inv := fun st => Single st /\ WaitOK st); [ | split; [apply Single_init | apply WaitOK_init; exact Hc] | exact H].
    intros s l s' [H1 H2] Hs. split; [eapply Single_step; eauto | eapply WaitOK_step; eauto]. }
  exact (proj2 HI).
Qed.

(* the sequence's own steps and the timer leave the commands alone *)
Lemma seq_label_cmds : forall cfg o g st l st', is_seq_label g l = true -> cstep cfg o st l = Some st' -> cmds st' = cmds st.
Proof.
  intros cfg o g st l st' Hl H. destruct l; try discriminate Hl; unfold cstep, seq_step, goto in H; head_destruct H; injection H as <-; cbn; split_ifs; reflexivity.
Qed.

Lemma seq_labels_cmds : forall cfg o g ls st st', forallb (is_seq_label g) ls = true -> run (cstep cfg o) st ls = Some st' -> cmds st' = cmds st.
Proof.
  induction ls as [|l ls IH]; simpl; intros st st' Hl H; [injection H as <-; reflexivity|].
  apply andb_true_iff in Hl. destruct Hl as [Hl1 Hl2]. destruct (cstep cfg o st l) as [st1|] eqn:E; [|discriminate].
  rewrite (IH _ _ Hl2 H). eapply seq_label_cmds; eauto.
Qed.

Lemma wake_enabled : forall cfg o st c x g, cfindc c (cmds st) = Some x -> cm_pc x = CWait g -> ffind g (finished st) <> None ->
  exists st'', cstep cfg o st (LWake c) = Some st''.
Proof.
  intros cfg o st c x g Hc Hp Hf. unfold cstep. rewrite Hc, Hp. destruct (ffind g (finished st)) as [e|]; [|contradiction].
  destruct e; destruct (cm_force x); eexists; reflexivity.
Qed.

Theorem conn_waiter_can_be_released : forall cfg o eager ds cs cm st c x g,
  cc_spawn_guarded cfg = true -> cmds_fresh cm = true -> reachable cfg o eager ds cs cm st ->
  cfindc c (cmds st) = Some x -> cm_pc x = CWait g ->
  exists ls st' st'', (length ls <= 14 * (budget st + 1) + 4)%nat /\
                 run (cstep cfg o) st ls = Some st' /\ cstep cfg o st' (LWake c) = Some st''.
Proof.
  intros cfg o eager ds cs cm st c x g Hg Hc Hr Hx Hp.
  pose proof (WaitOK_reachable _ _ _ _ _ _ _ Hg Hc Hr) as HW.
  destruct (HW x g (cfindc_In _ _ _ Hx) Hp) as [Hf|Hin].
  - destruct (wake_enabled cfg o st c x g Hx Hp Hf) as (st'' & Hs). exists [], st, st''. split; [simpl; lia|]. split; [reflexivity | exact Hs].
  - destruct (In_map_sfind _ _ Hin) as (s & Hs).
    destruct (conn_sequence_can_finish cfg o eager ds cs cm st g s Hg Hc Hr Hs) as (ls & st' & H1 & H2 & H3 & H4 & H5).
    assert (Hx' : cfindc c (cmds st') = Some x) by (rewrite (seq_labels_cmds _ _ _ _ _ _ H2 H3); exact Hx).
    destruct (wake_enabled cfg o st' c x g Hx' Hp H5) as (st'' & Hw). exists ls, st', st''. auto.
Qed.

(* ====================================================================== *)
(* 3. with nothing left to fail, the sequence succeeds                    *)
(* ====================================================================== *)
(* the recorded error stays nil until the sequence decides to finish *)
Definition ErrNoneL (l : list seqg) : Prop := forall s, In s l -> sq_pc s <> SFinishing -> sq_err s = ENone.
Definition ErrNone (st : cstate) : Prop := ErrNoneL (seqs st).

Lemma In_supdate_sfind : forall g f l s, In s (supdate g f l) -> In s l \/ exists y, sfind g l = Some y /\ s = f y.
Proof.
  induction l as [|a l IH]; simpl; intros s H; [contradiction|].
  destruct (sq_gen a =? g) eqn:E; simpl in H.
  - destruct H as [H|H]; [right; exists a; auto | auto].
  - destruct H as [H|H]; [auto|]. destruct (IH _ H) as [H1|(y & H1 & H2)]; [auto | right; exists y; auto].
Qed.

Lemma ErrNoneL_supdate : forall g f l, ErrNoneL l ->
  (forall y, sfind g l = Some y -> sq_pc (f y) <> SFinishing -> sq_err (f y) = ENone) -> ErrNoneL (supdate g f l).
Proof.
  intros g f l HI Hf s Hin Hp. destruct (In_supdate_sfind _ _ _ _ Hin) as [H|(y & H1 & ->)]; [apply HI; auto | apply Hf; auto].
Qed.

Lemma ErrNone_init : forall o eager ds cs cm, ErrNone (start_state o eager ds cs cm).
Proof. intros o eager ds cs cm; destruct eager; intros s Hin Hp; simpl in Hin; [destruct Hin as [<-|[]]; reflexivity | contradiction]. Qed.

Ltac en_leaf HI :=
  unfold ErrNone in *; cbn [seqs upd set_timer fire_timer];
  first [ exact HI
        | apply ErrNoneL_supdate; [exact HI|]; intros y Hy Hq;
          match goal with E : sfind _ _ = Some ?s |- _ => rewrite E in Hy; injection Hy as <- end;
          cbn in Hq |- *;
          first [ congruence
                | apply HI; [eapply sfind_In; eassumption | congruence] ] ].

Lemma ErrNone_step : forall cfg o st l st', ErrNone st -> cstep cfg o st l = Some st' -> ErrNone st'.
Proof.
  intros cfg o st l st' HI H. step_leaves H; norm_pc.
  all: try solve [split_ifs; en_leaf HI].
  - (* LBegin, new sequence *)
    unfold ErrNone in *; cbn. intros s Hin Hp. apply in_app_iff in Hin. destruct Hin as [Hin|[<-|[]]]; [apply HI; auto | reflexivity].
  - unfold ErrNone in *; cbn. intros s Hin Hp. apply in_app_iff in Hin. destruct Hin as [Hin|[<-|[]]]; [apply HI; auto | reflexivity].
  - (* LFinish *)
    unfold ErrNone in *; cbn. intros s0 Hin Hp. apply filter_In in Hin. apply HI; tauto.
  - (* LShutdown *)
    unfold ErrNone in *; cbn. destruct (registered st); [|exact HI].
    apply ErrNoneL_supdate; [exact HI|]. intros y Hy Hq. cbn in Hq |- *. apply HI; [eapply sfind_In; eauto | exact Hq].
Qed.

Lemma ErrNone_reachable : forall cfg o eager ds cs cm st, reachable cfg o eager ds cs cm st -> ErrNone st.
Proof.
  intros cfg o eager ds cs cm st [ls H]. eapply invariant_run with (Inv := ErrNone); [|apply ErrNone_init|exact H].
  intros; eapply ErrNone_step; eauto.
Qed.

Section Succeed.
  Variables (cfg : ccfg) (o : copts) (g : Z).

  Definition Win (st : cstate) (n : nat) : Prop :=
    exists ls st', (length ls <= n)%nat /\ forallb (is_seq_label g) ls = true /\
                   run (cstep cfg o) st ls = Some st' /\ ffind g (finished st') = Some ENone.

  Lemma Win_step : forall st l st1 n n', cstep cfg o st l = Some st1 -> is_seq_label g l = true ->
    Win st1 n -> (S n <= n')%nat -> Win st n'.
  Proof.
    intros st l st1 n n' Hs Hl (ls & st' & H1 & H2 & H3 & H4) Hn. exists (l :: ls), st'.
    split; [simpl; lia|]. split; [simpl; rewrite Hl, H2; reflexivity|]. split; [simpl; rewrite Hs; exact H3|]. auto.
  Qed.

  (* the sequence is live (not cancelled), has recorded no error, nothing scripted is left *)
  Definition Good (st : cstate) (p : spc) : Prop :=
    dials st = [] /\ conns st = [] /\
    exists s, sfind g (seqs st) = Some s /\ sq_cancelled s = false /\ sq_err s = ENone /\ sq_pc s = p.

  Ltac good_next Hd Hcs Hf Hc He :=
    split; [first [reflexivity | exact Hd | cbn; exact Hd] |
    split; [first [reflexivity | exact Hcs | cbn; exact Hcs] |
    eexists; split; [apply sfind_supdate; [reflexivity | exact Hf] | split; [cbn; exact Hc | split; [cbn; exact He | reflexivity]]]]].
  Ltac unfold_step Hf Hp := unfold cstep, seq_step, goto; rewrite Hf, Hp; cbn [andb].
  Ltac lbl := simpl; apply Z.eqb_refl.

  Lemma w_finishing : forall st, Good st SFinishing -> Win st 1.
  Proof.
    intros st (Hd & Hcs & s & Hf & Hc & He & Hp). exists [LFinish g]. eexists. split; [simpl; lia|]. split; [simpl; rewrite Z.eqb_refl; reflexivity|].
    split; [simpl; unfold seq_step; rewrite Hf, Hp; reflexivity|]. cbn [finished ffind]. rewrite Z.eqb_refl, He. reflexivity.
  Qed.

  Lemma w_check : forall st, Good st (SCheck ENone) -> Win st 2.
  Proof.
    intros st (Hd & Hcs & s & Hf & Hc & He & Hp).
    eapply (Win_step st (LCheck g)); [unfold_step Hf Hp; rewrite Hc; reflexivity | lbl | apply w_finishing; good_next Hd Hcs Hf Hc He | lia].
  Qed.

  Lemma w_connected : forall st x, Good st (SConnected x) -> Win st 3.
  Proof.
    intros st x (Hd & Hcs & s & Hf & Hc & He & Hp).
    eapply (Win_step st (LPublish g)); [unfold_step Hf Hp; reflexivity | lbl | apply w_check; good_next Hd Hcs Hf Hc He | lia].
  Qed.

  Lemma w_registered : forall st x, Good st (SRegistered x) -> Win st 4.
  Proof.
    intros st x (Hd & Hcs & s & Hf & Hc & He & Hp).
    eapply (Win_step st (LOnConnect g)); [unfold_step Hf Hp; rewrite Hcs; reflexivity | lbl | eapply w_connected; good_next Hd Hcs Hf Hc He | lia].
  Qed.

  Lemma w_dialed : forall st x, Good st (SDialed x) -> Win st 5.
  Proof.
    intros st x (Hd & Hcs & s & Hf & Hc & He & Hp). destruct (cc_register_before_onconnect cfg) eqn:Hreg.
    - eapply (Win_step st (LRegister g)); [unfold_step Hf Hp; rewrite Hreg; reflexivity | lbl | eapply w_registered; good_next Hd Hcs Hf Hc He | lia].
    - eapply (Win_step st (LRegister g)); [unfold_step Hf Hp; rewrite Hreg; reflexivity | lbl | eapply w_registered; good_next Hd Hcs Hf Hc He | lia].
  Qed.

  Lemma w_dialing : forall st, Good st SDialing -> Win st 6.
  Proof.
    intros st (Hd & Hcs & s & Hf & Hc & He & Hp).
    eapply (Win_step st (LDialEnd g)); [unfold_step Hf Hp; rewrite Hd; reflexivity | lbl | eapply w_dialed; good_next Hd Hcs Hf Hc He | lia].
  Qed.

  Lemma w_attempt : forall st, Good st SAttempt -> Win st 7.
  Proof.
    intros st (Hd & Hcs & s & Hf & Hc & He & Hp).
    eapply (Win_step st (LDialBegin g)); [unfold_step Hf Hp; reflexivity | lbl | apply w_dialing; good_next Hd Hcs Hf Hc He | lia].
  Qed.

  Lemma w_retrystart : forall st, Good st SRetryStart -> Win st 8.
  Proof.
    intros st (Hd & Hcs & s & Hf & Hc & He & Hp).
    eapply (Win_step st (LRetryStart g)); [unfold_step Hf Hp; rewrite Hc; reflexivity | lbl | apply w_attempt; good_next Hd Hcs Hf Hc He | lia].
  Qed.

  Lemma w_delaywait_idle : forall st, Good st SDelayWait -> timer_running st = false -> Win st 9.
  Proof.
    intros st (Hd & Hcs & s & Hf & Hc & He & Hp) Ht.
    eapply (Win_step st (LDelayDone g)); [unfold_step Hf Hp; rewrite Ht; reflexivity | lbl | apply w_retrystart; good_next Hd Hcs Hf Hc He | lia].
  Qed.

  Lemma w_delaywait : forall st, Good st SDelayWait -> Win st 10.
  Proof.
    intros st Hgd. destruct (timer_running st) eqn:Ht.
    - eapply (Win_step st LTimerElapse); [unfold cstep; rewrite Ht; reflexivity | reflexivity | apply w_delaywait_idle; [exact Hgd | reflexivity] | lia].
    - destruct (w_delaywait_idle st Hgd Ht) as (ls & st' & H1 & H2). exists ls, st'. split; [lia | exact H2].
  Qed.

  Lemma w_delaystart : forall st, Good st SDelayStart -> Win st 11.
  Proof.
    intros st (Hd & Hcs & s & Hf & Hc & He & Hp).
    eapply (Win_step st (LTimerStart g)); [unfold_step Hf Hp; reflexivity | lbl | apply w_delaywait | lia].
    destruct (firenow_pending st); good_next Hd Hcs Hf Hc He.
  Qed.

  Lemma w_announce : forall st, Good st SAnnounce -> Win st 12.
  Proof.
    intros st (Hd & Hcs & s & Hf & Hc & He & Hp). destruct (wants_delay o (sq_status s)) eqn:Hw.
    - eapply (Win_step st (LAnnounce g)); [unfold_step Hf Hp; rewrite Hw; reflexivity | lbl | apply w_delaystart; good_next Hd Hcs Hf Hc He | lia].
    - eapply (Win_step st (LAnnounce g)); [unfold_step Hf Hp; rewrite Hw; reflexivity | lbl | apply w_retrystart; good_next Hd Hcs Hf Hc He | lia].
  Qed.

  Lemma Win_weaken : forall st n n', Win st n -> (n <= n')%nat -> Win st n'.
  Proof. intros st n n' (ls & st' & H1 & H2) Hn. exists ls, st'. split; [lia | exact H2]. Qed.

  Lemma w_any : forall st s, dials st = [] -> conns st = [] -> sfind g (seqs st) = Some s -> sq_cancelled s = false -> sq_err s = ENone ->
    (match sq_pc s with SCheck e => e = ENone | SNotify _ | SBackoff | SFinishing => False | _ => True end) -> Win st 12.
  Proof.
    intros st s Hd Hcs Hf Hc He Hpc. assert (Hgd : Good st (sq_pc s)) by (split; [exact Hd | split; [exact Hcs | exists s; auto]]).
    destruct (sq_pc s) eqn:Hp; try contradiction.
    - apply w_announce; exact Hgd.
    - eapply Win_weaken; [apply w_delaystart; exact Hgd | lia].
    - eapply Win_weaken; [apply w_delaywait; exact Hgd | lia].
    - eapply Win_weaken; [apply w_retrystart; exact Hgd | lia].
    - eapply Win_weaken; [apply w_attempt; exact Hgd | lia].
    - eapply Win_weaken; [apply w_dialing; exact Hgd | lia].
    - eapply Win_weaken; [eapply w_dialed; exact Hgd | lia].
    - eapply Win_weaken; [eapply w_registered; exact Hgd | lia].
    - eapply Win_weaken; [eapply w_connected; exact Hgd | lia].
    - subst e. eapply Win_weaken; [apply w_check; exact Hgd | lia].
  Qed.
End Succeed.

(* cc_spawn_guarded and cmds_fresh are not needed; the bound actually proved is 12 *)
Theorem conn_sequence_succeeds_when_nothing_fails : forall cfg o eager ds cs cm st g s,
  cc_spawn_guarded cfg = true -> cmds_fresh cm = true -> reachable cfg o eager ds cs cm st ->
  sfind g (seqs st) = Some s -> sq_cancelled s = false -> dials st = [] -> conns st = [] ->
  (match sq_pc s with SCheck e => e = ENone | SNotify _ | SBackoff | SFinishing => False | _ => True end) ->
  exists ls st', (length ls <= 18)%nat /\ forallb (is_seq_label g) ls = true /\
                 run (cstep cfg o) st ls = Some st' /\ ffind g (finished st') = Some ENone.
Proof.
  intros cfg o eager ds cs cm st g s _ _ Hr Hf Hc Hd Hcs Hpc.
  assert (He : sq_err s = ENone).
  { apply (ErrNone_reachable _ _ _ _ _ _ _ Hr); [eapply sfind_In; eauto|]. intro Hq. rewrite Hq in Hpc. exact Hpc. }
  eapply Win_weaken; [eapply w_any; eauto | lia].
Qed.

(* non-vacuity / the shape of the bound: with a connect delay and one scripted OnConnect failure (budget 1) the deterministic
   schedule of the sequence alone has 7 * 1 + 12 = 19 labels: 5 to get to the first attempt, 7 for the failed attempt, 7 for the
   successful one including LFinish *)
Example conn_sequence_schedule_19 :
  let cfg := mkCcfg true true true true true true true true in
  let o := mkCopts false true false in
  let st := start_state o true [] [OFail] [] in
  let ls := [LAnnounce 0; LTimerStart 0; LTimerElapse; LDelayDone 0; LRetryStart 0;
             LDialBegin 0; LDialEnd 0; LRegister 0; LOnConnect 0; LCheck 0; LNotify 0; LBackoffEnd 0;
             LDialBegin 0; LDialEnd 0; LRegister 0; LOnConnect 0; LPublish 0; LCheck 0; LFinish 0] in
  budget st = 1%nat /\ length ls = 19%nat /\ forallb (is_seq_label 0) ls = true /\
  match run (cstep cfg o) st ls with Some st' => ffind 0 (finished st') = Some ENone /\ seqs st' = [] | None => False end.
Proof. vm_compute. repeat split; reflexivity. Qed.

Print Assumptions conn_sequence_can_finish_tight.
Print Assumptions conn_sequence_can_finish.
Print Assumptions conn_waiter_can_be_released.
Print Assumptions conn_sequence_succeeds_when_nothing_fails.
