(* The tie between the regenerated source facts and the skeleton the theorems are proved for. *)
From FMP Require Import Model.GenTypes Model.Generated Model.Skeleton.

(* fails (as one named lemma) whenever a select arm, a call order or a key expression the models rely on has moved *)
Lemma generated_ok : skeleton_now = expected_skeleton.
Proof. vm_compute. reflexivity. Qed.

Lemma no_missing_facts : missing_facts = [].
Proof. vm_compute. reflexivity. Qed.
