(* Facts about every path through function bodies regenerated from the source (Model/Paths.v) that C07 relies on, by
   computation over the finitely many paths.  One file per property, so that a source change breaks only the theorems of the
   property it concerns. *)
From FMP Require Import Model.Paths.
Theorem paths_dispatch_notfound : dispatch_paths_notfound = true. Proof. vm_compute. reflexivity. Qed.
Theorem paths_response_unknown_ignored : response_paths_unknown_ignored = true. Proof. vm_compute. reflexivity. Qed.
Theorem paths_receive_loop_close : receive_loop_paths_close = true. Proof. vm_compute. reflexivity. Qed.
Print Assumptions paths_dispatch_notfound.
