(* Invariants of the reply-path transition system (Model/Dispatch.v). *)
From Coq Require Import ZifyBool Lia.
From FMP Require Import Base.Bytes Base.Lts Model.Events Model.Skeleton Model.Props Model.Dispatch.
Open Scope Z_scope.

(* ------------------------------------------------------------------------------------------------------------- *)
(* Basic facts about the call list                                                                                 *)
(* ------------------------------------------------------------------------------------------------------------- *)

Lemma dfind_some : forall c l x, dfind c l = Some x -> In x l /\ dc_nonce x = c.
Proof.
  induction l as [|a l IH]; simpl; intros x H; [discriminate|].
  destruct (dc_nonce a =? c) eqn:E.
  - inversion H; subst. split; [left; reflexivity | lia].
  - destruct (IH _ H); auto.
Qed.

Lemma in_dfind_not_none : forall l x, In x l -> dfind (dc_nonce x) l <> None.
Proof.
  induction l as [|a l IH]; simpl; intros x H; [tauto|].
  destruct (dc_nonce a =? dc_nonce x) eqn:E; [discriminate|].
  destruct H as [->|H]; [lia | auto].
Qed.

Lemma nonces_not_in : forall l k,
    existsb (fun y => dc_nonce y =? k) l = false -> forall y, In y l -> dc_nonce y <> k.
Proof.
  intros l k H y Hy Heq.
  assert (X : existsb (fun y => dc_nonce y =? k) l = true).
  { apply existsb_exists. exists y. split; [exact Hy | lia]. }
  congruence.
Qed.

Lemma dnonces_uniq : forall l x y,
    dnonces_ok l = true -> In x l -> In y l -> dc_nonce x = dc_nonce y -> x = y.
Proof.
  induction l as [|a l IH]; simpl; intros x y H Hx Hy E; [tauto|].
  apply andb_true_iff in H. destruct H as [H1 H2]. apply negb_true_iff in H1.
  destruct Hx as [Hx|Hx], Hy as [Hy|Hy]; subst.
  - reflexivity.
  - exfalso. eapply nonces_not_in; eauto.
  - exfalso. eapply nonces_not_in; eauto.
  - eauto.
Qed.

Lemma in_dfind : forall l x, dnonces_ok l = true -> In x l -> dfind (dc_nonce x) l = Some x.
Proof.
  intros l x Hn Hx. destruct (dfind (dc_nonce x) l) as [y|] eqn:E.
  - apply dfind_some in E. destruct E as [Hy En]. f_equal. eapply dnonces_uniq; eauto.
  - exfalso. eapply in_dfind_not_none; eauto.
Qed.

Lemma in_dupdate : forall l c f y,
    dnonces_ok l = true -> In y (dupdate c f l) ->
    (In y l /\ dc_nonce y <> c) \/ (exists x, dfind c l = Some x /\ y = f x).
Proof.
  induction l as [|a l IH]; simpl; intros c f y H Hy; [tauto|].
  apply andb_true_iff in H. destruct H as [H1 H2]. apply negb_true_iff in H1.
  destruct (dc_nonce a =? c) eqn:E.
  - destruct Hy as [Hy|Hy].
    + right. exists a. auto.
    + left. split; [auto|]. assert (dc_nonce y <> dc_nonce a) by (eapply nonces_not_in; eauto). lia.
  - destruct Hy as [Hy|Hy].
    + subst. left. split; [auto | lia].
    + destruct (IH _ _ _ H2 Hy) as [[A B]|A]; auto.
Qed.

Lemma existsb_dupdate : forall l c f k,
    (forall x, dc_nonce (f x) = dc_nonce x) ->
    existsb (fun y => dc_nonce y =? k) (dupdate c f l) = existsb (fun y => dc_nonce y =? k) l.
Proof.
  induction l as [|a l IH]; simpl; intros c f k Hf; [reflexivity|].
  destruct (dc_nonce a =? c); simpl.
  - rewrite Hf. reflexivity.
  - rewrite IH by exact Hf. reflexivity.
Qed.

Lemma dnonces_dupdate : forall l c f,
    (forall x, dc_nonce (f x) = dc_nonce x) -> dnonces_ok (dupdate c f l) = dnonces_ok l.
Proof.
  induction l as [|a l IH]; simpl; intros c f Hf; [reflexivity|].
  destruct (dc_nonce a =? c); simpl.
  - rewrite Hf. reflexivity.
  - rewrite existsb_dupdate by exact Hf. rewrite IH by exact Hf. reflexivity.
Qed.

Lemma dfind_dupdate : forall l c c' f,
    (forall x, dc_nonce (f x) = dc_nonce x) ->
    dfind c' (dupdate c f l) = if c' =? c then option_map f (dfind c l) else dfind c' l.
Proof.
  induction l as [|a l IH]; simpl; intros c c' f Hf.
  - destruct (c' =? c); reflexivity.
  - destruct (dc_nonce a =? c) eqn:E; simpl.
    + rewrite Hf. destruct (c' =? c) eqn:E2.
      * replace (dc_nonce a =? c') with true by lia. reflexivity.
      * replace (dc_nonce a =? c') with false by lia. reflexivity.
    + destruct (dc_nonce a =? c') eqn:E3.
      * replace (c' =? c) with false by lia. reflexivity.
      * apply IH. exact Hf.
Qed.

Lemma zmem_zremove : forall l c c', zmem c' (zremove c l) = zmem c' l && negb (c' =? c).
Proof.
  induction l as [|a l IH]; simpl; intros c c'; [reflexivity|].
  destruct (a =? c) eqn:E; simpl.
  - rewrite IH. destruct (c' =? a) eqn:E2; simpl; [|reflexivity].
    replace (c' =? c) with true by lia. simpl. rewrite andb_false_r. reflexivity.
  - rewrite IH. destruct (c' =? a) eqn:E2; simpl; [|reflexivity].
    replace (c' =? c) with false by lia. reflexivity.
Qed.

Lemma lookup_seq_some : forall tbl q l x,
    lookup_seq tbl q l = Some x -> In x l /\ zmem (dc_nonce x) tbl = true /\ dc_seq x = q.
Proof.
  induction l as [|a l IH]; simpl; intros x H; [discriminate|].
  destruct (zmem (dc_nonce a) tbl && (dc_seq a =? q)) eqn:E.
  - inversion H; subst. apply andb_true_iff in E. destruct E as [E1 E2]. repeat split; auto. lia.
  - destruct (IH _ H) as [A B]. auto.
Qed.

Lemma forallb_rev : forall (A : Type) (f : A -> bool) (l : list A), forallb f (rev l) = forallb f l.
Proof.
  induction l as [|a l IH]; simpl; [reflexivity|].
  rewrite forallb_app, IH. simpl. rewrite andb_true_r. apply andb_comm.
Qed.

Lemma dfresh_init : forall cs, dfresh_ok cs = true ->
    dnonces_ok cs = true /\
    forall x, In x cs -> dc_pc x = DNew /\ dc_ctx x = false /\ dc_chan x = None /\ dc_buf x = -1.
Proof.
  intros cs H. unfold dfresh_ok in H. apply andb_true_iff in H. destruct H as [H1 H2].
  split; [exact H1|]. intros x Hx. rewrite forallb_forall in H2. specialize (H2 x Hx).
  destruct (dc_pc x); try discriminate. destruct (dc_ctx x); try discriminate.
  destruct (dc_chan x); try discriminate. simpl in H2. repeat split; auto. lia.
Qed.

(* ------------------------------------------------------------------------------------------------------------- *)
(* Counterexamples (checked by computation)                                                                      *)
(* ------------------------------------------------------------------------------------------------------------- *)

Definition old_dispatch_skeleton : skeleton :=
  mkSk true true true  true true true  true true
       true true true  true true true  true true true
       true true true true
       true true
       true true true true
       true true true false
       true true
       true.

Definition returns_under_decode (st : dstate) (l : dlabel) : bool :=
  match l with
  | DCancelRet c | DStopRet c =>
      match dq st with QLooked d _ | QErrDone d _ => d =? c | _ => false end
  | _ => false
  end.
Fixpoint schedule_avoids (sk : skeleton) (st : dstate) (ls : list dlabel) : bool :=
  match ls with
  | [] => true
  | l :: r => negb (returns_under_decode st l) &&
              match dstep sk st l with Some st' => schedule_avoids sk st' r | None => true end
  end.


(* ------------------------------------------------------------------------------------------------------------- *)
(* The main invariant                                                                                            *)
(* ------------------------------------------------------------------------------------------------------------- *)

Definition Fed (st : dstate) (q r : Z) : Prop := In (AFeed (mkFI KResp q r true) true) (dhist st).
Definition written (st : dstate) (x : dcall) : Prop := Fed st (dc_seq x) (dc_buf x).

Record Inv (st : dstate) : Prop := mkInv {
  i_non : dnonces_ok (dcalls st) = true;
  i_lt : forall x, In x (dcalls st) -> dc_pc x <> DNew -> dc_seq x < d_next_seq st;
  i_seq : forall x y, In x (dcalls st) -> In y (dcalls st) -> dc_pc x <> DNew -> dc_pc y <> DNew ->
                      dc_seq x = dc_seq y -> dc_nonce x = dc_nonce y;
  i_new : forall x, In x (dcalls st) -> dc_pc x = DNew -> dc_buf x = -1 /\ dc_chan x = None;
  i_tbl : forall x, In x (dcalls st) -> zmem (dc_nonce x) (d_table st) = true -> dc_pc x <> DNew;
  i_buf : forall x, In x (dcalls st) -> dc_buf x <> -1 -> written st x;
  i_chan : forall x, In x (dcalls st) -> dc_chan x <> None -> written st x;
  i_got : forall x r, In x (dcalls st) -> dc_pc x = DGot r -> written st x;
  i_qres : forall c r x, dq st = QResDone c r -> In x (dcalls st) -> dc_nonce x = c ->
                         dc_pc x <> DNew /\ written st x;
  i_qlook : forall c r x, (dq st = QLooked c r \/ dq st = QErrDone c r) -> In x (dcalls st) -> dc_nonce x = c ->
                          dc_pc x <> DNew /\ Fed st (dc_seq x) r
}.

Ltac dm H := match type of H with context [match ?e with _ => _ end] => destruct e eqn:? end.
Ltac step_cases H l :=
  unfold dstep in H; destruct l; repeat (dm H); try discriminate H; injection H as <-;
  unfold dset, dret in *; simpl in *.

Ltac same_find :=
  repeat match goal with
  | A : dfind ?c ?l = Some ?x, B : dfind ?c ?l = Some ?y |- _ => rewrite A in B; injection B as <-
  end.

Ltac upd Hi :=
  repeat match goal with
  | Hy : In ?y (dupdate ?c ?f ?l) |- _ =>
      apply (in_dupdate l c f y (i_non _ Hi)) in Hy;
      destruct Hy as [[Hy ?] | [? [? ->]]]
  end; same_find; simpl in *.

Ltac found :=
  repeat match goal with
  | A : dfind ?c ?l = Some ?x |- _ =>
      lazymatch goal with
      | _ : In x l |- _ => fail
      | _ => destruct (dfind_some _ _ _ A)
      end
  end.

Lemma inv_init : forall cs, dfresh_ok cs = true -> Inv (dinit cs).
Proof.
  intros cs H. destruct (dfresh_init _ H) as [Hn Hf].
  constructor; simpl; auto; intros.
  - destruct (Hf _ H0) as [A _]. congruence.
  - destruct (Hf _ H0) as [A _]. congruence.
  - destruct (Hf _ H0) as [A [B [C D]]]. auto.
  - discriminate.
  - destruct (Hf _ H0) as [A [B [C D]]]. congruence.
  - destruct (Hf _ H0) as [A [B [C D]]]. congruence.
  - destruct (Hf _ H0) as [A [B [C D]]]. congruence.
  - discriminate.
  - destruct H0; discriminate.
Qed.

Lemma inv_step_non : forall sk st l st', Inv st -> dstep sk st l = Some st' -> dnonces_ok (dcalls st') = true.
Proof.
  intros sk st l st' Hi H. pose proof (i_non _ Hi) as Hn.
  step_cases H l; auto; rewrite dnonces_dupdate; auto.
Qed.


Ltac notnew := match goal with |- dc_pc ?d <> DNew => congruence end.

Lemma inv_step_lt : forall sk st l st', Inv st -> dstep sk st l = Some st' ->
  forall x, In x (dcalls st') -> dc_pc x <> DNew -> dc_seq x < d_next_seq st'.
Proof.
  intros sk st l st' Hi H.
  step_cases H l; intros y Hy Hp; upd Hi; found.
  all: try (pose proof (i_lt _ Hi _ Hy Hp); lia).
  all: try lia.
  all: match goal with H : In ?d (dcalls ?st) |- dc_seq ?d < _ =>
         assert (X : dc_pc d <> DNew) by congruence; pose proof (i_lt _ Hi d H X); lia end.
Qed.

Lemma inv_step_seq : forall sk st l st', Inv st -> dstep sk st l = Some st' ->
  forall x y, In x (dcalls st') -> In y (dcalls st') -> dc_pc x <> DNew -> dc_pc y <> DNew ->
              dc_seq x = dc_seq y -> dc_nonce x = dc_nonce y.
Proof.
  intros sk st l st' Hi H.
  step_cases H l; intros x1 x2 H1 H2 P1 P2 E; upd Hi; found.
  all: try (eapply (i_seq _ Hi); eauto; congruence).
  all: try congruence.
  - pose proof (i_lt _ Hi x2 H2 P2). lia.
  - pose proof (i_lt _ Hi x1 H1 P1). lia.
Qed.

Lemma inv_step_new : forall sk st l st', Inv st -> dstep sk st l = Some st' ->
  forall x, In x (dcalls st') -> dc_pc x = DNew -> dc_buf x = -1 /\ dc_chan x = None.
Proof.
  intros sk st l st' Hi H.
  step_cases H l; intros y Hy Hp; upd Hi; found.
  all: try (apply (i_new _ Hi); auto; congruence).
  all: try congruence.
  - destruct (i_qlook _ Hi c r d (or_intror Heqq) H H0). congruence.
  - destruct (i_qres _ Hi c r d Heqq H H0). congruence.
Qed.

Lemma inv_step_tbl : forall sk st l st', Inv st -> dstep sk st l = Some st' ->
  forall x, In x (dcalls st') -> zmem (dc_nonce x) (d_table st') = true -> dc_pc x <> DNew.
Proof.
  intros sk st l st' Hi H.
  step_cases H l; intros y Hy Hp; upd Hi; found.
  all: try (apply (i_tbl _ Hi); auto; congruence).
  all: try congruence.
  - apply (i_tbl _ Hi); auto. apply orb_true_iff in Hp. destruct Hp; [lia | auto].
  - apply (i_tbl _ Hi); auto. destruct (sk_removecall_deferred sk); auto.
    rewrite zmem_zremove in Hp. apply andb_true_iff in Hp. tauto.
  - apply (i_tbl _ Hi); auto. destruct (sk_removecall_deferred sk); auto.
    rewrite zmem_zremove in Hp. apply andb_true_iff in Hp. tauto.
  - apply (i_tbl _ Hi); auto. destruct (sk_removecall_deferred sk); auto.
    rewrite zmem_zremove in Hp. apply andb_true_iff in Hp. tauto.
  - apply (i_tbl _ Hi); auto. destruct (sk_removecall_deferred sk); auto.
    rewrite zmem_zremove in Hp. apply andb_true_iff in Hp. tauto.
  - apply (i_tbl _ Hi); auto. destruct (sk_removecall_deferred sk); auto.
    rewrite zmem_zremove in Hp. apply andb_true_iff in Hp. tauto.
Qed.

Ltac mono := unfold written, Fed in *; simpl in *; auto with datatypes.

Lemma inv_step_buf : forall sk st l st', Inv st -> dstep sk st l = Some st' ->
  forall x, In x (dcalls st') -> dc_buf x <> -1 -> written st' x.
Proof.
  intros sk st l st' Hi H.
  step_cases H l; intros y Hy Hp; upd Hi; found.
  all: try (pose proof (i_buf _ Hi _ Hy Hp); mono; fail).
  all: try match goal with A : In ?d (dcalls _), B : dc_buf ?d <> -1 |- _ => pose proof (i_buf _ Hi _ A B); mono; fail end.
  - destruct (i_new _ Hi _ H Heqd0). congruence.
  - destruct (i_qlook _ Hi c r d (or_intror Heqq) H H0). mono.
  - destruct (i_qlook _ Hi c r d (or_intror Heqq) H H0). mono.
  - destruct (i_qlook _ Hi c r d (or_intror Heqq) H H0). mono.
  - destruct (i_qlook _ Hi c r d (or_intror Heqq) H H0). mono.
  - destruct (i_qlook _ Hi c r d (or_intror Heqq) H H0). mono.
Qed.

Lemma inv_step_chan : forall sk st l st', Inv st -> dstep sk st l = Some st' ->
  forall x, In x (dcalls st') -> dc_chan x <> None -> written st' x.
Proof.
  intros sk st l st' Hi H.
  step_cases H l; intros y Hy Hp; upd Hi; found.
  all: try (pose proof (i_chan _ Hi _ Hy Hp); mono; fail).
  all: try match goal with A : In ?d (dcalls _), B : dc_chan ?d <> None |- _ => pose proof (i_chan _ Hi _ A B); mono; fail end.
  all: try congruence.
  - destruct (i_new _ Hi _ H Heqd0). congruence.
  - destruct (i_qlook _ Hi c r d (or_intror Heqq) H H0). mono.
  - destruct (i_qlook _ Hi c r d (or_intror Heqq) H H0). mono.
  - destruct (i_qlook _ Hi c r d (or_intror Heqq) H H0). mono.
  - destruct (i_qlook _ Hi c r d (or_intror Heqq) H H0). mono.
  - destruct (i_qlook _ Hi c r d (or_intror Heqq) H H0). mono.
  - destruct (i_qres _ Hi c r d Heqq H H0). mono.
Qed.

Lemma inv_step_got : forall sk st l st', Inv st -> dstep sk st l = Some st' ->
  forall x r, In x (dcalls st') -> dc_pc x = DGot r -> written st' x.
Proof.
  intros sk st l st' Hi H.
  step_cases H l; intros y rg Hy Hp; upd Hi; found.
  all: try (pose proof (i_got _ Hi _ _ Hy Hp); mono; fail).
  all: try match goal with A : In ?d (dcalls _), B : dc_pc ?d = DGot _ |- _ => pose proof (i_got _ Hi _ _ A B); mono; fail end.
  all: try congruence.
  - destruct (i_qlook _ Hi c r d (or_intror Heqq) H H0). mono.
  - assert (X : dc_chan d <> None) by congruence. pose proof (i_chan _ Hi _ H X). mono.
Qed.

Lemma inv_step_qres : forall sk st l st', Inv st -> dstep sk st l = Some st' ->
  forall c r x, dq st' = QResDone c r -> In x (dcalls st') -> dc_nonce x = c -> dc_pc x <> DNew /\ written st' x.
Proof.
  intros sk st l st' Hi H.
  step_cases H l; intros cq rq y Hq Hy Hc; upd Hi; found.
  all: try discriminate.
  all: try (destruct (i_qres _ Hi _ _ _ Hq Hy Hc); split; [auto | mono]; fail).
  all: try match goal with A : In ?d (dcalls _) |- _ => destruct (i_qres _ Hi _ _ d Hq A ltac:(congruence)); split; [auto; congruence | mono]; fail end.
  1: destruct (i_qres _ Hi _ _ _ Hq H Hc). congruence.
  all: injection Hq as -> ->; try congruence.
  all: destruct (i_qlook _ Hi _ _ d (or_intror Heqq) H H0); split; [auto | mono].
Qed.

Lemma inv_step_qlook : forall sk st l st', Inv st -> dstep sk st l = Some st' ->
  forall c r x, (dq st' = QLooked c r \/ dq st' = QErrDone c r) -> In x (dcalls st') -> dc_nonce x = c ->
                dc_pc x <> DNew /\ Fed st' (dc_seq x) r.
Proof.
  intros sk st l st' Hi H.
  step_cases H l; intros cq rq y Hq Hy Hc; upd Hi; found.
  all: try (destruct Hq; discriminate).
  all: try (destruct (i_qlook _ Hi _ _ _ Hq Hy Hc); split; [auto | mono]; fail).
  all: try match goal with A : In ?d (dcalls _) |- _ => destruct (i_qlook _ Hi _ _ d Hq A ltac:(congruence)); split; [auto; congruence | mono]; fail end.
  - destruct (i_qlook _ Hi _ _ _ Hq H Hc). congruence.
  - destruct Hq as [Hq|Hq]; [|discriminate]. injection Hq as <- <-.
    destruct (lookup_seq_some _ _ _ _ Heqo) as [A [B C]].
    assert (y = d) by (eapply dnonces_uniq; eauto; apply (i_non _ Hi)). subst y.
    split; [apply (i_tbl _ Hi); auto | subst q; mono].
  - destruct Hq as [Hq|Hq]; [discriminate|]. injection Hq as <- <-.
    destruct (i_qlook _ Hi _ _ y (or_introl Heqq) Hy Hc); split; [auto | mono].
Qed.

Lemma inv_step : forall sk st l st', Inv st -> dstep sk st l = Some st' -> Inv st'.
Proof.
  intros sk st l st' Hi H. constructor.
  - eapply inv_step_non; eauto.
  - eapply inv_step_lt; eauto.
  - eapply inv_step_seq; eauto.
  - eapply inv_step_new; eauto.
  - eapply inv_step_tbl; eauto.
  - eapply inv_step_buf; eauto.
  - eapply inv_step_chan; eauto.
  - eapply inv_step_got; eauto.
  - eapply inv_step_qres; eauto.
  - eapply inv_step_qlook; eauto.
Qed.

Lemma inv_run : forall sk cs ls st, dfresh_ok cs = true -> run (dstep sk) (dinit cs) ls = Some st -> Inv st.
Proof.
  intros sk cs ls st Hf Hr.
  eapply (invariant_run _ _ (dstep sk) Inv); [ | apply inv_init; exact Hf | exact Hr].
  intros s l s' A B. eapply inv_step; eauto.
Qed.

Theorem disp_seqnos_distinct : forall sk cs ls st x y,
    dfresh_ok cs = true -> run (dstep sk) (dinit cs) ls = Some st ->
    In x (dcalls st) -> In y (dcalls st) -> dc_pc x <> DNew -> dc_pc y <> DNew -> dc_seq x = dc_seq y -> dc_nonce x = dc_nonce y.
Proof.
  intros sk cs ls st x y Hf Hr. apply (i_seq _ (inv_run _ _ _ _ Hf Hr)).
Qed.

Theorem disp_buffer_written_by_own_reply : forall sk cs ls st x,
    dfresh_ok cs = true -> run (dstep sk) (dinit cs) ls = Some st -> In x (dcalls st) -> dc_buf x <> -1 ->
    In (AFeed (mkFI KResp (dc_seq x) (dc_buf x) true) true) (dtrace st).
Proof.
  intros sk cs ls st x Hf Hr Hx Hb. unfold dtrace. rewrite <- in_rev.
  apply (i_buf _ (inv_run _ _ _ _ Hf Hr) _ Hx Hb).
Qed.



(* ------------------------------------------------------------------------------------------------------------- *)
(* C01: the crosstalk monitor accepts every trace                                                                *)
(* ------------------------------------------------------------------------------------------------------------- *)

Definition fedp (xs : xstate) (q r : Z) : Prop :=
  existsb (fun p : Z * Z => (fst p =? q) && (snd p =? r)) (x_fed xs) = true.

Definition MonInv (st : dstate) : Prop :=
  exists xs, run crosstalk_step (mkX [] []) (rev (dhist st)) = Some xs /\
    (forall x, In x (dcalls st) -> (dc_pc x = DSent \/ exists r, dc_pc x = DGot r) ->
               assocz (dc_nonce x) (x_seq_of xs) = Some (dc_seq x)) /\
    (forall q r, Fed st q r -> fedp xs q r).

Lemma mon_init : forall cs, dfresh_ok cs = true -> MonInv (dinit cs).
Proof.
  intros cs H. destruct (dfresh_init _ H) as [Hn Hf].
  exists (mkX [] []). simpl. split; [reflexivity|]. split.
  - intros x Hx [A|[r A]]; destruct (Hf _ Hx) as [B _]; congruence.
  - intros q r A. destruct A.
Qed.

Lemma mon_step : forall sk st l st', Inv st -> MonInv st -> dstep sk st l = Some st' -> MonInv st'.
Proof.
  intros sk st l st' Hi [xs [Hr [Hs Hf]]] H. unfold MonInv.
  step_cases H l; rewrite ?run_app, Hr; simpl.
  all: try match goal with
       | A : dfind ?c _ = Some ?d, B : dc_pc ?d = DGot _ |- context [assocz ?c (x_seq_of _)] =>
           let X := fresh in let Y := fresh in
           destruct (dfind_some _ _ _ A) as [X Y];
           pose proof (Hs d X (or_intror (ex_intro _ _ B))) as Z1; rewrite Y in Z1; rewrite Z1;
           pose proof (Hf _ _ (i_got _ Hi _ _ X B)) as Z2; unfold fedp in Z2; rewrite Z2
       end.
  all: try (eexists; split; [reflexivity|]; split;
            [ intros y Hy Hp; upd Hi; found | intros qq rr HF; unfold Fed in HF; simpl in HF ]).
  all: try (apply Hs; auto; fail).
  all: try (apply Hf; auto; fail).
  all: try (destruct Hp as [Hp|[? Hp]]; congruence).
  all: try (destruct HF as [HF|HF]; [discriminate | apply Hf; auto]; fail).
  all: try (destruct HF as [HF|[HF|HF]]; [discriminate | discriminate | apply Hf; auto]; fail).
  - replace (dc_nonce y =? dc_nonce d) with false by lia. apply Hs; auto.
  - rewrite Z.eqb_refl. reflexivity.
  - unfold fedp. simpl. destruct HF as [HF|HF].
    + injection HF as -> ->. rewrite !Z.eqb_refl. reflexivity.
    + apply Hf in HF. unfold fedp in HF. rewrite HF. apply orb_true_r.
  - unfold fedp. simpl. destruct HF as [HF|HF].
    + injection HF as -> ->. rewrite !Z.eqb_refl. reflexivity.
    + apply Hf in HF. unfold fedp in HF. rewrite HF. apply orb_true_r.
Qed.

Theorem disp_no_crosstalk : forall sk cs ls st,
    dfresh_ok cs = true -> run (dstep sk) (dinit cs) ls = Some st -> c01_no_crosstalk (dtrace st) = true.
Proof.
  intros sk cs ls st Hf Hr.
  assert (X : Inv st /\ MonInv st).
  { eapply (invariant_run _ _ (dstep sk) (fun s => Inv s /\ MonInv s)); [ | | exact Hr].
    - intros s l s' [A B] C. split; [eapply inv_step; eauto | eapply mon_step; eauto].
    - split; [apply inv_init; exact Hf | apply mon_init; exact Hf]. }
  destruct X as [_ [xs [A _]]]. unfold c01_no_crosstalk, accepts, dtrace. rewrite A. reflexivity.
Qed.

(* ------------------------------------------------------------------------------------------------------------- *)
(* C11: with the deferred RemoveCall the table holds exactly the outstanding calls                               *)
(* ------------------------------------------------------------------------------------------------------------- *)

Definition TInv (st : dstate) : Prop :=
  forall c, zmem c (d_table st) = match dfind c (dcalls st) with Some x => is_outstanding x | None => false end.

Lemma tinv_init : forall cs, dfresh_ok cs = true -> TInv (dinit cs).
Proof.
  intros cs H c. destruct (dfresh_init _ H) as [Hn Hf]. simpl.
  destruct (dfind c cs) as [x|] eqn:E; [|reflexivity].
  apply dfind_some in E. destruct E as [A _]. destruct (Hf _ A) as [B _].
  unfold is_outstanding. rewrite B. reflexivity.
Qed.

Ltac nonce_pres := let x := fresh in intro x; reflexivity.

Lemma tinv_step : forall sk st l st',
    sk_removecall_deferred sk = true -> TInv st -> dstep sk st l = Some st' -> TInv st'.
Proof.
  intros sk st l st' Hsk Ht H c'. pose proof (Ht c') as Hc.
  step_cases H l; try rewrite Hsk; try rewrite zmem_zremove; simpl;
    try (rewrite dfind_dupdate by nonce_pres); auto.
  all: destruct (c' =? c) eqn:E; simpl; auto.
  all: try (assert (c' = c) by lia; subst c').
  all: try match goal with A : dfind ?c ?l = Some ?d |- _ => rewrite A in *; simpl in * end.
  all: unfold is_outstanding in *; simpl in *.
  all: try match goal with A : dc_pc ?d = _ |- _ => rewrite A in *; simpl in * end.
  all: try rewrite andb_true_r; try rewrite andb_false_r; auto.
Qed.

Theorem disp_table_exact : forall sk cs ls st c,
    sk_removecall_deferred sk = true -> dfresh_ok cs = true -> run (dstep sk) (dinit cs) ls = Some st ->
    (zmem c (d_table st) = true <-> exists x, dfind c (dcalls st) = Some x /\ is_outstanding x = true).
Proof.
  intros sk cs ls st c Hsk Hf Hr.
  assert (X : TInv st).
  { eapply (invariant_run _ _ (dstep sk) TInv); [ | apply tinv_init; exact Hf | exact Hr].
    intros s l s' A B. eapply tinv_step; eauto. }
  rewrite (X c). destruct (dfind c (dcalls st)) as [x|].
  - split; [intro A; exists x; auto | intros [y [A B]]; congruence].
  - split; [discriminate | intros [y [A B]]; discriminate].
Qed.

(* ------------------------------------------------------------------------------------------------------------- *)
(* C12                                                                                                           *)
(* ------------------------------------------------------------------------------------------------------------- *)

Theorem disp_late_write_refuted : exists cs ls st,
    dfresh_ok cs = true /\ run (dstep expected_skeleton) (dinit cs) ls = Some st /\ c12_pred (dtrace st) = false.
Proof.
  exists [fresh_call 1].
  exists [DStart 1; DWrite 1; DInResp 0 1; DDecodeErr; DCtxEnd 1; DCancelRet 1; DDecodeRes].
  eexists. split; [reflexivity|]. split; [vm_compute; reflexivity | vm_compute; reflexivity].
Qed.

(* The statement of disp_no_late_write_partial as given in TASK.md is FALSE, for two independent reasons. *)

(* (1) DFinish is a return too: a duplicated reply for the same seqno is looked up while the call is still
   registered (parked at DGot, between ClientReply and the deferred RemoveCall); the call then returns successfully
   and the duplicate's result is decoded into the buffer the caller already owns again. The schedule contains no
   DCancelRet / DStopRet at all. *)
Definition cex_finish_ls : list dlabel :=
  [DStart 1; DWrite 1; DInResp 0 7; DDecodeErr; DDecodeRes; DDeliver; DTakeReply 1;
   DInResp 0 8; DDecodeErr; DFinish 1; DDecodeRes].

Lemma disp_no_late_write_partial_original_false_finish : exists st,
    dfresh_ok [fresh_call 1] = true /\
    schedule_avoids expected_skeleton (dinit [fresh_call 1]) cex_finish_ls = true /\
    run (dstep expected_skeleton) (dinit [fresh_call 1]) cex_finish_ls = Some st /\
    c12_pred (dtrace st) = false.
Proof.
  eexists. split; [reflexivity|]. split; [vm_compute; reflexivity|].
  split; [vm_compute; reflexivity | vm_compute; reflexivity].
Qed.

(* (2) the statement quantifies over every skeleton: when RemoveCall is not deferred the table keeps the entry of a
   call that has returned, and a reply arriving after the return is decoded into its buffer. *)
Definition nodefer_skeleton : skeleton :=
  mkSk true true true  true true true  true true
       true true true  true true true  true true true
       true true false true
       true true
       true true true true
       true true true true
       true true
       true.

Definition cex_nodefer_ls : list dlabel :=
  [DStart 1; DCtxEnd 1; DCancelRet 1; DInResp 0 5; DDecodeErr; DDecodeRes].

Lemma disp_no_late_write_partial_original_false_nodefer : exists st,
    dfresh_ok [fresh_call 1] = true /\
    schedule_avoids nodefer_skeleton (dinit [fresh_call 1]) cex_nodefer_ls = true /\
    run (dstep nodefer_skeleton) (dinit [fresh_call 1]) cex_nodefer_ls = Some st /\
    c12_pred (dtrace st) = false.
Proof.
  eexists. split; [reflexivity|]. split; [vm_compute; reflexivity|].
  split; [vm_compute; reflexivity | vm_compute; reflexivity].
Qed.

(* Corrected statement: RemoveCall is deferred, and no return of any kind (DFinish included) of the call the receive
   goroutine has looked up and not yet decoded the result for. *)
Definition returns_under_decode' (st : dstate) (l : dlabel) : bool :=
  match l with
  | DCancelRet c | DStopRet c | DFinish c =>
      match dq st with QLooked d _ | QErrDone d _ => d =? c | _ => false end
  | _ => false
  end.
Fixpoint schedule_avoids' (sk : skeleton) (st : dstate) (ls : list dlabel) : bool :=
  match ls with
  | [] => true
  | l :: r => negb (returns_under_decode' st l) &&
              match dstep sk st l with Some st' => schedule_avoids' sk st' r | None => true end
  end.

Definition LInv (st : dstate) : Prop :=
  TInv st /\
  forallb (fun e => match e with ABuf _ false => false | _ => true end) (dhist st) = true /\
  (forall c r, dq st = QLooked c r \/ dq st = QErrDone c r ->
               exists x, dfind c (dcalls st) = Some x /\ is_outstanding x = true).

Lemma linv_step : forall sk st l st',
    sk_removecall_deferred sk = true -> LInv st -> returns_under_decode' st l = false ->
    dstep sk st l = Some st' -> LInv st'.
Proof.
  intros sk st l st' Hsk [Ht [Hb Hq]] Ha H.
  split; [eapply tinv_step; eauto|].
  step_cases H l.
  all: split; [try exact Hb | intros cq rq HQ].
  all: try (destruct HQ; discriminate).
  (* the late write itself: the target would have to be outstanding *)
  all: try match goal with
       | |- false = true =>
           match goal with
           | A : dq _ = QErrDone ?c ?r, B : dfind ?c _ = Some ?d, C : dc_pc ?d = DRet _ |- _ =>
               destruct (Hq c r (or_intror eq_refl)) as [x [X Y]]; rewrite B in X; injection X as <-;
               unfold is_outstanding in Y; rewrite C in Y; discriminate
           end
       end.
  (* steps that leave dq alone *)
  all: try match goal with
       | A : dq _ = QLooked _ _ \/ dq _ = QErrDone _ _ |- _ =>
           destruct (Hq _ _ A) as [x [X Y]];
           try (rewrite dfind_dupdate by nonce_pres);
           try match goal with |- context [?cq' =? ?c] =>
                 destruct (cq' =? c) eqn:E;
                 [ assert (cq' = c) by lia; subst cq';
                   match goal with B : dfind c _ = Some ?d |- _ => rewrite B in X; injection X as <-; rewrite B end;
                   simpl
                 | ] end;
           try (eexists; split; [eassumption | assumption]; fail)
       end.
  all: try (destruct HQ as [HQ|HQ]; rewrite HQ in Ha; lia).
  all: try (eexists; split; [reflexivity|]; unfold is_outstanding in *; simpl; auto; fail).
  - destruct HQ as [HQ|HQ]; [|discriminate]. injection HQ as <- <-.
    destruct (lookup_seq_some _ _ _ _ Heqo) as [A [B C]].
    rewrite (Ht (dc_nonce d)) in B. destruct (dfind (dc_nonce d) (dcalls st)) as [x|]; [|discriminate].
    exists x. auto.
  - destruct HQ as [HQ|HQ]; [discriminate|]. injection HQ as <- <-.
    apply (Hq c r). left. reflexivity.
Qed.

Lemma linv_init : forall cs, dfresh_ok cs = true -> LInv (dinit cs).
Proof.
  intros cs H. split; [apply tinv_init; exact H|]. split; [reflexivity|].
  intros c r [A|A]; discriminate.
Qed.

Lemma linv_run : forall sk ls st st',
    sk_removecall_deferred sk = true -> LInv st -> schedule_avoids' sk st ls = true ->
    run (dstep sk) st ls = Some st' -> LInv st'.
Proof.
  intros sk. induction ls as [|l ls IH]; intros st st' Hsk Hi Ha Hr; simpl in *.
  - injection Hr as <-. exact Hi.
  - destruct (dstep sk st l) as [s1|] eqn:E; [|discriminate].
    apply andb_true_iff in Ha. destruct Ha as [A1 A2]. apply negb_true_iff in A1.
    eapply IH; [exact Hsk | eapply linv_step; eauto | exact A2 | exact Hr].
Qed.

Theorem disp_no_late_write_partial : forall sk cs ls st,
    sk_removecall_deferred sk = true ->
    dfresh_ok cs = true -> schedule_avoids' sk (dinit cs) ls = true -> run (dstep sk) (dinit cs) ls = Some st ->
    c12_pred (dtrace st) = true.
Proof.
  intros sk cs ls st Hsk Hf Ha Hr.
  destruct (linv_run sk ls _ _ Hsk (linv_init _ Hf) Ha Hr) as [_ [B _]].
  unfold c12_pred, dtrace. rewrite forallb_rev. exact B.
Qed.

(* the original statement, formally refuted; and neither of the two corrections suffices alone *)
Theorem disp_no_late_write_partial_original_false :
  ~ (forall sk cs ls st,
        dfresh_ok cs = true -> schedule_avoids sk (dinit cs) ls = true -> run (dstep sk) (dinit cs) ls = Some st ->
        c12_pred (dtrace st) = true).
Proof.
  intro H. destruct disp_no_late_write_partial_original_false_finish as [st [A [B [C D]]]].
  rewrite (H _ _ _ _ A B C) in D. discriminate.
Qed.

Theorem disp_no_late_write_partial_needs_deferred :
  ~ (forall sk cs ls st,
        dfresh_ok cs = true -> schedule_avoids' sk (dinit cs) ls = true -> run (dstep sk) (dinit cs) ls = Some st ->
        c12_pred (dtrace st) = true).
Proof.
  intro H.
  assert (A : schedule_avoids' nodefer_skeleton (dinit [fresh_call 1]) cex_nodefer_ls = true) by (vm_compute; reflexivity).
  destruct disp_no_late_write_partial_original_false_nodefer as [st [F [_ [C D]]]].
  rewrite (H _ _ _ _ F A C) in D. discriminate.
Qed.

Theorem disp_no_late_write_partial_needs_finish :
  ~ (forall sk cs ls st,
        sk_removecall_deferred sk = true ->
        dfresh_ok cs = true -> schedule_avoids sk (dinit cs) ls = true -> run (dstep sk) (dinit cs) ls = Some st ->
        c12_pred (dtrace st) = true).
Proof.
  intro H. destruct disp_no_late_write_partial_original_false_finish as [st [A [B [C D]]]].
  rewrite (H expected_skeleton _ _ _ eq_refl A B C) in D. discriminate.
Qed.

(* ------------------------------------------------------------------------------------------------------------- *)
(* C11/C10: the receive goroutine and the response send                                                          *)
(* ------------------------------------------------------------------------------------------------------------- *)

Definition RInv (st : dstate) : Prop :=
  match dq st with
  | QIdle => True
  | QLooked c _ | QErrDone c _ | QResDone c _ => dfind c (dcalls st) <> None
  end.

Lemma rinv_step : forall sk st l st', RInv st -> dstep sk st l = Some st' -> RInv st'.
Proof.
  intros sk st l st' Hi H. unfold RInv in *.
  step_cases H l; auto.
  all: try (destruct (dq st); auto; rewrite dfind_dupdate by nonce_pres;
            match goal with |- context [?a =? ?b] => destruct (a =? b) eqn:E; auto;
              assert (a = b) by lia; subst;
              match goal with B : dfind _ _ = Some _ |- _ => rewrite B; discriminate end end; fail).
  apply in_dfind_not_none. apply (lookup_seq_some _ _ _ _ Heqo).
Qed.

Theorem disp_receive_never_blocks : forall cs ls st,
    dfresh_ok cs = true -> run (dstep expected_skeleton) (dinit cs) ls = Some st -> dq st <> QIdle ->
    dstep expected_skeleton st DDecodeErr <> None \/ dstep expected_skeleton st DDecodeRes <> None \/
    dstep expected_skeleton st DDeliver <> None.
Proof.
  intros cs ls st Hf Hr Hq.
  assert (X : RInv st).
  { eapply (invariant_run _ _ (dstep expected_skeleton) RInv); [ | | exact Hr].
    - intros s l s' A B. eapply rinv_step; eauto.
    - exact I. }
  unfold RInv in X. unfold dstep. destruct (dq st) as [|c r|c r|c r]; [congruence | | |].
  - left. discriminate.
  - right. left. destruct (dfind c (dcalls st)); [discriminate | congruence].
  - right. right. destruct (dfind c (dcalls st)) as [x|]; [|congruence].
    destruct (dc_chan x); simpl; discriminate.
Qed.

Definition wedge_ls : list dlabel :=
  [DStart 1; DWrite 1; DInResp 0 1; DDecodeErr; DDecodeRes; DDeliver; DTakeReply 1;
   DInResp 0 2; DDecodeErr; DDecodeRes; DDeliver; DInResp 0 3; DDecodeErr; DDecodeRes].

Definition WInv (c r : Z) (st : dstate) : Prop :=
  dq st = QResDone c r /\
  exists x, dfind c (dcalls st) = Some x /\ dc_chan x <> None /\
            ((exists g, dc_pc x = DGot g) \/ (exists cls, dc_pc x = DRet cls)).

Lemma winv_step : forall c r st l st',
    WInv c r st -> dstep old_dispatch_skeleton st l = Some st' -> WInv c r st'.
Proof.
  intros c r st l st' [Hq [x [Hc [Hch Hp]]]] H. unfold WInv.
  step_cases H l; try congruence.
  all: try (split; [assumption|]).
  all: try (rewrite dfind_dupdate by nonce_pres).
  all: try match goal with |- context [?a =? ?b] => destruct (a =? b) eqn:E; [assert (a = b) by lia; subst|] end.
  all: try (exists x; auto; fail).
  all: same_find.
  all: rewrite Hc; simpl.
  all: try (destruct Hp as [[g Hp]|[cls Hp]]; congruence).
  all: eexists; split; [reflexivity|]; simpl; split; auto.
  all: right; eexists; reflexivity.
Qed.

Theorem disp_bare_send_wedges : exists cs ls st,
    dfresh_ok cs = true /\ run (dstep old_dispatch_skeleton) (dinit cs) ls = Some st /\ dq st <> QIdle /\
    forall ls' st', run (dstep old_dispatch_skeleton) st ls' = Some st' -> dq st' = dq st.
Proof.
  exists [fresh_call 1]. exists wedge_ls. eexists.
  split; [reflexivity|]. split; [vm_compute; reflexivity|]. split; [simpl; discriminate|].
  intros ls' st' Hr.
  assert (X : WInv 1 3 st').
  { eapply (invariant_run _ _ (dstep old_dispatch_skeleton) (WInv 1 3)); [ | | exact Hr].
    - intros s l s' A B. eapply winv_step; eauto.
    - split; [reflexivity|]. eexists. split; [vm_compute; reflexivity|]. simpl.
      split; [discriminate|]. left. eexists. reflexivity. }
  destruct X as [A _]. rewrite A. reflexivity.
Qed.

Print Assumptions disp_no_crosstalk.
Print Assumptions disp_seqnos_distinct.
Print Assumptions disp_table_exact.
Print Assumptions disp_buffer_written_by_own_reply.
Print Assumptions disp_late_write_refuted.
Print Assumptions disp_no_late_write_partial_original_false_finish.
Print Assumptions disp_no_late_write_partial_original_false_nodefer.
Print Assumptions disp_no_late_write_partial_original_false.
Print Assumptions disp_no_late_write_partial_needs_deferred.
Print Assumptions disp_no_late_write_partial_needs_finish.
Print Assumptions disp_no_late_write_partial.
Print Assumptions disp_receive_never_blocks.
Print Assumptions disp_bare_send_wedges.
