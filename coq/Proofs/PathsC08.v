(* Facts about every path through function bodies regenerated from the source (Model/Paths.v) that C08 relies on, by
   computation over the finitely many paths. *)
From FMP Require Import Model.Paths.
Theorem paths_call_cancel : call_paths_cancel = true. Proof. vm_compute. reflexivity. Qed.
Print Assumptions paths_call_cancel.
