(* Lemmas about Model/Uri.v. *)
From FMP Require Import Base.Bytes Model.Remote Model.Generated Model.Uri Proofs.RemoteProofs.
Open Scope N_scope.

Lemma span_fst_all : forall p s a c, span p s = (a, c) -> forallb p a = true.
Proof.
  intros p. induction s as [|b r IH]; intros a c H; simpl in H.
  - inversion H; reflexivity.
  - destruct (p b) eqn:E.
    + destruct (span p r) as [a' c'] eqn:S. inversion H; subst. simpl. rewrite E. eapply IH; eauto.
    + inversion H; reflexivity.
Qed.

Lemma span_app : forall p s a c, span p s = (a, c) -> s = a ++ c.
Proof.
  intros p. induction s as [|b r IH]; intros a c H; simpl in H.
  - inversion H; reflexivity.
  - destruct (p b) eqn:E.
    + destruct (span p r) as [a' c'] eqn:S. inversion H; subst. simpl. f_equal. eapply IH; eauto.
    + inversion H; reflexivity.
Qed.

Lemma span_all : forall p l rest,
    forallb p l = true -> (match rest with [] => True | b :: _ => p b = false end) ->
    span p (l ++ rest) = (l, rest).
Proof.
  intros p. induction l as [|b l IH]; intros rest Hl Hr; simpl.
  - destruct rest as [|b r]; [reflexivity|]. simpl. rewrite Hr. reflexivity.
  - simpl in Hl. apply andb_true_iff in Hl. destruct Hl as [Hb Hl]. rewrite Hb.
    rewrite IH by assumption. reflexivity.
Qed.

(* facts about the two scheme constants as the generator read them from fmp_uri.go *)
Definition scheme_const_ok (sch : bytes) : bool :=
  match sch with
  | [] => false
  | c0 :: _ => is_alpha c0 && forallb is_scheme_char sch && bytes_eqb (map lower_b sch) sch
  end.

Lemma scheme_consts_ok : scheme_const_ok scheme_standard = true /\ scheme_const_ok scheme_tls = true /\
                         bytes_eqb scheme_standard scheme_tls = false.
Proof. vm_compute. auto. Qed.

Lemma scheme_ok_const : forall sch, scheme_ok sch = true -> scheme_const_ok sch = true.
Proof.
  intros sch H. unfold scheme_ok in H. apply orb_true_iff in H.
  destruct scheme_consts_ok as [H1 [H2 _]].
  destruct H as [H|H]; apply bytes_eqb_eq in H; subst; assumption.
Qed.

Lemma split_last_colon_app : forall s h p, split_last_colon s = Some (h, p) -> s = h ++ colon :: p.
Proof.
  induction s as [|b r IH]; intros h p H; simpl in H; [discriminate|].
  destruct (split_last_colon r) as [[h' p']|] eqn:E.
  - inversion H; subst. simpl. f_equal. apply IH. reflexivity.
  - destruct (N.eqb_spec b colon); [|discriminate]. inversion H; subst. reflexivity.
Qed.

Lemma split_last_colon_none : forall s, split_last_colon s = None -> count_colons s = 0%nat.
Proof.
  induction s as [|b r IH]; intro H; simpl in *; [reflexivity|].
  destruct (split_last_colon r) as [[h' p']|] eqn:E; [discriminate|].
  unfold count_colons in *. simpl. destruct (N.eqb_spec b colon); [discriminate|]. apply IH. reflexivity.
Qed.

(* the shape of everything the model accepts *)
Theorem uri_accept_shape : forall s sch hp h,
    parse_uri s = UOk sch hp h ->
    scheme_ok sch = true /\ h <> [] /\ count_colons hp = 1%nat /\
    (exists p, hp = h ++ colon :: p /\ forallb is_digit p = true) /\
    forallb is_auth_char hp = true.
Proof.
  intros s sch hp h H. unfold parse_uri in H.
  destruct s as [|c0 s']; [discriminate|].
  destruct (is_alpha c0); cbn [negb] in H; [|discriminate].
  destruct (span is_scheme_char (c0 :: s')) as [sc after] eqn:Es.
  destruct after as [|a1 after]; [discriminate|].
  destruct a1 as [|a1]; [discriminate|].
  do 6 (destruct a1 as [a1|a1|]; try discriminate).
  destruct after as [|a2 after]; [discriminate|].
  destruct a2 as [|a2]; [discriminate|].
  do 6 (destruct a2 as [a2|a2|]; try discriminate).
  destruct after as [|a3 after]; [discriminate|].
  destruct a3 as [|a3]; [discriminate|].
  do 6 (destruct a3 as [a3|a3|]; try discriminate).
  destruct (span is_auth_char after) as [auth path] eqn:Ea.
  match type of H with (if negb ?c then _ else _) = _ => destruct c; cbn [negb] in H; [|discriminate] end.
  destruct (split_last_colon auth) as [[h0 p0]|] eqn:El; [|discriminate].
  destruct (forallb is_digit p0) eqn:Ed; cbn [negb] in H; [|discriminate].
  destruct (scheme_ok (map lower_b sc)) eqn:Eo; cbn [negb] in H; [|discriminate].
  destruct (Nat.ltb 1 (count_colons auth)) eqn:Ec; [discriminate|].
  destruct h0 as [|hb hr]; [discriminate|].
  inversion H; subst. clear H.
  split; [exact Eo|]. split; [discriminate|].
  pose proof (split_last_colon_app _ _ _ El) as Happ.
  split.
  - apply PeanoNat.Nat.ltb_ge in Ec.
    assert (1 <= count_colons hp)%nat.
    { rewrite Happ. unfold count_colons. rewrite filter_app, app_length. simpl.
      change (colon =? colon) with true. simpl. lia. }
    lia.
  - split; [exists p0; split; assumption|]. eapply span_fst_all; eauto.
Qed.

Lemma is_scheme_char_colon : is_scheme_char colon = false.
Proof. reflexivity. Qed.

(* String() of an accepted URI parses back to the same triple *)
Theorem uri_string_roundtrip : forall s sch hp h,
    parse_uri s = UOk sch hp h -> parse_uri (uri_string sch hp) = UOk sch hp h.
Proof.
  intros s sch hp h H.
  destruct (uri_accept_shape _ _ _ _ H) as [Hs [Hh [Hc [[p [Hhp Hp]] Hauth]]]].
  pose proof (scheme_ok_const _ Hs) as Hk. unfold scheme_const_ok in Hk.
  destruct sch as [|c0 sr]; [discriminate|].
  apply andb_true_iff in Hk. destruct Hk as [Hk Hlow]. apply andb_true_iff in Hk. destruct Hk as [Hal Hall].
  apply bytes_eqb_eq in Hlow.
  unfold uri_string, parse_uri. cbn [app]. rewrite Hal. cbn [negb].
  change (c0 :: sr ++ 58 :: 47 :: 47 :: hp) with ((c0 :: sr) ++ [58; 47; 47] ++ hp).
  rewrite (span_all is_scheme_char (c0 :: sr) ([58; 47; 47] ++ hp) Hall) by reflexivity.
  cbn [app].
  rewrite <- (app_nil_r hp) at 1. rewrite (span_all is_auth_char hp [] Hauth I).
  cbn [negb]. rewrite Hlow.
  (* split_last_colon of h ++ ':' :: p with p colon-free digits *)
  assert (Hsl : split_last_colon hp = Some (h, p)).
  { clear - Hhp Hp Hc. subst hp.
    assert (Hnp : split_last_colon p = None).
    { clear - Hp. induction p as [|b r IH]; [reflexivity|]. simpl in *.
      apply andb_true_iff in Hp. destruct Hp as [Hb Hr]. rewrite (IH Hr).
      destruct (N.eqb_spec b colon) as [->|]; [discriminate | reflexivity]. }
    assert (Hch : count_colons h = 0%nat).
    { unfold count_colons in *. rewrite filter_app, app_length in Hc. simpl in Hc.
      change (colon =? colon) with true in Hc. simpl in Hc. lia. }
    clear Hc. induction h as [|b r IH]; simpl.
    - rewrite Hnp. reflexivity.
    - unfold count_colons in Hch. simpl in Hch. destruct (b =? colon) eqn:Eb; [simpl in Hch; discriminate|].
      rewrite IH by exact Hch. reflexivity. }
  rewrite Hsl, Hp. cbn [negb]. rewrite Hs. cbn [negb]. rewrite Hc. cbn [Nat.ltb Nat.leb].
  destruct h; [congruence | reflexivity].
Qed.

(* the property predicate holds of what the model itself produces *)
Definition obs_of_model (s : bytes) : option uri_obs :=
  match parse_uri s with
  | UOk sch hp h =>
      match parse_uri (uri_string sch hp) with
      | UOk sch2 hp2 h2 =>
          Some (mkUriObs true sch hp h (use_tls sch) (uri_string sch hp) true sch2 hp2 h2)
      | _ => Some (mkUriObs true sch hp h (use_tls sch) (uri_string sch hp) false [] [] [])
      end
  | URej => Some (mkUriObs false [] [] [] false [] false [] [] [])
  | UUnspec => None
  end.

Theorem model_satisfies_pred : forall s o, obs_of_model s = Some o -> uri_pred o = true.
Proof.
  intros s o H. unfold obs_of_model in H.
  destruct (parse_uri s) as [sch hp h| |] eqn:E; [| inversion H; reflexivity | discriminate].
  rewrite (uri_string_roundtrip _ _ _ _ E) in H. inversion H; subst. clear H.
  destruct (uri_accept_shape _ _ _ _ E) as [Hs [Hh [Hc _]]].
  unfold uri_pred. cbn [uo_ok uo_scheme uo_hostport uo_host uo_tls uo_str uo_ok2 uo_scheme2 uo_hostport2 uo_host2].
  rewrite Hs, Hc. destruct h; [congruence|].
  rewrite Bool.eqb_reflx, !bytes_eqb_refl. reflexivity.
Qed.
