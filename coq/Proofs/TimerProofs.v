(* Lemmas about Model/Timer.v *)
From Coq Require Import Lia ZifyBool.
From FMP Require Import Base.Bytes Model.Timer.
Open Scope Z_scope.

(* ---------- StartRandom ---------- *)
Theorem random_delay_in_window : forall rnd w, 0 <= w -> 0 <= rnd ->
    (w = 0 -> random_delay rnd w = 0) /\ (0 < w -> 0 <= random_delay rnd w < w).
Proof.
  intros rnd w Hw Hr. unfold random_delay. split; intro H.
  - subst. reflexivity.
  - destruct (w =? 0) eqn:E.
    + apply Z.eqb_eq in E. lia.
    + apply Z.mod_pos_bound. lia.
Qed.

(* ---------- cell lists ---------- *)
Definition lfired (i : Z) (l : list cell) : bool :=
  match cfind i l with Some c => c_fired c | None => true end.

Definition fireall (due : list (Z * Z)) (l : list cell) : list cell :=
  fold_left (fun l p => cfire (fst p) l) due l.

Lemma cfind_id : forall i l c, cfind i l = Some c -> c_id c = i.
Proof.
  induction l as [|a l IH]; simpl; intros c H; [discriminate|].
  destruct (c_id a =? i) eqn:E.
  - inversion H; subst. apply Z.eqb_eq in E. exact E.
  - auto.
Qed.

Lemma cfind_cfire : forall i j l,
    cfind i (cfire j l) =
    option_map (fun c => if c_id c =? j then mkCell (c_id c) true else c) (cfind i l).
Proof.
  induction l as [|a l IH]; simpl; [reflexivity|].
  destruct (c_id a =? j) eqn:E; simpl; destruct (c_id a =? i) eqn:E2; simpl;
    try rewrite E; auto.
Qed.

Lemma lfired_cfire : forall i j l, lfired i (cfire j l) = (i =? j) || lfired i l.
Proof.
  intros. unfold lfired. rewrite cfind_cfire. destruct (cfind i l) eqn:E; simpl.
  - apply cfind_id in E. rewrite E. destruct (i =? j); reflexivity.
  - rewrite orb_true_r. reflexivity.
Qed.

Lemma lfired_fireall : forall due l i,
    lfired i (fireall due l) = existsb (fun p => i =? fst p) due || lfired i l.
Proof.
  unfold fireall. induction due as [|a due IH]; intros; simpl; [reflexivity|].
  rewrite IH, lfired_cfire.
  destruct (i =? fst a), (existsb (fun p => i =? fst p) due), (lfired i l); reflexivity.
Qed.

Lemma cfire_ids : forall j l, map c_id (cfire j l) = map c_id l.
Proof.
  induction l as [|a l IH]; simpl; [reflexivity|].
  rewrite IH. destruct (c_id a =? j); reflexivity.
Qed.

Lemma fireall_ids : forall due l, map c_id (fireall due l) = map c_id l.
Proof.
  unfold fireall. induction due as [|a due IH]; intros; simpl; [reflexivity|].
  rewrite IH. apply cfire_ids.
Qed.

Lemma fire_opt_ids : forall o l, map c_id (fire_opt o l) = map c_id l.
Proof. destruct o; simpl; intros; [apply cfire_ids | reflexivity]. Qed.

Lemma ids_transfer : forall (l l' : list cell) n,
    map c_id l' = map c_id l ->
    (forall c, In c l -> c_id c < n) -> forall c, In c l' -> c_id c < n.
Proof.
  intros l l' n Hm H c Hc. apply (in_map c_id) in Hc. rewrite Hm in Hc.
  apply in_map_iff in Hc. destruct Hc as (c' & Heq & Hin). rewrite <- Heq. auto.
Qed.

Lemma cfind_cfire_some : forall i j l,
    (exists c, cfind i l = Some c) -> exists c, cfind i (cfire j l) = Some c.
Proof.
  intros i j l [c H]. rewrite cfind_cfire, H. simpl. eauto.
Qed.

Lemma cfind_fireall_some : forall due l i,
    (exists c, cfind i l = Some c) -> exists c, cfind i (fireall due l) = Some c.
Proof.
  unfold fireall. induction due as [|a due IH]; intros; simpl; [assumption|].
  apply IH. apply cfind_cfire_some. assumption.
Qed.

Lemma cfind_fire_opt_some : forall o l i,
    (exists c, cfind i l = Some c) -> exists c, cfind i (fire_opt o l) = Some c.
Proof. destruct o; simpl; intros; [apply cfind_cfire_some|]; assumption. Qed.

(* ---------- advance ---------- *)
Lemma advance_eq : forall t st,
    advance t st =
    mkTm (fireall (filter (fun p => snd p <=? Z.max t (now st)) (armed st)) (cells st))
         (current st)
         (filter (fun p => negb (snd p <=? Z.max t (now st))) (armed st))
         (Z.max t (now st)) (next_cell st).
Proof. reflexivity. Qed.

Lemma is_fired_advance : forall t st i,
    is_fired (advance t st) i =
    existsb (fun p => i =? fst p) (filter (fun p => snd p <=? Z.max t (now st)) (armed st))
    || is_fired st i.
Proof. intros. rewrite advance_eq. unfold is_fired. simpl. apply lfired_fireall. Qed.

Lemma now_advance : forall t st, now (advance t st) = Z.max t (now st).
Proof. reflexivity. Qed.

Lemma current_advance : forall t st, current (advance t st) = current st.
Proof. reflexivity. Qed.

(* every unfired cell with an armed timer that is due gets fired *)
Lemma is_fired_advance_due : forall t st i due,
    In (i, due) (armed st) -> due <= Z.max t (now st) -> is_fired (advance t st) i = true.
Proof.
  intros. rewrite is_fired_advance. apply orb_true_iff. left.
  apply existsb_exists. exists (i, due). split.
  - apply filter_In. split; [assumption|]. simpl. apply Z.leb_le. assumption.
  - simpl. apply Z.eqb_refl.
Qed.

(* ---------- tm_inv is preserved by every operation ---------- *)
Lemma tm_inv_advance : forall t st, tm_inv st -> tm_inv (advance t st).
Proof.
  intros t st. unfold tm_inv. rewrite current_advance.
  destruct (current st) as [i|]; [|trivial].
  intros [H | [due [Hin Hle]]].
  - left. rewrite is_fired_advance, H. apply orb_true_r.
  - destruct (due <=? Z.max t (now st)) eqn:E.
    + left. apply is_fired_advance_due with due; [assumption|]. apply Z.leb_le. assumption.
    + right. exists due. rewrite advance_eq. simpl. split.
      * apply filter_In. split; [assumption|]. simpl. rewrite E. reflexivity.
      * apply Z.leb_gt in E. lia.
Qed.

Lemma tm_inv_start : forall d st, tm_inv (start d st).
Proof.
  intros. unfold tm_inv. simpl. right. exists (now st + Z.max d 0). split.
  - left. reflexivity.
  - lia.
Qed.

Lemma tm_inv_fire_now : forall st, tm_inv (fire_now st).
Proof. intros. unfold tm_inv. simpl. trivial. Qed.

Lemma tm_inv_wait : forall st, tm_inv st -> tm_inv (wait st).
Proof.
  intros st H. unfold wait. destruct (current st); [|assumption].
  destruct (is_fired st z); [assumption|].
  destruct (filter (fun p => fst p =? z) (armed st)) as [|[a due] r]; [assumption|].
  apply tm_inv_advance. assumption.
Qed.

(* ---------- tm_wf (as stated in the task, unchanged) ---------- *)
Definition tm_wf (st : tmstate) : Prop :=
  (forall c, In c (cells st) -> c_id c < next_cell st) /\
  (forall i, current st = Some i -> i < next_cell st /\ exists c, cfind i (cells st) = Some c) /\
  (forall p, In p (armed st) -> fst p < next_cell st) /\
  (forall p, In p (armed st) -> is_fired st (fst p) = false -> now st <= snd p \/ True).

Lemma tm_wf_advance : forall t st, tm_wf st -> tm_wf (advance t st).
Proof.
  intros t st (H1 & H2 & H3 & _). rewrite advance_eq. repeat split; simpl.
  - eapply ids_transfer; [apply fireall_ids | exact H1].
  - apply (H2 i H).
  - apply cfind_fireall_some. apply (H2 i H).
  - intros p Hp. apply filter_In in Hp. apply H3, Hp.
  - intros. right. trivial.
Qed.

Lemma tm_wf_start : forall d st, tm_wf st -> tm_wf (start d st).
Proof.
  intros d st (H1 & H2 & H3 & _). unfold start. repeat split; simpl.
  - eapply ids_transfer; [apply fire_opt_ids|]. simpl.
    intros c [Hc | Hc]; [subst; simpl; lia|]. apply H1 in Hc. lia.
  - inversion H; subst. lia.
  - inversion H; subst. apply cfind_fire_opt_some. simpl. rewrite Z.eqb_refl. eauto.
  - intros p [Hp | Hp]; [subst; simpl; lia|]. apply H3 in Hp. lia.
  - intros. right. trivial.
Qed.

Lemma tm_wf_fire_now : forall st, tm_wf st -> tm_wf (fire_now st).
Proof.
  intros st (H1 & H2 & H3 & _). unfold fire_now. repeat split; simpl; try discriminate.
  - eapply ids_transfer; [apply fire_opt_ids | exact H1].
  - exact H3.
  - intros. right. trivial.
Qed.

Lemma tm_wf_wait : forall st, tm_wf st -> tm_wf (wait st).
Proof.
  intros st H. unfold wait. destruct (current st); [|assumption].
  destruct (is_fired st z); [assumption|].
  destruct (filter (fun p => fst p =? z) (armed st)) as [|[a due] r]; [assumption|].
  apply tm_wf_advance. assumption.
Qed.

Lemma step_wf_inv : forall st o,
    tm_wf st /\ tm_inv st -> tm_wf (tmstep st o) /\ tm_inv (tmstep st o).
Proof.
  intros st o [Hw Hi]. destruct o; simpl.
  - split; [apply tm_wf_start; assumption | apply tm_inv_start].
  - split; [apply tm_wf_fire_now; assumption | apply tm_inv_fire_now].
  - split; [apply tm_wf_wait | apply tm_inv_wait]; assumption.
  - split; [apply tm_wf_advance | apply tm_inv_advance]; assumption.
Qed.

Lemma run_wf_inv : forall ops st,
    tm_wf st /\ tm_inv st -> tm_wf (tmrun st ops) /\ tm_inv (tmrun st ops).
Proof.
  induction ops as [|o r IH]; intros st H; simpl; [assumption|].
  apply IH. apply step_wf_inv. assumption.
Qed.

Lemma tm0_wf_inv : tm_wf tm0 /\ tm_inv tm0.
Proof.
  unfold tm_wf, tm_inv, tm0; simpl. repeat split; try contradiction; try discriminate.
Qed.

Theorem reach_wf_inv : forall ops, tm_wf (tmrun tm0 ops) /\ tm_inv (tmrun tm0 ops).
Proof. intros. apply run_wf_inv. apply tm0_wf_inv. Qed.

(* ---------- the clock ---------- *)
Lemma now_wait_ge : forall st, now st <= now (wait st).
Proof.
  intros st. unfold wait. destruct (current st); [|lia].
  destruct (is_fired st z); [lia|].
  destruct (filter (fun p => fst p =? z) (armed st)) as [|[a due] r]; [lia|].
  rewrite now_advance. lia.
Qed.

Lemma step_clock_monotone : forall st o, now st <= now (tmstep st o).
Proof.
  intros st o. destruct o; simpl; try lia.
  - apply now_wait_ge.
Qed.

Theorem clock_monotone : forall ops o, now (tmrun tm0 ops) <= now (tmstep (tmrun tm0 ops) o).
Proof. intros. apply step_clock_monotone. Qed.

(* ---------- Wait ---------- *)
Theorem wait_immediate_when_idle : forall st, current st = None -> wait st = st.
Proof. intros st H. unfold wait. rewrite H. reflexivity. Qed.

Theorem wait_immediate_after_fire_now : forall st, wait (fire_now st) = fire_now st.
Proof. intros. apply wait_immediate_when_idle. reflexivity. Qed.

(* the freshly started cell is unfired as soon as its id differs from the old current one *)
Lemma is_fired_start_fresh : forall d st,
    (forall i, current st = Some i -> i <> next_cell st) ->
    is_fired (start d st) (next_cell st) = false.
Proof.
  intros d st H. unfold is_fired, start. simpl.
  destruct (current st) as [i|] eqn:E; simpl.
  - destruct (next_cell st =? i) eqn:E2.
    + apply Z.eqb_eq in E2. exfalso. apply (H i); auto.
    + simpl. rewrite Z.eqb_refl. reflexivity.
  - rewrite Z.eqb_refl. reflexivity.
Qed.

Lemma wait_start_now : forall d st,
    (forall i, current st = Some i -> i <> next_cell st) ->
    now (wait (start d st)) = now st + Z.max d 0.
Proof.
  intros d st H. unfold wait.
  change (current (start d st)) with (Some (next_cell st)). cbv iota beta.
  rewrite (is_fired_start_fresh d st H).
  change (armed (start d st)) with ((next_cell st, now st + Z.max d 0) :: armed st).
  simpl filter. rewrite Z.eqb_refl.
  rewrite now_advance. change (now (start d st)) with (now st). lia.
Qed.

Theorem wait_after_start_returns_at_due : forall ops d,
    let st := tmrun tm0 ops in now (wait (start d st)) = now st + Z.max d 0.
Proof.
  intros ops d st. apply wait_start_now. intros i Hi.
  destruct (reach_wf_inv ops) as [(_ & H2 & _) _]. fold st in H2.
  destruct (H2 i Hi) as [Hlt _]. lia.
Qed.

(* holds in every state: the first Start makes a current cell whose id is below the next one *)
Lemma wait_start_start_now : forall st d1 d2,
    now (wait (start d2 (start d1 st))) = now st + Z.max d2 0.
Proof.
  intros. rewrite wait_start_now.
  - reflexivity.
  - simpl. intros i Hi. inversion Hi; subst. lia.
Qed.

Theorem wait_returns_after_latest : forall ops d1 d2,
    let st := tmrun tm0 ops in now (wait (start d2 (start d1 st))) = now st + Z.max d2 0.
Proof. intros. apply wait_start_start_now. Qed.

(* holds in every state *)
Lemma wait_wait : forall st, wait (wait st) = wait st.
Proof.
  intros st. unfold wait at 2 3.
  destruct (current st) as [i|] eqn:Ec.
  2:{ apply wait_immediate_when_idle. assumption. }
  destruct (is_fired st i) eqn:Ef.
  { unfold wait. rewrite Ec, Ef. reflexivity. }
  destruct (filter (fun p => fst p =? i) (armed st)) as [|[a due] r] eqn:El.
  { unfold wait. rewrite Ec, Ef, El. reflexivity. }
  assert (Hin : In (a, due) (filter (fun p => fst p =? i) (armed st))) by (rewrite El; left; reflexivity).
  apply filter_In in Hin. destruct Hin as [Hin Ha]. simpl in Ha. apply Z.eqb_eq in Ha. subst a.
  unfold wait. rewrite current_advance, Ec.
  rewrite (is_fired_advance_due due st i due Hin); [reflexivity | lia].
Qed.

Theorem wait_idempotent : forall ops, let st := tmrun tm0 ops in wait (wait st) = wait st.
Proof. intros. apply wait_wait. Qed.

Print Assumptions random_delay_in_window.
Print Assumptions reach_wf_inv.
Print Assumptions clock_monotone.
Print Assumptions wait_immediate_when_idle.
Print Assumptions wait_immediate_after_fire_now.
Print Assumptions wait_after_start_returns_at_due.
Print Assumptions wait_returns_after_latest.
Print Assumptions wait_idempotent.
