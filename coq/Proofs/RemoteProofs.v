(* Lemmas about Model/Remote.v. *)
From Coq Require Import Permutation.
From FMP Require Import Base.Bytes Model.Remote.
Open Scope N_scope.

(* ---------- bytes_eqb ---------- *)
Lemma bytes_eqb_refl : forall a, bytes_eqb a a = true.
Proof. induction a as [|x a IH]; simpl; [reflexivity|]. rewrite N.eqb_refl, IH. reflexivity. Qed.

Lemma bytes_eqb_eq : forall a b, bytes_eqb a b = true <-> a = b.
Proof.
  induction a as [|x a IH]; intros [|y b]; simpl; split; intro H; try reflexivity; try discriminate.
  - apply andb_true_iff in H. destruct H as [H1 H2]. apply N.eqb_eq in H1. apply IH in H2. subst. reflexivity.
  - inversion H; subst. rewrite N.eqb_refl. simpl. apply bytes_eqb_refl.
Qed.

(* ---------- normalisation ---------- *)
Lemma filter_idem : forall A (p : A -> bool) l, filter p (filter p l) = filter p l.
Proof.
  intros A p. induction l as [|x l IH]; simpl; [reflexivity|].
  destruct (p x) eqn:E; simpl; [rewrite E, IH|]; auto.
Qed.

Lemma ltrim_idem : forall s, ltrim (ltrim s) = ltrim s.
Proof.
  induction s as [|b r IH]; simpl; [reflexivity|].
  destruct (is_space b) eqn:E; [exact IH|]. simpl. rewrite E. reflexivity.
Qed.

Lemma ltrim_hd : forall s b r, ltrim s = b :: r -> is_space b = false.
Proof.
  induction s as [|c s IH]; simpl; intros b r H; [discriminate|].
  destruct (is_space c) eqn:E; [eauto|]. inversion H; subst. exact E.
Qed.

Lemma ltrim_fix : forall s, (match s with [] => True | b :: _ => is_space b = false end) -> ltrim s = s.
Proof. intros [|b r] H; simpl; [reflexivity|]. rewrite H. reflexivity. Qed.

Lemma last_rev_hd : forall (s : bytes), match rev s with [] => s = [] | b :: _ => exists p, s = p ++ [b] end.
Proof.
  intros s. destruct (rev s) as [|b r] eqn:E.
  - apply (f_equal (@rev N)) in E. rewrite rev_involutive in E. exact E.
  - exists (rev r). apply (f_equal (@rev N)) in E. rewrite rev_involutive in E. simpl in E. exact E.
Qed.

(* trimmed strings: no space at either end *)
Definition trimmed (s : bytes) : Prop :=
  (match s with [] => True | b :: _ => is_space b = false end) /\
  (match rev s with [] => True | b :: _ => is_space b = false end).

Lemma ltrim_suffix : forall s, exists p, s = p ++ ltrim s.
Proof.
  induction s as [|b r [p IH]]; simpl; [exists []; reflexivity|].
  destruct (is_space b); [exists (b :: p); simpl; rewrite <- IH; reflexivity | exists []; reflexivity].
Qed.

Lemma trim_trimmed : forall s, trimmed (trim s).
Proof.
  intros s. unfold trimmed, trim. rewrite rev_involutive. split.
  - (* head of rev (ltrim (rev (ltrim s))) : the last byte of ltrim(rev(ltrim s)) is the last of rev(ltrim s),
       i.e. the head of ltrim s, unless everything was trimmed away *)
    set (t := ltrim s).
    destruct (ltrim_suffix (rev t)) as [p Hp].
    destruct (ltrim (rev t)) as [|b r] eqn:E; [simpl; exact I|].
    assert (Hrev : rev (b :: r) = rev (ltrim (rev t))) by (rewrite E; reflexivity).
    (* rev t = p ++ b :: r  =>  t = rev (b::r) ++ rev p *)
    assert (Ht : t = rev (b :: r) ++ rev p).
    { rewrite <- (rev_involutive t), Hp, rev_app_distr. reflexivity. }
    destruct (rev (b :: r)) as [|c q] eqn:E2.
    + apply (f_equal (@rev N)) in E2. rewrite rev_involutive in E2. discriminate.
    + subst t. simpl in Ht. apply ltrim_hd in Ht. exact Ht.
  - destruct (ltrim (rev (ltrim s))) as [|b r] eqn:E; [exact I|]. eapply ltrim_hd; eauto.
Qed.

Lemma trim_fix : forall s, trimmed s -> trim s = s.
Proof.
  intros s [H1 H2]. unfold trim. rewrite (ltrim_fix s H1), (ltrim_fix (rev s) H2). apply rev_involutive.
Qed.

Lemma trim_idem : forall s, trim (trim s) = trim s.
Proof. intros s. apply trim_fix, trim_trimmed. Qed.

Lemma lower_b_idem : forall b, lower_b (lower_b b) = lower_b b.
Proof.
  intros b. unfold lower_b.
  destruct ((65 <=? b) && (b <=? 90)) eqn:E; [|rewrite E; reflexivity].
  apply andb_true_iff in E. destruct E as [E1 E2]. apply N.leb_le in E1, E2.
  destruct ((65 <=? b + 32) && (b + 32 <=? 90)) eqn:E3; [|reflexivity].
  apply andb_true_iff in E3. destruct E3 as [_ E4]. apply N.leb_le in E4. lia.
Qed.

Lemma lower_b_space : forall b, is_space (lower_b b) = is_space b.
Proof.
  intros b. unfold lower_b. destruct ((65 <=? b) && (b <=? 90)) eqn:E; [|reflexivity].
  apply andb_true_iff in E. destruct E as [E1 E2]. apply N.leb_le in E1, E2.
  unfold is_space.
  repeat match goal with |- context [?x =? ?y] => let H := fresh in destruct (N.eqb_spec x y) as [H|H]; try lia end.
Qed.

Lemma trimmed_map_lower : forall s, trimmed s -> trimmed (map lower_b s).
Proof.
  intros s [H1 H2]. split.
  - destruct s as [|b r]; simpl; [exact I|]. rewrite lower_b_space. exact H1.
  - rewrite <- map_rev. destruct (rev s) as [|b r]; simpl; [exact I|]. rewrite lower_b_space. exact H2.
Qed.

Lemma clean_addr_idem : forall s, clean_addr (clean_addr s) = clean_addr s.
Proof.
  intros s. unfold clean_addr.
  rewrite (trim_fix (map lower_b (trim s))) by (apply trimmed_map_lower, trim_trimmed).
  rewrite map_map. apply map_ext. intro b. apply lower_b_idem.
Qed.

Lemma clean_group_idem : forall g, clean_group (clean_group g) = clean_group g.
Proof.
  intros g. unfold clean_group.
  induction g as [|a g IH]; simpl; [reflexivity|].
  destruct (nonempty (clean_addr a)) eqn:E; simpl; [|exact IH].
  rewrite clean_addr_idem, E. simpl. f_equal. exact IH.
Qed.

Theorem clean_idem : forall gs, clean (clean gs) = clean gs.
Proof.
  intros gs. unfold clean. induction gs as [|g gs IH]; simpl; [reflexivity|].
  destruct (nonempty (clean_group g)) eqn:E; simpl; [|exact IH].
  rewrite clean_group_idem, E. simpl. f_equal. exact IH.
Qed.

Lemma clean_no_empty_group : forall gs, Forall (fun g => g <> []) (clean gs).
Proof.
  intros gs. unfold clean. apply Forall_forall. intros g Hg. apply filter_In in Hg.
  destruct Hg as [_ Hg]. destruct g; [discriminate|]. discriminate.
Qed.

Lemma clean_no_empty_addr : forall gs, Forall (Forall (fun a => a <> [])) (clean gs).
Proof.
  intros gs. apply Forall_forall. intros g Hg. unfold clean in Hg. apply filter_In in Hg.
  destruct Hg as [Hg _]. apply in_map_iff in Hg. destruct Hg as [g0 [Hg0 _]]. subst g.
  apply Forall_forall. intros a Ha. unfold clean_group in Ha. apply filter_In in Ha.
  destruct Ha as [_ Ha]. destruct a; discriminate.
Qed.

(* ---------- split / join ---------- *)
Lemma split_acc_app : forall sep x cur r,
    ~ In sep x ->
    split_acc sep (x ++ sep :: r) cur = rev (rev x ++ cur) :: split_acc sep r [].
Proof.
  intros sep. induction x as [|b x IH]; intros cur r Hn; simpl.
  - rewrite N.eqb_refl. reflexivity.
  - destruct (N.eqb_spec b sep) as [->|Hne]; [exfalso; apply Hn; left; reflexivity|].
    rewrite IH by (intro H; apply Hn; right; exact H).
    f_equal. rewrite <- app_assoc. reflexivity.
Qed.

Lemma split_acc_nosep : forall sep x cur, ~ In sep x -> split_acc sep x cur = [rev (rev x ++ cur)].
Proof.
  intros sep. induction x as [|b x IH]; intros cur Hn; simpl; [reflexivity|].
  destruct (N.eqb_spec b sep) as [->|Hne]; [exfalso; apply Hn; left; reflexivity|].
  rewrite IH by (intro H; apply Hn; right; exact H). rewrite <- app_assoc. reflexivity.
Qed.

Lemma split_join : forall sep l, l <> [] -> Forall (fun x => ~ In sep x) l -> split sep (join sep l) = l.
Proof.
  intros sep. induction l as [|x l IH]; intros Hne Hall; [congruence|].
  inversion Hall as [|? ? Hx Hl]; subst. destruct l as [|y l].
  - simpl. unfold split. rewrite split_acc_nosep by exact Hx. rewrite app_nil_r, rev_involutive. reflexivity.
  - change (join sep (x :: y :: l)) with (x ++ sep :: join sep (y :: l)).
    unfold split. rewrite split_acc_app by exact Hx. rewrite app_nil_r, rev_involutive.
    f_equal. apply IH; [discriminate | exact Hl].
Qed.

Lemma in_join : forall sep c l, In c (join sep l) -> c = sep \/ exists x, In x l /\ In c x.
Proof.
  intros sep c. induction l as [|x l IH]; simpl; intro H; [contradiction|].
  destruct l as [|y l].
  - right. exists x. split; [left; reflexivity | exact H].
  - apply in_app_or in H. destruct H as [H|H].
    + right. exists x. split; [left; reflexivity | exact H].
    + destruct H as [H|H]; [left; symmetry; exact H|].
      destruct (IH H) as [E|[z [Hz Hc]]]; [left; exact E|].
      right. exists z. split; [right; exact Hz | exact Hc].
Qed.

(* ---------- the object ---------- *)
Definition wf_groups (c : groups) : Prop := c <> [] /\ Forall (fun g => g <> []) c.
Definition wf (r : remote) : Prop := wf_groups (addrs r) /\ Forall (fun g => g <> []) (iter r).

Section Oracle.
  Variable perm : nat -> list addr -> list addr.
  Hypothesis perm_ok : forall n g, Permutation (perm n g) g.

  Lemma refill_perm : forall gs n, Forall2 (@Permutation addr) (fst (refill perm n gs)) gs.
  Proof.
    induction gs as [|g gs IH]; intros n; simpl; [constructor|].
    specialize (IH (S n)). destruct (refill perm (S n) gs) as [r' n']. simpl in *.
    constructor; [apply perm_ok | exact IH].
  Qed.

  Lemma reset_addrs : forall r, addrs (reset perm r) = addrs r.
  Proof. intros r. unfold reset. destruct (refill perm (draws r) (addrs r)). reflexivity. Qed.

  Lemma reset_iter : forall r, Forall2 (@Permutation addr) (iter (reset perm r)) (addrs r).
  Proof.
    intros r. unfold reset. pose proof (refill_perm (addrs r) (draws r)) as H.
    destruct (refill perm (draws r) (addrs r)). exact H.
  Qed.

  Lemma perm_nonempty : forall (g g' : list addr), Permutation g g' -> g' <> [] -> g <> [].
  Proof. intros g g' H Hn E. subst. apply Permutation_nil in H. contradiction. Qed.

  Lemma forall2_perm_nonempty : forall (a b : groups),
      Forall2 (@Permutation addr) a b -> Forall (fun g => g <> []) b -> Forall (fun g => g <> []) a.
  Proof.
    intros a b H. induction H; intro Hb; [constructor|]. inversion Hb; subst.
    constructor; [eapply perm_nonempty; eauto | auto].
  Qed.

  Lemma wf_reset : forall r, wf_groups (addrs r) -> wf (reset perm r).
  Proof.
    intros r Hw. split; [rewrite reset_addrs; exact Hw|].
    eapply forall2_perm_nonempty; [apply reset_iter | apply Hw].
  Qed.

  Lemma reset_iter_nonempty : forall r, wf_groups (addrs r) -> iter (reset perm r) <> [].
  Proof.
    intros r [Hne _] E. pose proof (reset_iter r) as H. rewrite E in H. inversion H. congruence.
  Qed.

  Lemma wf_ensure : forall r, wf r -> wf (ensure perm r) /\ iter (ensure perm r) <> [].
  Proof.
    intros r Hw. unfold ensure. destruct (iter r) eqn:E.
    - split; [apply wf_reset, Hw | apply reset_iter_nonempty, Hw].
    - split; [exact Hw | rewrite E; discriminate].
  Qed.

  Lemma prune_nonempty : forall gs, Forall (fun g : list addr => g <> []) gs -> prune gs = gs.
  Proof. intros [|g gs] H; [reflexivity|]. inversion H; subst. destruct g; [congruence | reflexivity]. Qed.

  Lemma prune_cons : forall g rest, Forall (fun g : list addr => g <> []) rest ->
      prune (g :: rest) = match g with [] => rest | _ => g :: rest end.
  Proof. intros [|a g] rest H; simpl; [apply prune_nonempty; exact H | reflexivity]. Qed.

  Lemma wf_fresh : forall c, wf_groups c -> wf (fresh perm c).
  Proof. intros c H. apply wf_reset. exact H. Qed.

  (* Get never hits the index-out-of-range panic on a well-formed object, and keeps it well formed *)
  Lemma get_wf : forall r, wf r -> exists a, fst (get perm r) = Some a /\ wf (snd (get perm r)).
  Proof.
    intros r Hw. destruct (wf_ensure r Hw) as [[Ha Hi] Hne]. unfold get.
    destruct (iter (ensure perm r)) as [|g rest] eqn:E; [congruence|].
    inversion Hi as [|? ? Hg Hrest]; subst. destruct g as [|a g]; [congruence|].
    exists a. split; [reflexivity|]. cbn [snd]. split; [exact Ha|]. cbn [iter].
    rewrite prune_cons by exact Hrest. destruct g; [exact Hrest|]. constructor; [discriminate | exact Hrest].
  Qed.

  Lemma peek_wf : forall r, wf r -> exists a, fst (peek perm r) = Some a /\ wf (snd (peek perm r)).
  Proof.
    intros r Hw. destruct (wf_ensure r Hw) as [[Ha Hi] Hne]. unfold peek.
    destruct (iter (ensure perm r)) as [|g rest] eqn:E; [congruence|].
    inversion Hi as [|? ? Hg Hrest]; subst. destruct g as [|a g]; [congruence|].
    exists a. split; [reflexivity|]. simpl. split; [exact Ha | rewrite E; exact Hi].
  Qed.

  Lemma rstep_wf : forall r o, wf r -> wf (snd (rstep perm r o)).
  Proof.
    intros r [| |] Hw; simpl.
    - destruct (get_wf r Hw) as [a [_ H]]. exact H.
    - destruct (peek_wf r Hw) as [a [_ H]]. exact H.
    - apply wf_reset, Hw.
  Qed.

  Lemma ensure_idem : forall r, wf r -> ensure perm (ensure perm r) = ensure perm r.
  Proof.
    intros r Hw. destruct (wf_ensure r Hw) as [_ Hne]. unfold ensure at 1.
    destruct (iter (ensure perm r)); [congruence | reflexivity].
  Qed.

  (* Peek names what the next GetAddress returns ... *)
  Theorem peek_is_next_get : forall r, wf r -> fst (get perm (snd (peek perm r))) = fst (peek perm r).
  Proof.
    intros r Hw. destruct (wf_ensure r Hw) as [[Ha Hi] Hne].
    assert (Hs : snd (peek perm r) = ensure perm r).
    { unfold peek. destruct (iter (ensure perm r)) as [|[|a g] rest]; reflexivity. }
    rewrite Hs. unfold get. rewrite ensure_idem by exact Hw. unfold peek.
    destruct (iter (ensure perm r)) as [|[|a g] rest]; reflexivity.
  Qed.

  (* ... and changes nothing observable: every operation behaves the same after a Peek *)
  Theorem peek_pure : forall r o, wf r ->
      rstep perm (snd (peek perm r)) o = rstep perm (ensure perm r) o /\
      fst (get perm (ensure perm r)) = fst (get perm r) /\
      snd (get perm (ensure perm r)) = snd (get perm r) /\
      peek perm (ensure perm r) = peek perm r.
  Proof.
    intros r o Hw.
    assert (Hs : snd (peek perm r) = ensure perm r).
    { unfold peek. destruct (iter (ensure perm r)) as [|[|a g] rest]; reflexivity. }
    rewrite Hs. split; [reflexivity|]. unfold get, peek. rewrite ensure_idem by exact Hw. auto.
  Qed.

  Lemma get_cons : forall r a g rest, iter r = (a :: g) :: rest -> Forall (fun g : list addr => g <> []) rest ->
      get perm r = (Some a, mkRemote (addrs r) (match g with [] => rest | _ => g :: rest end) (draws r)).
  Proof.
    intros r a g rest E Hrest. unfold get, ensure. rewrite E. cbn match. rewrite E.
    rewrite prune_cons by exact Hrest. reflexivity.
  Qed.

  (* a run of gets walks through the remaining list in order *)
  Lemma gets_walk : forall n r, wf r -> iter r <> [] -> n = length (concat (iter r)) ->
      fst (gets perm n r) = map Some (concat (iter r)) /\ iter (snd (gets perm n r)) = [] /\
      addrs (snd (gets perm n r)) = addrs r.
  Proof.
    induction n as [|n IH]; intros r Hw Hne Hn.
    - destruct Hw as [_ Hi]. destruct (iter r) as [|g rest]; [congruence|].
      inversion Hi; subst. destruct g; [congruence | simpl in Hn; discriminate].
    - pose proof Hw as [Ha Hi].
      destruct (iter r) as [|g rest] eqn:E; [congruence|].
      inversion Hi as [|? ? Hg Hrest]; subst. destruct g as [|a g]; [congruence|].
      simpl in Hn. injection Hn as Hn.
      cbn [gets]. rewrite (get_cons r a g rest E Hrest).
      set (r1 := mkRemote (addrs r) (match g with [] => rest | _ => g :: rest end) (draws r)).
      assert (Hc : concat (iter r1) = g ++ concat rest) by (unfold r1; cbn [iter]; destruct g; reflexivity).
      assert (Hw1 : wf r1).
      { split; [exact Ha|]. unfold r1; cbn [iter]. destruct g; [exact Hrest|].
        constructor; [discriminate | exact Hrest]. }
      destruct n as [|n'].
      + (* last address *)
        cbn [gets fst snd].
        assert (H0 : g ++ concat rest = []) by (destruct (g ++ concat rest); [reflexivity | simpl in Hn; discriminate]).
        apply app_eq_nil in H0. destruct H0 as [Hg0 Hr0]. subst g. cbn [concat app]. rewrite Hr0. cbn [map].
        split; [reflexivity|]. split; [|reflexivity].
        unfold r1; cbn [iter]. destruct rest as [|g2 rest2]; [reflexivity|].
        inversion Hrest; subst. destruct g2; [congruence | simpl in Hr0; discriminate].
      + assert (Hne1 : iter r1 <> []).
        { intro E1. rewrite E1 in Hc. simpl in Hc. rewrite <- Hc in Hn. simpl in Hn. discriminate. }
        assert (Hn1 : S n' = length (concat (iter r1))) by (rewrite Hc; exact Hn).
        destruct (IH r1 Hw1 Hne1 Hn1) as [H1 [H2 H3]].
        destruct (gets perm (S n') r1) as [xs r2] eqn:G. cbn [fst snd] in *.
        split; [rewrite H1, Hc; reflexivity|]. split; [exact H2 | exact H3].
  Qed.

  Definition total (c : groups) : nat := length (concat c).

  Lemma forall2_perm_concat_length : forall (a b : groups),
      Forall2 (@Permutation addr) a b -> length (concat a) = length (concat b).
  Proof.
    intros a b H. induction H; [reflexivity|]. simpl. rewrite !app_length.
    rewrite (Permutation_length H), IHForall2. reflexivity.
  Qed.

  (* One full cycle after construction or Reset: every address of the first group once, in some order,
     then every address of the next group, ..., and the object is exhausted exactly at the end. *)
  Theorem cycle_after_reset : forall r, wf_groups (addrs r) ->
      exists pieces,
        Forall2 (@Permutation addr) pieces (addrs r) /\
        fst (gets perm (total (addrs r)) (reset perm r)) = map Some (concat pieces) /\
        iter (snd (gets perm (total (addrs r)) (reset perm r))) = [] /\
        addrs (snd (gets perm (total (addrs r)) (reset perm r))) = addrs r.
  Proof.
    intros r Hw. exists (iter (reset perm r)).
    pose proof (reset_iter r) as Hp. split; [exact Hp|].
    assert (Hn : total (addrs r) = length (concat (iter (reset perm r)))).
    { unfold total. symmetry. apply forall2_perm_concat_length. exact Hp. }
    destruct (gets_walk _ (reset perm r) (wf_reset r Hw) (reset_iter_nonempty r Hw) Hn) as [H1 [H2 H3]].
    split; [exact H1|]. split; [exact H2|]. rewrite H3. apply reset_addrs.
  Qed.

  (* "starting over after the last": an exhausted object behaves like a freshly reset one *)
  Theorem exhausted_restarts : forall r, wf_groups (addrs r) -> iter r = [] ->
      get perm r = get perm (reset perm r) /\ peek perm r = peek perm (reset perm r).
  Proof.
    intros r Hw E.
    assert (H1 : ensure perm r = reset perm r) by (unfold ensure; rewrite E; reflexivity).
    assert (H2 : ensure perm (reset perm r) = reset perm r).
    { unfold ensure. destruct (iter (reset perm r)) eqn:E2; [|reflexivity].
      exfalso. eapply reset_iter_nonempty; eauto. }
    unfold get, peek. rewrite H1, H2. split; reflexivity.
  Qed.

  (* ---------- the acceptor explains every behaviour of the object ---------- *)
  Lemma remove1_in : forall x c, In x c -> exists c', remove1 x c = Some c' /\ Permutation c (x :: c').
  Proof.
    intros x. induction c as [|y c IH]; intro Hin; [contradiction|]. simpl.
    destruct (bytes_eqb x y) eqn:E.
    - apply bytes_eqb_eq in E. subst y. exists c. split; [reflexivity | apply Permutation_refl].
    - destruct Hin as [->|Hin]; [rewrite bytes_eqb_refl in E; discriminate|].
      destruct (IH Hin) as [c'' [H1 H2]]. rewrite H1. exists (y :: c''). split; [reflexivity|].
      eapply Permutation_trans; [apply perm_skip; exact H2 | apply perm_swap].
  Qed.

  Lemma remove1_perm : forall x g c, Permutation (x :: g) c -> exists c', remove1 x c = Some c' /\ Permutation g c'.
  Proof.
    intros x g c H.
    assert (Hin : In x c) by (eapply Permutation_in; [exact H | left; reflexivity]).
    destruct (remove1_in x c Hin) as [c' [H1 H2]]. exists c'. split; [exact H1|].
    eapply Permutation_cons_inv. eapply Permutation_trans; [exact H | exact H2].
  Qed.

  (* simulation relation between the object and the acceptor *)
  Definition Rel (r : remote) (a : astate) : Prop :=
    a_addrs a = addrs r /\
    (match iter r with
     | [] => a_cur a = [] /\ a_rest a = []
     | g :: rest => Permutation g (a_cur a) /\ Forall2 (@Permutation addr) rest (a_rest a)
     end) /\
    (a_pin a = None \/ exists a0 g rest, iter r = (a0 :: g) :: rest /\ a_pin a = Some a0).

  Lemma Rel_reset : forall r, wf_groups (addrs r) -> Rel (reset perm r) (a_fresh (addrs r)).
  Proof.
    intros r [Hne Hall]. pose proof (reset_iter r) as Hp. pose proof (reset_addrs r) as Ha.
    unfold Rel. destruct (addrs r) as [|g0 rest0] eqn:E; [congruence|].
    inversion Hp as [|p0 ? prest ? Hp0 Hprest Ei]; subst. cbn [a_fresh a_addrs a_cur a_rest a_pin].
    split; [rewrite Ha; reflexivity|]. split; [split; assumption | left; reflexivity].
  Qed.

  Lemma Rel_ensure : forall r a, wf r -> Rel r a -> Rel (ensure perm r) (a_ensure a).
  Proof.
    intros r a Hw [Ha [Hi Hpin]]. unfold ensure, a_ensure. destruct (iter r) as [|g rest] eqn:E.
    - destruct Hi as [Hc _]. rewrite Hc, Ha. apply Rel_reset, Hw.
    - destruct Hi as [Hg Hrest]. destruct Hw as [_ Hall]. rewrite E in Hall. inversion Hall as [|? ? Hgne _]; subst.
      destruct (a_cur a) as [|c0 cr] eqn:Ec.
      + apply Permutation_sym, Permutation_nil in Hg. congruence.
      + unfold Rel. rewrite E, Ec. auto.
  Qed.

  Lemma pin_ok_rel : forall p (a0 : addr) (g : list addr) (rest : groups),
      (p = None \/ exists b g' rest', (a0 :: g) :: rest = (b :: g') :: rest' /\ p = Some b) ->
      pin_ok p a0 = true.
  Proof.
    intros p a0 g rest [Hn|[b [g' [rest' [E' Hs]]]]]; [rewrite Hn; reflexivity|].
    rewrite Hs. inversion E'; subst. apply bytes_eqb_refl.
  Qed.

  Lemma step_simulated : forall r a o, wf r -> Rel r a ->
      exists e a', event_of o (fst (rstep perm r o)) = Some e /\
                   a_step a e = Some a' /\ Rel (snd (rstep perm r o)) a'.
  Proof.
    intros r a o Hw HR. destruct o.
    - (* Get *)
      destruct (wf_ensure r Hw) as [[Hwa Hwi] Hne].
      pose proof (Rel_ensure r a Hw HR) as [Ha [Hi Hpin]].
      destruct (iter (ensure perm r)) as [|g0 rest] eqn:E; [congruence|].
      inversion Hwi as [|? ? Hg0 Hrest]; subst. destruct g0 as [|a0 g]; [congruence|].
      destruct Hi as [Hg Hr2].
      destruct (remove1_perm a0 g _ Hg) as [c' [Hrm Hpc]].
      cbn [rstep]. unfold get. rewrite E. cbn [fst snd event_of].
      rewrite prune_cons by exact Hrest.
      exists (EGet a0). cbn [a_step]. rewrite (pin_ok_rel _ a0 g rest Hpin), Hrm.
      destruct c' as [|c0 cr].
      + apply Permutation_sym, Permutation_nil in Hpc. subst g.
        destruct rest as [|g2 rest2]; inversion Hr2 as [|? h2 ? hrest2 Hp2 Hpr2 Er]; subst.
        * eexists. split; [reflexivity|]. split; [reflexivity|].
          unfold Rel; cbn. auto.
        * eexists. split; [reflexivity|]. split; [reflexivity|].
          unfold Rel; cbn. auto.
      + destruct g as [|g1 gr]; [apply Permutation_nil in Hpc; discriminate|].
        eexists. split; [reflexivity|]. split; [reflexivity|].
        unfold Rel; cbn. auto.
    - (* Peek *)
      destruct (wf_ensure r Hw) as [[Hwa Hwi] Hne].
      pose proof (Rel_ensure r a Hw HR) as [Ha [Hi Hpin]].
      destruct (iter (ensure perm r)) as [|g0 rest] eqn:E; [congruence|].
      inversion Hwi as [|? ? Hg0 Hrest]; subst. destruct g0 as [|a0 g]; [congruence|].
      destruct Hi as [Hg Hr2].
      destruct (remove1_perm a0 g _ Hg) as [c' [Hrm Hpc]].
      cbn [rstep]. unfold peek. rewrite E. cbn [fst snd event_of].
      exists (EPeek a0). cbn [a_step]. rewrite (pin_ok_rel _ a0 g rest Hpin), Hrm.
      eexists. split; [reflexivity|]. split; [reflexivity|].
      unfold Rel. rewrite E. cbn. split; [exact Ha|]. split; [split; assumption|].
      right. exists a0, g, rest. auto.
    - (* Reset *)
      cbn [rstep fst snd event_of]. exists EReset. eexists. split; [reflexivity|]. cbn [a_step].
      split; [reflexivity|]. destruct HR as [Ha _]. rewrite Ha. apply Rel_reset, Hw.
  Qed.

  (* events of a whole run *)
  Fixpoint events (ops : list rop) (outs : list (option addr)) : option (list revent) :=
    match ops, outs with
    | [], [] => Some []
    | o :: ops', x :: outs' =>
        match event_of o x, events ops' outs' with
        | Some e, Some es => Some (e :: es)
        | _, _ => None
        end
    | _, _ => None
    end.

  Lemma run_simulated : forall ops r a, wf r -> Rel r a ->
      exists es a', events ops (fst (rrun perm r ops)) = Some es /\ a_run a es = Some a'.
  Proof.
    induction ops as [|o ops IH]; intros r a Hw HR.
    - exists [], a. split; reflexivity.
    - destruct (step_simulated r a o Hw HR) as [e [a1 [He [Hs HR1]]]].
      cbn [rrun]. destruct (rstep perm r o) as [x r1] eqn:Es. cbn [fst snd] in *.
      assert (Hw1 : wf r1) by (pose proof (rstep_wf r o Hw) as H; rewrite Es in H; exact H).
      destruct (IH r1 a1 Hw1 HR1) as [es [a' [Hes Hrun]]].
      destruct (rrun perm r1 ops) as [xs r2] eqn:Er. cbn [fst] in *.
      exists (e :: es), a'. cbn [events a_run]. rewrite He, Hes, Hs. auto.
  Qed.

  (* Every behaviour of the object, for every sequence of permutations, is accepted. *)
  Theorem model_accepted : forall c ops, wf_groups c ->
      exists es a', events ops (fst (rrun perm (fresh perm c) ops)) = Some es /\
                    a_run (a_fresh c) es = Some a'.
  Proof.
    intros c ops Hw. apply run_simulated; [apply wf_fresh; exact Hw|].
    unfold fresh. apply (Rel_reset (mkRemote c [] 0)). exact Hw.
  Qed.
End Oracle.

(* ---------- what the acceptor guarantees about any accepted trace (no oracle) ---------- *)

(* multiset-style invariant: the acceptor only hands out addresses of the current group *)
Lemma remove1_some_in : forall x c c', remove1 x c = Some c' -> In x c.
Proof.
  intros x. induction c as [|y c IH]; intros c' H; simpl in H; [discriminate|].
  destruct (bytes_eqb x y) eqn:E; [apply bytes_eqb_eq in E; left; auto|].
  destruct (remove1 x c) eqn:R; [|discriminate]. right. eapply IH; eauto.
Qed.

Lemma remove1_length : forall x c c', remove1 x c = Some c' -> length c = S (length c').
Proof.
  intros x. induction c as [|y c IH]; intros c' H; simpl in H; [discriminate|].
  destruct (bytes_eqb x y); [inversion H; reflexivity|].
  destruct (remove1 x c) eqn:R; [|discriminate]. inversion H; subst. simpl. f_equal. eapply IH; eauto.
Qed.

(* String() then Parse gives back the same groups (addresses free of the two separators) *)
Definition sep_free (a : addr) : Prop := ~ In comma a /\ ~ In semi a.

Lemma join_comma_no_semi : forall g, Forall sep_free g -> ~ In semi (join comma g).
Proof.
  intros g H Hin. apply in_join in Hin. destruct Hin as [E|[x [Hx Hc]]]; [discriminate|].
  rewrite Forall_forall in H. apply (H x Hx). exact Hc.
Qed.

Theorem parse_tostring_groups : forall c : groups,
    c <> [] -> Forall (fun g => g <> []) c -> Forall (Forall sep_free) c ->
    parse_groups (to_string c) = c.
Proof.
  intros c Hne Hg Hs. unfold parse_groups, to_string.
  rewrite split_join.
  - rewrite map_map. rewrite <- (map_id c) at 2. apply map_ext_in. intros g Hin.
    rewrite Forall_forall in Hg, Hs. apply split_join; [apply Hg; exact Hin|].
    specialize (Hs g Hin). rewrite Forall_forall in *. intros x Hx. apply (Hs x Hx).
  - destruct c; [congruence | discriminate].
  - apply Forall_forall. intros s Hin. apply in_map_iff in Hin. destruct Hin as [g [Eg Hin]]. subst s.
    apply join_comma_no_semi. rewrite Forall_forall in Hs. apply Hs. exact Hin.
Qed.

(* cleaned groups are fixed points of cleaning, so parsing the String() of a remote rebuilds it *)
Theorem parse_tostring_roundtrip : forall gs c,
    new_groups gs = Some c -> Forall (Forall sep_free) c -> parse_remote (to_string c) = Some c.
Proof.
  intros gs c Hn Hs. unfold new_groups in Hn.
  destruct (clean gs) as [|g0 r0] eqn:E; [discriminate|]. inversion Hn; subst c. clear Hn.
  unfold parse_remote. rewrite parse_tostring_groups.
  - unfold new_groups. rewrite <- E, clean_idem, E. reflexivity.
  - discriminate.
  - rewrite <- E. apply clean_no_empty_group.
  - exact Hs.
Qed.
