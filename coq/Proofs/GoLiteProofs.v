(* The translated bodies (Generated.golite_funcs), run by the GoLite interpreter, refine the hand model
   Model/Remote.v on every state; callContainer.nextSeqid hands out distinct numbers for 2^64 calls. *)
From Coq Require Import Lia Permutation.
From FMP Require Import Base.Bytes Model.GenTypes Model.Generated Model.GoLite Model.Remote.
Open Scope string_scope.
Open Scope nat_scope.

(* ---- the translation is complete ---- *)
Theorem golite_no_unsupported : no_unsupported golite_funcs = true.
Proof. vm_compute. reflexivity. Qed.

(* ---- interpreter equations (all by conversion) ---- *)
Section Eqs.
  Variable permI : nat -> nat -> list nat.
  Variable rec : list stmt -> state -> result.
  Variable ft : funtable.
  Local Notation xs := (exec_stmt permI rec ft).
  Local Notation xb := (exec_block permI rec ft).

  Lemma xb_nil : forall st, xb [] st = RNormal st.
  Proof. reflexivity. Qed.
  Lemma xb_cons : forall s r st,
      xb (s :: r) st = match xs s st with RNormal st' => xb r st' | x => x end.
  Proof. reflexivity. Qed.
  Lemma xs_set : forall x e st,
      xs (SSet x e) st = match eval permI e st with EV v s1 => RNormal (set_var x v s1) | EP w => RPanic w end.
  Proof. reflexivity. Qed.
  Lemma xs_setidx : forall x i e st,
      xs (SSetIdx x i e) st =
      match eval permI i st with
      | EV (VInt z) s1 => match eval permI e s1 with EV v s2 => set_idx x z v s2 | EP w => RPanic w end
      | EV _ _ => RPanic PType
      | EP w => RPanic w
      end.
  Proof. reflexivity. Qed.
  Lemma xs_inc : forall x w st,
      xs (SInc x w) st =
      match get_var x st with
      | Some (VInt z) => RNormal (set_var x (VInt (wrap w (z + 1))) st)
      | Some _ => RPanic PType
      | None => RPanic PUnknownVar
      end.
  Proof. reflexivity. Qed.
  Lemma xs_cond : forall c t e st,
      xs (SCond c t e) st =
      match eval permI c st with
      | EV (VBool true) s1 => xb t s1
      | EV (VBool false) s1 => xb e s1
      | EV _ _ => RPanic PType
      | EP w => RPanic w
      end.
  Proof. reflexivity. Qed.
  Lemma xs_while : forall c b st,
      xs (SWhile c b) st =
      match eval permI c st with
      | EV (VBool true) s1 => rec (b ++ [SWhile c b]) s1
      | EV (VBool false) s1 => RNormal s1
      | EV _ _ => RPanic PType
      | EP w => RPanic w
      end.
  Proof. reflexivity. Qed.
  Lemma xs_range : forall x e b st,
      xs (SRange x e b) st =
      match eval permI e st with
      | EV (VList vs) s1 => exec_range permI rec ft x b vs s1
      | EV _ _ => RPanic PType
      | EP w => RPanic w
      end.
  Proof. reflexivity. Qed.
  Lemma xs_ret : forall e st,
      xs (SRet (Some e)) st = match eval permI e st with EV v s1 => RReturn v s1 | EP w => RPanic w end.
  Proof. reflexivity. Qed.
  Lemma xs_call : forall f st,
      xs (SCallM f []) st = match do_call rec ft f [] st with RReturn _ s => RNormal s | r => r end.
  Proof. reflexivity. Qed.
  Lemma xs_lock : forall m st, xs (SLock m) st = opt_result (do_lock m st).
  Proof. reflexivity. Qed.
  Lemma xs_defer : forall m st, xs (SDeferUnlock m) st = RNormal (push_defer m st).
  Proof. reflexivity. Qed.
  Lemma xr_nil : forall x b st, exec_range permI rec ft x b [] st = RNormal st.
  Proof. reflexivity. Qed.
  Lemma xr_cons : forall x b v vs st,
      exec_range permI rec ft x b (v :: vs) st =
      match xb b (set_var x v st) with RNormal st' => exec_range permI rec ft x b vs st' | r => r end.
  Proof. reflexivity. Qed.
End Eqs.

Lemma exec_S : forall permI f ft l st, exec permI (S f) ft l st = exec_block permI (exec permI f ft) ft l st.
Proof. reflexivity. Qed.

Arguments exec_stmt : simpl never.
Arguments exec_block : simpl never.
Arguments exec_range : simpl never.
Arguments exec : simpl never.
Arguments do_call : simpl never.
Arguments wrap : simpl never.

Lemma lookup_upd_eq : forall x v (l : store), lookup x (upd x v l) = Some v.
Proof.
  intros x v l. induction l as [|[y w] l IH]; cbn [upd lookup].
  - rewrite String.eqb_refl. reflexivity.
  - destruct (String.eqb x y) eqn:E; cbn [lookup]; rewrite ?String.eqb_refl, ?E; auto.
Qed.

Lemma lookup_upd_ne : forall x y v (l : store), x <> y -> lookup y (upd x v l) = lookup y l.
Proof.
  intros x y v l Hne. induction l as [|[z w] l IH]; cbn [upd lookup].
  - destruct (String.eqb y x) eqn:E; [apply String.eqb_eq in E; congruence | reflexivity].
  - destruct (String.eqb x z) eqn:E; cbn [lookup].
    + apply String.eqb_eq in E. subst z.
      destruct (String.eqb y x) eqn:E2; [apply String.eqb_eq in E2; congruence | reflexivity].
    + destruct (String.eqb y z); auto.
Qed.

Definition body_of (f : string) : list stmt :=
  match lookup f golite_funcs with Some g => gf_body g | None => [] end.

Definition with_mutex (a u : nat) (st : state) : state :=
  mkState (heap st) (locals st) (drawn st) a u (held st) (defers st) (effects st).

(* ================= callContainer.nextSeqid ================= *)
Definition name_nextSeqid := "callContainer.nextSeqid".
Section Seq.
  Variable permI : nat -> nat -> list nat.
  Local Notation run := (run_fun permI).

  Definition seq_state (s : Z) : state := mkState [("cc.seqid", VInt s)] [] 0 0 0 [] [] [].

  (* general form: any heap holding cc.seqid, any frame, any counters, the mutex free *)
  Lemma nextSeqid_run : forall fuel H L d a u h df ef s,
      1 <= fuel -> lookup "cc.seqid" H = Some (VInt s) -> mem_s "cc.seqMtx" h = false ->
      run fuel golite_funcs "callContainer.nextSeqid" (mkState H L d a u h df ef) =
      RReturn (VInt s) (mkState (upd "cc.seqid" (VInt (wrap 64 (s + 1))) H) L d (S a) (S u) h df ef).
  Proof.
    intros fuel H L d a u h df ef s Hfuel Hs Hm.
    destruct fuel as [|f]; [lia|].
    unfold run_fun, run_fun_args, do_call.
    change (lookup "callContainer.nextSeqid" golite_funcs) with
        (Some (mkGfun "cc" [] (body_of "callContainer.nextSeqid"))).
    cbn [gf_body gf_params bind]. rewrite exec_S.
    unfold body_of. cbn [lookup golite_funcs String.eqb Ascii.eqb Bool.eqb gf_body].
    rewrite xb_cons, xs_lock. unfold do_lock, enter. cbn [held]. rewrite Hm. cbn [opt_result].
    rewrite xb_cons, xs_defer. unfold push_defer. cbn [heap locals drawn acq rel held defers effects].
    rewrite xb_cons, xs_set. cbn [eval get_var is_field Ascii.eqb Bool.eqb orb heap]. rewrite Hs.
    cbn [set_var is_field Ascii.eqb Bool.eqb orb heap locals drawn acq rel held defers effects upd].
    rewrite xb_cons, xs_inc. cbn [get_var is_field Ascii.eqb Bool.eqb orb heap]. rewrite Hs.
    cbn [set_var is_field Ascii.eqb Bool.eqb orb heap locals drawn acq rel held defers effects].
    rewrite xb_cons, xs_ret.
    cbn [eval get_var is_field Ascii.eqb Bool.eqb orb locals lookup String.eqb].
    unfold leave. cbn [defers run_defers do_unlock held mem_s String.eqb Ascii.eqb Bool.eqb orb remove_s
                       heap locals drawn acq rel effects].
    reflexivity.
  Qed.

  Theorem golite_nextSeqid_spec : forall fuel s, 1 <= fuel ->
      run fuel golite_funcs "callContainer.nextSeqid" (seq_state s) =
      RReturn (VInt s) (with_mutex 1 1 (seq_state (wrap 64 (s + 1)))).
  Proof.
    intros fuel s Hfuel. unfold seq_state.
    rewrite nextSeqid_run with (s := s); auto.
  Qed.

  (* n successive calls on the same object: the values returned *)
  Fixpoint seq_returns (fuel n : nat) (st : state) : list val :=
    match n with
    | O => []
    | S n' => match run fuel golite_funcs "callContainer.nextSeqid" st with
              | RReturn v st' => v :: seq_returns fuel n' st'
              | _ => []
              end
    end.

  Definition in_range64 (s : Z) : Prop := (- 2 ^ 63 <= s < 2 ^ 63)%Z.

  Lemma wrap64_range : forall z, in_range64 (wrap 64 z).
  Proof.
    intro z. unfold wrap, in_range64. change (64 - 1)%Z with 63%Z.
    pose proof (Z.mod_pos_bound (z + 2 ^ 63) (2 ^ 64) ltac:(lia)) as Hb.
    change (2 ^ 64)%Z with (2 * 2 ^ 63)%Z in *. lia.
  Qed.

  Lemma wrap64_id : forall s, in_range64 s -> wrap 64 s = s.
  Proof.
    intros s Hs. unfold wrap, in_range64 in *. change (64 - 1)%Z with 63%Z.
    rewrite Z.mod_small; [lia|]. change (2 ^ 64)%Z with (2 * 2 ^ 63)%Z. lia.
  Qed.

  Lemma wrap64_add_l : forall a b, wrap 64 (wrap 64 a + b) = wrap 64 (a + b).
  Proof.
    intros a b. unfold wrap. change (64 - 1)%Z with 63%Z. f_equal.
    replace ((a + 2 ^ 63) mod 2 ^ 64 - 2 ^ 63 + b + 2 ^ 63)%Z with ((a + 2 ^ 63) mod 2 ^ 64 + b)%Z by lia.
    rewrite Zplus_mod_idemp_l. f_equal. lia.
  Qed.

  Lemma wrap64_period : forall s, wrap 64 (s + 2 ^ 64) = wrap 64 s.
  Proof.
    intro s. unfold wrap. change (64 - 1)%Z with 63%Z. f_equal.
    replace (s + 2 ^ 64 + 2 ^ 63)%Z with (s + 2 ^ 63 + 1 * 2 ^ 64)%Z by lia.
    apply Z_mod_plus_full.
  Qed.

  Lemma wrap64_inj : forall s k1 k2, (0 <= k1 < 2 ^ 64)%Z -> (0 <= k2 < 2 ^ 64)%Z ->
      wrap 64 (s + k1) = wrap 64 (s + k2) -> k1 = k2.
  Proof.
    intros s k1 k2 H1 H2 Heq. unfold wrap in Heq. change (64 - 1)%Z with 63%Z in Heq.
    assert (Hm : ((s + k1 + 2 ^ 63) mod 2 ^ 64 = (s + k2 + 2 ^ 63) mod 2 ^ 64)%Z) by lia.
    assert (Hd : ((k1 - k2) mod 2 ^ 64 = 0)%Z).
    { replace (k1 - k2)%Z with ((s + k1 + 2 ^ 63) - (s + k2 + 2 ^ 63))%Z by lia.
      rewrite Zminus_mod, Hm, Z.sub_diag. apply Zmod_0_l. }
    apply Z.mod_divide in Hd; [|lia]. destruct Hd as [c Hc].
    assert (c = 0%Z) by nia. subst c. lia.
  Qed.

  Definition seq_st (s : Z) (d a u : nat) : state := mkState [("cc.seqid", VInt s)] [] d a u [] [] [].

  Lemma seq_returns_closed : forall n fuel s d a u, 1 <= fuel -> in_range64 s ->
      seq_returns fuel n (seq_st s d a u) = map (fun k => VInt (wrap 64 (s + Z.of_nat k))) (seq 0 n).
  Proof.
    induction n as [|n IH]; intros fuel s d a u Hfuel Hs; [reflexivity|].
    cbn [seq_returns]. unfold seq_st at 1.
    rewrite nextSeqid_run with (s := s); auto.
    cbn [upd String.eqb Ascii.eqb Bool.eqb].
    change (mkState [("cc.seqid", VInt (wrap 64 (s + 1)))] [] d (S a) (S u) [] [] [])
      with (seq_st (wrap 64 (s + 1)) d (S a) (S u)).
    rewrite IH; auto using wrap64_range.
    cbn [seq map]. rewrite Z.add_0_r, (wrap64_id s Hs). f_equal.
    rewrite <- seq_shift, map_map. apply map_ext. intro k.
    rewrite wrap64_add_l. do 2 f_equal. lia.
  Qed.

  (* closed form of the k-th value handed out *)
  Theorem golite_seqids_closed_form : forall n fuel s, 1 <= fuel -> in_range64 s ->
      seq_returns fuel n (seq_state s) = map (fun k => VInt (wrap 64 (s + Z.of_nat k))) (seq 0 n).
  Proof. intros. apply (seq_returns_closed n fuel s 0 0 0); auto. Qed.

  Lemma NoDup_map_inj_on : forall {A B} (f : A -> B) (l : list A),
      NoDup l -> (forall x y, In x l -> In y l -> f x = f y -> x = y) -> NoDup (map f l).
  Proof.
    intros A B f l Hnd. induction Hnd as [|x l Hni Hnd IH]; intros Hinj; cbn [map]; constructor.
    - intro Hin. apply in_map_iff in Hin. destruct Hin as [y [Hy Hyin]].
      assert (y = x) by (apply Hinj; [right; auto | left; auto | auto]). subst y. auto.
    - apply IH. intros a b Ha Hb. apply Hinj; right; auto.
  Qed.

  Theorem golite_seqids_distinct : forall (n : nat) fuel s, 1 <= fuel -> in_range64 s ->
      (Z.of_nat n <= 2 ^ 64)%Z -> NoDup (seq_returns fuel n (seq_state s)).
  Proof.
    intros n fuel s Hfuel Hs Hn. rewrite golite_seqids_closed_form; auto.
    apply NoDup_map_inj_on; [apply seq_NoDup|].
    intros x y Hx Hy Heq. apply in_seq in Hx. apply in_seq in Hy.
    injection Heq as Heq. apply wrap64_inj in Heq; lia.
  Qed.

  (* ... and not one call more: the (2^64+1)-th call returns the first value again *)
  Theorem golite_seqids_wrap_refuted : forall (n : nat) fuel s, 1 <= fuel -> in_range64 s ->
      Z.of_nat n = (2 ^ 64)%Z ->
      nth n (seq_returns fuel (S n) (seq_state s)) VUnit = VInt s /\
      nth 0 (seq_returns fuel (S n) (seq_state s)) VUnit = VInt s /\
      ~ NoDup (seq_returns fuel (S n) (seq_state s)).
  Proof.
    intros n fuel s Hfuel Hs Hn. rewrite golite_seqids_closed_form; auto.
    assert (Hlast : VInt (wrap 64 (s + Z.of_nat n)) = VInt s).
    { rewrite Hn, wrap64_period, wrap64_id; auto. }
    assert (Hnth : nth n (map (fun k => VInt (wrap 64 (s + Z.of_nat k))) (seq 0 (S n))) VUnit = VInt s).
    { rewrite seq_S, map_app, app_nth2; rewrite map_length, seq_length; [|lia].
      rewrite Nat.sub_diag. cbn [map nth Nat.add]. exact Hlast. }
    split; [exact Hnth|]. split.
    - cbn [seq map nth]. rewrite Z.add_0_r, wrap64_id; auto.
    - cbn [seq map]. intro Hnd. apply NoDup_cons_iff in Hnd. destruct Hnd as [Hni _].
      apply Hni. cbn [Z.of_nat]. rewrite Z.add_0_r, (wrap64_id s Hs), <- Hlast.
      apply in_map_iff. exists n. split; [reflexivity|]. apply in_seq. lia.
  Qed.
End Seq.

(* ================= prioritizedRoundRobinRemote ================= *)
Definition enc_group (g : list (list N)) : val := VList (map VStr g).
Definition enc_groups (gs : list (list (list N))) : val := VList (map enc_group gs).

(* the GoLite state that represents a hand-model state: mutex free, counters at zero, empty frame *)
Definition repr (r : remote) : state :=
  mkState [("r.addresses", enc_groups (addrs r)); ("r.toIterate", enc_groups (iter r))] [] (draws r) 0 0 [] [] [].

Definition resetLocked_body : list stmt := Eval vm_compute in body_of "prioritizedRoundRobinRemote.resetLocked".
Definition outer_body : list stmt :=
  Eval vm_compute in match resetLocked_body with [_; SRange _ _ b] => b | _ => [] end.
Definition inner_body : list stmt :=
  Eval vm_compute in match outer_body with [_; SRange _ _ b; _] => b | _ => [] end.

Section RemoteRefines.
  Variable permI : nat -> nat -> list nat.
  Hypothesis permI_ok : forall n k, Permutation (permI n k) (seq 0 k).

  Definition perm (n : nat) (g : list (list N)) : list (list N) := map (fun i => nth i g []) (permI n (length g)).

  Local Notation run := (run_fun permI).
  Local Notation ft := golite_funcs.

  Ltac ev := try unfold bump; cbn [eval get_var set_var is_field Ascii.eqb Bool.eqb orb heap locals drawn acq rel held defers effects
                  lookup upd String.eqb binop_eval val_eq int_op option_map bump].

  Lemma inner_range : forall (is : list nat) rec (g : list (list N)) H L acc d a u h df ef,
      Forall (fun i => i < length g) is ->
      lookup "group" L = Some (enc_group g) -> lookup "groupCopied" L = Some (VList acc) ->
      exists L',
        exec_range permI rec ft "i" inner_body (map (fun i => VInt (Z.of_nat i)) is) (mkState H L d a u h df ef) =
        RNormal (mkState H L' d a u h df ef) /\
        lookup "group" L' = Some (enc_group g) /\
        lookup "groupCopied" L' = Some (VList (acc ++ map (fun i => VStr (nth i g [])) is)).
  Proof.
    induction is as [|i is IH]; intros rec g H L acc d a u h df ef Hall Hg Hc.
    - exists L. cbn [map]. rewrite xr_nil, app_nil_r. auto.
    - inversion Hall as [|? ? Hi Hall']; subst.
      cbn [map]. rewrite xr_cons. unfold inner_body.
      ev.
      set (L1 := upd "i" (VInt (Z.of_nat i)) L).
      assert (Hg1 : lookup "group" L1 = Some (enc_group g)) by (unfold L1; rewrite lookup_upd_ne; [auto|discriminate]).
      assert (Hc1 : lookup "groupCopied" L1 = Some (VList acc)) by (unfold L1; rewrite lookup_upd_ne; [auto|discriminate]).
      assert (Hi1 : lookup "i" L1 = Some (VInt (Z.of_nat i))) by (unfold L1; apply lookup_upd_eq).
      rewrite xb_cons, xs_set. ev. rewrite Hc1. ev. rewrite Hg1. ev. unfold enc_group at 1. ev. rewrite Hi1. ev.
      assert (Hneg : (Z.of_nat i <? 0)%Z = false) by (apply Z.ltb_ge; lia). rewrite Hneg.
      rewrite Nat2Z.id, nth_error_map, (@nth_error_nth' (list N) g i [] Hi). cbn [option_map]. ev.
      rewrite xb_nil.
      set (L2 := upd "groupCopied" (VList (acc ++ [VStr (nth i g [])])) L1).
      destruct (IH rec g H L2 (acc ++ [VStr (nth i g [])])%list d a u h df ef Hall') as [L' [He [Hg' Hc']]].
      + unfold L2. rewrite lookup_upd_ne; [auto|discriminate].
      + unfold L2. apply lookup_upd_eq.
      + exists L'. split; [exact He|]. split; [auto|].
        rewrite Hc'. rewrite <- app_assoc. reflexivity.
  Qed.

  Lemma permI_lt : forall n k, Forall (fun i => i < k) (permI n k).
  Proof.
    intros n k. apply Forall_forall. intros i Hi.
    apply (Permutation_in _ (permI_ok n k)) in Hi. apply in_seq in Hi. lia.
  Qed.

  Lemma outer_range : forall (gs : list (list (list N))) rec A T L d a u h df ef,
      exists L',
        exec_range permI rec ft "group" outer_body (map enc_group gs)
                   (mkState [("r.addresses", A); ("r.toIterate", VList T)] L d a u h df ef) =
        RNormal (mkState [("r.addresses", A);
                          ("r.toIterate", VList (T ++ map enc_group (fst (refill perm d gs))))]
                         L' (snd (refill perm d gs)) a u h df ef).
  Proof.
    induction gs as [|g gs IH]; intros rec A T L d a u h df ef.
    - exists L. cbn [map refill fst snd]. rewrite xr_nil, app_nil_r. reflexivity.
    - cbn [map]. rewrite xr_cons. unfold outer_body. ev.
      set (L1 := upd "group" (enc_group g) L).
      assert (Hg1 : lookup "group" L1 = Some (enc_group g)) by (unfold L1; apply lookup_upd_eq).
      rewrite xb_cons, xs_set. ev. rewrite Hg1. unfold enc_group at 1.
      assert (Hneg : forall n : nat, (Z.of_nat n <? 0)%Z = false) by (intro n; apply Z.ltb_ge; lia).
      rewrite Hneg. ev.
      set (L2 := upd "groupCopied" (VList []) L1).
      assert (Hg2 : lookup "group" L2 = Some (enc_group g)) by (unfold L2; rewrite lookup_upd_ne; [auto|discriminate]).
      assert (Hc2 : lookup "groupCopied" L2 = Some (VList [])) by (unfold L2; apply lookup_upd_eq).
      rewrite xb_cons, xs_range. fold inner_body. ev. rewrite Hg2. unfold enc_group at 1.
      rewrite Hneg, map_length, Nat2Z.id. ev.
      destruct (inner_range (permI d (length g)) rec g
                            [("r.addresses", A); ("r.toIterate", VList T)] L2 [] (S d) a u h df ef
                            (permI_lt d (length g)) Hg2 Hc2) as [L3 [He [Hg3 Hc3]]].
      rewrite He. cbn [app] in Hc3.
      rewrite xb_cons, xs_set. ev. rewrite Hc3. ev. rewrite xb_nil.
      destruct (IH rec A (T ++ [VList (map (fun i => VStr (nth i g [])) (permI d (length g)))])%list L3 (S d) a u h df ef)
        as [L' He'].
      exists L'. unfold outer_body, inner_body in He' |- *. rewrite He'. cbn [refill].
      destruct (refill perm (S d) gs) as [r' n'] eqn:Er. cbn [fst snd map].
      rewrite <- app_assoc. cbn [app]. unfold enc_group at 2, perm. rewrite map_map. reflexivity.
  Qed.

  Lemma of_nat_neg : forall n : nat, (Z.of_nat n <? 0)%Z = false.
  Proof. intro n. apply Z.ltb_ge. lia. Qed.

  Lemma resetLocked_call : forall f (gs : list (list (list N))) T L d a u h df ef, 1 <= f ->
      do_call (exec permI f ft) ft "prioritizedRoundRobinRemote.resetLocked" []
              (mkState [("r.addresses", enc_groups gs); ("r.toIterate", T)] L d a u h df ef) =
      RNormal (mkState [("r.addresses", enc_groups gs); ("r.toIterate", enc_groups (fst (refill perm d gs)))]
                       L (snd (refill perm d gs)) a u h df ef).
  Proof.
    intros f gs T L d a u h df ef Hf. destruct f as [|f]; [lia|].
    unfold do_call.
    change (lookup "prioritizedRoundRobinRemote.resetLocked" ft) with (Some (mkGfun "r" [] resetLocked_body)).
    cbn [gf_body gf_params bind]. rewrite exec_S. unfold resetLocked_body, enter, enc_groups. ev.
    rewrite xb_cons, xs_set. ev. rewrite of_nat_neg. ev.
    rewrite xb_cons, xs_range. fold outer_body. ev.
    destruct (outer_range gs (exec permI f ft) (VList (map enc_group gs)) [] [] d a u h [] ef) as [L' He].
    rewrite He. rewrite xb_nil. unfold leave. ev. cbn [run_defers app]. ev. reflexivity.
  Qed.

  Definition name_reset := "prioritizedRoundRobinRemote.Reset".
  Definition name_get := "prioritizedRoundRobinRemote.GetAddress".
  Definition name_peek := "prioritizedRoundRobinRemote.Peek".

  Ltac enter_fun nm :=
    unfold run_fun, run_fun_args, do_call;
    change (lookup nm ft) with (Some (mkGfun "r" [] (body_of nm)));
    cbn [gf_body gf_params bind]; rewrite exec_S; unfold body_of, nm;
    cbn [lookup golite_funcs String.eqb Ascii.eqb Bool.eqb gf_body];
    unfold repr, enter; ev;
    rewrite xb_cons, xs_lock; unfold do_lock; ev; cbn [mem_s opt_result];
    rewrite xb_cons, xs_defer; unfold push_defer; ev.

  Ltac leave_fun :=
    unfold leave; ev;
    cbn [run_defers do_unlock held mem_s remove_s String.eqb Ascii.eqb Bool.eqb orb];
    ev.

  Theorem golite_reset_refines : forall fuel r, 2 <= fuel ->
      run fuel ft name_reset (repr r) = RNormal (with_mutex 1 1 (repr (reset perm r))).
  Proof.
    intros fuel r Hf. destruct fuel as [|f]; [lia|].
    enter_fun name_reset.
    rewrite xb_cons, xs_call, resetLocked_call by lia. rewrite xb_nil.
    leave_fun.
    unfold reset, with_mutex, repr. destruct (refill perm (draws r) (addrs r)) as [it n].
    reflexivity.
  Qed.

  Definition get_body : list stmt := Eval vm_compute in body_of name_get.
  Definition peek_body : list stmt := Eval vm_compute in body_of name_peek.
  Definition ensure_stmt : stmt := Eval vm_compute in nth 2 get_body (SUnsupported "").
  Definition prune_stmt : stmt := Eval vm_compute in nth 5 get_body (SUnsupported "").

  Lemma len_cons_eq0 : forall {A} (x : A) l, (Z.of_nat (length (x :: l)) =? 0)%Z = false.
  Proof. intros. apply Z.eqb_neq. cbn [length]. lia. Qed.
  Lemma len_cons_lt1 : forall {A} (x : A) l, (Z.of_nat (length (x :: l)) <? 1)%Z = false.
  Proof. intros. apply Z.ltb_ge. cbn [length]. lia. Qed.

  Lemma ensure_step : forall f r L a u h df ef, 1 <= f ->
      exec_stmt permI (exec permI f ft) ft ensure_stmt
                (mkState [("r.addresses", enc_groups (addrs r)); ("r.toIterate", enc_groups (iter r))]
                         L (draws r) a u h df ef) =
      RNormal (mkState [("r.addresses", enc_groups (addrs (ensure perm r)));
                        ("r.toIterate", enc_groups (iter (ensure perm r)))]
                       L (draws (ensure perm r)) a u h df ef).
  Proof.
    intros f [A I D] L a u h df ef Hf. cbn [addrs iter draws]. unfold ensure_stmt, ensure. cbn [iter].
    rewrite xs_cond. destruct I as [|g0 I'].
    - change (enc_groups []) with (VList []). ev. cbn [length Z.of_nat Z.eqb].
      rewrite xb_cons, xs_call, resetLocked_call by lia. rewrite xb_nil.
      unfold reset. cbn [addrs draws]. destruct (refill perm D A) as [it n]. reflexivity.
    - change (enc_groups (g0 :: I')) with (VList (enc_group g0 :: map enc_group I')). ev.
      rewrite len_cons_eq0. rewrite xb_nil. reflexivity.
  Qed.

  Theorem golite_peek_refines : forall fuel r, 2 <= fuel ->
      match peek perm r with
      | (Some a, r') => run fuel ft name_peek (repr r) = RReturn (VStr a) (with_mutex 1 1 (repr r'))
      | (None, _) => run fuel ft name_peek (repr r) = RPanic PIndex
      end.
  Proof.
    intros fuel r Hf. destruct fuel as [|f]; [lia|].
    enter_fun name_peek.
    pose proof (ensure_step f r [] 1 0 ["r"] ["r"] [] ltac:(lia)) as He. unfold ensure_stmt in He.
    rewrite xb_cons, He. clear He.
    unfold peek. cbv zeta. set (r1 := ensure perm r). clearbody r1. destruct r1 as [A1 I1 D1].
    cbn [iter addrs draws]. rewrite xb_cons, xs_ret.
    destruct I1 as [|[|x g] rest]; unfold enc_groups at 2; cbn [map]; ev.
    - reflexivity.
    - cbn [Z.ltb Z.compare Z.to_nat nth_error]. unfold enc_group at 1. cbn [map]. ev.
      cbn [Z.ltb Z.compare Z.to_nat nth_error]. reflexivity.
    - cbn [Z.ltb Z.compare Z.to_nat nth_error]. unfold enc_group at 1. cbn [map]. ev.
      cbn [Z.ltb Z.compare Z.to_nat nth_error]. leave_fun. reflexivity.
  Qed.

  Lemma while_prune : forall (gs : list (list (list N))) f A L d a u h df ef, length gs < f ->
      exec_stmt permI (exec permI f ft) ft prune_stmt
                (mkState [("r.addresses", A); ("r.toIterate", enc_groups gs)] L d a u h df ef) =
      RNormal (mkState [("r.addresses", A); ("r.toIterate", enc_groups (prune gs))] L d a u h df ef).
  Proof.
    induction gs as [|g gs IH]; intros f A L d a u h df ef Hf; unfold prune_stmt; rewrite xs_while.
    - change (enc_groups []) with (VList []). ev. cbn [length Z.of_nat Z.eqb negb]. reflexivity.
    - change (enc_groups (g :: gs)) with (VList (enc_group g :: map enc_group gs)). ev.
      rewrite len_cons_eq0. cbn [negb Z.ltb Z.compare Z.to_nat nth_error]. ev.
      destruct g as [|x g].
      + change (enc_group []) with (VList []). ev. cbn [length Z.of_nat Z.eqb].
        destruct f as [|f]; [cbn [length] in Hf; lia|].
        rewrite exec_S. cbn [app]. rewrite xb_cons, xs_set. ev.
        rewrite len_cons_lt1. cbn [Z.ltb Z.compare orb Z.to_nat Pos.to_nat Pos.iter_op Nat.add skipn]. ev.
        rewrite xb_cons. fold prune_stmt. fold (enc_groups gs).
        rewrite IH by (cbn [length] in Hf; lia). rewrite xb_nil. cbn [prune]. reflexivity.
      + change (enc_group (x :: g)) with (VList (VStr x :: map VStr g)). ev.
        rewrite len_cons_eq0. cbn [prune]. reflexivity.
  Qed.

  Lemma refill_length : forall gs d, length (fst (refill perm d gs)) = length gs.
  Proof.
    induction gs as [|g gs IH]; intro d; cbn [refill]; [reflexivity|].
    specialize (IH (S d)). destruct (refill perm (S d) gs) as [r' n']. cbn [fst length] in *. lia.
  Qed.

  Lemma ensure_length : forall r, length (iter (ensure perm r)) <= length (addrs r) + length (iter r).
  Proof.
    intros [A I D]. unfold ensure. cbn [iter addrs]. destruct I as [|g0 I']; [|cbn [iter length]; lia].
    unfold reset. cbn [addrs draws]. pose proof (refill_length A D) as Hl.
    destruct (refill perm D A) as [it n]. cbn [iter fst length] in *. lia.
  Qed.

  Theorem golite_get_refines : forall fuel r, 2 + length (addrs r) + length (iter r) <= fuel ->
      match get perm r with
      | (Some a, r') => run fuel ft name_get (repr r) = RReturn (VStr a) (with_mutex 1 1 (repr r'))
      | (None, _) => run fuel ft name_get (repr r) = RPanic PIndex
      end.
  Proof.
    intros fuel r Hf. destruct fuel as [|f]; [lia|].
    enter_fun name_get.
    pose proof (ensure_step f r [] 1 0 ["r"] ["r"] [] ltac:(lia)) as He. unfold ensure_stmt in He.
    rewrite xb_cons, He. clear He.
    pose proof (ensure_length r) as Hlen.
    unfold get. cbv zeta. set (r1 := ensure perm r) in *. clearbody r1. destruct r1 as [A1 I1 D1].
    cbn [iter addrs draws] in *. rewrite xb_cons, xs_set.
    destruct I1 as [|[|x g] rest]; unfold enc_groups at 2; cbn [map]; ev.
    - reflexivity.
    - cbn [Z.ltb Z.compare Z.to_nat nth_error]. unfold enc_group at 1. cbn [map]. ev.
      cbn [Z.ltb Z.compare Z.to_nat nth_error]. reflexivity.
    - cbn [Z.ltb Z.compare Z.to_nat nth_error]. unfold enc_group at 1. cbn [map]. ev.
      cbn [Z.ltb Z.compare Z.to_nat nth_error]. ev.
      rewrite xb_cons, xs_setidx. ev.
      change (0 <? 0)%Z with false. cbn [Z.to_nat nth_error]. ev.
      change (enc_group (x :: g)) with (VList (VStr x :: map VStr g)). ev. rewrite len_cons_lt1. cbn [Z.ltb Z.compare orb Z.to_nat Pos.to_nat Pos.iter_op Nat.add skipn]. ev.
      unfold set_idx. ev.
      assert (Hle : forall {B} (y : B) l, (Z.of_nat (length (y :: l)) <=? 0)%Z = false)
        by (intros; apply Z.leb_gt; cbn [length]; lia).
      rewrite Hle. cbn [Z.ltb Z.compare orb Z.to_nat firstn skipn app]. ev.
      pose proof (while_prune (g :: rest) f (enc_groups A1) [("addr", VStr x)] D1 1 0 ["r"] ["r"] []
                              ltac:(unfold groups, addr, bytes in *; cbn [length] in *; lia)) as Hw.
      unfold prune_stmt in Hw.
      change (enc_groups (g :: rest)) with (VList (VList (map VStr g) :: map enc_group rest)) in Hw.
      change (Pos.to_nat 1) with 1. cbn [skipn]. rewrite xb_cons, Hw. clear Hw.
      rewrite xb_cons, xs_ret. ev. leave_fun. reflexivity.
  Qed.
End RemoteRefines.

(* ---- non-vacuity: the interpreter really runs the translated bodies ---- *)
Definition ex_permI (d n : nat) : list nat := rev (seq 0 n).
Definition ex_remote : remote := mkRemote [[[97]; [98]]; [[99]]]%N [] 0.

Example ex_golite_get :
  run_fun ex_permI 10 golite_funcs name_get (repr ex_remote) =
  RReturn (VStr [98%N])
          (with_mutex 1 1 (repr (mkRemote [[[97]; [98]]; [[99]]]%N [[[97]]; [[99]]]%N 2))).
Proof. vm_compute. reflexivity. Qed.

Example ex_golite_get_third :
  match run_fun ex_permI 10 golite_funcs name_get (repr (mkRemote [[[97]; [98]]; [[99]]]%N [[[99]]]%N 2)) with
  | RReturn v st => v = VStr [99%N] /\ lookup "r.toIterate" (heap st) = Some (VList [])
  | _ => False
  end.
Proof. vm_compute. auto. Qed.

Example ex_golite_get_empty_panics :
  run_fun ex_permI 10 golite_funcs name_get (repr (mkRemote [] [] 0)) = RPanic PIndex.
Proof. vm_compute. reflexivity. Qed.

Example ex_golite_out_of_fuel :
  run_fun ex_permI 1 golite_funcs name_get (repr ex_remote) = ROutOfFuel.
Proof. vm_compute. reflexivity. Qed.

Example ex_golite_nextSeqid_wraps :
  run_fun ex_permI 1 golite_funcs "callContainer.nextSeqid" (seq_state (2 ^ 63 - 1)) =
  RReturn (VInt (2 ^ 63 - 1)) (with_mutex 1 1 (seq_state (- 2 ^ 63))).
Proof. vm_compute. reflexivity. Qed.

Print Assumptions golite_no_unsupported.
Print Assumptions golite_reset_refines.
Print Assumptions golite_get_refines.
Print Assumptions golite_peek_refines.
Print Assumptions golite_nextSeqid_spec.
Print Assumptions golite_seqids_closed_form.
Print Assumptions golite_seqids_distinct.
Print Assumptions golite_seqids_wrap_refuted.
