(* Facts about every path through function bodies regenerated from the source (Model/Paths.v) that C14 relies on, by
   computation over the finitely many paths.  One file per property, so that a source change breaks only the theorems of the
   property it concerns. *)
From FMP Require Import Model.Paths.
Theorem paths_connect_order : connect_paths_ordered = true. Proof. vm_compute. reflexivity. Qed.
Theorem paths_doreconnect : doreconnect_paths = true. Proof. vm_compute. reflexivity. Qed.
Print Assumptions paths_connect_order.
