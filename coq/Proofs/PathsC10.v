(* Facts about every path through function bodies regenerated from the source (Model/Paths.v) that C10 relies on, by
   computation over the finitely many paths. *)
From FMP Require Import Model.Paths.
Theorem paths_writer_exits_only_when_done : writer_loop_exits_only_when_done = true. Proof. vm_compute. reflexivity. Qed.
Print Assumptions paths_writer_exits_only_when_done.
