(* Invariants of the close / observers transition system (Model/Lifecycle.v). *)
From Coq Require Import ZifyBool Lia.
From FMP Require Import Base.Bytes Base.Lts Model.Events Model.Skeleton Model.Props Model.Lifecycle.
Open Scope Z_scope.

Definition old_lc_skeleton : skeleton :=
  mkSk true true true  true true true  true true
       true true true  true true true  true true true
       true true true true
       true true
       true true true true
       true true true true
       true false.

(* monitor state reached on the trace, tied to the LTS state *)
Definition LcInv (sk : skeleton) (st : lcstate) (m : option Z) : Prop :=
  sk_stop_err_in_once sk = true /\
  (lc_stop_closed st = false -> m = None) /\
  (lc_stop_closed st = true -> lc_stop_err st <> 0 /\ (m = None \/ m = Some (lc_stop_err st))) /\
  (* the error is written only by the winner of the once, before the stop channel closes, and never again *)
  (match lc_once st with
   | OnceFree => lc_stop_closed st = false /\ lc_stop_err st = 0
   | OnceAssign e => lc_stop_closed st = false /\ e <> 0 /\ lc_stop_err st = 0
   | OnceClose e => lc_stop_closed st = false /\ e <> 0 /\ lc_stop_err st = e
   | OnceRest | OnceDone => lc_stop_closed st = true
   end) /\
  (match lc_loop st with LpHasErr e => e <> 0 | _ => True end).

Lemma lc_step_inv : forall sk st l st' m,
    LcInv sk st m -> lcstep sk st l = Some st' ->
    exists m', run lifecycle_step m (rev (firstn (length (lc_hist st') - length (lc_hist st)) (lc_hist st'))) = Some m'
               /\ LcInv sk st' m' /\ exists evs, lc_hist st' = evs ++ lc_hist st.
Proof.
  intros sk st l st' m (Hsk & Hopen & Hclosed & Honce & Hloop) Hstep.
  destruct l; cbn [lcstep] in Hstep.
  - destruct (lc_loop st); inversion Hstep; subst; cbn.
    exists m. rewrite PeanoNat.Nat.sub_diag. cbn. split; [reflexivity|]. split; [repeat split; auto | exists []; reflexivity].
  - destruct (lc_loop st); try discriminate. destruct (Z.eqb_spec e 0); [discriminate|]. inversion Hstep; subst; cbn.
    exists m. rewrite PeanoNat.Nat.sub_diag. cbn. split; [reflexivity|]. split; [repeat split; auto | exists []; reflexivity].
  - destruct (lc_loop st); try discriminate. rewrite Hsk in Hstep. discriminate.
  - destruct (lc_loop st) eqn:El; try discriminate. destruct (lc_once st) eqn:Eo; try discriminate; inversion Hstep; subst; cbn.
    + exists m. rewrite PeanoNat.Nat.sub_diag. cbn. split; [reflexivity|].
      split; [|exists []; reflexivity]. destruct Honce as [H1 H2]. repeat split; auto.
    + exists m. rewrite PeanoNat.Nat.sub_diag. cbn. split; [reflexivity|].
      split; [|exists []; reflexivity]. repeat split; auto.
  - destruct (lc_once st) eqn:Eo; try discriminate; inversion Hstep; subst; cbn.
    exists m. rewrite PeanoNat.Nat.sub_diag. cbn. split; [reflexivity|].
    split; [|exists []; reflexivity]. destruct Honce as [H1 H2]. repeat split; auto. lia.
  - destruct (lc_once st) eqn:Eo; try discriminate; inversion Hstep; subst; cbn.
    exists m. rewrite PeanoNat.Nat.sub_diag. cbn. split; [reflexivity|].
    split; [|exists []; reflexivity]. destruct Honce as (H1 & H2 & H3). rewrite Hsk.
    repeat split; auto. intro Hc. cbn in Hc. congruence.
  - destruct (lc_once st) eqn:Eo; try discriminate; inversion Hstep; subst; cbn.
    exists m. rewrite PeanoNat.Nat.sub_diag. cbn. split; [reflexivity|].
    split; [|exists []; reflexivity]. destruct Honce as (H1 & H2 & H3).
    repeat split; auto; cbn; try congruence.
    left. apply Hopen. exact H1.
  - destruct (lc_once st) eqn:Eo; try discriminate; inversion Hstep; subst; cbn.
    exists m. rewrite PeanoNat.Nat.sub_diag. cbn. split; [reflexivity|].
    split; [|exists []; reflexivity]. repeat split; auto. destruct (lc_loop st); auto.
  - inversion Hstep; subst; cbn.
    replace (S (length (lc_hist st)) - length (lc_hist st))%nat with 1%nat by lia. cbn.
    destruct (lc_stop_closed st) eqn:Ec; cbn.
    + destruct (Hclosed eq_refl) as [Hne [Hm|Hm]]; subst m.
      * destruct (Z.eqb_spec (lc_stop_err st) 0); [contradiction|]. cbn.
        eexists. split; [reflexivity|]. split; [|eexists [_]; reflexivity].
        repeat split; auto; cbn; try congruence. intros _. split; auto.
      * destruct (Z.eqb_spec (lc_stop_err st) 0); [contradiction|]. cbn. rewrite Z.eqb_refl.
        eexists. split; [reflexivity|]. split; [|eexists [_]; reflexivity].
        repeat split; auto; cbn; try congruence. intros _. split; auto.
    + rewrite (Hopen eq_refl). cbn.
      eexists. split; [reflexivity|]. split; [|eexists [_]; reflexivity].
      repeat split; auto; cbn; congruence.
Qed.

Lemma firstn_app_exact : forall A (a b : list A), firstn (length (a ++ b) - length b) (a ++ b) = a.
Proof.
  intros A a b. rewrite app_length. replace (length a + length b - length b)%nat with (length a) by lia.
  rewrite firstn_app, PeanoNat.Nat.sub_diag, firstn_all. cbn. apply app_nil_r.
Qed.

Lemma lc_run_inv : forall sk ls st st' m,
    LcInv sk st m -> run lifecycle_step None (lc_trace st) = Some m -> run (lcstep sk) st ls = Some st' ->
    exists m', run lifecycle_step None (lc_trace st') = Some m' /\ LcInv sk st' m'.
Proof.
  intros sk. induction ls as [|l ls IH]; intros st st' m HI Hm Hr; cbn in Hr.
  - inversion Hr; subst. eauto.
  - destruct (lcstep sk st l) as [s1|] eqn:E; [|discriminate].
    destruct (lc_step_inv sk st l s1 m HI E) as (m1 & Hrun & HI1 & evs & Hh).
    rewrite Hh in Hrun. rewrite firstn_app_exact in Hrun.
    eapply IH; [exact HI1 | | exact Hr].
    unfold lc_trace. rewrite Hh, rev_app_distr, run_app. unfold lc_trace in Hm. rewrite Hm. exact Hrun.
Qed.

(* C07: for the skeleton of the current source, under every schedule of closers, the receive loop and observers, the
   observation trace is accepted by the lifecycle monitor *)
Theorem lifecycle_observers_agree : forall ls st,
    run (lcstep expected_skeleton) lc_init ls = Some st -> c07_lifecycle (lc_trace st) = true.
Proof.
  intros ls st Hr. unfold c07_lifecycle, accepts.
  destruct (lc_run_inv expected_skeleton ls lc_init st None) as (m' & Hm & _); [| reflexivity | exact Hr |].
  - repeat split; cbn; auto; congruence.
  - rewrite Hm. reflexivity.
Qed.

(* the stop channel closes at most once and is never reopened; the error is fixed from then on *)
Theorem lifecycle_stop_irreversible : forall sk ls st st',
    run (lcstep sk) st ls = Some st' -> lc_stop_closed st = true -> lc_stop_closed st' = true.
Proof.
  intros sk. induction ls as [|l ls IH]; intros st st' Hr Hc; cbn in Hr.
  - inversion Hr; subst; exact Hc.
  - destruct (lcstep sk st l) as [s1|] eqn:E; [|discriminate]. eapply IH; [exact Hr|].
    destruct l; cbn [lcstep] in E;
      repeat match type of E with
             | context [match ?x with _ => _ end] => destruct x eqn:?; try discriminate
             | context [if ?x then _ else _] => destruct x eqn:?; try discriminate
             end; inversion E; subst; cbn; auto.
Qed.

(* the old mechanism: a local Close, then an observer: Done is closed and err() is nil *)
Theorem lifecycle_local_close_err_nil_refuted : exists ls st,
    run (lcstep old_lc_skeleton) lc_init ls = Some st /\ c07_lifecycle (lc_trace st) = false.
Proof.
  exists [LcLocalEnterOnce; LcOnceAssign; LcOnceCloseStop; LcObserve]. eexists. split; vm_compute; reflexivity.
Qed.

