(* Invariants of the close / observers transition system (Model/Lifecycle.v). *)
From Coq Require Import Lia.
From FMP Require Import Base.Bytes Base.Lts Model.Events Model.Skeleton Model.Props Model.Lifecycle.
Open Scope Z_scope.

Definition old_lc_skeleton : skeleton :=
  mkSk true true true  true true true  true true
       true true true  true true true  true true true
       true true true true
       true true
       true true true true
       true true true true
       true false
       true.

(* ---------- state invariant for a skeleton that stores the stop error inside the once ---------- *)

(* the error is written only by the winner of the once, before the stop channel closes, and never again *)
Definition LcInv (st : lcstate) : Prop :=
  (match lc_once st with
   | OnceFree => lc_stop_closed st = false /\ lc_stop_err st = 0
   | OnceAssign e => lc_stop_closed st = false /\ e <> 0 /\ lc_stop_err st = 0
   | OnceClose e => lc_stop_closed st = false /\ e <> 0 /\ lc_stop_err st = e
   | OnceRest | OnceDone => lc_stop_closed st = true /\ lc_stop_err st <> 0
   end) /\
  (match lc_loop st with LpHasErr e => e <> 0 | _ => True end).

(* monitor state reached on the trace, tied to the LTS state *)
Definition MonRel (st : lcstate) (m : option Z) : Prop :=
  if lc_stop_closed st then m = None \/ m = Some (lc_stop_err st) else m = None.

Ltac lc_cases E :=
  repeat match type of E with
         | (match ?x with _ => _ end) = _ => destruct x eqn:?; try discriminate E
         end.

Lemma lc_init_inv : LcInv lc_init.
Proof. unfold LcInv; cbn. auto. Qed.

Lemma lc_step_inv : forall sk st l st',
    sk_stop_err_in_once sk = true -> LcInv st -> lcstep sk st l = Some st' -> LcInv st'.
Proof.
  intros sk st l st' Hsk [Honce Hloop] Hstep.
  destruct l; cbn [lcstep] in Hstep; try rewrite Hsk in Hstep; lc_cases Hstep;
    inversion Hstep; subst; clear Hstep; unfold LcInv; cbn [lc_once lc_loop lc_stop_closed lc_stop_err];
    repeat match goal with
           | H : lc_once _ = _ |- _ => rewrite H in *; clear H
           | H : lc_loop _ = _ |- _ => rewrite H in *; clear H
           end;
    try (apply Z.eqb_neq in Heqb);
    intuition (try congruence; try lia).
  all: destruct (lc_loop st); auto.
Qed.

Lemma lc_reach_inv : forall sk ls st st',
    sk_stop_err_in_once sk = true -> LcInv st -> run (lcstep sk) st ls = Some st' -> LcInv st'.
Proof.
  intros sk ls st st' Hsk HI Hr.
  eapply (invariant_run _ _ (lcstep sk) LcInv); [|exact HI|exact Hr].
  intros s l s' Hs Hst. eapply lc_step_inv; eauto.
Qed.

(* one step of the LTS extends the accepted monitor run *)
Lemma lc_step_mon : forall sk st l st' m,
    sk_stop_err_in_once sk = true -> LcInv st -> MonRel st m ->
    run lifecycle_step None (lc_trace st) = Some m ->
    lcstep sk st l = Some st' ->
    exists m', run lifecycle_step None (lc_trace st') = Some m' /\ MonRel st' m'.
Proof.
  intros sk st l st' m Hsk [Honce Hloop] Hmon Hrun Hstep.
  unfold MonRel in *.
  destruct l; cbn [lcstep] in Hstep; try rewrite Hsk in Hstep; lc_cases Hstep;
    inversion Hstep; subst; clear Hstep; unfold lc_trace in *; cbn [lc_hist lc_stop_closed lc_stop_err];
    repeat match goal with
           | H : lc_once _ = _ |- _ => rewrite H in *; clear H
           | H : lc_loop _ = _ |- _ => rewrite H in *; clear H
           end.
  (* all labels but LcObserve leave the history alone *)
  all: try (exists m; split; [exact Hrun|]; try exact Hmon;
            destruct (lc_stop_closed st) eqn:Ec; intuition congruence).
  - (* LcObserve *)
    cbn [rev]. rewrite run_app, Hrun. cbn [run lifecycle_step].
    destruct (lc_stop_closed st) eqn:Ec; cbn [negb orb andb].
    + assert (Hne : lc_stop_err st <> 0).
      { destruct (lc_once st); destruct Honce as (H1 & H2); try congruence.
        all: destruct H2; congruence. }
      apply Z.eqb_neq in Hne. rewrite Hne.
      destruct Hmon as [Hm|Hm]; subst m.
      * eexists. split; [reflexivity|]. right. reflexivity.
      * rewrite Z.eqb_refl. eexists. split; [reflexivity|]. right. reflexivity.
    + subst m. cbn. exists None. split; reflexivity.
Qed.

Lemma lc_run_mon : forall sk ls st st' m,
    sk_stop_err_in_once sk = true -> LcInv st -> MonRel st m ->
    run lifecycle_step None (lc_trace st) = Some m ->
    run (lcstep sk) st ls = Some st' ->
    exists m', run lifecycle_step None (lc_trace st') = Some m' /\ MonRel st' m'.
Proof.
  intros sk. induction ls as [|l ls IH]; intros st st' m Hsk HI HM Hm Hr; cbn in Hr.
  - inversion Hr; subst. eauto.
  - destruct (lcstep sk st l) as [s1|] eqn:E; [|discriminate].
    destruct (lc_step_mon sk st l s1 m Hsk HI HM Hm E) as (m1 & Hrun & HM1).
    eapply IH; [exact Hsk | eapply lc_step_inv; eauto | exact HM1 | exact Hrun | exact Hr].
Qed.

Lemma expected_in_once : sk_stop_err_in_once expected_skeleton = true.
Proof. reflexivity. Qed.

(* C07: for the skeleton of the current source, under every schedule of closers, the receive loop and observers, the
   observation trace is accepted by the lifecycle monitor *)
Theorem lifecycle_observers_agree : forall ls st,
    run (lcstep expected_skeleton) lc_init ls = Some st -> c07_lifecycle (lc_trace st) = true.
Proof.
  intros ls st Hr. unfold c07_lifecycle, accepts.
  destruct (lc_run_mon expected_skeleton ls lc_init st None expected_in_once lc_init_inv) as (m' & Hm & _);
    [reflexivity | reflexivity | exact Hr |].
  rewrite Hm. reflexivity.
Qed.

(* the stop channel closes at most once and is never reopened (any skeleton) *)
Theorem lifecycle_stop_irreversible : forall sk ls st st',
    run (lcstep sk) st ls = Some st' -> lc_stop_closed st = true -> lc_stop_closed st' = true.
Proof.
  intros sk. induction ls as [|l ls IH]; intros st st' Hr Hc; cbn in Hr.
  - inversion Hr; subst; exact Hc.
  - destruct (lcstep sk st l) as [s1|] eqn:E; [|discriminate]. eapply IH; [exact Hr|].
    destruct l; cbn [lcstep] in E; lc_cases E; inversion E; subst; cbn; auto.
Qed.

(* once the stop channel is closed the error is non-nil and no step changes it *)
Lemma lc_step_err_fixed : forall sk st l st',
    sk_stop_err_in_once sk = true -> LcInv st -> lc_stop_closed st = true ->
    lcstep sk st l = Some st' -> lc_stop_err st' = lc_stop_err st.
Proof.
  intros sk st l st' Hsk [Honce _] Hc Hstep.
  destruct l; cbn [lcstep] in Hstep; try rewrite Hsk in Hstep; lc_cases Hstep;
    inversion Hstep; subst; clear Hstep; cbn [lc_stop_err]; try reflexivity.
  (* LcOnceAssign: impossible when closed *)
  destruct Honce as (H1 & _). congruence.
Qed.

Lemma lc_closed_err_nonzero : forall st, LcInv st -> lc_stop_closed st = true -> lc_stop_err st <> 0.
Proof.
  intros st [Honce _] Hc. destruct (lc_once st); destruct Honce as (H1 & H2); try congruence.
  all: destruct H2; congruence.
Qed.

Theorem lifecycle_err_fixed : forall ls ls' st st',
    run (lcstep expected_skeleton) lc_init ls = Some st -> lc_stop_closed st = true ->
    run (lcstep expected_skeleton) st ls' = Some st' -> lc_stop_err st' = lc_stop_err st /\ lc_stop_err st <> 0%Z.
Proof.
  intros ls ls' st st' Hr Hc Hr'.
  assert (HI : LcInv st) by (eapply lc_reach_inv; [exact expected_in_once | exact lc_init_inv | exact Hr]).
  split; [|apply lc_closed_err_nonzero; assumption].
  clear Hr. revert st st' HI Hc Hr'.
  induction ls' as [|l ls' IH]; intros st st' HI Hc Hr'; cbn in Hr'.
  - inversion Hr'; subst; reflexivity.
  - destruct (lcstep expected_skeleton st l) as [s1|] eqn:E; [|discriminate].
    assert (HI1 : LcInv s1) by (eapply lc_step_inv; [exact expected_in_once | exact HI | exact E]).
    assert (Hc1 : lc_stop_closed s1 = true)
      by (apply (lifecycle_stop_irreversible expected_skeleton [l] st s1); [cbn; rewrite E; reflexivity | exact Hc]).
    rewrite (IH s1 st' HI1 Hc1 Hr').
    eapply lc_step_err_fixed; [exact expected_in_once | exact HI | exact Hc | exact E].
Qed.

(* the old mechanism: a local Close, then an observer: Done is closed and err() is nil *)
Theorem lifecycle_local_close_err_nil_refuted : exists ls st,
    run (lcstep old_lc_skeleton) lc_init ls = Some st /\ c07_lifecycle (lc_trace st) = false.
Proof.
  exists [LcLocalEnterOnce; LcOnceAssign; LcOnceCloseStop; LcObserve]. eexists.
  split; [vm_compute; reflexivity|]. vm_compute. reflexivity.
Qed.

(* the old mechanism: a local Close wins the once while the receive loop holds a fatal error; the loop stores its
   error outside the once after the stop channel closed: two observers that both see Done closed read different
   errors (nil, then the loop's error) *)
Theorem lifecycle_err_changes_refuted : exists ls st,
    run (lcstep old_lc_skeleton) lc_init ls = Some st /\ c07_lifecycle (lc_trace st) = false /\
    exists e1 e2, e1 <> e2 /\ In (AObserve true false e1) (lc_trace st) /\ In (AObserve true false e2) (lc_trace st).
Proof.
  exists [LcStartLoop; LcLoopErr 2; LcLocalEnterOnce; LcOnceAssign; LcOnceCloseStop; LcObserve;
          LcLoopAssignOutside; LcObserve].
  eexists. split; [vm_compute; reflexivity|]. split; [vm_compute; reflexivity|].
  exists 0, 2. split; [discriminate|]. cbn. split; [left; reflexivity | right; left; reflexivity].
Qed.

Print Assumptions lifecycle_observers_agree.
Print Assumptions lifecycle_stop_irreversible.
Print Assumptions lifecycle_err_fixed.
Print Assumptions lifecycle_local_close_err_nil_refuted.
Print Assumptions lifecycle_err_changes_refuted.
