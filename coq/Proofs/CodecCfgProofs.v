(* the facts of Model/CodecCfg.v hold of the current source (regenerated censuses) *)
From FMP Require Import Model.GenTypes Model.Generated Model.CodecCfg.
Lemma codecfacts_generated_ok : codecfacts_now = expected_codecfacts.
Proof. vm_compute. reflexivity. Qed.
Lemma codec_blocking_senders : cdf_blocking_senders codecfacts_now = true /\ cdf_cancel_async codecfacts_now = true.
Proof. rewrite codecfacts_generated_ok. split; reflexivity. Qed.
Lemma codec_length_checked : cdf_length_checked codecfacts_now = true.
Proof. rewrite codecfacts_generated_ok. reflexivity. Qed.
Lemma codec_size_reported : cdf_size_reported codecfacts_now = true.
Proof. rewrite codecfacts_generated_ok. reflexivity. Qed.
Lemma codec_nextframe_once : cdf_nextframe_once codecfacts_now = true.
Proof. rewrite codecfacts_generated_ok. reflexivity. Qed.
Lemma codec_tags_fresh_map : cdf_tags_fresh_map codecfacts_now = true.
Proof. rewrite codecfacts_generated_ok. reflexivity. Qed.
Lemma codec_taskloop_cancels : cdf_taskloop_cancels codecfacts_now = true.
Proof. rewrite codecfacts_generated_ok. reflexivity. Qed.
