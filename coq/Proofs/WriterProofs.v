(* Invariants of the send-side transition system (Model/Writer.v): every trace, under every schedule, is accepted
   by the monitors of Model/Props.v. *)
From Coq Require Import ZifyBool Lia.
From FMP Require Import Base.Bytes Base.Lts Model.Events Model.Skeleton Model.Props Model.Writer.
Open Scope Z_scope.

(* ------------------------------------------------------------------------------------------------------------ *)
(* find / update                                                                                                *)
(* ------------------------------------------------------------------------------------------------------------ *)

Lemma find_nonce : forall c l s, find c l = Some s -> s_nonce s = c.
Proof.
  induction l as [|a l IH]; simpl; intros s H; [discriminate|].
  destruct (Z.eqb_spec (s_nonce a) c) as [e|ne]; [inversion H; subst; reflexivity | auto].
Qed.

Lemma find_In : forall c l s, find c l = Some s -> In s l.
Proof.
  induction l as [|a l IH]; simpl; intros s H; [discriminate|].
  destruct (s_nonce a =? c); [inversion H; subst; auto | auto].
Qed.

Lemma find_update : forall c d f l, (forall s, s_nonce (f s) = s_nonce s) ->
    find c (update d f l) = if c =? d then option_map f (find c l) else find c l.
Proof.
  intros c d f l Hf. induction l as [|a l IH]; simpl.
  - destruct (c =? d); reflexivity.
  - destruct (Z.eqb_spec (s_nonce a) d) as [e|ne]; simpl.
    + rewrite Hf. destruct (Z.eqb_spec c d) as [e'|ne'].
      * subst. rewrite Z.eqb_refl. reflexivity.
      * destruct (Z.eqb_spec (s_nonce a) c); [lia | reflexivity].
    + destruct (Z.eqb_spec (s_nonce a) c) as [e'|ne'].
      * destruct (Z.eqb_spec c d); [lia | reflexivity].
      * exact IH.
Qed.

Lemma find_app : forall c l cs,
    find c (l ++ [cs]) = match find c l with
                         | Some s => Some s
                         | None => if s_nonce cs =? c then Some cs else None
                         end.
Proof.
  intros c l cs. induction l as [|a l IH]; simpl; [reflexivity|].
  destruct (s_nonce a =? c); [reflexivity | exact IH].
Qed.

(* ------------------------------------------------------------------------------------------------------------ *)
(* case analysis of one step                                                                                    *)
(* ------------------------------------------------------------------------------------------------------------ *)

Ltac destr_in H :=
  repeat match type of H with
         | context [match ?x with _ => _ end] =>
             revert H; destruct x eqn:?; intro H; try discriminate H
         end.

(* H : step sk st l = Some st' ; st' must be a variable *)
Ltac step_cases H :=
  match type of H with step _ _ ?l = Some _ => destruct l end;
  unfold step in H; destr_in H;
  injection H as <-; unfold upd; cbn [senders writer writer_alive done_closed stop_closed conn_ok next_seq hist].

Ltac nonce_ok := intros; reflexivity.

(* what never changes / only grows along a step, per sender *)
Definition mono (s s' : sender) : Prop :=
  s_kind s' = s_kind s /\ s_notifier s' = s_notifier s /\ s_nonce s' = s_nonce s /\
  (s_handed s = true -> s_handed s' = true) /\
  (s_pc s <> PNew -> s_seq s' = s_seq s /\ s_pc s' <> PNew) /\
  (forall r, s_pc s = PRet r -> s_pc s' = PRet r /\ s_handed s' = s_handed s).

Lemma mono_refl : forall s, mono s s.
Proof. intros s. unfold mono. repeat split; auto. Qed.

Ltac find_upd :=
  repeat (rewrite find_app in * );
  repeat (rewrite find_update in * by nonce_ok).

(* after [find_upd]: split on whether the sender looked up (c0, with Hf : find c0 (senders st) = Some s0) is the one
   that moved; in the first case identify it with the sender found by the step *)
Ltac unify_found d Hf s0 :=
  repeat match goal with
         | E : find d _ = Some ?s |- _ =>
             tryif constr_eq s s0 then fail else (rewrite Hf in E; injection E as E; subst s)
         end.

Lemma step_mono : forall sk st l st', step sk st l = Some st' ->
    forall c s, find c (senders st) = Some s -> exists s', find c (senders st') = Some s' /\ mono s s'.
Proof.
  intros sk st l st' H. step_cases H; intros c0 s0 Hf; find_upd;
    first
      [ solve [exists s0; split; [assumption | apply mono_refl]]
      | match goal with |- context [if c0 =? ?d then _ else _] => destruct (Z.eqb_spec c0 d) as [e|ne] end;
        [ subst c0;
          match goal with |- context [find ?d _] => unify_found d Hf s0 end;
          rewrite Hf; simpl; eexists; (split; [reflexivity|]); unfold mono; simpl;
          repeat split; auto; try congruence
        | rewrite Hf; exists s0; split; [reflexivity | apply mono_refl] ] ].
Qed.

(* ------------------------------------------------------------------------------------------------------------ *)
(* well-formedness of reachable states                                                                          *)
(* ------------------------------------------------------------------------------------------------------------ *)

Definition early (p : spc) : bool :=
  match p with PNew | PEnc | PSelect | PAsyncSelect => true | _ => false end.

(* per-sender facts *)
Definition lok (s : sender) : bool :=
  (if early (s_pc s) then negb (s_handed s) && match s_errch s with None => true | _ => false end else true)
  && match s_errch s with Some WTooBig | Some WCtx => negb (s_handed s) | _ => true end
  && match s_pc s with PWait2 | PCancel => match s_kind s with SCall => true | _ => false end | _ => true end
  && match s_kind s with
     | SCancelFrame => match s_pc s with PAsyncSelect | PRet _ => true | _ => false end && negb (s_notifier s)
     | _ => true
     end.

Definition holds (st : wstate) (c : Z) : bool :=
  match writer st with Some (d, _) => d =? c | None => false end.

Record WF (st : wstate) : Prop := mkWF {
  wf_lok : forall c s, find c (senders st) = Some s -> lok s = true;
  wf_seq : forall c s, find c (senders st) = Some s -> s_kind s = SCall -> s_pc s <> PNew -> s_seq s < next_seq st;
  wf_wr : forall c ph, writer st = Some (c, ph) -> exists s, find c (senders st) = Some s /\ s_handed s = true;
  wf_uniq : forall c d s t, find c (senders st) = Some s -> find d (senders st) = Some t ->
                            s_kind s = SCall -> s_kind t = SCall -> s_pc s <> PNew -> s_pc t <> PNew ->
                            s_seq s = s_seq t -> c = d
}.

(* backward analysis: Hf : find c0 (senders st') = Some s' after [step_cases] *)
Ltac back Hf :=
  find_upd;
  try (match type of Hf with
       | context [if ?c0 =? ?d then _ else _] =>
           match goal with E : find d _ = Some _ |- _ =>
             destruct (Z.eqb_spec c0 d); [subst c0; rewrite E in Hf |] end
       end);
  simpl in Hf; destr_in Hf; try (injection Hf as <-).

Ltac crunch_fields :=
  repeat match goal with x : bool |- _ => clear x end;
  repeat match goal with
         | x : spc |- _ => destruct x
         | x : skind |- _ => destruct x
         | x : bool |- _ => destruct x
         | x : option werr |- _ => destruct x
         | x : werr |- _ => destruct x
         end; simpl in *; try discriminate; try reflexivity.

(* the bundle held by the writer belongs to a handed sender *)
Ltac writer_handed Hwf :=
  try match goal with
      | W : writer ?st = Some (?z, _), E : find ?z (senders ?st) = Some ?s |- _ =>
          let Hh := fresh "Hh" in
          assert (Hh : s_handed s = true)
            by (let sw := fresh in let A := fresh in let B := fresh in
                destruct (wf_wr _ Hwf _ _ W) as (sw & A & B); congruence)
      end.

Lemma step_lok : forall sk st l st', WF st ->
    step sk st l = Some st' -> forall c s, find c (senders st') = Some s -> lok s = true.
Proof.
  intros sk st l st' Hwf H. step_cases H; writer_handed Hwf; intros c0 s' Hf; back Hf;
    try (eapply wf_lok; eassumption);
    match goal with E : find _ (senders st) = Some ?s |- lok _ = true =>
      let Hl := fresh "Hl" in
      pose proof (wf_lok _ Hwf _ _ E) as Hl; clear Hwf; clear E; unfold lok in *;
      destruct s; simpl in *; subst; simpl in *; crunch_fields
    end.
Qed.

Lemma step_back_call : forall sk st l st', step sk st l = Some st' ->
    forall c0 s', find c0 (senders st') = Some s' -> s_kind s' = SCall -> s_pc s' <> PNew ->
    (exists s, find c0 (senders st) = Some s /\ s_kind s = SCall /\ s_pc s <> PNew /\ s_seq s = s_seq s'
               /\ next_seq st <= next_seq st')
    \/ (s_seq s' = next_seq st /\ l = LStart c0 /\ next_seq st' = next_seq st + 1).
Proof.
  intros sk st l st' H. step_cases H; intros c0 s' Hf Hk Hp; back Hf; simpl in *;
    first [ solve [left; eexists; repeat split; eauto; try congruence; try lia]
          | solve [right; repeat split; auto; lia]
          | congruence ].
Qed.

Lemma step_writer : forall sk st l st' c ph, step sk st l = Some st' -> writer st' = Some (c, ph) ->
    (exists ph0, writer st = Some (c, ph0)) \/
    (writer st = None /\ l = LHandoff c /\
     exists s, find c (senders st) = Some s /\ (s_pc s = PSelect \/ s_pc s = PAsyncSelect) /\
     exists s', find c (senders st') = Some s' /\ s_handed s' = true).
Proof.
  intros sk st l st' c0 ph0 H. step_cases H; intros Hw;
    try solve [left; eexists; eassumption]; try discriminate Hw.
  - injection Hw as <- <-. right. repeat split; auto. eexists; split; [eassumption|]. split; [auto|].
    find_upd. rewrite Z.eqb_refl. rewrite Heqo. simpl. eexists; split; reflexivity.
  - injection Hw as <- <-. right. repeat split; auto. eexists; split; [eassumption|]. split; [auto|].
    find_upd. rewrite Z.eqb_refl. rewrite Heqo. simpl. eexists; split; reflexivity.
  - injection Hw as <- <-. left. eexists; reflexivity.
  - injection Hw as <- <-. left. eexists; reflexivity.
Qed.

Lemma step_WF : forall sk st l st', WF st -> step sk st l = Some st' -> WF st'.
Proof.
  intros sk st l st' Hwf H. constructor.
  - eapply step_lok; eassumption.
  - intros c s Hf Hk Hp.
    destruct (step_back_call _ _ _ _ H _ _ Hf Hk Hp) as [(s0 & F0 & K0 & P0 & Q0 & N0) | (Q & _ & N)].
    + pose proof (wf_seq _ Hwf _ _ F0 K0 P0). lia.
    + lia.
  - intros c ph Hw.
    destruct (step_writer _ _ _ _ _ _ H Hw) as [(ph0 & W0) | (_ & _ & s0 & _ & _ & s'' & F' & Hh)].
    + destruct (wf_wr _ Hwf _ _ W0) as (s0 & F0 & H0).
      destruct (step_mono _ _ _ _ H _ _ F0) as (s' & F' & M). exists s'. split; [assumption|].
      apply M. assumption.
    + exists s''. auto.
  - intros c d s t Fs Ft Ks Kt Ps Pt Q.
    destruct (step_back_call _ _ _ _ H _ _ Fs Ks Ps) as [(s0 & F0 & K0 & P0 & Q0 & N0) | (Q0 & L0 & N0)];
    destruct (step_back_call _ _ _ _ H _ _ Ft Kt Pt) as [(t0 & F1 & K1 & P1 & Q1 & N1) | (Q1 & L1 & N1)].
    + eapply (wf_uniq _ Hwf); try eassumption. congruence.
    + pose proof (wf_seq _ Hwf _ _ F0 K0 P0). lia.
    + pose proof (wf_seq _ Hwf _ _ F1 K1 P1). lia.
    + congruence.
Qed.

Lemma fresh_props : forall ss c s, fresh_ok ss = true -> find c ss = Some s ->
    s_pc s = PNew /\ s_kind s <> SCancelFrame /\ s_handed s = false /\ s_errch s = None.
Proof.
  intros ss c s Hfr Hf. unfold fresh_ok in Hfr. apply andb_prop in Hfr. destruct Hfr as [_ Hall].
  rewrite forallb_forall in Hall. specialize (Hall _ (find_In _ _ _ Hf)).
  destruct (s_pc s); try discriminate. destruct (s_kind s); try discriminate;
    destruct (s_ctx s), (s_handed s), (s_reply s), (s_errch s); simpl in Hall; try discriminate;
    repeat split; congruence.
Qed.

Lemma init_WF : forall ss, fresh_ok ss = true -> WF (init ss).
Proof.
  intros ss Hfr. constructor; simpl.
  - intros c s Hf. destruct (fresh_props _ _ _ Hfr Hf) as (P & K & Hh & E).
    unfold lok. rewrite P, Hh, E. simpl. destruct (s_kind s); try reflexivity. congruence.
  - intros c s Hf _ Hp. destruct (fresh_props _ _ _ Hfr Hf) as (P & _). congruence.
  - intros c ph Hw. discriminate.
  - intros c d s t Hf _ _ _ Hp. destruct (fresh_props _ _ _ Hfr Hf) as (P & _). congruence.
Qed.

Lemma reach_WF : forall sk ss ls st, fresh_ok ss = true -> run (step sk) (init ss) ls = Some st -> WF st.
Proof.
  intros sk ss ls st Hfr Hr.
  eapply (invariant_run _ _ (step sk) WF); [ | apply init_WF; eassumption | eassumption].
  intros s l s' Hs Hst. eapply step_WF; eassumption.
Qed.

Lemma lok_handed : forall s, lok s = true -> s_handed s = true -> early (s_pc s) = false.
Proof.
  intros s Hl Hh. unfold lok in Hl. rewrite Hh in Hl. destruct (early (s_pc s)); [simpl in Hl; discriminate | reflexivity].
Qed.

Lemma holds_stable : forall sk st l st' c s, WF st -> step sk st l = Some st' ->
    find c (senders st) = Some s -> (s_handed s = true \/ exists r, s_pc s = PRet r) ->
    holds st c = false -> holds st' c = false.
Proof.
  intros sk st l st' c s Hwf H Hf Hs Hh. unfold holds in *.
  destruct (writer st') as [[d ph]|] eqn:W; [|reflexivity].
  destruct (step_writer _ _ _ _ _ _ H W) as [(ph0 & W0) | (_ & _ & s1 & F1 & P1 & _)].
  - rewrite W0 in Hh. exact Hh.
  - destruct (Z.eqb_spec d c) as [e|ne]; [|reflexivity]. subst d. rewrite Hf in F1. injection F1 as <-.
    destruct Hs as [Hd | (r & Hr)].
    + pose proof (lok_handed _ (wf_lok _ Hwf _ _ Hf) Hd) as He.
      destruct P1 as [P1|P1]; rewrite P1 in He; discriminate.
    + destruct P1 as [P1|P1]; congruence.
Qed.

(* ------------------------------------------------------------------------------------------------------------ *)
(* the event emitted by a step                                                                                  *)
(* ------------------------------------------------------------------------------------------------------------ *)

Definition event_of (st : wstate) (l : label) : option aev :=
  match l with
  | LStart c => Some (AStart c)
  | LRecvVerdict c =>
      match find c (senders st) with
      | Some s => match s_errch s with
                  | Some WOk => match s_kind s with SCall => None | _ => Some (ARet c ROk) end
                  | Some e => Some (ARet c (rclass_of e))
                  | None => None
                  end
      | None => None
      end
  | LWaitCtx c =>
      match find c (senders st) with
      | Some s => match s_kind s with SCall => None | _ => Some (ARet c RCtx) end
      | None => None
      end
  | LWaitStop c => Some (ARet c REof)
  | LRecvReply c => Some (ARet c ROk)
  | LQueueCancel c => Some (ARet c RCtx)
  | LWriterNotify =>
      match writer st with
      | Some (c, _) => match find c (senders st) with
                       | Some s => if s_notifier s then Some (ANotifier (s_seq s)) else None
                       | None => None
                       end
      | None => None
      end
  | LWriterWrite =>
      match writer st with
      | Some (c, _) => match find c (senders st) with
                       | Some s => Some (if conn_ok st then AWrite (info s) else AWriteFail (info s))
                       | None => None
                       end
      | None => None
      end
  | LCtxDone c => Some (ACtx c)
  | _ => None
  end.

Definition evs (st : wstate) (l : label) : list aev :=
  match event_of st l with Some e => [e] | None => [] end.

Lemma step_hist : forall sk st l st', step sk st l = Some st' -> hist st' = evs st l ++ hist st.
Proof.
  intros sk st l st' H. unfold evs, event_of. step_cases H; try reflexivity.
Qed.

Lemma step_trace : forall sk st l st', step sk st l = Some st' -> trace st' = trace st ++ evs st l.
Proof.
  intros sk st l st' H. unfold trace. rewrite (step_hist _ _ _ _ H). rewrite rev_app_distr.
  unfold evs. destruct (event_of st l); reflexivity.
Qed.

Definition retd (st : wstate) (a : Z) : Prop :=
  exists s r, find a (senders st) = Some s /\ s_pc s = PRet r.

Lemma step_write_inv : forall sk st st', step sk st LWriterWrite = Some st' ->
    exists c s, writer st = Some (c, WNotified) /\ find c (senders st) = Some s /\ writer st' = None /\
                evs st LWriterWrite = [if conn_ok st then AWrite (info s) else AWriteFail (info s)].
Proof.
  intros sk st st' H. unfold evs, event_of.
  remember LWriterWrite as l eqn:El. step_cases H; try discriminate El;
    eexists; eexists; repeat split; try eassumption; reflexivity.
Qed.

Lemma step_notify_inv : forall sk st st', step sk st LWriterNotify = Some st' ->
    exists c s, writer st = Some (c, WGot) /\ find c (senders st) = Some s /\ writer st' = Some (c, WNotified) /\
                senders st' = senders st /\
                evs st LWriterNotify = if s_notifier s then [ANotifier (s_seq s)] else [].
Proof.
  intros sk st st' H. unfold evs, event_of.
  remember LWriterNotify as l eqn:El. step_cases H; try discriminate El;
    eexists; eexists; repeat split; try eassumption; try reflexivity;
    match goal with E : s_notifier _ = _ |- _ => rewrite E end; reflexivity.
Qed.

Lemma step_writer_fwd : forall sk st l st', step sk st l = Some st' -> l <> LWriterNotify -> l <> LWriterWrite ->
    writer st' = writer st \/ (writer st = None /\ exists c, writer st' = Some (c, WGot)).
Proof.
  intros sk st l st' H. step_cases H; intros N1 N2; try congruence;
    try (left; reflexivity); try (left; symmetry; assumption); right; split; eauto.
Qed.

Lemma step_evs_cases : forall sk st l st', WF st -> step sk st l = Some st' ->
    evs st l = [] \/
    (exists c, evs st l = [AStart c] /\ l = LStart c) \/
    (exists a r, evs st l = [ARet a r] /\ retd st' a /\
                 (r = RTooBig -> exists s', find a (senders st') = Some s' /\ s_handed s' = false /\
                                            s_errch s' = None)) \/
    (exists c, evs st l = [ACtx c]) \/
    (exists q, evs st l = [ANotifier q] /\ l = LWriterNotify) \/
    l = LWriterWrite.
Proof.
  intros sk st l st' Hwf H. unfold evs, event_of, retd. step_cases H;
    try (left; reflexivity);
    try (right; left; eexists; split; reflexivity);
    try (right; right; right; left; eexists; reflexivity);
    try (right; right; right; right; left; eexists; split; reflexivity);
    try (right; right; right; right; right; reflexivity).
  all: right; right; left; eexists; eexists; (split; [reflexivity|]); find_upd; rewrite ?Z.eqb_refl;
    match goal with E : find _ _ = Some _ |- _ => rewrite E end; simpl;
    (split; [eexists; eexists; split; reflexivity|]); intros Hr; try discriminate Hr.
  eexists; split; [reflexivity|]. simpl. split; [|reflexivity].
  pose proof (wf_lok _ Hwf _ _ Heqo) as Hl. unfold lok in Hl. rewrite Heqo0 in Hl.
  destruct (s_handed s); [|reflexivity]. rewrite !andb_false_r in Hl. simpl in Hl.
  repeat (rewrite ?andb_false_r in Hl; simpl in Hl). discriminate Hl.
Qed.

Lemma step_back_handed : forall sk st l st', step sk st l = Some st' ->
    forall b sb', find b (senders st') = Some sb' -> s_handed sb' = true ->
    (exists sb, find b (senders st) = Some sb /\ s_handed sb = true) \/ writer st = None.
Proof.
  intros sk st l st' H. step_cases H; intros b sb' Hf Hh; back Hf; simpl in *;
    first [ solve [left; eexists; split; eauto] | solve [right; first [assumption | reflexivity]] | discriminate ].
Qed.

Lemma step_back_cancel : forall sk st l st', step sk st l = Some st' ->
    forall n cs', find n (senders st') = Some cs' -> s_kind cs' = SCancelFrame ->
    (exists cs, find n (senders st) = Some cs /\ s_kind cs = SCancelFrame /\ s_seq cs' = s_seq cs /\
                (s_handed cs' = true -> s_handed cs = true \/ writer st = None))
    \/ (exists c s sc', n = cancel_nonce c /\ find c (senders st) = Some s /\ s_pc s = PCancel /\ s_seq cs' = s_seq s /\
                        s_handed cs' = false /\
                        find c (senders st') = Some sc' /\ s_pc sc' = PRet RCtx /\ s_kind sc' = s_kind s /\
                        s_seq sc' = s_seq s).
Proof.
  intros sk st l st' H. step_cases H; intros n cs' Hf Hk; back Hf; simpl in *; try congruence;
    try solve [left; eexists; repeat split; eauto].
  right. exists c, s, (set_pc (PRet RCtx) s). split; [symmetry; apply Z.eqb_eq; assumption|]. repeat split; auto.
  find_upd. rewrite Z.eqb_refl, Heqo. reflexivity.
Qed.

(* ------------------------------------------------------------------------------------------------------------ *)
(* monitors: generic part                                                                                       *)
(* ------------------------------------------------------------------------------------------------------------ *)

Lemma memz_In : forall x l, memz x l = true <-> In x l.
Proof.
  intros x l. induction l as [|y l IH]; simpl; [split; [discriminate | tauto]|].
  rewrite orb_true_iff, IH. split; intros [A|A]; auto.
  - left. apply Z.eqb_eq in A. auto.
  - left. apply Z.eqb_eq. auto.
Qed.

Lemma run_step_trace : forall {S} (mon : S -> aev -> option S) m0 sk st l st' m,
    step sk st l = Some st' -> run mon m0 (trace st) = Some m ->
    run mon m0 (trace st') = run mon m (evs st l).
Proof.
  intros S mon m0 sk st l st' m H R. rewrite (step_trace _ _ _ _ H), run_app, R. reflexivity.
Qed.

Lemma run_one : forall {S} (mon : S -> aev -> option S) m e, run mon m [e] = mon m e.
Proof. intros S mon m e. simpl. destruct (mon m e); reflexivity. Qed.

Lemma handed_not_new : forall s, lok s = true -> s_handed s = true -> s_pc s <> PNew.
Proof.
  intros s Hl Hh Hp. pose proof (lok_handed _ Hl Hh) as He. rewrite Hp in He. discriminate.
Qed.

Lemma holds_writer : forall st c ph, writer st = Some (c, ph) -> holds st c = true.
Proof. intros st c ph W. unfold holds. rewrite W. apply Z.eqb_refl. Qed.

Lemma holds_none : forall st c, writer st = None -> holds st c = false.
Proof. intros st c W. unfold holds. rewrite W. reflexivity. Qed.

Lemma accepts_of_run : forall {S} (mon : S -> aev -> option S) m0 tr m,
    run mon m0 tr = Some m -> accepts mon m0 tr = true.
Proof. intros S mon m0 tr m R. unfold accepts. rewrite R. reflexivity. Qed.

(* generic: an invariant of (state, monitor state) pairs along runs *)
Lemma monitor_run : forall {S} (mon : S -> aev -> option S) m0 (P : wstate -> S -> Prop) sk ss,
    fresh_ok ss = true -> P (init ss) m0 ->
    (forall st l st' m, WF st -> step sk st l = Some st' -> run mon m0 (trace st) = Some m -> P st m ->
                        exists m', run mon m (evs st l) = Some m' /\ P st' m') ->
    forall ls st, run (step sk) (init ss) ls = Some st ->
                  exists m, run mon m0 (trace st) = Some m /\ P st m.
Proof.
  intros S mon m0 P sk ss Hfr Hi Hs ls st Hr.
  assert (G : WF st /\ exists m, run mon m0 (trace st) = Some m /\ P st m).
  { eapply (invariant_run _ _ (step sk) (fun st => WF st /\ exists m, run mon m0 (trace st) = Some m /\ P st m));
      [ | | eassumption].
    - intros s l s' (Hwf & m & R & Pm) Hst. split; [eapply step_WF; eassumption|].
      destruct (Hs _ _ _ _ Hwf Hst R Pm) as (m' & R' & P'). exists m'. split; [|assumption].
      rewrite (run_step_trace _ _ _ _ _ _ _ Hst R). assumption.
    - split; [apply init_WF; assumption|]. exists m0. split; [reflexivity | assumption]. }
  apply G.
Qed.

(* ------------------------------------------------------------------------------------------------------------ *)
(* C13 (b): sequence numbers                                                                                    *)
(* ------------------------------------------------------------------------------------------------------------ *)

Definition seen_inv (st : wstate) (m : list Z) : Prop :=
  forall q, In q m -> exists c s, find c (senders st) = Some s /\ s_kind s = SCall /\ s_seq s = q /\
                                  s_handed s = true /\ holds st c = false.

Lemma seen_pres : forall sk st l st' m, WF st -> step sk st l = Some st' -> seen_inv st m -> seen_inv st' m.
Proof.
  intros sk st l st' m Hwf H I q Hq. destruct (I q Hq) as (c & s & F & K & Q & Hh & Ho).
  destruct (step_mono _ _ _ _ H _ _ F) as (s' & F' & Mk & _ & _ & Mh & Ms & _).
  exists c, s'. split; [assumption|]. split; [congruence|].
  destruct (Ms (handed_not_new _ (wf_lok _ Hwf _ _ F) Hh)) as [Q' _].
  split; [congruence|]. split; [auto|].
  eapply holds_stable; eauto.
Qed.

Lemma seqno_step_ok : forall sk st l st' m, WF st -> step sk st l = Some st' ->
    run seqno_step [] (trace st) = Some m -> seen_inv st m ->
    exists m', run seqno_step m (evs st l) = Some m' /\ seen_inv st' m'.
Proof.
  intros sk st l st' m Hwf H _ I. pose proof (seen_pres _ _ _ _ _ Hwf H I) as I'.
  destruct (step_evs_cases _ _ _ _ Hwf H) as [E | [(c & E & _) | [(a & r & E & _) | [(c & E) | [(q & E & _) | L]]]]];
    try (rewrite E; simpl; exists m; split; [reflexivity | exact I']).
  subst l. destruct (step_write_inv _ _ _ H) as (c & s & W & F & W' & E). rewrite E.
  destruct (wf_wr _ Hwf _ _ W) as (s0 & F0 & Hh). rewrite F in F0. injection F0 as <-.
  assert (Hev : forall fi, fi = info s ->
            exists m', (if is_callk (fi_kind fi) then (if memz (fi_seq fi) m then None else Some (fi_seq fi :: m))
                        else Some m) = Some m' /\ seen_inv st' m').
  { intros fi ->. simpl. destruct (s_kind s) eqn:K; simpl; try (exists m; split; [reflexivity | exact I']).
    destruct (memz (s_seq s) m) eqn:Mm.
    - apply memz_In in Mm. destruct (I _ Mm) as (c1 & s1 & F1 & K1 & Q1 & H1 & O1).
      assert (c1 = c).
      { eapply (wf_uniq _ Hwf); try eassumption.
        - eapply handed_not_new; [eapply wf_lok; eassumption | assumption].
        - eapply handed_not_new; [eapply wf_lok; eassumption | assumption]. }
      subst c1. rewrite (holds_writer _ _ _ W) in O1. discriminate.
    - eexists; split; [reflexivity|]. intros q [Hq|Hq]; [|auto].
      destruct (step_mono _ _ _ _ H _ _ F) as (s' & F' & Mk & _ & _ & Mh & Ms & _).
      exists c, s'. split; [assumption|]. split; [congruence|].
      destruct (Ms (handed_not_new _ (wf_lok _ Hwf _ _ F) Hh)) as [Q' _].
      split; [congruence|]. split; [auto|]. apply holds_none. assumption. }
  rewrite run_one. destruct (conn_ok st); exact (Hev _ eq_refl).
Qed.

Theorem writer_seqnos_distinct : forall sk ss ls st,
    fresh_ok ss = true -> run (step sk) (init ss) ls = Some st ->
    accepts seqno_step [] (trace st) = true.
Proof.
  intros sk ss ls st Hfr Hr.
  destruct (monitor_run seqno_step [] seen_inv sk ss Hfr) with (ls := ls) (st := st) as (m & R & _); auto.
  - intros q [].
  - intros. eapply seqno_step_ok; eassumption.
  - eapply accepts_of_run; eassumption.
Qed.

(* ------------------------------------------------------------------------------------------------------------ *)
(* C13 (c): a cancel frame never precedes its call                                                              *)
(* ------------------------------------------------------------------------------------------------------------ *)

Definition KInv (st : wstate) : Prop :=
  forall n cs, find n (senders st) = Some cs -> s_kind cs = SCancelFrame ->
    exists c sc r, find c (senders st) = Some sc /\ s_kind sc = SCall /\ s_pc sc = PRet r /\ s_seq sc = s_seq cs /\
                   (s_handed cs = true -> holds st c = false).

Lemma lok_cancel_call : forall s, lok s = true -> s_pc s = PCancel -> s_kind s = SCall.
Proof.
  intros s Hl Hp. unfold lok in Hl. rewrite Hp in Hl. destruct (s_kind s); try reflexivity;
    simpl in Hl; repeat (rewrite ?andb_false_r in Hl; simpl in Hl); discriminate.
Qed.

Lemma step_KInv : forall sk st l st', WF st -> KInv st -> step sk st l = Some st' -> KInv st'.
Proof.
  intros sk st l st' Hwf IH H n cs' F' K'.
  destruct (step_back_cancel _ _ _ _ H _ _ F' K')
    as [(cs & F & K & Q & Hhd) | (c & s & sc' & _ & F & P & Q & Hh & Fc' & Pc' & Kc' & Qc')].
  - destruct (IH n cs F K) as (c & sc & r & Fc & Kc & Pc & Qc & Ho).
    destruct (step_mono _ _ _ _ H _ _ Fc) as (sc' & Fsc' & Mk & _ & _ & _ & Ms & Mr).
    exists c, sc', r. split; [assumption|]. split; [congruence|]. split; [apply Mr; assumption|].
    split.
    + assert (Hn : s_pc sc <> PNew) by congruence. destruct (Ms Hn) as [Q' _]. congruence.
    + intros Hd. assert (Ho' : holds st c = false).
      { destruct (Hhd Hd) as [Hd0 | Wn]; [auto | apply holds_none; assumption]. }
      eapply holds_stable; eauto.
  - exists c, sc', RCtx. split; [assumption|]. split.
    + rewrite Kc'. apply lok_cancel_call; [eapply wf_lok; eassumption | assumption].
    + split; [assumption|]. split; [congruence|]. intros Hd. congruence.
Qed.

Definition canc_inv (st : wstate) (m : list Z) : Prop :=
  KInv st /\
  forall q, In q m -> exists n cs, find n (senders st) = Some cs /\ s_kind cs = SCancelFrame /\ s_seq cs = q /\
                                   s_handed cs = true.

Lemma canc_pres : forall sk st l st' m, WF st -> step sk st l = Some st' -> canc_inv st m -> canc_inv st' m.
Proof.
  intros sk st l st' m Hwf H [Hk I]. split; [eapply step_KInv; eassumption|].
  intros q Hq. destruct (I q Hq) as (n & cs & F & K & Q & Hh).
  destruct (step_mono _ _ _ _ H _ _ F) as (s' & F' & Mk & _ & _ & Mh & Ms & _).
  exists n, s'. split; [assumption|]. split; [congruence|].
  destruct (Ms (handed_not_new _ (wf_lok _ Hwf _ _ F) Hh)) as [Q' _].
  split; [congruence | auto].
Qed.

Lemma cancel_step_ok : forall sk st l st' m, WF st -> step sk st l = Some st' ->
    run cancel_step [] (trace st) = Some m -> canc_inv st m ->
    exists m', run cancel_step m (evs st l) = Some m' /\ canc_inv st' m'.
Proof.
  intros sk st l st' m Hwf H _ I. pose proof (canc_pres _ _ _ _ _ Hwf H I) as I'.
  destruct (step_evs_cases _ _ _ _ Hwf H) as [E | [(c & E & _) | [(a & r & E & _) | [(c & E) | [(q & E & _) | L]]]]];
    try (rewrite E; simpl; exists m; split; [reflexivity | exact I']).
  subst l. destruct (step_write_inv _ _ _ H) as (c & s & W & F & W' & E). rewrite E.
  destruct (wf_wr _ Hwf _ _ W) as (s0 & F0 & Hh). rewrite F in F0. injection F0 as <-.
  assert (Hev : forall fi, fi = info s ->
            exists m', match fi_kind fi with
                       | KCancel => Some (fi_seq fi :: m)
                       | KCall | KCallC => if memz (fi_seq fi) m then None else Some m
                       | _ => Some m
                       end = Some m' /\ canc_inv st' m').
  { intros fi ->. simpl. destruct (s_kind s) eqn:K; simpl; try (exists m; split; [reflexivity | exact I']).
    - destruct (memz (s_seq s) m) eqn:Mm; [|exists m; split; [reflexivity | exact I']].
      apply memz_In in Mm. destruct I as [Hk I]. destruct (I _ Mm) as (n & cs & F1 & K1 & Q1 & H1).
      destruct (Hk _ _ F1 K1) as (c1 & sc & r & Fc & Kc & Pc & Qc & Ho).
      assert (c1 = c).
      { eapply (wf_uniq _ Hwf); try eassumption.
        - congruence.
        - eapply handed_not_new; [eapply wf_lok; eassumption | assumption].
        - congruence. }
      subst c1. rewrite (holds_writer _ _ _ W) in Ho. specialize (Ho H1). discriminate.
    - eexists; split; [reflexivity|]. destruct I' as [Hk' I']. split; [assumption|].
      intros q [Hq|Hq]; [|auto].
      destruct (step_mono _ _ _ _ H _ _ F) as (s' & F' & Mk & _ & _ & Mh & Ms & _).
      exists c, s'. split; [assumption|]. split; [congruence|].
      destruct (Ms (handed_not_new _ (wf_lok _ Hwf _ _ F) Hh)) as [Q' _].
      split; [congruence | auto]. }
  rewrite run_one. destruct (conn_ok st); exact (Hev _ eq_refl).
Qed.

Lemma init_KInv : forall ss, fresh_ok ss = true -> KInv (init ss).
Proof.
  intros ss Hfr n cs F K. simpl in F. destruct (fresh_props _ _ _ Hfr F) as (_ & Kn & _). congruence.
Qed.

Theorem writer_cancel_after_call : forall sk ss ls st,
    fresh_ok ss = true -> run (step sk) (init ss) ls = Some st ->
    accepts cancel_step [] (trace st) = true.
Proof.
  intros sk ss ls st Hfr Hr.
  destruct (monitor_run cancel_step [] canc_inv sk ss Hfr) with (ls := ls) (st := st) as (m & R & _); auto.
  - split; [apply init_KInv; assumption | intros q []].
  - intros. eapply cancel_step_ok; eassumption.
  - eapply accepts_of_run; eassumption.
Qed.

(* ------------------------------------------------------------------------------------------------------------ *)
(* C13 (a): the send notifier                                                                                   *)
(* ------------------------------------------------------------------------------------------------------------ *)

(* population hypothesis matching the harness: calls and notifications have a send notifier, replies do not *)
Definition all_announce (ss : list sender) : bool :=
  forallb (fun s => match s_kind s with SCall | SNotify => s_notifier s | _ => negb (s_notifier s) end) ss.

Definition aa (s : sender) : bool :=
  match s_kind s with SCall | SNotify => s_notifier s | _ => negb (s_notifier s) end.

Definition AA (st : wstate) : Prop := forall c s, find c (senders st) = Some s -> aa s = true.

Lemma step_AA : forall sk st l st', AA st -> step sk st l = Some st' -> AA st'.
Proof.
  intros sk st l st' IH H. unfold AA in *. step_cases H; intros c0 s' Hf; back Hf; eauto;
    try reflexivity;
    match goal with E : find _ (senders st) = Some ?s |- aa _ = true =>
      let Hl := fresh "Hl" in
      pose proof (IH _ _ E) as Hl; unfold aa in *; destruct s; simpl in *; assumption
    end.
Qed.

Definition nstate (st : wstate) : option Z :=
  match writer st with
  | Some (c, WNotified) =>
      match find c (senders st) with
      | Some s => if s_notifier s then Some (s_seq s) else None
      | None => None
      end
  | _ => None
  end.

Lemma nstate_other : forall sk st l st', WF st -> step sk st l = Some st' ->
    l <> LWriterNotify -> l <> LWriterWrite -> nstate st' = nstate st.
Proof.
  intros sk st l st' Hwf H N1 N2. unfold nstate.
  destruct (step_writer_fwd _ _ _ _ H N1 N2) as [Weq | (Wn & c & Wc)].
  - rewrite Weq. destruct (writer st) as [[z [|]]|] eqn:W; try reflexivity.
    destruct (wf_wr _ Hwf _ _ W) as (s & F & Hh).
    destruct (step_mono _ _ _ _ H _ _ F) as (s' & F' & _ & Mn & _ & _ & Ms & _).
    destruct (Ms (handed_not_new _ (wf_lok _ Hwf _ _ F) Hh)) as [Q' _].
    rewrite F, F', Mn, Q'. reflexivity.
  - rewrite Wn, Wc. reflexivity.
Qed.

Definition notif_inv (st : wstate) (m : option Z) : Prop := AA st /\ m = nstate st.

Lemma notifier_step_ok : forall sk st l st' m, WF st -> step sk st l = Some st' ->
    run notifier_step None (trace st) = Some m -> notif_inv st m ->
    exists m', run notifier_step m (evs st l) = Some m' /\ notif_inv st' m'.
Proof.
  intros sk st l st' m Hwf H _ [Ha ->]. pose proof (step_AA _ _ _ _ Ha H) as Ha'.
  destruct (step_evs_cases _ _ _ _ Hwf H) as [E | [(c & E & L) | [(a & r & E & _) | [(c & E) | [(q & E & L) | L]]]]].
  - (* silent step: may still be the writer's notify without a notifier *)
    destruct l; try (rewrite E; simpl; exists (nstate st); split; [reflexivity|]; split; [assumption|];
                     symmetry; eapply nstate_other; try eassumption; discriminate).
    + destruct (step_notify_inv _ _ _ H) as (c & s & W & F & W' & Se & E').
      rewrite E. simpl. exists (nstate st). split; [reflexivity|]. split; [assumption|].
      rewrite E in E'. unfold nstate. rewrite W, W', Se, F. destruct (s_notifier s); [discriminate | reflexivity].
    + destruct (step_write_inv _ _ _ H) as (c & s & W & F & W' & E'). rewrite E in E'. discriminate.
  - rewrite E. simpl. exists (nstate st). split; [reflexivity|]. split; [assumption|].
    symmetry; eapply nstate_other; try eassumption; subst l; discriminate.
  - rewrite E. simpl. exists (nstate st). split; [reflexivity|]. split; [assumption|].
    symmetry; eapply nstate_other; try eassumption; intros ->.
    + destruct (step_notify_inv _ _ _ H) as (c & s & W & F & W' & Se & E'). rewrite E in E'.
      destruct (s_notifier s); discriminate.
    + destruct (step_write_inv _ _ _ H) as (c & s & W & F & W' & E'). rewrite E in E'.
      destruct (conn_ok st); discriminate.
  - rewrite E. simpl. exists (nstate st). split; [reflexivity|]. split; [assumption|].
    symmetry; eapply nstate_other; try eassumption; intros ->.
    + destruct (step_notify_inv _ _ _ H) as (c0 & s & W & F & W' & Se & E'). rewrite E in E'.
      destruct (s_notifier s); discriminate.
    + destruct (step_write_inv _ _ _ H) as (c0 & s & W & F & W' & E'). rewrite E in E'.
      destruct (conn_ok st); discriminate.
  - subst l. destruct (step_notify_inv _ _ _ H) as (c & s & W & F & W' & Se & E').
    assert (Hn : nstate st = None) by (unfold nstate; rewrite W; reflexivity).
    assert (Hn' : nstate st' = if s_notifier s then Some (s_seq s) else None)
      by (unfold nstate; rewrite W', Se, F; reflexivity).
    rewrite E', Hn. unfold notif_inv. rewrite Hn'.
    destruct (s_notifier s); simpl; eexists; (split; [reflexivity|]); split; auto.
  - subst l. destruct (step_write_inv _ _ _ H) as (c & s & W & F & W' & E). rewrite E, run_one.
    assert (Hn : nstate st = if s_notifier s then Some (s_seq s) else None).
    { unfold nstate. rewrite W, F. reflexivity. }
    assert (Hn' : nstate st' = None).
    { unfold nstate. rewrite W'. reflexivity. }
    unfold notif_inv. rewrite Hn, Hn'. pose proof (Ha _ _ F) as Hs. unfold aa in Hs.
    exists None. split; [|split; auto].
    destruct (conn_ok st); simpl; unfold announces; simpl;
      destruct (s_kind s); simpl in *; rewrite ?Hs; try rewrite Z.eqb_refl; try reflexivity;
      destruct (s_notifier s); try discriminate; reflexivity.
Qed.

Lemma init_AA : forall ss, all_announce ss = true -> AA (init ss).
Proof.
  intros ss Ha c s F. simpl in F. unfold all_announce in Ha. rewrite forallb_forall in Ha.
  apply (Ha _ (find_In _ _ _ F)).
Qed.

Theorem writer_notifier_exact : forall sk ss ls st,
    fresh_ok ss = true -> all_announce ss = true -> run (step sk) (init ss) ls = Some st ->
    accepts notifier_step None (trace st) = true.
Proof.
  intros sk ss ls st Hfr Ha Hr.
  destruct (monitor_run notifier_step None notif_inv sk ss Hfr) with (ls := ls) (st := st) as (m & R & _); auto.
  - split; [apply init_AA; assumption | reflexivity].
  - intros. eapply notifier_step_ok; eassumption.
  - eapply accepts_of_run; eassumption.
Qed.

(* ------------------------------------------------------------------------------------------------------------ *)
(* C13 (d): sends keep their order                                                                              *)
(* ------------------------------------------------------------------------------------------------------------ *)

Definition ord_inv (st : wstate) (o : ostate) : Prop :=
  (forall a, In a (o_returned o) -> retd st a) /\
  (forall b bs, assocz b (o_befores o) = Some bs -> forall a, In a bs ->
      retd st a /\ (forall sb, find b (senders st) = Some sb -> s_handed sb = true -> holds st a = false)) /\
  (forall b, In b (o_written o) -> exists sb, find b (senders st) = Some sb /\ s_handed sb = true).

Lemma retd_pres : forall sk st l st' a, step sk st l = Some st' -> retd st a -> retd st' a.
Proof.
  intros sk st l st' a H (s & r & F & P).
  destruct (step_mono _ _ _ _ H _ _ F) as (s' & F' & _ & _ & _ & _ & _ & Mr).
  exists s', r. split; [assumption | apply Mr; assumption].
Qed.

Lemma retd_holds_stable : forall sk st l st' a, WF st -> step sk st l = Some st' ->
    retd st a -> holds st a = false -> holds st' a = false.
Proof.
  intros sk st l st' a Hwf H (s & r & F & P) Ho. eapply holds_stable; eauto.
Qed.

Lemma handed_pres : forall sk st l st' b, step sk st l = Some st' ->
    (exists sb, find b (senders st) = Some sb /\ s_handed sb = true) ->
    exists sb, find b (senders st') = Some sb /\ s_handed sb = true.
Proof.
  intros sk st l st' b H (sb & F & Hd).
  destruct (step_mono _ _ _ _ H _ _ F) as (s' & F' & _ & _ & _ & Mh & _). exists s'. auto.
Qed.

Lemma ord_pres : forall sk st l st' o, WF st -> step sk st l = Some st' -> ord_inv st o -> ord_inv st' o.
Proof.
  intros sk st l st' o Hwf H (IA & IB & IC). split; [|split].
  - intros a Ha. eapply retd_pres; eauto.
  - intros b bs Hb a Ha. destruct (IB b bs Hb a Ha) as [Hr Hn]. split; [eapply retd_pres; eauto|].
    intros sb' F' Hd'. destruct (holds st a) eqn:Ho.
    + exfalso. destruct (step_back_handed _ _ _ _ H _ _ F' Hd') as [(sb & F & Hd) | Wn].
      * discriminate (Hn sb F Hd).
      * rewrite (holds_none _ _ Wn) in Ho. discriminate.
    + eapply retd_holds_stable; eauto.
  - intros b Hb. eapply handed_pres; eauto.
Qed.

Lemma step_start_inv : forall sk st c st', step sk st (LStart c) = Some st' ->
    exists s, find c (senders st) = Some s /\ s_pc s = PNew.
Proof.
  intros sk st c st' H. unfold step in H. destr_in H; eexists; split; reflexivity || eassumption.
Qed.

Lemma order_step_ok : forall sk st l st' o, WF st -> step sk st l = Some st' ->
    run order_step (mkO [] [] []) (trace st) = Some o -> ord_inv st o ->
    exists o', run order_step o (evs st l) = Some o' /\ ord_inv st' o'.
Proof.
  intros sk st l st' o Hwf H _ I. pose proof (ord_pres _ _ _ _ _ Hwf H I) as I'.
  destruct (step_evs_cases _ _ _ _ Hwf H) as [E | [(c & E & L) | [(a & r & E & Hr & _) | [(c & E) | [(q & E & _) | L]]]]];
    try (rewrite E; simpl; exists o; split; [reflexivity | exact I']).
  - (* AStart *)
    rewrite E. simpl. eexists; split; [reflexivity|]. subst l.
    destruct I as (IA & IB & IC). destruct I' as (IA' & IB' & IC'). split; [|split]; simpl; auto.
    intros b bs Hb a Ha. destruct (Z.eqb_spec b c) as [e|ne]; [|eapply IB'; eauto].
    injection Hb as <-. subst b. split; [auto|].
    intros sb' F' Hd'.
    destruct (step_start_inv _ _ _ _ H) as (s & F & P).
    destruct (step_back_handed _ _ _ _ H _ _ F' Hd') as [(sb & F0 & Hd) | Wn].
    + exfalso. rewrite F in F0. injection F0 as <-.
      apply (handed_not_new _ (wf_lok _ Hwf _ _ F) Hd). assumption.
    + eapply retd_holds_stable; eauto. apply holds_none. assumption.
  - (* ARet *)
    rewrite E. simpl. eexists; split; [reflexivity|].
    destruct I' as (IA' & IB' & IC'). split; [|split]; simpl; auto.
    intros a0 [<-|Ha]; auto.
  - (* write *)
    subst l. destruct (step_write_inv _ _ _ H) as (c & s & W & F & W' & E). rewrite E, run_one.
    destruct I as (IA & IB & IC). destruct I' as (IA' & IB' & IC').
    assert (Hev : forall fi, fi = info s ->
              exists o', (if announces fi then
                            if forallb (fun b => match assocz b (o_befores o) with
                                                 | Some bs => negb (memz (fi_nonce fi) bs)
                                                 | None => true
                                                 end) (o_written o)
                            then Some (mkO (o_returned o) (o_befores o) (fi_nonce fi :: o_written o))
                            else None
                          else Some o) = Some o' /\ ord_inv st' o').
    { intros fi ->. destruct (announces (info s)); [|exists o; split; [reflexivity | split; [|split]; assumption]].
      assert (Hn : fi_nonce (info s) = c) by (simpl; eapply find_nonce; eassumption).
      rewrite Hn.
      assert (Hall : forallb (fun b => match assocz b (o_befores o) with
                                       | Some bs => negb (memz c bs)
                                       | None => true
                                       end) (o_written o) = true).
      { apply forallb_forall. intros b Hb. destruct (assocz b (o_befores o)) as [bs|] eqn:Ab; [|reflexivity].
        destruct (memz c bs) eqn:Mm; [|reflexivity]. exfalso.
        apply memz_In in Mm. destruct (IB _ _ Ab _ Mm) as [_ Hno].
        destruct (IC _ Hb) as (sb & Fb & Hd). rewrite (holds_writer _ _ _ W) in Hno.
        specialize (Hno _ Fb Hd). discriminate. }
      rewrite Hall. eexists; split; [reflexivity|]. split; [|split]; simpl; auto.
      intros b [<-|Hb]; auto.
      eapply handed_pres; eauto. eapply wf_wr; eauto. }
    destruct (conn_ok st); exact (Hev _ eq_refl).
Qed.

Theorem writer_order_kept : forall sk ss ls st,
    fresh_ok ss = true -> run (step sk) (init ss) ls = Some st ->
    accepts order_step (mkO [] [] []) (trace st) = true.
Proof.
  intros sk ss ls st Hfr Hr.
  destruct (monitor_run order_step (mkO [] [] []) ord_inv sk ss Hfr) with (ls := ls) (st := st) as (m & R & _); auto.
  - split; [|split]; simpl; intros; try contradiction; discriminate.
  - intros. eapply order_step_ok; eassumption.
  - eapply accepts_of_run; eassumption.
Qed.

Theorem writer_c13 : forall sk ss ls st,
    fresh_ok ss = true -> all_announce ss = true -> run (step sk) (init ss) ls = Some st ->
    c13_pred (trace st) = true.
Proof.
  intros sk ss ls st Hfr Ha Hr. unfold c13_pred.
  rewrite (writer_notifier_exact _ _ _ _ Hfr Ha Hr), (writer_seqnos_distinct _ _ _ _ Hfr Hr),
    (writer_cancel_after_call _ _ _ _ Hfr Hr), (writer_order_kept _ _ _ _ Hfr Hr). reflexivity.
Qed.

(* ------------------------------------------------------------------------------------------------------------ *)
(* C03                                                                                                          *)
(* ------------------------------------------------------------------------------------------------------------ *)

Definition HInv (st : wstate) : Prop :=
  forall fi, In (AWrite fi) (hist st) \/ In (AWriteFail fi) (hist st) ->
             fi_ok fi = true /\ exists s, find (fi_nonce fi) (senders st) = Some s /\ s_handed s = true.

Definition TInv (st : wstate) : Prop :=
  forall c, In (ARet c RTooBig) (hist st) ->
            exists s r, find c (senders st) = Some s /\ s_handed s = false /\ s_pc s = PRet r.

Lemma step_HInv : forall sk st l st', WF st -> HInv st -> step sk st l = Some st' -> HInv st'.
Proof.
  intros sk st l st' Hwf IH H fi Hin. rewrite (step_hist _ _ _ _ H) in Hin.
  assert (Hold : In (AWrite fi) (hist st) \/ In (AWriteFail fi) (hist st) ->
                 fi_ok fi = true /\ exists s, find (fi_nonce fi) (senders st') = Some s /\ s_handed s = true).
  { intros Ho. destruct (IH fi Ho) as [Ok Hs]. split; [assumption|]. eapply handed_pres; eauto. }
  rewrite !in_app_iff in Hin.
  destruct (step_evs_cases _ _ _ _ Hwf H) as [E | [(c & E & L) | [(a & r & E & _) | [(c & E) | [(q & E & _) | L]]]]];
    try solve [rewrite E in Hin; simpl in Hin;
               destruct Hin as [[[X|[]]|Ho]|[[X|[]]|Ho]]; try discriminate X; apply Hold; auto].
  - rewrite E in Hin. simpl in Hin. destruct Hin as [[[]|Ho]|[[]|Ho]]; apply Hold; auto.
  - subst l. destruct (step_write_inv _ _ _ H) as (c & s & W & F & W' & E). rewrite E in Hin.
    assert (Hnew : fi = info s -> fi_ok fi = true /\
                   exists s0, find (fi_nonce fi) (senders st') = Some s0 /\ s_handed s0 = true).
    { intros ->. split; [reflexivity|]. simpl. rewrite (find_nonce _ _ _ F).
      eapply handed_pres; eauto. eapply wf_wr; eauto. }
    simpl in Hin. destruct (conn_ok st);
      destruct Hin as [[[X|[]]|Ho]|[[X|[]]|Ho]]; try discriminate X; try (apply Hold; auto; fail);
      injection X as <-; apply Hnew; reflexivity.
Qed.

Lemma step_TInv : forall sk st l st', WF st -> TInv st -> step sk st l = Some st' -> TInv st'.
Proof.
  intros sk st l st' Hwf IH H c Hin. rewrite (step_hist _ _ _ _ H) in Hin.
  assert (Hold : In (ARet c RTooBig) (hist st) ->
                 exists s r, find c (senders st') = Some s /\ s_handed s = false /\ s_pc s = PRet r).
  { intros Ho. destruct (IH c Ho) as (s & r & F & Hd & P).
    destruct (step_mono _ _ _ _ H _ _ F) as (s' & F' & _ & _ & _ & _ & _ & Mr).
    destruct (Mr _ P) as [P' Hd']. exists s', r. split; [assumption|]. split; [congruence | assumption]. }
  rewrite in_app_iff in Hin.
  destruct (step_evs_cases _ _ _ _ Hwf H) as [E | [(c0 & E & L) | [(a & r & E & Hr & Hb) | [(c0 & E) | [(q & E & _) | L]]]]];
    try solve [rewrite E in Hin; simpl in Hin; destruct Hin as [[X|[]]|Ho]; try discriminate X; apply Hold; assumption].
  - rewrite E in Hin. simpl in Hin. destruct Hin as [[]|Ho]; apply Hold; auto.
  - rewrite E in Hin; simpl in Hin; destruct Hin as [[X|[]]|Ho]; [|apply Hold; auto].
    injection X as <- ->. destruct (Hb eq_refl) as (s' & F' & Hd' & _).
    destruct Hr as (s1 & r1 & F1 & P1). rewrite F' in F1. injection F1 as <-.
    exists s', r1. auto.
  - subst l. destruct (step_write_inv _ _ _ H) as (c0 & s & W & F & W' & E). rewrite E in Hin.
    simpl in Hin. destruct (conn_ok st); destruct Hin as [[X|[]]|Ho]; try discriminate X; apply Hold; auto.
Qed.

Lemma reach_HT : forall sk ss ls st, fresh_ok ss = true -> run (step sk) (init ss) ls = Some st ->
    WF st /\ HInv st /\ TInv st.
Proof.
  intros sk ss ls st Hfr Hr.
  eapply (invariant_run _ _ (step sk) (fun st => WF st /\ HInv st /\ TInv st)); [ | | eassumption].
  - intros s l s' (Hwf & Hh & Ht) Hst. split; [eapply step_WF; eassumption|].
    split; [eapply step_HInv; eassumption | eapply step_TInv; eassumption].
  - split; [apply init_WF; assumption|]. split.
    + intros fi [[]|[]].
    + intros c [].
Qed.

Theorem writer_c03 : forall sk ss ls st,
    fresh_ok ss = true -> run (step sk) (init ss) ls = Some st -> c03_pred (trace st) = true.
Proof.
  intros sk ss ls st Hfr Hr. destruct (reach_HT _ _ _ _ Hfr Hr) as (Hwf & Hh & Ht).
  unfold c03_pred. apply andb_true_intro. split.
  - unfold frames_whole. apply forallb_forall. intros e He. unfold trace in He. apply in_rev in He.
    destruct e; try reflexivity. apply (Hh fi). auto.
  - unfold refused_write_nothing. apply forallb_forall. intros e He. unfold trace in He. apply in_rev in He.
    assert (G : forall fi, In (AWrite fi) (hist st) \/ In (AWriteFail fi) (hist st) ->
                           negb (memz (fi_nonce fi) (too_big_ops (trace st))) = true).
    { intros fi Hin. destruct (memz (fi_nonce fi) (too_big_ops (trace st))) eqn:Mm; [|reflexivity]. exfalso.
      apply memz_In in Mm. unfold too_big_ops in Mm. apply in_flat_map in Mm. destruct Mm as (e' & He' & Hin').
      unfold trace in He'. apply in_rev in He'.
      destruct e'; try contradiction. destruct r; try contradiction. destruct Hin' as [Hc|[]]. subst c.
      destruct (Ht _ He') as (s & r & F & Hd & _).
      destruct (Hh _ Hin) as [_ (s' & F' & Hd')]. congruence. }
    destruct e; try reflexivity; apply G; auto.
Qed.

(* a send abandoned before the hand-off (or refused as too big) never reaches the connection *)
Theorem unhanded_never_written : forall sk ss ls st c s fi,
    fresh_ok ss = true -> run (step sk) (init ss) ls = Some st ->
    find c (senders st) = Some s -> s_handed s = false ->
    (In (AWrite fi) (trace st) \/ In (AWriteFail fi) (trace st)) -> fi_nonce fi <> c.
Proof.
  intros sk ss ls st c s fi Hfr Hr F Hd Hin Hc. destruct (reach_HT _ _ _ _ Hfr Hr) as (Hwf & Hh & Ht).
  assert (Hin' : In (AWrite fi) (hist st) \/ In (AWriteFail fi) (hist st)).
  { unfold trace in Hin. destruct Hin as [X|X]; apply in_rev in X; auto. }
  destruct (Hh _ Hin') as [_ (s' & F' & Hd')]. congruence.
Qed.

(* ------------------------------------------------------------------------------------------------------------ *)
(* C08 / C10: promptness, safety form                                                                           *)
(* ------------------------------------------------------------------------------------------------------------ *)

Definition own_step (c : Z) (l : label) : bool :=
  match l with
  | LEncode d | LHandoff d | LAbandonDone d | LAbandonCtx d | LRecvVerdict d | LWaitCtx d | LWaitStop d
  | LRecvReply d | LQueueCancel d => d =? c
  | _ => false
  end.

Definition blocked_pc (p : spc) : bool :=
  match p with PEnc | PSelect | PWait1 | PWait2 | PCancel => true | _ => false end.

(* The statements of TASK.md without [fresh_ok ss = true] are false: for an arbitrary (non-fresh) population a
   cancel-frame sender may sit at PWait1 (or a non-call at PWait2), where no arm of the model applies. *)
Definition cex_sender : sender := mkSender 0 SCancelFrame 0 true false PWait1 true None false false.

Lemma ctx_unblocks_unrestricted_false :
  ~ (forall ss ls st c s,
        run (step expected_skeleton) (init ss) ls = Some st ->
        find c (senders st) = Some s -> blocked_pc (s_pc s) = true -> s_ctx s = true ->
        exists l st', own_step c l = true /\ step expected_skeleton st l = Some st').
Proof.
  intros Hc.
  destruct (Hc [cex_sender] [] (init [cex_sender]) 0 cex_sender eq_refl eq_refl eq_refl eq_refl)
    as (l & st' & Ho & Hs).
  destruct l; simpl in Ho; try discriminate Ho; apply Z.eqb_eq in Ho; subst; vm_compute in Hs; discriminate Hs.
Qed.

Definition cex_state2 : wstate := mkW [cex_sender] None true true true true 0 [].

Lemma stop_unblocks_unrestricted_false :
  ~ (forall ss ls st c s,
        run (step expected_skeleton) (init ss) ls = Some st ->
        find c (senders st) = Some s -> blocked_pc (s_pc s) = true ->
        stop_closed st = true -> done_closed st = true -> s_kind s <> SReply ->
        exists l st', own_step c l = true /\ step expected_skeleton st l = Some st').
Proof.
  intros Hc.
  assert (Hr : run (step expected_skeleton) (init [cex_sender]) [LCloseEncoder; LStop] = Some cex_state2)
    by (vm_compute; reflexivity).
  destruct (Hc [cex_sender] [LCloseEncoder; LStop] cex_state2 0 cex_sender Hr eq_refl eq_refl eq_refl eq_refl)
    as (l & st' & Ho & Hs); [discriminate|].
  destruct l; simpl in Ho; try discriminate Ho; apply Z.eqb_eq in Ho; subst; vm_compute in Hs; discriminate Hs.
Qed.

Lemma lok_wait1_kind : forall s, lok s = true -> s_pc s = PWait1 -> s_kind s <> SCancelFrame.
Proof.
  intros s Hl Hp Hk. unfold lok in Hl. rewrite Hp, Hk in Hl. simpl in Hl.
  repeat (rewrite ?andb_false_r in Hl; simpl in Hl). discriminate.
Qed.

Lemma lok_wait2_kind : forall s, lok s = true -> s_pc s = PWait2 -> s_kind s = SCall.
Proof.
  intros s Hl Hp. unfold lok in Hl. rewrite Hp in Hl. destruct (s_kind s); try reflexivity;
    simpl in Hl; repeat (rewrite ?andb_false_r in Hl; simpl in Hl); discriminate.
Qed.

(* corrected statement: [fresh_ok ss = true] added *)
Theorem ctx_unblocks : forall ss ls st c s,
    fresh_ok ss = true ->
    run (step expected_skeleton) (init ss) ls = Some st ->
    find c (senders st) = Some s -> blocked_pc (s_pc s) = true -> s_ctx s = true ->
    exists l st', own_step c l = true /\ step expected_skeleton st l = Some st'.
Proof.
  intros ss ls st c s Hfr Hr F Hb Hc. pose proof (reach_WF _ _ _ _ Hfr Hr) as Hwf.
  pose proof (wf_lok _ Hwf _ _ F) as Hl.
  destruct (s_pc s) eqn:P; try discriminate Hb.
  - destruct (s_size_ok s) eqn:So; exists (LEncode c); eexists; (split; [apply Z.eqb_refl|]);
      unfold step; rewrite F, P, So; reflexivity.
  - exists (LAbandonCtx c); eexists; (split; [apply Z.eqb_refl|]).
    unfold step; rewrite F, P, Hc; reflexivity.
  - pose proof (lok_wait1_kind _ Hl P) as Hk.
    destruct (s_kind s) eqn:K; try congruence;
      exists (LWaitCtx c); eexists; (split; [apply Z.eqb_refl|]);
      unfold step; rewrite F, Hc, P, K; reflexivity.
  - pose proof (lok_wait2_kind _ Hl P) as K.
    exists (LWaitCtx c); eexists; (split; [apply Z.eqb_refl|]).
    unfold step; rewrite F, Hc, P, K; reflexivity.
  - exists (LQueueCancel c); eexists; (split; [apply Z.eqb_refl|]).
    unfold step; rewrite F, P; reflexivity.
Qed.

Theorem stop_unblocks : forall ss ls st c s,
    fresh_ok ss = true ->
    run (step expected_skeleton) (init ss) ls = Some st ->
    find c (senders st) = Some s -> blocked_pc (s_pc s) = true ->
    stop_closed st = true -> done_closed st = true -> s_kind s <> SReply ->
    exists l st', own_step c l = true /\ step expected_skeleton st l = Some st'.
Proof.
  intros ss ls st c s Hfr Hr F Hb Hs Hd Hnr. pose proof (reach_WF _ _ _ _ Hfr Hr) as Hwf.
  pose proof (wf_lok _ Hwf _ _ F) as Hl.
  destruct (s_pc s) eqn:P; try discriminate Hb.
  - destruct (s_size_ok s) eqn:So; exists (LEncode c); eexists; (split; [apply Z.eqb_refl|]);
      unfold step; rewrite F, P, So; reflexivity.
  - exists (LAbandonDone c); eexists; (split; [apply Z.eqb_refl|]).
    unfold step; rewrite F, Hd, P; reflexivity.
  - pose proof (lok_wait1_kind _ Hl P) as Hk.
    destruct (s_kind s) eqn:K; try congruence;
      exists (LWaitStop c); eexists; (split; [apply Z.eqb_refl|]);
      unfold step; rewrite F, Hs, P, K; reflexivity.
  - pose proof (lok_wait2_kind _ Hl P) as K.
    exists (LWaitStop c); eexists; (split; [apply Z.eqb_refl|]).
    unfold step; rewrite F, Hs, P, K; reflexivity.
  - exists (LQueueCancel c); eexists; (split; [apply Z.eqb_refl|]).
    unfold step; rewrite F, P; reflexivity.
Qed.

(* why [stop_unblocks] excludes replies: on a fresh population a reply sender waiting for the writer's verdict has
   no stop arm; once handed it can only wait for the writer (or for its own context) *)
Lemma stop_unblocks_reply_false :
  exists ss ls st c s,
    fresh_ok ss = true /\ run (step expected_skeleton) (init ss) ls = Some st /\
    find c (senders st) = Some s /\ s_pc s = PWait1 /\ s_kind s = SReply /\
    stop_closed st = true /\ done_closed st = true /\
    forall l, own_step c l = true -> step expected_skeleton st l = None.
Proof.
  exists [fresh_sender 0 SReply true false], [LStart 0; LEncode 0; LHandoff 0; LCloseEncoder; LStop].
  eexists. exists 0. eexists.
  split; [reflexivity|]. split; [vm_compute; reflexivity|]. split; [vm_compute; reflexivity|].
  split; [reflexivity|]. split; [reflexivity|]. split; [reflexivity|]. split; [reflexivity|].
  intros l Ho. destruct l; simpl in Ho; try discriminate Ho; apply Z.eqb_eq in Ho; subst; vm_compute; reflexivity.
Qed.

(* ------------------------------------------------------------------------------------------------------------ *)
(* C08: a cancellation frame follows the call frame (safety form)                                               *)
(* ------------------------------------------------------------------------------------------------------------ *)

Lemma lok_wctx : forall s, lok s = true -> s_errch s = Some WCtx -> s_handed s = false.
Proof.
  intros s Hl He. unfold lok in Hl. rewrite He in Hl. destruct (s_handed s); [|reflexivity].
  simpl in Hl. repeat (rewrite ?andb_false_r in Hl; simpl in Hl). discriminate.
Qed.

Lemma lok_cancelframe_not_new : forall s, lok s = true -> s_kind s = SCancelFrame -> s_pc s <> PNew.
Proof.
  intros s Hl Hk Hp. unfold lok in Hl. rewrite Hk, Hp in Hl. simpl in Hl.
  repeat (rewrite ?andb_false_r in Hl; simpl in Hl). discriminate.
Qed.

Lemma step_back_kind : forall sk st l st', step sk st l = Some st' ->
    forall n x', find n (senders st') = Some x' ->
    (exists x, find n (senders st) = Some x /\ s_kind x = s_kind x') \/ s_kind x' = SCancelFrame.
Proof.
  intros sk st l st' H. step_cases H; intros n x' Hf; back Hf; simpl in *;
    first [ solve [left; eexists; split; eauto] | solve [right; reflexivity] ].
Qed.

(* original senders have non-negative nonces; a cancel frame is filed under the cancel nonce of a returned call *)
Definition NInv (st : wstate) : Prop :=
  forall n x, find n (senders st) = Some x ->
    (s_kind x <> SCancelFrame -> 0 <= n) /\
    (s_kind x = SCancelFrame ->
     exists c sc r, n = cancel_nonce c /\ find c (senders st) = Some sc /\ s_kind sc = SCall /\ s_pc sc = PRet r).

Lemma step_NInv : forall sk st l st', WF st -> NInv st -> step sk st l = Some st' -> NInv st'.
Proof.
  intros sk st l st' Hwf IH H n x' F'. split.
  - intros Hk. destruct (step_back_kind _ _ _ _ H _ _ F') as [(x & F & K) | K]; [|congruence].
    apply (IH _ _ F). congruence.
  - intros Hk.
    destruct (step_back_cancel _ _ _ _ H _ _ F' Hk)
      as [(cs & F & K & _ & _) | (c & s & sc' & Hn & F & P & _ & _ & Fc' & Pc' & Kc' & _)].
    + destruct (IH _ _ F) as [_ IHc]. destruct (IHc K) as (c & sc & r & Hn & Fc & Kc & Pc).
      destruct (step_mono _ _ _ _ H _ _ Fc) as (sc' & Fsc' & Mk & _ & _ & _ & _ & Mr).
      exists c, sc', r. split; [assumption|]. split; [assumption|]. split; [congruence | apply Mr; assumption].
    + exists c, sc', RCtx. split; [assumption|]. split; [assumption|]. split; [|assumption].
      rewrite Kc'. apply lok_cancel_call; [eapply wf_lok; eassumption | assumption].
Qed.

Lemma init_NInv : forall ss, fresh_ok ss = true -> NInv (init ss).
Proof.
  intros ss Hfr n x F. simpl in F. split.
  - intros _. pose proof (find_nonce _ _ _ F) as Hn. pose proof (find_In _ _ _ F) as Hin.
    unfold fresh_ok in Hfr. apply andb_prop in Hfr. destruct Hfr as [Hno _].
    clear F. revert Hno Hin. induction ss as [|a ss IHs]; simpl; [tauto|].
    intros Hno [->|Hin].
    + apply andb_prop in Hno. destruct Hno as [Hno _]. apply andb_prop in Hno. destruct Hno as [Hno _]. lia.
    + apply andb_prop in Hno. destruct Hno as [_ Hno]. auto.
  - intros Hk. destruct (fresh_props _ _ _ Hfr F) as (_ & Kn & _). congruence.
Qed.

(* how a handed call can be found at PRet RCtx after a step *)
Lemma step_back_retctx : forall sk st l st', WF st -> step sk st l = Some st' ->
    forall c s', find c (senders st') = Some s' -> s_kind s' = SCall -> s_pc s' = PRet RCtx -> s_handed s' = true ->
    (exists s, find c (senders st) = Some s /\ s_kind s = SCall /\ s_pc s = PRet RCtx /\ s_handed s = true /\
               s_seq s' = s_seq s)
    \/ (exists s, find c (senders st) = Some s /\ s_pc s = PCancel /\ s_seq s' = s_seq s /\
                  senders st' = update c (set_pc (PRet RCtx)) (senders st) ++
                                [mkSender (cancel_nonce c) SCancelFrame (s_seq s) true false PAsyncSelect false None
                                          false false]).
Proof.
  intros sk st l st' Hwf H. step_cases H; intros c0 s' Hf Hk Hp Hh; back Hf; simpl in *;
    try first [ solve [left; eexists; repeat split; eauto] | congruence | discriminate ].
  - exfalso. pose proof (lok_wctx _ (wf_lok _ Hwf _ _ Heqo) Heqo0). congruence.
  - right. exists s. repeat split; auto.
Qed.

Definition CInv (st : wstate) : Prop :=
  forall c s, find c (senders st) = Some s -> s_kind s = SCall -> s_pc s = PRet RCtx -> s_handed s = true ->
    exists t, find (cancel_nonce c) (senders st) = Some t /\ s_kind t = SCancelFrame /\ s_seq t = s_seq s.

Lemma step_CInv : forall sk st l st', WF st -> NInv st -> CInv st -> step sk st l = Some st' -> CInv st'.
Proof.
  intros sk st l st' Hwf Hn IH H c s' F' K' P' H'.
  destruct (step_back_retctx _ _ _ _ Hwf H _ _ F' K' P' H') as [(s & F & K & P & Hd & Q) | (s & F & P & Q & Se)].
  - destruct (IH _ _ F K P Hd) as (t & Ft & Kt & Qt).
    destruct (step_mono _ _ _ _ H _ _ Ft) as (t' & Ft' & Mk & _ & _ & _ & Ms & _).
    destruct (Ms (lok_cancelframe_not_new _ (wf_lok _ Hwf _ _ Ft) Kt)) as [Qt' _].
    exists t'. split; [assumption|]. split; congruence.
  - pose proof (lok_cancel_call _ (wf_lok _ Hwf _ _ F) P) as K.
    assert (Hc : 0 <= c) by (apply (Hn _ _ F); congruence).
    rewrite Se. find_upd.
    destruct (Z.eqb_spec (cancel_nonce c) c) as [e|ne]; [unfold cancel_nonce in e; lia|].
    destruct (find (cancel_nonce c) (senders st)) as [x|] eqn:Fx.
    + exfalso. destruct (Hn _ _ Fx) as [N1 N2].
      destruct (s_kind x) eqn:Kx;
        try (assert (0 <= cancel_nonce c) by (apply N1; discriminate); unfold cancel_nonce in *; lia).
      destruct (N2 eq_refl) as (c1 & sc & r & E1 & Fc & _ & Pc).
      assert (c1 = c) by (unfold cancel_nonce in E1; lia). subst c1. congruence.
    + simpl. rewrite Z.eqb_refl. eexists. split; [reflexivity|]. simpl. split; [reflexivity | congruence].
Qed.

(* a call that returned its context's error after its frame had been handed to the writer has queued a cancel frame
   carrying its seqno *)
Theorem ret_ctx_has_cancel_sender : forall sk ss ls st c s,
    fresh_ok ss = true -> run (step sk) (init ss) ls = Some st ->
    find c (senders st) = Some s -> s_kind s = SCall -> s_pc s = PRet RCtx -> s_handed s = true ->
    exists t, find (cancel_nonce c) (senders st) = Some t /\ s_kind t = SCancelFrame /\ s_seq t = s_seq s.
Proof.
  intros sk ss ls st c s Hfr Hr.
  assert (G : WF st /\ NInv st /\ CInv st).
  { eapply (invariant_run _ _ (step sk) (fun st => WF st /\ NInv st /\ CInv st)); [ | | eassumption].
    - intros s0 l s1 (Hwf & Hn & Hc) Hst. split; [eapply step_WF; eassumption|].
      split; [eapply step_NInv; eassumption | eapply step_CInv; eassumption].
    - split; [apply init_WF; assumption|]. split; [apply init_NInv; assumption|].
      intros c0 s0 F _ P _. simpl in F. destruct (fresh_props _ _ _ Hfr F) as (P0 & _). congruence. }
  destruct G as (_ & _ & Hc). apply Hc.
Qed.

(* and that queued cancel frame can always move: to the writer when it is idle, or away when the encoder is done *)
Theorem cancel_sender_can_move : forall ss ls st c t,
    fresh_ok ss = true -> run (step expected_skeleton) (init ss) ls = Some st ->
    find (cancel_nonce c) (senders st) = Some t -> s_pc t = PAsyncSelect ->
    (writer st = None -> writer_alive st = true -> step expected_skeleton st (LHandoff (cancel_nonce c)) <> None) /\
    (done_closed st = true -> step expected_skeleton st (LAbandonDone (cancel_nonce c)) <> None).
Proof.
  intros ss ls st c t _ _ F P. split.
  - intros W A. unfold step. rewrite F, W, A, P. discriminate.
  - intros D. unfold step. rewrite F, D, P. simpl. discriminate.
Qed.

Print Assumptions writer_notifier_exact.
Print Assumptions writer_seqnos_distinct.
Print Assumptions writer_cancel_after_call.
Print Assumptions writer_order_kept.
Print Assumptions writer_c13.
Print Assumptions writer_c03.
Print Assumptions unhanded_never_written.
Print Assumptions ctx_unblocks.
Print Assumptions stop_unblocks.
Print Assumptions ctx_unblocks_unrestricted_false.
Print Assumptions stop_unblocks_unrestricted_false.
Print Assumptions stop_unblocks_reply_false.
Print Assumptions ret_ctx_has_cancel_sender.
Print Assumptions cancel_sender_can_move.
