(* Facts about every path through function bodies regenerated from the source (Model/Paths.v) that C03 relies on, by
   computation over the finitely many paths. *)
From FMP Require Import Model.Paths.
Theorem paths_encoder_refuse_before_handoff : encoder_paths_refuse_before_handoff = true. Proof. vm_compute. reflexivity. Qed.
Theorem paths_writer_vocabulary : writer_loop_vocabulary = true. Proof. vm_compute. reflexivity. Qed.
Print Assumptions paths_encoder_refuse_before_handoff.
