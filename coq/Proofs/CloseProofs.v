(* Close returns: the goroutines it waits for can always move. *)
From FMP Require Import Base.Bytes Base.Lts Model.Events Model.Skeleton Model.Props Model.Writer Proofs.WriterProofs.
Open Scope Z_scope.

(* the writer goroutine is never stuck: holding a bundle it can notify and write (a Write on a closed connection
   returns an error), idle with the done channel closed it can exit *)
Theorem writer_never_stuck : forall sk ss ls st,
    fresh_ok ss = true -> run (step sk) (init ss) ls = Some st ->
    (writer st = None -> done_closed st = true -> writer_alive st = true -> step sk st LWriterExit <> None) /\
    (forall c, writer st = Some (c, WGot) -> step sk st LWriterNotify <> None) /\
    (forall c, writer st = Some (c, WNotified) -> step sk st LWriterWrite <> None).
Proof.
  intros sk ss ls st Hf Hr. pose proof (reach_WF sk ss ls st Hf Hr) as W.
  split; [|split].
  - intros Hw Hd Ha. cbn [step]. rewrite Hw, Hd, Ha. cbn. discriminate.
  - intros c Hw. cbn [step]. rewrite Hw. destruct (wf_wr st W c WGot Hw) as [s [Hs _]]. rewrite Hs. discriminate.
  - intros c Hw. cbn [step]. rewrite Hw. destruct (wf_wr st W c WNotified Hw) as [s [Hs _]]. rewrite Hs.
    destruct (conn_ok st); discriminate.
Qed.
