(* Facts about every path through function bodies regenerated from the source (Model/Paths.v) that C04 relies on, by
   computation over the finitely many paths. *)
From FMP Require Import Model.Paths.
Theorem paths_nextframe_drain_always : nextframe_paths_drain_always = true. Proof. vm_compute. reflexivity. Qed.
Print Assumptions paths_nextframe_drain_always.
