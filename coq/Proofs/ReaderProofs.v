(* Lemmas about Model/Reader.v : decoding through a buffered reader over an arbitrarily chunked stream
   refines decoding the flat stream. *)
From Coq Require Import ZifyBool ZifyNat ZifyN.
From FMP Require Import Base.Bytes Model.Generated Model.Msgpack Model.Frame Model.Reader Proofs.MsgpackProofs.
Open Scope N_scope.

Ltac Zify.zify_post_hook ::= Z.div_mod_to_equations.

(* ------------------------------------------------------------------ *)
(* take, by its specification *)
Lemma take_0 : forall s, take s 0 = Some ([], s).
Proof. intros s. apply (take_app [] s). Qed.

Lemma take_intro : forall a c n, len a = n -> take (a ++ c) n = Some (a, c).
Proof. intros a c n H. subst n. apply take_app. Qed.

Lemma take_none_len : forall bs n, take bs n = None -> len bs < n.
Proof.
  intros bs n H. destruct (N.lt_ge_cases (len bs) n) as [L|L]; [assumption|]. exfalso.
  rewrite <- (firstn_skipn (N.to_nat n) bs) in H.
  rewrite (take_intro _ _ n) in H; [discriminate|].
  unfold len in *. rewrite firstn_length. lia.
Qed.

Lemma len_take_none : forall bs n, len bs < n -> take bs n = None.
Proof.
  intros bs n H. destruct (take bs n) as [[a c]|] eqn:T; [|reflexivity].
  apply take_spec in T. destruct T as [T1 [T2 _]]. subst bs. rewrite len_app in H. lia.
Qed.

Lemma read_be_0 : forall r, read_be 0 r = Some (0, r).
Proof. intros r. unfold read_be. rewrite take_0. reflexivity. Qed.

(* ------------------------------------------------------------------ *)
(* one Read *)
Lemma split_at_spec : forall s fuel n a c, (length s <= fuel)%nat -> split_at n fuel s = (a, c) ->
  s = a ++ c /\ len a <= n /\ (n <> 0 -> s <> [] -> a <> []).
Proof.
  induction s as [|x s IH]; intros fuel n a c Hf H.
  - destruct fuel; cbn [split_at] in H; destruct (n =? 0); inversion H; subst;
      (split; [reflexivity|split; [unfold len; cbn [length]; lia|intros; congruence]]).
  - destruct fuel as [|f]; [cbn [length] in Hf; lia|].
    cbn [split_at] in H. destruct (N.eqb_spec n 0) as [E|E].
    + inversion H; subst. split; [reflexivity|]. split; [unfold len; cbn [length]; lia|]. intros; congruence.
    + destruct (split_at (n - 1) f s) as [a' c'] eqn:S1. inversion H; subst.
      apply IH in S1; [|cbn [length] in Hf; lia]. destruct S1 as [S1 [S2 _]].
      split; [cbn [app]; now rewrite <- S1|]. split; [rewrite len_cons; lia|]. intros; discriminate.
Qed.

Lemma rd_read_spec : forall n r a r1, n <> 0 -> rd_wf r -> rd_read n r = Some (a, r1) ->
  rd_wf r1 /\ abs r = a ++ abs r1 /\ a <> [] /\ len a <= n.
Proof.
  intros n [bf cs] a r1 Hn Hwf H. unfold rd_read in H. unfold rd_wf, abs in *. cbn [buf chunks] in *.
  destruct bf as [|x bf].
  - destruct cs as [|c cs]; [discriminate|].
    destruct (split_at n (length c) c) as [a' b'] eqn:S1. inversion H; subst. cbn [buf chunks].
    apply split_at_spec in S1; [|lia]. destruct S1 as [S1 [S2 S3]].
    inversion Hwf as [|c0 cs0 Hc Hcs].
    split; [assumption|]. split.
    + cbn [concat app]. rewrite app_assoc, <- S1. reflexivity.
    + split; [now apply S3|assumption].
  - destruct (split_at n (length (x :: bf)) (x :: bf)) as [a' b'] eqn:S1. inversion H; subst. cbn [buf chunks].
    apply split_at_spec in S1; [|lia]. destruct S1 as [S1 [S2 S3]].
    split; [assumption|]. split.
    + rewrite app_assoc, <- S1. reflexivity.
    + split; [apply S3; [assumption|discriminate]|assumption].
Qed.

Lemma rd_read_none : forall n r, rd_read n r = None -> abs r = [].
Proof.
  intros n [bf cs] H. unfold rd_read in H. unfold abs. cbn [buf chunks] in *.
  destruct bf as [|x bf].
  - destruct cs as [|c cs]; [reflexivity|]. destruct (split_at n (length c) c); discriminate.
  - destruct (split_at n (length (x :: bf)) (x :: bf)); discriminate.
Qed.

(* ------------------------------------------------------------------ *)
(* ReadFull *)
Theorem read_full_abs : forall fuel n r a r' ok,
    rd_wf r -> (length (abs r) < fuel)%nat -> rd_read_full fuel n r = (a, r', ok) ->
    rd_wf r' /\
    (ok = true  -> take (abs r) n = Some (a, abs r')) /\
    (ok = false -> take (abs r) n = None /\ abs r' = [] /\ a = abs r).
Proof.
  induction fuel as [|f IH]; intros n r a r' ok Hwf Hf H; [lia|].
  cbn [rd_read_full] in H. destruct (N.eqb_spec n 0) as [E|E].
  - inversion H; subst. split; [assumption|]. split; [intros _; apply take_0|discriminate].
  - destruct (rd_read n r) as [[a1 r1]|] eqn:R.
    + apply rd_read_spec in R; [|assumption|assumption]. destruct R as [W1 [A1 [N1 L1]]].
      destruct (rd_read_full f (n - len a1) r1) as [[b r2] ok2] eqn:F. inversion H; subst.
      assert (La : (1 <= length a1)%nat) by (destruct a1; [congruence|cbn [length]; lia]).
      apply IH in F; [|assumption|rewrite A1, app_length in Hf; lia].
      destruct F as [W2 [T2 F2]]. split; [assumption|]. split.
      * intros Hok. specialize (T2 Hok). apply take_spec in T2. destruct T2 as [B1 [B2 _]].
        rewrite A1, B1, app_assoc. apply take_intro. rewrite len_app. lia.
      * intros Hok. destruct (F2 Hok) as [G1 [G2 G3]]. split; [|split; [assumption|now rewrite A1, G3]].
        apply take_none_len in G1. apply len_take_none. rewrite A1, len_app. lia.
    + inversion H; subst. apply rd_read_none in R. split; [assumption|]. split; [discriminate|].
      intros _. split; [|split; [assumption|now rewrite R]].
      rewrite R. apply len_take_none. unfold len. cbn [length]. lia.
Qed.

(* ------------------------------------------------------------------ *)
(* the integer decoders look at the lead byte and [int_tail_width] more bytes *)
Lemma dec_int64_cons : forall b r,
  dec_int64 (b :: r) =
  if b =? 0xc0 then DOk 0%Z r else
  if (b <=? 0x7f) || (0xe0 <=? b) || ((0xcc <=? b) && (b <=? 0xd3)) then
    match dec 1 (b :: r) with
    | DOk (VInt z) r1 => DOk (wrap64 z) r1
    | DShort => DShort
    | _ => DBad b
    end
  else DBad b.
Proof. reflexivity. Qed.

Ltac cmp_tac :=
  repeat (match goal with
          | |- context [N.eqb ?a ?b] => destruct (N.eqb_spec a b); try lia
          | |- context [N.leb ?a ?b] => destruct (N.leb_spec a b); try lia
          end);
  cbn [orb andb].

Ltac int_case g :=
  left; exists g; intros r; rewrite dec_int64_cons, dec_S;
  match goal with |- context [classify ?b] =>
    let k := eval vm_compute in (classify b) in change (classify b) with k end;
  match goal with |- context [int_tail_width ?b] =>
    let k := eval vm_compute in (int_tail_width b) in change (int_tail_width b) with k end;
  cbn [dec_kind N.of_nat Pos.of_succ_nat Pos.succ];
  destruct (read_be _ r) as [[n r1]|]; reflexivity.

Lemma dec_int64_cases : forall b,
  (exists g : N -> Z, forall r,
      dec_int64 (b :: r) =
      match read_be (int_tail_width b) r with Some (n, r1) => DOk (g n) r1 | None => DShort end)
  \/ (int_tail_width b = 0 /\ forall r, dec_int64 (b :: r) = DBad b).
Proof.
  intros b.
  destruct (N.le_gt_cases b 0x7f) as [L|L].
  { left. exists (fun _ => wrap64 (Z.of_N b)). intros r.
    assert (W : int_tail_width b = 0) by (unfold int_tail_width; cmp_tac; reflexivity).
    rewrite W, read_be_0, dec_int64_cons. cmp_tac. rewrite dec_S, classify_pos by lia. reflexivity. }
  destruct (N.eq_dec b 0xc0) as [E|E].
  { subst b. left. exists (fun _ => 0%Z). intros r. rewrite dec_int64_cons.
    change (int_tail_width 192) with 0. rewrite read_be_0. reflexivity. }
  destruct (N.le_gt_cases 0xe0 b) as [L2|L2].
  { left. exists (fun _ => wrap64 (Z.of_N b - 256)). intros r.
    assert (W : int_tail_width b = 0) by (unfold int_tail_width; cmp_tac; reflexivity).
    rewrite W, read_be_0, dec_int64_cons. cmp_tac. rewrite dec_S, classify_neg by lia. reflexivity. }
  destruct (N.lt_ge_cases b 0xcc) as [L3|L3].
  { right. split; [unfold int_tail_width; cmp_tac; reflexivity|].
    intros r. rewrite dec_int64_cons. cmp_tac. reflexivity. }
  destruct (N.lt_ge_cases 0xd3 b) as [L4|L4].
  { right. split; [unfold int_tail_width; cmp_tac; reflexivity|].
    intros r. rewrite dec_int64_cons. cmp_tac. reflexivity. }
  assert (C : b = 204 \/ b = 205 \/ b = 206 \/ b = 207 \/ b = 208 \/ b = 209 \/ b = 210 \/ b = 211) by lia.
  destruct C as [C|[C|[C|[C|[C|[C|[C|C]]]]]]]; subst b.
  - int_case (fun n : N => wrap64 (Z.of_N n)).
  - int_case (fun n : N => wrap64 (Z.of_N n)).
  - int_case (fun n : N => wrap64 (Z.of_N n)).
  - int_case (fun n : N => wrap64 (Z.of_N n)).
  - int_case (fun n : N => wrap64 (signed 1 n)).
  - int_case (fun n : N => wrap64 (signed 2 n)).
  - int_case (fun n : N => wrap64 (signed 4 n)).
  - int_case (fun n : N => wrap64 (signed 8 n)).
Qed.

Lemma prefix_cases : forall b s1,
  match take s1 (int_tail_width b) with
  | None => dec_int32 (b :: s1) = I32Short
  | Some (tail, rest) =>
      (exists z, dec_int32 (b :: tail) = I32 z [] /\ dec_int32 (b :: s1) = I32 z rest) \/
      (dec_int32 (b :: tail) = I32Overflow /\ dec_int32 (b :: s1) = I32Overflow /\
       exists z, dec_int64 (b :: s1) = DOk z rest) \/
      (exists c, dec_int32 (b :: tail) = I32Bad c /\ exists c', dec_int32 (b :: s1) = I32Bad c' /\ rest = s1)
  end.
Proof.
  intros b s1. destruct (take s1 (int_tail_width b)) as [[tail rest]|] eqn:T.
  - apply take_spec in T. destruct T as [T1 [T2 T3]]. subst s1.
    assert (RB1 : read_be (int_tail_width b) (tail ++ rest) = Some (be_value tail, rest))
      by (unfold read_be; rewrite T3; reflexivity).
    assert (RB2 : read_be (int_tail_width b) tail = Some (be_value tail, [])).
    { specialize (T3 []). rewrite app_nil_r in T3. unfold read_be. rewrite T3. reflexivity. }
    destruct (dec_int64_cases b) as [[g G]|[W G]].
    + unfold dec_int32. rewrite (G tail), (G (tail ++ rest)), RB1, RB2.
      destruct ((-2147483648 <=? g (be_value tail)) && (g (be_value tail) <=? 2147483647))%Z.
      * left. eexists. split; reflexivity.
      * right. left. split; [reflexivity|]. split; [reflexivity|]. eexists. reflexivity.
    + right. right. rewrite W in T2.
      assert (tail = []) by (destruct tail; [reflexivity|unfold len in T2; cbn [length] in T2; lia]).
      subst tail. unfold dec_int32. rewrite !G. exists b. split; [reflexivity|].
      exists b. split; reflexivity.
  - destruct (dec_int64_cases b) as [[g G]|[W G]].
    + unfold dec_int32. rewrite G. unfold read_be. rewrite T. reflexivity.
    + rewrite W, take_0 in T. discriminate.
Qed.

(* ------------------------------------------------------------------ *)
(* one frame *)
Lemma next_frame_cons : forall e max b s1,
  next_frame e max (b :: s1) =
  let s := b :: s1 in
  match dec_int32 s with
  | I32Short => (OErr EPrefixTrunc, [])
  | I32Bad _ => (OErr EPrefixBad, tl s)
  | I32Overflow => (OErr EPrefixBad, match dec_int64 s with DOk _ r => r | _ => [] end)
  | I32 l r =>
      if (l <=? 0)%Z then (OErr EPktLen, r)
      else if (max <? l)%Z then (OErr EPktLen, r)
      else
        match take r (Z.to_N l) with
        | None =>
            match r with
            | [] => (OErr ETrunc, [])
            | nb :: c =>
                if (nb <? 0x91) || (0x9f <? nb) then (OErr EPktHdr, [])
                else match decode_content e (Z.of_N (nb - 0x90)) c with
                     | OErr EDecode => (OErr EDecode, [])
                     | OUnspec => (OUnspec, [])
                     | _ => (OErr ETrunc, [])
                     end
            end
        | Some (content, rest) =>
            match content with
            | [] => (OErr ETrunc, rest)
            | nb :: c =>
                if (nb <? 0x91) || (0x9f <? nb) then (OErr EPktHdr, rest)
                else (decode_content e (Z.of_N (nb - 0x90)) c, rest)
            end
        end
  end.
Proof. reflexivity. Qed.

Ltac fin :=
  let H := fresh "H" in
  intros H; inversion H; subst; split; [reflexivity|assumption].

Theorem next_frame_ch_refines : forall e max r o r',
    rd_wf r -> next_frame_ch e max r = (o, r') ->
    next_frame e max (abs r) = (o, abs r') /\ rd_wf r'.
Proof.
  intros e max r o r' Hwf H. unfold next_frame_ch in H.
  destruct (rd_read_full (fuel_for r) 1 r) as [[lead r1] ok1] eqn:E1.
  apply read_full_abs in E1; [|assumption|unfold fuel_for; lia].
  destruct E1 as [Hwf1 [Ht1 Hf1]].
  destruct ok1.
  2:{ destruct (Hf1 eq_refl) as [F1 [F2 _]]. inversion H; subst. split; [|assumption].
      apply take_none_len in F1. rewrite F2.
      destruct (abs r); [reflexivity|unfold len in F1; cbn [length] in F1; lia]. }
  specialize (Ht1 eq_refl). apply take_spec in Ht1. destruct Ht1 as [A1 [A2 _]].
  destruct lead as [|b [|b2 lead]]; try (unfold len in A2; cbn [length] in A2; lia).
  cbn [app] in A1. rewrite A1, next_frame_cons. cbv zeta. cbv beta iota in H.
  destruct (rd_read_full (fuel_for r1) (int_tail_width b) r1) as [[tail r2] ok2] eqn:E2.
  apply read_full_abs in E2; [|assumption|unfold fuel_for; lia].
  destruct E2 as [Hwf2 [Ht2 Hf2]].
  pose proof (prefix_cases b (abs r1)) as P.
  destruct ok2.
  2:{ destruct (Hf2 eq_refl) as [F1 [F2 _]]. rewrite F1 in P. inversion H; subst.
      rewrite P, F2. split; [reflexivity|assumption]. }
  rewrite (Ht2 eq_refl) in P.
  destruct P as [[z [P1 P2]]|[[P1 [P2 [z P3]]]|[c [P1 [c' [P2 P3]]]]]].
  - rewrite P1 in H. rewrite P2. revert H.
    destruct (z <=? 0)%Z; [fin|]. destruct (max <? z)%Z; [fin|].
    destruct (rd_read_full (fuel_for r2) (Z.to_N z) r2) as [[content r3] ok3] eqn:E3.
    apply read_full_abs in E3; [|assumption|unfold fuel_for; lia].
    destruct E3 as [Hwf3 [Ht3 Hf3]].
    destruct ok3.
    2:{ destruct (Hf3 eq_refl) as [F1 [F2 F3]]. rewrite F1, <- F3, <- F2.
        destruct content as [|nb c]; [fin|].
        destruct ((nb <? 0x91) || (0x9f <? nb)); [fin|].
        destruct (decode_content e (Z.of_N (nb - 0x90)) c) as [| | | | | | | |ec|]; try fin.
        destruct ec; fin. }
    rewrite (Ht3 eq_refl). destruct content as [|nb c]; [fin|].
    destruct ((nb <? 0x91) || (0x9f <? nb)); fin.
  - rewrite P1 in H. rewrite P2, P3. revert H. fin.
  - rewrite P1 in H. rewrite P2. cbn [tl]. rewrite <- P3. revert H. fin.
Qed.

(* ------------------------------------------------------------------ *)
(* whole runs *)
Theorem run_frames_ch_refines : forall fuel e max r,
    rd_wf r -> run_frames_ch fuel e max r = run_frames fuel e max (abs r).
Proof.
  induction fuel as [|f IH]; intros e max r Hwf; [reflexivity|].
  cbn [run_frames_ch run_frames].
  destruct (next_frame_ch e max r) as [o r'] eqn:E.
  apply next_frame_ch_refines in E; [|assumption]. destruct E as [E W]. rewrite E.
  destruct (continues o); [|reflexivity]. f_equal. apply IH. assumption.
Qed.

Theorem of_chunks_abs : forall cs, abs (of_chunks cs) = concat cs /\ rd_wf (of_chunks cs).
Proof.
  intros cs. unfold of_chunks, abs, rd_wf. cbn [buf chunks app]. split.
  - induction cs as [|c cs IH]; [reflexivity|].
    cbn [filter concat]. destruct c as [|x c]; [assumption|]. cbn [concat]. now rewrite IH.
  - apply Forall_forall. intros c Hc. apply filter_In in Hc. destruct Hc as [_ Hc].
    destruct c; [discriminate|discriminate].
Qed.

Theorem chunking_irrelevant : forall fuel e max cs cs',
    concat cs = concat cs' ->
    run_frames_ch fuel e max (of_chunks cs) = run_frames_ch fuel e max (of_chunks cs').
Proof.
  intros fuel e max cs cs' H.
  destruct (of_chunks_abs cs) as [A1 W1]. destruct (of_chunks_abs cs') as [A2 W2].
  rewrite !run_frames_ch_refines by assumption. rewrite A1, A2, H. reflexivity.
Qed.

Print Assumptions read_full_abs.
Print Assumptions next_frame_ch_refines.
Print Assumptions run_frames_ch_refines.
Print Assumptions chunking_irrelevant.
Print Assumptions of_chunks_abs.
