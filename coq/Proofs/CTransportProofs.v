From Coq Require Import ZifyBool Lia.
From FMP Require Import Base.Bytes Model.CTransport.
Open Scope Z_scope.

(* a closed transport has a closed connection; ids are below ct_next; current, staged and conn ids exist *)
Definition ct_wf (s : ctstate) : Prop :=
  (forall x, In x (xps s) -> x_id x < ct_next s) /\
  (forall x, In x (xps s) -> x_open x = false -> x_conn_open x = false).

Lemma in_close_xp : forall o l y, In y (close_xp o l) ->
  exists x, In x l /\ x_id y = x_id x /\
    ((is_some_id o (x_id x) = true /\ x_open y = false /\ x_conn_open y = false) \/ (is_some_id o (x_id x) = false /\ y = x)).
Proof.
  intros o l y H. destruct o as [i|]; simpl in H.
  - apply in_map_iff in H. destruct H as [x [E I]]. exists x. split; [exact I|].
    unfold is_some_id. destruct (x_id x =? i) eqn:Q; subst y; simpl; auto.
  - exists y. unfold is_some_id. auto.
Qed.

Lemma in_close_conn : forall o l y, In y (close_conn o l) ->
  exists x, In x l /\ x_id y = x_id x /\ x_open y = x_open x /\
    ((is_some_id o (x_id x) = true /\ x_conn_open y = false) \/ y = x).
Proof.
  intros o l y H. destruct o as [i|]; simpl in H.
  - apply in_map_iff in H. destruct H as [x [E I]]. exists x. split; [exact I|].
    unfold is_some_id. destruct (x_id x =? i) eqn:Q; subst y; simpl; auto.
  - exists y. auto.
Qed.

Lemma step_wf : forall tls s o, ct_wf s -> ct_wf (ctstep tls s o).
Proof.
  intros tls s o [W1 W2]. destruct o; simpl.
  - split; simpl; intros y [<-|H]; simpl; try lia; try discriminate.
    + apply in_close_xp in H. destruct H as [x [I [E _]]]. apply in_close_conn in I. destruct I as [z [I [E2 _]]].
      specialize (W1 _ I). lia.
    + intros O. apply in_close_xp in H. destruct H as [x [I [E [[_ [_ C]]|[_ ->]]]]]; [exact C|].
      apply in_close_conn in I. destruct I as [z [I [E2 [E3 [[_ C]| ->]]]]]; [exact C|]. apply W2; [exact I|exact O].
  - destruct tls; [split; assumption|]. split; simpl; intros y H.
    + apply in_close_conn in H. destruct H as [z [I [E _]]]. specialize (W1 _ I). lia.
    + intros O. apply in_close_conn in H. destruct H as [z [I [E2 [E3 [[_ C]| ->]]]]]; [exact C|]. apply W2; [exact I|exact O].
  - split; simpl; intros y H.
    + apply in_close_xp in H. destruct H as [x [I [E _]]]. specialize (W1 _ I). lia.
    + intros O. apply in_close_xp in H. destruct H as [x [I [E [[_ [_ C]]|[_ ->]]]]]; [exact C|]. apply W2; [exact I|exact O].
  - assert (G : forall y, In y (close_xp (ct_staged s) (close_xp (ct_cur s) (close_conn (ct_conn s) (xps s)))) ->
                x_id y < ct_next s /\ (x_open y = false -> x_conn_open y = false)).
    { intros y H. apply in_close_xp in H. destruct H as [x [I [E R]]].
      apply in_close_xp in I. destruct I as [x2 [I2 [E2 R2]]].
      apply in_close_conn in I2. destruct I2 as [z [I3 [E3 [E4 R3]]]].
      split; [specialize (W1 _ I3); lia|]. intros O.
      destruct R as [[_ [_ C]]|[_ ->]]; [exact C|].
      destruct R2 as [[_ [_ C]]|[_ ->]]; [exact C|].
      destruct R3 as [[_ C]| ->]; [exact C|]. apply W2; [exact I3|exact O]. }
    destruct tls; split; simpl; intros y H; apply G in H; tauto.
Qed.

Lemma step_inv : forall tls s o, ct_wf s -> ct_inv s -> ct_inv (ctstep tls s o).
Proof.
  intros tls s o [W1 W2] Inv. destruct o; simpl.
  - intros y [<-|H] C S; simpl in *.
    + unfold is_some_id in S. simpl in S. lia.
    + apply in_close_xp in H. destruct H as [x [I [E R]]].
      destruct R as [[_ [A B]]|[NS ->]]; [split; assumption|].
      apply in_close_conn in I. destruct I as [z [I [E2 [E3 R]]]].
      assert (Q : x_open z = false /\ x_conn_open z = false).
      { apply Inv; [exact I| rewrite <- E2; exact C | rewrite <- E2; exact NS]. }
      destruct R as [[_ CC]| ->]; [split; [rewrite E3; tauto|exact CC]|exact Q].
  - destruct tls; [exact Inv|]. intros y H C S; simpl in *.
    apply in_close_conn in H. destruct H as [z [I [E2 [E3 R]]]].
    assert (Q : x_open z = false /\ x_conn_open z = false).
    { apply Inv; [exact I| rewrite <- E2; exact C | rewrite <- E2; exact S]. }
    destruct R as [[_ CC]| ->]; [split; [rewrite E3; tauto|exact CC]|exact Q].
  - intros y H C S; simpl in *.
    apply in_close_xp in H. destruct H as [x [I [E R]]].
    destruct R as [[_ [A B]]|[NS ->]]; [split; assumption|].
    apply Inv; [exact I|exact NS|exact C].
  - assert (G : forall y, In y (close_xp (ct_staged s) (close_xp (ct_cur s) (close_conn (ct_conn s) (xps s)))) ->
                x_open y = false /\ x_conn_open y = false).
    { intros y H. apply in_close_xp in H. destruct H as [x [I [E R]]].
      destruct R as [[_ [A B]]|[NS ->]]; [split; assumption|].
      apply in_close_xp in I. destruct I as [x2 [I2 [E2 R2]]].
      destruct R2 as [[_ [A B]]|[NC ->]]; [split; assumption|].
      apply in_close_conn in I2. destruct I2 as [z [I3 [E3 [E4 R3]]]].
      assert (Q : x_open z = false /\ x_conn_open z = false).
      { apply Inv; [exact I3| rewrite <- E3; exact NC | rewrite <- E3; exact NS]. }
      destruct R3 as [[_ CC]| ->]; [split; [rewrite E4; tauto|exact CC]|exact Q]. }
    destruct tls; intros y H _ _; simpl in H; apply G; exact H.
Qed.

Lemma run_wf_inv : forall tls ops s, ct_wf s -> ct_inv s -> ct_wf (ctrun tls s ops) /\ ct_inv (ctrun tls s ops).
Proof.
  induction ops as [|o r IH]; intros s W I; simpl; [split; assumption|].
  apply IH; [apply step_wf; exact W | apply step_inv; assumption].
Qed.

Theorem ct_earlier_closed : forall tls ops, ct_inv (ctrun tls ct0 ops).
Proof.
  intros. apply run_wf_inv.
  - split; simpl; intros x [].
  - intros x [].
Qed.

(* after Close everything is closed, whatever happened before *)
Theorem ct_close_closes_all : forall tls ops x,
    In x (xps (ctstep tls (ctrun tls ct0 ops) CtClose)) -> x_open x = false /\ x_conn_open x = false.
Proof.
  intros tls ops x H.
  destruct (run_wf_inv tls ops ct0) as [[W1 W2] Inv]; [split; simpl; intros y []| intros y [] |].
  set (s := ctrun tls ct0 ops) in *.
  assert (G : forall y, In y (close_xp (ct_staged s) (close_xp (ct_cur s) (close_conn (ct_conn s) (xps s)))) ->
              x_open y = false /\ x_conn_open y = false).
  { intros y Hy. apply in_close_xp in Hy. destruct Hy as [x1 [I [E R]]].
    destruct R as [[_ [A B]]|[NS ->]]; [split; assumption|].
    apply in_close_xp in I. destruct I as [x2 [I2 [E2 R2]]].
    destruct R2 as [[_ [A B]]|[NC ->]]; [split; assumption|].
    apply in_close_conn in I2. destruct I2 as [z [I3 [E3 [E4 R3]]]].
    assert (Q : x_open z = false /\ x_conn_open z = false).
    { apply Inv; [exact I3| rewrite <- E3; exact NC | rewrite <- E3; exact NS]. }
    destruct R3 as [[_ CC]| ->]; [split; [rewrite E4; tauto|exact CC]|exact Q]. }
  simpl in H. destruct tls; simpl in H; apply G; exact H.
Qed.

(* the freshly dialed transport is open and staged *)
Theorem ct_dial_stages : forall tls ops,
    let s := ctstep tls (ctrun tls ct0 ops) CtDialOk in
    exists x, In x (xps s) /\ ct_staged s = Some (x_id x) /\ x_open x = true /\ x_conn_open x = true.
Proof. intros. eexists. simpl. split; [left; reflexivity|]. simpl. auto. Qed.

Print Assumptions ct_earlier_closed.
Print Assumptions ct_close_closes_all.
Print Assumptions ct_dial_stages.
