(* Facts about every path through functions whose bodies are regenerated from the source (Model/Paths.v), by computation
   over the finitely many paths. *)
From FMP Require Import Model.Paths.
Theorem paths_call_accounted : call_paths_accounted = true. Proof. vm_compute. reflexivity. Qed.
Theorem paths_notify_accounted : notify_paths_accounted = true. Proof. vm_compute. reflexivity. Qed.
Theorem paths_cancel_accounted : cancel_paths_accounted = true. Proof. vm_compute. reflexivity. Qed.
Theorem paths_reply_accounted : reply_paths_accounted = true. Proof. vm_compute. reflexivity. Qed.
Theorem paths_never_accounted_twice : never_accounted_twice = true. Proof. vm_compute. reflexivity. Qed.
Theorem paths_serve_replies : serve_paths_reply = true. Proof. vm_compute. reflexivity. Qed.
Theorem paths_call_unregisters : call_paths_unregister = true. Proof. vm_compute. reflexivity. Qed.
Theorem paths_connect_order : connect_paths_ordered = true. Proof. vm_compute. reflexivity. Qed.
Theorem paths_are_nonvacuous : paths_nonvacuous = true. Proof. vm_compute. reflexivity. Qed.
Print Assumptions paths_call_accounted.
Print Assumptions paths_call_unregisters.
(* second batch *)
Theorem paths_dispatch_notfound : dispatch_paths_notfound = true. Proof. vm_compute. reflexivity. Qed.
Theorem paths_response_unknown_ignored : response_paths_unknown_ignored = true. Proof. vm_compute. reflexivity. Qed.
Theorem paths_writer_notify_then_write : writer_paths_notify_then_write = true. Proof. vm_compute. reflexivity. Qed.
Theorem paths_receive_loop_close : receive_loop_paths_close = true. Proof. vm_compute. reflexivity. Qed.
Theorem paths_finish_once : finish_paths_once = true. Proof. vm_compute. reflexivity. Qed.
Theorem paths_taskloop : taskloop_paths = true. Proof. vm_compute. reflexivity. Qed.
Theorem paths_docommand : docommand_paths = true. Proof. vm_compute. reflexivity. Qed.
Theorem paths_doreconnect : doreconnect_paths = true. Proof. vm_compute. reflexivity. Qed.
Print Assumptions paths_dispatch_notfound.
