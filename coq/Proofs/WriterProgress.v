(* Progress / exactly-once theorems for the send-side transition system (Model/Writer.v). *)
From Coq Require Import ZifyBool Lia.
From FMP Require Import Base.Bytes Base.Lts Model.Events Model.Skeleton Model.Props Model.Writer Proofs.WriterProofs.
Open Scope Z_scope.

Definition writes_of (c : Z) (tr : list aev) : nat :=
  length (filter (fun e => match e with AWrite fi => fi_nonce fi =? c | _ => false end) tr).

(* ------------------------------------------------------------------------------------------------------------ *)
(* counting the writes of one step                                                                              *)
(* ------------------------------------------------------------------------------------------------------------ *)

Lemma writes_of_app : forall c a b, writes_of c (a ++ b) = (writes_of c a + writes_of c b)%nat.
Proof. intros c a b. unfold writes_of. rewrite filter_app, app_length. reflexivity. Qed.

(* the step is the successful write of the bundle of sender c *)
Definition is_write_of (st : wstate) (l : label) (c : Z) : bool :=
  match l with
  | LWriterWrite => match writer st with Some (d, _) => (d =? c) && conn_ok st | None => false end
  | _ => false
  end.

Lemma step_writes : forall sk st l st' c, WF st -> step sk st l = Some st' ->
    writes_of c (trace st') = (writes_of c (trace st) + (if is_write_of st l c then 1 else 0))%nat.
Proof.
  intros sk st l st' c Hwf H. rewrite (step_trace _ _ _ _ H), writes_of_app. f_equal.
  destruct (step_evs_cases _ _ _ _ Hwf H) as [E | [(c0 & E & L) | [(a & r & E & _) | [(c0 & E) | [(q & E & L) | L]]]]].
  - rewrite E. destruct l; try reflexivity.
    destruct (step_write_inv _ _ _ H) as (d & s & W & F & W' & E'). rewrite E in E'. discriminate.
  - rewrite E, L. reflexivity.
  - rewrite E. destruct l; try reflexivity.
    destruct (step_write_inv _ _ _ H) as (d & s & W & F & W' & E'). rewrite E in E'.
    destruct (conn_ok st); discriminate.
  - rewrite E. destruct l; try reflexivity.
    destruct (step_write_inv _ _ _ H) as (d & s & W & F & W' & E'). rewrite E in E'.
    destruct (conn_ok st); discriminate.
  - rewrite E, L. reflexivity.
  - subst l. destruct (step_write_inv _ _ _ H) as (d & s & W & F & W' & E). rewrite E.
    unfold is_write_of. rewrite W. pose proof (find_nonce _ _ _ F) as Hn.
    destruct (conn_ok st); unfold writes_of; simpl; rewrite ?Hn, ?andb_false_r; try reflexivity.
    rewrite andb_true_r. destruct (d =? c); reflexivity.
Qed.

Lemma is_write_of_inv : forall sk st l st' c, step sk st l = Some st' -> is_write_of st l c = true ->
    l = LWriterWrite /\ writer st = Some (c, WNotified) /\ conn_ok st = true /\ writer st' = None.
Proof.
  intros sk st l st' c H Hi. unfold is_write_of in Hi. destruct l; try discriminate Hi.
  destruct (step_write_inv _ _ _ H) as (d & s & W & F & W' & E). rewrite W in Hi.
  apply andb_prop in Hi. destruct Hi as [Hd Hc]. apply Z.eqb_eq in Hd. subst d. auto.
Qed.

(* ------------------------------------------------------------------------------------------------------------ *)
(* 1. at most once                                                                                              *)
(* ------------------------------------------------------------------------------------------------------------ *)

Definition Once (st : wstate) (c : Z) : Prop :=
  writes_of c (trace st) = 0%nat \/
  (writes_of c (trace st) = 1%nat /\ holds st c = false /\
   exists s, find c (senders st) = Some s /\ s_handed s = true).

Lemma step_Once : forall sk st l st' c, WF st -> step sk st l = Some st' -> Once st c -> Once st' c.
Proof.
  intros sk st l st' c Hwf H I. unfold Once. rewrite (step_writes _ _ _ _ c Hwf H).
  destruct (is_write_of st l c) eqn:Hi.
  - destruct (is_write_of_inv _ _ _ _ _ H Hi) as (_ & W & _ & W').
    destruct I as [Z0 | (_ & Ho & _)].
    + right. rewrite Z0. split; [reflexivity|]. split; [apply holds_none; assumption|].
      eapply handed_pres; eauto. eapply wf_wr; eauto.
    + rewrite (holds_writer _ _ _ W) in Ho. discriminate.
  - rewrite Nat.add_0_r. destruct I as [Z0 | (Z1 & Ho & s & F & Hd)]; [left; assumption|].
    right. split; [assumption|]. split; [eapply holds_stable; eauto|]. eapply handed_pres; eauto.
Qed.

Lemma reach_Once : forall sk ss ls st c, fresh_ok ss = true -> run (step sk) (init ss) ls = Some st ->
    WF st /\ Once st c.
Proof.
  intros sk ss ls st c Hfr Hr.
  eapply (invariant_run _ _ (step sk) (fun st => WF st /\ Once st c)); [ | | eassumption].
  - intros s l s' (Hwf & Ho) Hst. split; [eapply step_WF; eassumption | eapply step_Once; eassumption].
  - split; [apply init_WF; assumption|]. left. reflexivity.
Qed.

Theorem writer_at_most_once : forall sk ss ls st c,
  fresh_ok ss = true -> run (step sk) (init ss) ls = Some st -> (writes_of c (trace st) <= 1)%nat.
Proof.
  intros sk ss ls st c Hfr Hr. destruct (reach_Once _ _ _ _ c Hfr Hr) as [_ [Z0 | (Z1 & _)]]; lia.
Qed.

(* ------------------------------------------------------------------------------------------------------------ *)
(* 2. ROk means written exactly once                                                                            *)
(* ------------------------------------------------------------------------------------------------------------ *)

(* only cancel frames sit at EncodeAndWriteAsync's select *)
Definition AInv (st : wstate) : Prop :=
  forall c s, find c (senders st) = Some s -> s_pc s = PAsyncSelect -> s_kind s = SCancelFrame.

Lemma step_AInv : forall sk st l st', AInv st -> step sk st l = Some st' -> AInv st'.
Proof.
  intros sk st l st' IH H. unfold AInv in *. step_cases H; intros c0 s' Hf Hp; back Hf; simpl in *;
    try discriminate; try reflexivity; eauto.
Qed.

Lemma init_AInv : forall ss, fresh_ok ss = true -> AInv (init ss).
Proof.
  intros ss Hfr c s F P. simpl in F. destruct (fresh_props _ _ _ Hfr F) as (P0 & _). congruence.
Qed.

(* the writer has answered "written" (and the sender may have consumed the answer) *)
Definition okish (s : sender) : Prop :=
  s_errch s = Some WOk \/ s_pc s = PWait2 \/ s_pc s = PRet ROk.

Lemma step_back_okish : forall sk st l st', AInv st -> step sk st l = Some st' ->
    forall c s', find c (senders st') = Some s' -> s_kind s' <> SCancelFrame -> okish s' ->
    (exists s, find c (senders st) = Some s /\ okish s) \/ is_write_of st l c = true.
Proof.
  intros sk st l st' Ha H. unfold okish, is_write_of.
  step_cases H; intros c0 s' Hf Hk Ho; back Hf; simpl in *;
    try solve [left; eexists; split; [eassumption|]; tauto];
    try solve [left; eexists; split; [eassumption|]; intuition congruence];
    try solve [right; rewrite ?Z.eqb_refl; reflexivity].
  - exfalso. pose proof (Ha _ _ Heqo Heqs0). congruence.
  - left; eexists; split; [reflexivity|]; tauto.
  - exfalso. congruence.
Qed.

Definition OkInv (st : wstate) (c : Z) : Prop :=
  forall s, find c (senders st) = Some s -> s_kind s <> SCancelFrame -> okish s -> writes_of c (trace st) = 1%nat.

Lemma step_OkInv : forall sk st l st' c, WF st -> AInv st -> Once st c -> step sk st l = Some st' ->
    OkInv st c -> OkInv st' c.
Proof.
  intros sk st l st' c Hwf Ha Ho H I s' F' K' O'.
  pose proof (step_Once _ _ _ _ c Hwf H Ho) as Ho'. unfold Once in Ho'.
  rewrite (step_writes _ _ _ _ c Hwf H) in *.
  destruct (is_write_of st l c) eqn:Hi.
  - destruct Ho' as [Z0 | (Z1 & _)]; [lia | assumption].
  - destruct (step_back_okish _ _ _ _ Ha H _ _ F' K' O') as [(s & F & O) | Hw]; [|congruence].
    destruct (step_back_kind _ _ _ _ H _ _ F') as [(x & Fx & Kx) | Kc]; [|congruence].
    rewrite F in Fx. injection Fx as <-. rewrite Nat.add_0_r. apply (I s F); [congruence | assumption].
Qed.

Lemma reach_OkInv : forall sk ss ls st c, fresh_ok ss = true -> run (step sk) (init ss) ls = Some st ->
    WF st /\ AInv st /\ Once st c /\ OkInv st c.
Proof.
  intros sk ss ls st c Hfr Hr.
  eapply (invariant_run _ _ (step sk) (fun st => WF st /\ AInv st /\ Once st c /\ OkInv st c)); [ | | eassumption].
  - intros s l s' (Hwf & Ha & Ho & Hk) Hst. split; [eapply step_WF; eassumption|].
    split; [eapply step_AInv; eassumption|]. split; [eapply step_Once; eassumption|].
    eapply step_OkInv; eassumption.
  - split; [apply init_WF; assumption|]. split; [apply init_AInv; assumption|]. split; [left; reflexivity|].
    intros s F _ O. simpl in F. destruct (fresh_props _ _ _ Hfr F) as (P0 & _ & _ & E0).
    unfold okish in O. rewrite P0, E0 in O. intuition discriminate.
Qed.

(* The statement of TASK.md (only [s_kind s <> SCall]) is false for cancel frames: EncodeAndWriteAsync reports
   success as soon as the writer has accepted the bundle, before anything is written. *)
Definition cex2_ss : list sender := [fresh_sender 0 SCall true false].
Definition cex2_ls : list label :=
  [LStart 0; LEncode 0; LHandoff 0; LWriterNotify; LWriterWrite; LCtxDone 0; LWaitCtx 0; LQueueCancel 0;
   LHandoff (cancel_nonce 0)].

Lemma writer_ok_means_written_once_as_stated_false :
  ~ (forall sk ss ls st c s,
       fresh_ok ss = true -> run (step sk) (init ss) ls = Some st -> find c (senders st) = Some s ->
       s_kind s <> SCall -> s_pc s = PRet ROk -> writes_of c (trace st) = 1%nat).
Proof.
  intros Hc.
  destruct (run (step expected_skeleton) (init cex2_ss) cex2_ls) as [st|] eqn:R; [|vm_compute in R; discriminate R].
  destruct (find (cancel_nonce 0) (senders st)) as [s|] eqn:F;
    [|vm_compute in R; injection R as <-; vm_compute in F; discriminate F].
  assert (G : writes_of (cancel_nonce 0) (trace st) = 1%nat).
  { apply (Hc expected_skeleton cex2_ss cex2_ls st (cancel_nonce 0) s); [reflexivity | exact R | exact F | | ];
      vm_compute in R; injection R as <-; vm_compute in F; injection F as <-; [discriminate | reflexivity]. }
  vm_compute in R. injection R as <-. vm_compute in G. discriminate G.
Qed.

(* the true statement covers every kind but the cancel frame (calls included) *)
Theorem writer_ok_means_written_once_any : forall sk ss ls st c s,
  fresh_ok ss = true -> run (step sk) (init ss) ls = Some st -> find c (senders st) = Some s ->
  s_kind s <> SCancelFrame -> s_pc s = PRet ROk -> writes_of c (trace st) = 1%nat.
Proof.
  intros sk ss ls st c s Hfr Hr F K P. destruct (reach_OkInv _ _ _ _ c Hfr Hr) as (_ & _ & _ & I).
  apply (I s F K). right. right. assumption.
Qed.

(* closest true variant of the stated theorem: the hypothesis [s_kind s <> SCancelFrame] is added *)
Theorem writer_ok_means_written_once : forall sk ss ls st c s,
  fresh_ok ss = true -> run (step sk) (init ss) ls = Some st -> find c (senders st) = Some s ->
  s_kind s <> SCall -> s_kind s <> SCancelFrame -> s_pc s = PRet ROk -> writes_of c (trace st) = 1%nat.
Proof.
  intros sk ss ls st c s Hfr Hr F _ K P. eapply writer_ok_means_written_once_any; eassumption.
Qed.

(* a send that was never handed to the writer wrote nothing (the counting form of [unhanded_never_written]) *)
Theorem unhanded_writes_nothing : forall sk ss ls st c s,
  fresh_ok ss = true -> run (step sk) (init ss) ls = Some st -> find c (senders st) = Some s ->
  s_handed s = false -> writes_of c (trace st) = 0%nat.
Proof.
  intros sk ss ls st c s Hfr Hr F Hd. destruct (reach_Once _ _ _ _ c Hfr Hr) as [_ [Z0 | (_ & _ & s0 & F0 & H0)]];
    [assumption | congruence].
Qed.

(* ------------------------------------------------------------------------------------------------------------ *)
(* 3. progress                                                                                                  *)
(* ------------------------------------------------------------------------------------------------------------ *)

(* the writer goroutine only exits after the encoder was closed *)
Definition LiveInv (st : wstate) : Prop := writer_alive st = false -> done_closed st = true.

Lemma step_LiveInv : forall sk st l st', LiveInv st -> step sk st l = Some st' -> LiveInv st'.
Proof.
  intros sk st l st' IH H. unfold LiveInv in *. step_cases H; auto; try congruence.
  intros _. apply andb_prop in Heqb. tauto.
Qed.

(* a sender waiting for a verdict that has not arrived is the one whose bundle the writer holds *)
Definition WaitInv (st : wstate) : Prop :=
  forall c s, find c (senders st) = Some s -> s_pc s = PWait1 -> s_errch s = None -> holds st c = true.

Lemma step_WaitInv : forall sk st l st', WF st -> WaitInv st -> step sk st l = Some st' -> WaitInv st'.
Proof.
  intros sk st l st' Hwf IH H. unfold WaitInv, holds in *.
  step_cases H; intros c0 s' Hf Hp He; back Hf; simpl in *; try discriminate; try (apply Z.eqb_refl);
    try (match goal with E : find _ _ = Some ?s |- _ => solve [apply (IH _ _ E); assumption] end);
    try (match goal with E : find ?c0 _ = Some ?s, W : writer st = _ |- _ =>
              let X := fresh in pose proof (IH _ _ E Hp He) as X; rewrite W in X; try discriminate X; try exact X end);
    try (exfalso; match goal with E : find _ _ = Some _ |- _ => discriminate (IH _ _ E Hp He) end);
    try (exfalso; pose proof (IH _ _ Hf Hp He); lia).
Qed.

Lemma init_WaitInv : forall ss, fresh_ok ss = true -> WaitInv (init ss).
Proof.
  intros ss Hfr c s F P. simpl in F. destruct (fresh_props _ _ _ Hfr F) as (P0 & _). congruence.
Qed.

(* every verdict on a sender's channel has its cause recorded in the state *)
Definition verdict_ok (st : wstate) (s : sender) (e : werr) : Prop :=
  match e with
  | WOk => True
  | WTooBig => s_size_ok s = false
  | WEof => done_closed st = true
  | WCtx => s_ctx s = true
  | WFail => conn_ok st = false
  end.

Definition VerdInv (st : wstate) : Prop :=
  forall c s e, find c (senders st) = Some s -> s_errch s = Some e -> verdict_ok st s e.

Lemma step_VerdInv : forall sk st l st', VerdInv st -> step sk st l = Some st' -> VerdInv st'.
Proof.
  intros sk st l st' IH H. unfold VerdInv in *.
  step_cases H; intros c0 s' e Hf He; back Hf; simpl in *; try discriminate;
    try (injection He as <-; simpl; first [exact I | assumption | reflexivity]);
    try (match goal with E : find _ _ = Some _ |- _ =>
           let X := fresh in pose proof (IH _ _ _ E He) as X; destruct e; simpl in *; solve [auto | congruence] end).
  injection He as <-. simpl. apply andb_prop in Heqb. tauto.
Qed.

Lemma init_VerdInv : forall ss, fresh_ok ss = true -> VerdInv (init ss).
Proof.
  intros ss Hfr c s e F E. simpl in F. destruct (fresh_props _ _ _ Hfr F) as (_ & _ & _ & E0). congruence.
Qed.

Record PInv (st : wstate) : Prop := mkPInv {
  pi_wf : WF st;
  pi_async : AInv st;
  pi_live : LiveInv st;
  pi_wait : WaitInv st;
  pi_verd : VerdInv st
}.

Lemma reach_PInv : forall sk ss ls st, fresh_ok ss = true -> run (step sk) (init ss) ls = Some st -> PInv st.
Proof.
  intros sk ss ls st Hfr Hr.
  eapply (invariant_run _ _ (step sk) PInv); [ | | eassumption].
  - intros s l s' [A B C D E] Hst. constructor.
    + eapply step_WF; eassumption.
    + eapply step_AInv; eassumption.
    + eapply step_LiveInv; eassumption.
    + eapply step_WaitInv; eassumption.
    + eapply step_VerdInv; eassumption.
  - constructor.
    + apply init_WF; assumption.
    + apply init_AInv; assumption.
    + intros X. discriminate X.
    + apply init_WaitInv; assumption.
    + apply init_VerdInv; assumption.
Qed.

(* the writer goroutine is alive as long as the encoder is open (asked in TASK.md) *)
Theorem writer_alive_until_closed : forall sk ss ls st,
  fresh_ok ss = true -> run (step sk) (init ss) ls = Some st -> done_closed st = false -> writer_alive st = true.
Proof.
  intros sk ss ls st Hfr Hr Hd. pose proof (pi_live _ (reach_PInv _ _ _ _ Hfr Hr)) as Hl. unfold LiveInv in Hl.
  destruct (writer_alive st); [reflexivity|]. rewrite Hl in Hd; [discriminate | reflexivity].
Qed.


Definition own_label (c : Z) (l : label) : bool :=
  match l with
  | LEncode d | LHandoff d | LAbandonDone d | LAbandonCtx d | LRecvVerdict d | LWaitCtx d | LWaitStop d => d =? c
  | LWriterNotify | LWriterWrite | LWriterExit => true
  | _ => false
  end.

Notation xstep := (step expected_skeleton).

(* sender c can return within n own/writer steps, with a result satisfying P *)
Definition Fin (n : nat) (st : wstate) (c : Z) (P : rclass -> Prop) : Prop :=
  exists ls' st' s' r, (length ls' <= n)%nat /\ forallb (own_label c) ls' = true /\
     run xstep st ls' = Some st' /\ find c (senders st') = Some s' /\ s_pc s' = PRet r /\ P r.

Lemma fin_zero : forall st c s r (P : rclass -> Prop),
    find c (senders st) = Some s -> s_pc s = PRet r -> P r -> Fin 0 st c P.
Proof. intros st c s r P F Hp Hr. exists [], st, s, r. repeat split; auto. Qed.

Lemma fin_run : forall ls st st1 c n (P : rclass -> Prop),
    run xstep st ls = Some st1 -> forallb (own_label c) ls = true -> Fin n st1 c P ->
    Fin (length ls + n) st c P.
Proof.
  intros ls st st1 c n P R O (ls' & st' & s' & r & L & O' & R' & F' & P' & Pr).
  exists (ls ++ ls'), st', s', r. split; [rewrite app_length; lia|]. split; [rewrite forallb_app, O, O'; reflexivity|].
  split; [rewrite run_app, R; exact R'|]. auto.
Qed.

Lemma fin_step : forall l st st1 c n (P : rclass -> Prop),
    xstep st l = Some st1 -> own_label c l = true -> Fin n st1 c P -> Fin (S n) st c P.
Proof.
  intros l st st1 c n P S O Hf. apply (fin_run [l] st st1 c n P); [cbn [run]; rewrite S; reflexivity | | assumption].
  cbn [forallb]. rewrite O. reflexivity.
Qed.

Lemma fin_weaken : forall n m st c (P Q : rclass -> Prop),
    (n <= m)%nat -> (forall r, P r -> Q r) -> Fin n st c P -> Fin m st c Q.
Proof.
  intros n m st c P Q Le Im (ls' & st' & s' & r & L & O' & R' & F' & P' & Pr).
  exists ls', st', s', r. repeat split; auto. lia.
Qed.

(* A: the verdict is on the channel *)
Lemma fin_verdict : forall st c s e, find c (senders st) = Some s -> s_pc s = PWait1 -> s_errch s = Some e ->
    (s_kind s = SNotify \/ s_kind s = SReply) -> Fin 1 st c (fun r => r = rclass_of e).
Proof.
  intros st c s e F P E K.
  assert (S : exists st1, xstep st (LRecvVerdict c) = Some st1 /\
                          find c (senders st1) = Some (set_pc (PRet (rclass_of e)) (set_err None s))).
  { unfold step. rewrite F, P, E.
    destruct e; destruct K as [K|K]; rewrite ?K; eexists; (split; [reflexivity|]);
      cbn [senders upd]; find_upd; rewrite Z.eqb_refl, F; reflexivity. }
  destruct S as (st1 & S & F1).
  apply (fin_step (LRecvVerdict c) st st1); [assumption | apply Z.eqb_refl|].
  eapply fin_zero; [exact F1 | reflexivity | reflexivity].
Qed.

(* the writer finishes with the bundle it holds *)
Lemma drain : forall st d ph t, writer st = Some (d, ph) -> find d (senders st) = Some t ->
    exists ls st1, (length ls <= 2)%nat /\ (forall c, forallb (own_label c) ls = true) /\
      run xstep st ls = Some st1 /\ writer st1 = None /\
      senders st1 = update d (set_err (Some (if conn_ok st then WOk else WFail))) (senders st) /\
      writer_alive st1 = writer_alive st /\ done_closed st1 = done_closed st /\ conn_ok st1 = conn_ok st.
Proof.
  intros st d ph t W F.
  assert (S2 : forall st0, writer st0 = Some (d, WNotified) -> find d (senders st0) = Some t ->
             exists st1, xstep st0 LWriterWrite = Some st1 /\ writer st1 = None /\
               senders st1 = update d (set_err (Some (if conn_ok st0 then WOk else WFail))) (senders st0) /\
               writer_alive st1 = writer_alive st0 /\ done_closed st1 = done_closed st0 /\ conn_ok st1 = conn_ok st0).
  { intros st0 W0 F0. unfold step. rewrite W0, F0. destruct (conn_ok st0) eqn:C; eexists; (split; [reflexivity|]);
      cbn; rewrite ?C; repeat split; reflexivity. }
  destruct ph.
  - assert (S1 : exists st0, xstep st LWriterNotify = Some st0 /\ writer st0 = Some (d, WNotified) /\
                   senders st0 = senders st /\ writer_alive st0 = writer_alive st /\
                   done_closed st0 = done_closed st /\ conn_ok st0 = conn_ok st).
    { unfold step. rewrite W, F. eexists; split; [reflexivity|]. cbn. repeat split; reflexivity. }
    destruct S1 as (st0 & S1 & W0 & Se0 & A0 & D0 & C0).
    destruct (S2 st0 W0) as (st1 & S & W1 & Se1 & A1 & D1 & C1); [rewrite Se0; exact F|].
    exists [LWriterNotify; LWriterWrite], st1. split; [simpl; lia|]. split; [reflexivity|].
    split; [cbn [run]; rewrite S1, S; reflexivity|]. split; [assumption|].
    rewrite Se1, A1, D1, C1, Se0, A0, D0, C0. repeat split; reflexivity.
  - destruct (S2 st W F) as (st1 & S & W1 & Se1 & A1 & D1 & C1).
    exists [LWriterWrite], st1. split; [simpl; lia|]. split; [reflexivity|].
    split; [cbn [run]; rewrite S; reflexivity|]. repeat split; assumption.
Qed.

(* B: the writer holds c's bundle and c waits for the verdict *)
Lemma fin_held : forall st c ph s, writer st = Some (c, ph) -> find c (senders st) = Some s -> s_pc s = PWait1 ->
    (s_kind s = SNotify \/ s_kind s = SReply) -> Fin 3 st c (fun r => conn_ok st = true -> r = ROk).
Proof.
  intros st c ph s W F P K.
  destruct (drain _ _ _ _ W F) as (ls & st1 & L & O & R & W1 & Se1 & A1 & D1 & C1).
  assert (F1 : find c (senders st1) = Some (set_err (Some (if conn_ok st then WOk else WFail)) s)).
  { rewrite Se1. find_upd. rewrite Z.eqb_refl, F. reflexivity. }
  eapply fin_weaken; [ | | eapply (fin_run ls st st1 c 1); [exact R | apply O | eapply fin_verdict; [exact F1 | exact P | reflexivity | exact K]]].
  - lia.
  - cbn beta. intros r -> C. rewrite C. reflexivity.
Qed.

(* C: c is at the hand-off select and the writer is idle (or gone) *)
Lemma fin_select_none : forall st c s, LiveInv st -> writer st = None -> find c (senders st) = Some s ->
    s_pc s = PSelect -> (s_kind s = SNotify \/ s_kind s = SReply) ->
    Fin 4 st c (fun r => writer_alive st = true -> conn_ok st = true -> r = ROk).
Proof.
  intros st c s Hl W F P K. destruct (writer_alive st) eqn:A.
  - assert (S : exists st1, xstep st (LHandoff c) = Some st1 /\ writer st1 = Some (c, WGot) /\
                  find c (senders st1) = Some (set_pc PWait1 (set_handed s)) /\ conn_ok st1 = conn_ok st).
    { unfold step. rewrite F, W, A, P. eexists; split; [reflexivity|]. cbn. find_upd. rewrite Z.eqb_refl, F.
      repeat split; reflexivity. }
    destruct S as (st1 & S & W1 & F1 & C1).
    apply (fin_step (LHandoff c) st st1); [assumption | apply Z.eqb_refl|].
    eapply fin_weaken; [ | | eapply fin_held; [exact W1 | exact F1 | reflexivity | exact K]]; [lia|].
    cbn beta. rewrite C1. auto.
  - assert (S : exists st1, xstep st (LAbandonDone c) = Some st1 /\
                  find c (senders st1) = Some (set_pc PWait1 (set_err (Some WEof) s))).
    { unfold step. rewrite F, (Hl A), P. cbn. eexists; split; [reflexivity|]. cbn. find_upd. rewrite Z.eqb_refl, F.
      reflexivity. }
    destruct S as (st1 & S & F1).
    eapply fin_weaken; [ | | apply (fin_step (LAbandonDone c) st st1); [exact S | apply Z.eqb_refl |
                               eapply fin_verdict; [exact F1 | reflexivity | reflexivity | exact K]]]; [lia|].
    cbn beta. intros r _ X. discriminate X.
Qed.

(* D: c is at the hand-off select; the writer may be busy with another sender's bundle *)
Lemma fin_select : forall st c s, WF st -> LiveInv st -> find c (senders st) = Some s ->
    s_pc s = PSelect -> (s_kind s = SNotify \/ s_kind s = SReply) ->
    Fin 6 st c (fun r => writer_alive st = true -> conn_ok st = true -> r = ROk).
Proof.
  intros st c s Hwf Hl F P K. destruct (writer st) as [[d ph]|] eqn:W.
  - destruct (wf_wr _ Hwf _ _ W) as (t & Ft & Ht).
    assert (Hne : c <> d).
    { intros ->. rewrite F in Ft. injection Ft as <-.
      pose proof (lok_handed _ (wf_lok _ Hwf _ _ F) Ht) as He. rewrite P in He. discriminate He. }
    destruct (drain _ _ _ _ W Ft) as (ls & st1 & L & O & R & W1 & Se1 & A1 & D1 & C1).
    assert (F1 : find c (senders st1) = Some s).
    { rewrite Se1. find_upd. destruct (Z.eqb_spec c d); [contradiction | exact F]. }
    assert (Hl1 : LiveInv st1) by (unfold LiveInv in *; rewrite A1, D1; exact Hl).
    eapply fin_weaken; [ | | eapply (fin_run ls st st1 c 4); [exact R | apply O |
                               eapply fin_select_none; [exact Hl1 | exact W1 | exact F1 | exact P | exact K]]]; [lia|].
    cbn beta. rewrite A1, C1. auto.
  - eapply fin_weaken; [ | | eapply fin_select_none; eassumption]; [lia | auto].
Qed.

(* E: c is about to encode *)
Lemma fin_enc : forall st c s, WF st -> LiveInv st -> find c (senders st) = Some s ->
    s_pc s = PEnc -> (s_kind s = SNotify \/ s_kind s = SReply) ->
    Fin 7 st c (fun r => s_size_ok s = true -> writer_alive st = true -> conn_ok st = true -> r = ROk).
Proof.
  intros st c s Hwf Hl F P K. destruct (s_size_ok s) eqn:So.
  - assert (S : exists st1, xstep st (LEncode c) = Some st1 /\ find c (senders st1) = Some (set_pc PSelect s) /\
                  conn_ok st1 = conn_ok st /\ writer_alive st1 = writer_alive st).
    { unfold step. rewrite F, P, So. eexists; split; [reflexivity|]. cbn. find_upd. rewrite Z.eqb_refl, F.
      repeat split; reflexivity. }
    destruct S as (st1 & S & F1 & C1 & A1).
    apply (fin_step (LEncode c) st st1); [assumption | apply Z.eqb_refl|].
    eapply fin_weaken; [ | | eapply fin_select; [eapply step_WF; eassumption | eapply step_LiveInv; eassumption |
                                                   exact F1 | reflexivity | exact K]]; [lia|].
    cbn beta. rewrite A1, C1. auto.
  - assert (S : exists st1, xstep st (LEncode c) = Some st1 /\
                  find c (senders st1) = Some (set_pc PWait1 (set_err (Some WTooBig) s))).
    { unfold step. rewrite F, P, So. eexists; split; [reflexivity|]. cbn. find_upd. rewrite Z.eqb_refl, F.
      reflexivity. }
    destruct S as (st1 & S & F1).
    eapply fin_weaken; [ | | apply (fin_step (LEncode c) st st1); [exact S | apply Z.eqb_refl |
                               eapply fin_verdict; [exact F1 | reflexivity | reflexivity | exact K]]]; [lia|].
    cbn beta. intros r _ X. discriminate X.
Qed.

(* the tight form: seven steps are enough *)
Theorem writer_sender_can_finish_7 : forall ss ls st c s,
  fresh_ok ss = true -> run xstep (init ss) ls = Some st ->
  find c (senders st) = Some s -> (s_kind s = SNotify \/ s_kind s = SReply) ->
  s_pc s <> PNew -> (forall r, s_pc s <> PRet r) ->
  Fin 7 st c (fun r => s_size_ok s = true -> s_ctx s = false -> done_closed st = false -> stop_closed st = false ->
                       conn_ok st = true -> writer_alive st = true -> r = ROk).
Proof.
  intros ss ls st c s Hfr Hr F K Pn Pr. destruct (reach_PInv _ _ _ _ Hfr Hr) as [Hwf Ha Hl Hw Hv].
  pose proof (wf_lok _ Hwf _ _ F) as Hk.
  destruct (s_pc s) eqn:P.
  - congruence.
  - eapply fin_weaken; [ | | eapply fin_enc; eassumption]; [lia | auto].
  - eapply fin_weaken; [ | | eapply fin_select; eassumption]; [lia | auto].
  - exfalso. pose proof (Ha _ _ F P). destruct K; congruence.
  - destruct (s_errch s) as [e|] eqn:E.
    + eapply fin_weaken; [ | | eapply fin_verdict; eassumption]; [lia|].
      cbn beta. intros r -> So Cx Dc _ Co _. pose proof (Hv _ _ _ F E) as V.
      destruct e; simpl in V; try reflexivity; congruence.
    + pose proof (Hw _ _ F P E) as Ho. unfold holds in Ho. destruct (writer st) as [[d ph]|] eqn:W; [|discriminate].
      apply Z.eqb_eq in Ho. subst d.
      eapply fin_weaken; [ | | eapply fin_held; eassumption]; [lia | auto].
  - exfalso. pose proof (lok_wait2_kind _ Hk P). destruct K; congruence.
  - exfalso. pose proof (lok_cancel_call _ Hk P). destruct K; congruence.
  - exfalso. eapply Pr. reflexivity.
Qed.

Theorem writer_sender_can_finish : forall ss ls st c s,
  fresh_ok ss = true -> run (step expected_skeleton) (init ss) ls = Some st ->
  find c (senders st) = Some s -> (s_kind s = SNotify \/ s_kind s = SReply) ->
  s_pc s <> PNew -> (forall r, s_pc s <> PRet r) ->
  exists ls' st' s' r, (length ls' <= 8)%nat /\ forallb (own_label c) ls' = true /\
     run (step expected_skeleton) st ls' = Some st' /\ find c (senders st') = Some s' /\ s_pc s' = PRet r /\
     (s_size_ok s = true -> s_ctx s = false -> done_closed st = false -> stop_closed st = false -> conn_ok st = true ->
      writer_alive st = true -> r = ROk).
Proof.
  intros ss ls st c s Hfr Hr F K Pn Pr.
  destruct (writer_sender_can_finish_7 _ _ _ _ _ Hfr Hr F K Pn Pr) as (ls' & st' & s' & r & L & O & R & F' & P' & G).
  exists ls', st', s', r. split; [lia|]. repeat split; assumption.
Qed.

(* ------------------------------------------------------------------------------------------------------------ *)
(* the bound 7 is tight: a bounded search over own/writer labels, and a reachable state that needs seven steps   *)
(* ------------------------------------------------------------------------------------------------------------ *)

Definition own_labels (c : Z) : list label :=
  [LEncode c; LHandoff c; LAbandonDone c; LAbandonCtx c; LRecvVerdict c; LWaitCtx c; LWaitStop c;
   LWriterNotify; LWriterWrite; LWriterExit].

Lemma own_label_In : forall c l, own_label c l = true -> In l (own_labels c).
Proof.
  intros c l H. destruct l; simpl in H; try discriminate H; try (apply Z.eqb_eq in H; subst); simpl; tauto.
Qed.

Definition returned (st : wstate) (c : Z) : bool :=
  match find c (senders st) with
  | Some s => match s_pc s with PRet _ => true | _ => false end
  | None => false
  end.

Fixpoint can_fin (n : nat) (st : wstate) (c : Z) : bool :=
  returned st c ||
  match n with
  | O => false
  | S m => existsb (fun l => match xstep st l with Some st1 => can_fin m st1 c | None => false end) (own_labels c)
  end.

Lemma can_fin_complete : forall c ls n st st' s' r,
    (length ls <= n)%nat -> forallb (own_label c) ls = true -> run xstep st ls = Some st' ->
    find c (senders st') = Some s' -> s_pc s' = PRet r -> can_fin n st c = true.
Proof.
  intros c. induction ls as [|l ls IH]; intros n st st' s' r L O R F P.
  - cbn [run] in R. injection R as <-. destruct n; cbn [can_fin]; unfold returned; rewrite F, P; reflexivity.
  - destruct n as [|m]; [simpl in L; lia|]. cbn [can_fin]. apply orb_true_iff. right.
    cbn [forallb] in O. apply andb_prop in O. destruct O as [Ol Ols].
    cbn [run] in R. destruct (xstep st l) as [st1|] eqn:S; [|discriminate R].
    apply existsb_exists. exists l. split; [apply own_label_In; assumption|]. rewrite S.
    eapply IH; try eassumption. simpl in L. lia.
Qed.

Definition tight_ss : list sender := [fresh_sender 0 SNotify true false; fresh_sender 1 SNotify true false].
Definition tight_ls : list label := [LStart 0; LEncode 0; LHandoff 0; LStart 1].

Theorem seven_steps_needed :
  exists st s, fresh_ok tight_ss = true /\ run xstep (init tight_ss) tight_ls = Some st /\
    find 1 (senders st) = Some s /\ s_kind s = SNotify /\ s_pc s = PEnc /\
    forall ls' st' s' r, (length ls' <= 6)%nat -> forallb (own_label 1) ls' = true ->
      run xstep st ls' = Some st' -> find 1 (senders st') = Some s' -> s_pc s' <> PRet r.
Proof.
  destruct (run xstep (init tight_ss) tight_ls) as [st|] eqn:R; [|vm_compute in R; discriminate R].
  assert (E : can_fin 6 st 1 = false) by (vm_compute in R; injection R as <-; vm_compute; reflexivity).
  destruct (find 1 (senders st)) as [s|] eqn:F; [|vm_compute in R; injection R as <-; vm_compute in F; discriminate F].
  exists st, s. split; [reflexivity|]. split; [reflexivity|]. split; [exact F|].
  split; [vm_compute in R; injection R as <-; vm_compute in F; injection F as <-; reflexivity|].
  split; [vm_compute in R; injection R as <-; vm_compute in F; injection F as <-; reflexivity|].
  intros ls' st' s' r L O R' F' P'.
  rewrite (can_fin_complete 1 ls' 6 st st' s' r L O R' F' P') in E. discriminate E.
Qed.

Print Assumptions writer_at_most_once.
Print Assumptions writer_ok_means_written_once.
Print Assumptions writer_ok_means_written_once_any.
Print Assumptions writer_ok_means_written_once_as_stated_false.
Print Assumptions unhanded_writes_nothing.
Print Assumptions writer_alive_until_closed.
Print Assumptions writer_sender_can_finish_7.
Print Assumptions writer_sender_can_finish.
Print Assumptions seven_steps_needed.
